(* C04.v — in-dialog requests stick to the backend that answered the dialog.
   Part 0: header-level frame reasoning (which header a getter reads, which header a mutation
           touches; decoding a header in place does not change what any getter returns).
   Part 1: the pin encoding.  Part 2: what the transport layer leaves alone.
   Part 3: the pin table.  Part 4: bind.  Part 5: sticky step.  Part 6: preservation.
   Part 7: histories.  Part 8: legacy witness.  No axioms, no admits. *)
From Coq Require Import List Ascii String ZArith NArith Bool Lia.
From Model Require Import Bytes BytesLemmas Uri Hdr Message Msg Rx Glob StaticRoute RoundRobin Pins Proxy.
From Model.proofs Require C15 C16.
Import ListNotations.
Open Scope Z_scope.

(* ================================================================== Part 0: headers *)
(* [hdisj n1 n2]: no header name designates both n1 and n2 *)
Definition hdisj (n1 n2 : bytes) : Prop := forall n, same_header n n1 = true -> same_header n n2 = false.

Definition sh_low (l : bytes) (n2 : bytes) : bool :=
  beq l (to_lower n2) || match get_compact n2 with Some c => beq l (to_lower c) | None => false end.
Lemma same_header_low n n2 : same_header n n2 = sh_low (to_lower n) n2.
Proof. reflexivity. Qed.
Definition hdisj_dec (n1 n2 : bytes) : bool :=
  negb (sh_low (to_lower n1) n2) &&
  match get_compact n1 with Some c => negb (sh_low (to_lower c) n2) | None => true end.
Lemma hdisj_dec_sound n1 n2 : hdisj_dec n1 n2 = true -> hdisj n1 n2.
Proof.
  unfold hdisj_dec, hdisj. intros H n Hn. rewrite same_header_low in Hn. rewrite same_header_low.
  unfold sh_low in Hn. apply andb_true_iff in H. destruct H as [H1 H2].
  apply orb_true_iff in Hn. destruct Hn as [Hn|Hn].
  - apply beq_eq in Hn. rewrite Hn. apply negb_true_iff in H1. exact H1.
  - destruct (get_compact n1) as [c|]; [|discriminate]. apply beq_eq in Hn. rewrite Hn.
    apply negb_true_iff in H2. exact H2.
Qed.

(* the header names the proxy looks up *)
Definition names : list bytes :=
  [s2b "Via"; s2b "Route"; s2b "From"; s2b "To"; s2b "CSeq"; s2b "Call-ID"; s2b "Subscription-State"; s2b "Expires"].
Lemma names_disj : forall a b, In a names -> In b names -> a = b \/ hdisj a b.
Proof.
  assert (H : forallb (fun a => forallb (fun b => beq a b || hdisj_dec a b) names) names = true)
    by (vm_compute; reflexivity).
  intros a b Ha Hb. rewrite forallb_forall in H. specialize (H a Ha). rewrite forallb_forall in H.
  specialize (H b Hb). apply orb_true_iff in H. destruct H as [H|H].
  - left. apply beq_eq. exact H.
  - right. apply hdisj_dec_sound. exact H.
Qed.
Lemma record_route_disj : forall p, In p names -> same_header (s2b "Record-Route") p = false.
Proof.
  assert (H : forallb (fun p => negb (same_header (s2b "Record-Route") p)) names = true) by (vm_compute; reflexivity).
  intros p Hp. rewrite forallb_forall in H. apply negb_true_iff. apply H. exact Hp.
Qed.
Lemma via_self_disj : forall p, In p names -> p <> s2b "Via" -> same_header (s2b "Via") p = false.
Proof.
  intros p Hp NE. destruct (names_disj (s2b "Via") p) as [E|D]; [cbn; tauto|exact Hp|congruence|].
  apply D. vm_compute. reflexivity.
Qed.

(* ---- the values of ALL headers designated by a name, in order ---- *)
Definition hvals (n : bytes) (hs : list header) : list hval :=
  map h_val (filter (fun h => same_header (h_name h) n) hs).
Lemma get_header_hvals n hs : option_map h_val (get_header n hs) = hd_error (hvals n hs).
Proof.
  unfold hvals. induction hs as [|h r IH]; cbn; [reflexivity|].
  destruct (same_header (h_name h) n); [reflexivity|exact IH].
Qed.
Lemma hvals_update_other n1 n2 f hs : hdisj n1 n2 -> hvals n2 (update_header n1 f hs) = hvals n2 hs.
Proof.
  intros D. unfold hvals. induction hs as [|h r IH]; cbn; [reflexivity|].
  destruct (same_header (h_name h) n1) eqn:E1; cbn.
  - rewrite (D _ E1). reflexivity.
  - destruct (same_header (h_name h) n2); cbn; rewrite IH; reflexivity.
Qed.
Lemma hvals_update_same n f hs :
  hvals n (update_header n f hs) = match hvals n hs with [] => [] | v :: r => f v :: r end.
Proof.
  unfold hvals. induction hs as [|h r IH]; cbn; [reflexivity|].
  destruct (same_header (h_name h) n) eqn:E; cbn; rewrite E; [reflexivity|exact IH].
Qed.
Lemma hvals_remove_other n1 n2 hs : hdisj n1 n2 -> hvals n2 (remove_header n1 hs) = hvals n2 hs.
Proof.
  intros D. unfold hvals. induction hs as [|h r IH]; cbn; [reflexivity|].
  destruct (same_header (h_name h) n1) eqn:E1; cbn.
  - rewrite (D _ E1). reflexivity.
  - destruct (same_header (h_name h) n2); cbn; rewrite IH; reflexivity.
Qed.
Lemma hvals_remove_same n hs : hvals n (remove_header n hs) = tl (hvals n hs).
Proof.
  unfold hvals. induction hs as [|h r IH]; cbn; [reflexivity|].
  destruct (same_header (h_name h) n) eqn:E; cbn; [reflexivity|rewrite E; exact IH].
Qed.
Lemma hvals_insert_other n2 h pos hs : same_header (h_name h) n2 = false ->
  hvals n2 (insert_at pos h hs) = hvals n2 hs.
Proof.
  intros E. unfold insert_at, hvals. revert pos. induction hs as [|x r IH]; intros pos.
  - destruct pos; cbn; rewrite E; reflexivity.
  - destruct pos as [|pos]; cbn.
    + rewrite E. reflexivity.
    + destruct (same_header (h_name x) n2); cbn; rewrite IH; reflexivity.
Qed.
Lemma hvals_decode_vias n2 hs : hdisj (s2b "Via") n2 ->
  hvals n2 (fst (decode_all_vias hs)) = hvals n2 hs.
Proof.
  intros D. unfold hvals. induction hs as [|h r IH]; cbn [decode_all_vias]; [reflexivity|].
  destruct (decode_all_vias r) as [r' vs]. cbn [fst] in IH.
  destruct (same_header (h_name h) (s2b "Via")) eqn:E.
  - assert (G : forall v (vs' : list via_param),
               map h_val (filter (fun x => same_header (h_name x) n2) (fst ({| h_name := h_name h; h_val := v |} :: r', vs')))
               = map h_val (filter (fun x => same_header (h_name x) n2) (h :: r))).
    { intros v vs'. cbn. rewrite (D _ E). exact IH. }
    assert (G0 : forall (vs' : list via_param),
               map h_val (filter (fun x => same_header (h_name x) n2) (fst (h :: r', vs')))
               = map h_val (filter (fun x => same_header (h_name x) n2) (h :: r))).
    { intros vs'. cbn. rewrite (D _ E). exact IH. }
    destruct (h_val h) as [s|l|l|l|f|f|c]; try apply G0.
    destruct (parse_via s); [apply G|apply G0|apply G0].
  - cbn. destruct (same_header (h_name h) n2); cbn; rewrite IH; reflexivity.
Qed.

(* ---- semantic equality of the headers of one name, modulo in-place decoding ---- *)
Definition decoded (n : bytes) (v v' : hval) : Prop :=
  match v with
  | HRaw s =>
      match v' with
      | HVia l => n = s2b "Via" /\ parse_via s = Ok l
      | HRoute l => n = s2b "Route" /\ parse_route s = Ok l
      | HFrom f => n = s2b "From" /\ parse_fromto s = Ok f
      | HTo f => n = s2b "To" /\ parse_fromto s = Ok f
      | HCSeq c => n = s2b "CSeq" /\ parse_cseq s = Ok c
      | _ => False
      end
  | _ => False
  end.
Definition vrel (n : bytes) (v v' : hval) : Prop := v' = v \/ decoded n v v'.
Definition hrel (n : bytes) (m m' : message) : Prop :=
  Forall2 (vrel n) (hvals n (m_headers m)) (hvals n (m_headers m')).
(* [keeps N m m']: m' is m after mutations that leave the start line and the meaning of ALL
   the headers designated by the names in N alone *)
Definition keeps (N : list bytes) (m m' : message) : Prop :=
  m_start m' = m_start m /\ forall n, In n N -> hrel n m m'.

Lemma vrel_trans n a b c : vrel n a b -> vrel n b c -> vrel n a c.
Proof.
  intros [->|H1] [->|H2]; [left; reflexivity|right; exact H2|right; exact H1|].
  exfalso. destruct a; cbn in H1; try contradiction. destruct b; cbn in H1, H2; contradiction.
Qed.
Lemma F2_refl {A} (R : A -> A -> Prop) l : (forall x, R x x) -> Forall2 R l l.
Proof. intros H. induction l; constructor; auto. Qed.
Lemma F2_trans {A} (R : A -> A -> Prop) : (forall x y z, R x y -> R y z -> R x z) ->
  forall a b c, Forall2 R a b -> Forall2 R b c -> Forall2 R a c.
Proof.
  intros T a b c H. revert c. induction H as [|x y a b Hxy Hab IH]; intros c Hc; inversion Hc; subst; constructor.
  - eapply T; eassumption.
  - apply IH. assumption.
Qed.
Lemma F2_nil {A B} (R : A -> B -> Prop) l : Forall2 R [] l -> l = [].
Proof. intros H. inversion H. reflexivity. Qed.
Lemma F2_single {A B} (R : A -> B -> Prop) a l : Forall2 R [a] l -> exists b, l = [b] /\ R a b.
Proof.
  intros H. inversion H as [|x y lx ly Hxy Hl]; subst. apply F2_nil in Hl. subst ly.
  exists y. split; [reflexivity|exact Hxy].
Qed.
Lemma hrel_refl n m : hrel n m m.
Proof. apply F2_refl. intros x. left. reflexivity. Qed.
Lemma hrel_trans n a b c : hrel n a b -> hrel n b c -> hrel n a c.
Proof. apply F2_trans. apply vrel_trans. Qed.
Lemma keeps_refl N m : keeps N m m.
Proof. split; [reflexivity|]. intros n _. apply hrel_refl. Qed.
Lemma keeps_trans N a b c : keeps N a b -> keeps N b c -> keeps N a c.
Proof.
  intros [S1 H1] [S2 H2]. split; [congruence|]. intros n Hn. eapply hrel_trans; [apply H1|apply H2]; exact Hn.
Qed.
Lemma keeps_incl N N' m m' : incl N' N -> keeps N m m' -> keeps N' m m'.
Proof. intros I [S H]. split; [exact S|]. intros n Hn. apply H. apply I. exact Hn. Qed.
Lemma hrel_same n m m' : hvals n (m_headers m') = hvals n (m_headers m) -> hrel n m m'.
Proof. unfold hrel. intros ->. apply hrel_refl. Qed.

(* mutations of a header outside N *)
Lemma keeps_set_val N n v m : (forall p, In p N -> hdisj n p) -> keeps N m (set_val n v m).
Proof.
  intros D. split; [reflexivity|]. intros p Hp. apply hrel_same. unfold set_val. cbn [m_headers with_headers].
  apply hvals_update_other. apply D. exact Hp.
Qed.
Lemma keeps_remove N n m : (forall p, In p N -> hdisj n p) ->
  keeps N m (with_headers m (remove_header n (m_headers m))).
Proof.
  intros D. split; [reflexivity|]. intros p Hp. apply hrel_same. cbn [m_headers with_headers].
  apply hvals_remove_other. apply D. exact Hp.
Qed.
Lemma keeps_insert N h pos m : (forall p, In p N -> same_header (h_name h) p = false) ->
  keeps N m (with_headers m (insert_at pos h (m_headers m))).
Proof.
  intros D. split; [reflexivity|]. intros p Hp. apply hrel_same. cbn [m_headers with_headers].
  apply hvals_insert_other. apply D. exact Hp.
Qed.

(* ---- the generic typed getter ---- *)
Definition semg {A} (proj : hval -> option A) (parse : bytes -> res A) (v : hval) : res A :=
  match proj v with
  | Some a => Ok a
  | None => match v with HRaw s => parse s | _ => Err end
  end.
Lemma typed_get_snd {A} n (proj : hval -> option A) parse inj m :
  snd (typed_get n proj parse inj m) =
  match hd_error (hvals n (m_headers m)) with Some v => semg proj parse v | None => Err end.
Proof.
  rewrite <- get_header_hvals.
  unfold typed_get, semg. destruct (get_header n (m_headers m)) as [h|]; [|reflexivity]. cbn.
  destruct (proj (h_val h)); [reflexivity|]. destruct (h_val h); try reflexivity.
  destruct (parse s); reflexivity.
Qed.
(* the getter reads the header correctly: what [decoded] promises for this name *)
Definition getter_ok {A} (n : bytes) (proj : hval -> option A) (parse : bytes -> res A) (inj : A -> hval) : Prop :=
  (forall v v', decoded n v v' -> semg proj parse v' = semg proj parse v) /\
  (forall s a, proj (HRaw s) = None /\ (parse s = Ok a -> decoded n (HRaw s) (inj a))).
Lemma typed_get_hrel {A} n (proj : hval -> option A) parse inj m m' : getter_ok n proj parse inj ->
  hrel n m m' -> snd (typed_get n proj parse inj m') = snd (typed_get n proj parse inj m).
Proof.
  intros [G _] H. rewrite !typed_get_snd. unfold hrel in H.
  destruct H as [|v v' l l' Hv _]; [reflexivity|]. cbn.
  destruct Hv as [->|Hv]; [reflexivity|]. apply G. exact Hv.
Qed.
Lemma typed_get_keeps {A} N n (proj : hval -> option A) parse inj m : getter_ok n proj parse inj ->
  (forall p, In p N -> p = n \/ hdisj n p) -> keeps N m (fst (typed_get n proj parse inj m)).
Proof.
  intros [_ G] D. unfold typed_get.
  destruct (get_header n (m_headers m)) as [h|] eqn:Eh; [|apply keeps_refl].
  destruct (proj (h_val h)) eqn:Ep; [apply keeps_refl|].
  destruct (h_val h) as [s| | | | | |] eqn:Ev; try apply keeps_refl.
  destruct (parse s) as [a| |] eqn:Es; try apply keeps_refl. cbn [fst].
  split; [reflexivity|]. intros p Hp. destruct (D p Hp) as [->|Dp].
  - unfold hrel, set_val. cbn [m_headers with_headers]. rewrite hvals_update_same.
    pose proof (get_header_hvals n (m_headers m)) as Hh. rewrite Eh in Hh. cbn in Hh. rewrite Ev in Hh.
    destruct (hvals n (m_headers m)) as [|v r]; [discriminate|]. cbn in Hh. injection Hh as <-.
    constructor; [|apply F2_refl; intros x; left; reflexivity].
    right. apply (G s a). exact Es.
  - apply hrel_same. unfold set_val. cbn [m_headers with_headers]. apply hvals_update_other. exact Dp.
Qed.

Ltac neq_names := let H := fresh in intros [H _]; vm_compute in H; discriminate H.
Lemma ok_via : getter_ok (s2b "Via") (fun v => match v with HVia l => Some l | _ => None end) parse_via HVia.
Proof.
  split.
  - intros v v' H. destruct v; cbn in H; try contradiction. destruct v'; cbn in H; try contradiction;
      try (exfalso; revert H; neq_names). destruct H as [_ H]. cbn. symmetry. exact H.
  - intros s a. split; [reflexivity|]. intros H. cbn. split; [reflexivity|exact H].
Qed.
Lemma ok_route : getter_ok (s2b "Route") (fun v => match v with HRoute l => Some l | _ => None end) parse_route HRoute.
Proof.
  split.
  - intros v v' H. destruct v; cbn in H; try contradiction. destruct v'; cbn in H; try contradiction;
      try (exfalso; revert H; neq_names). destruct H as [_ H]. cbn. symmetry. exact H.
  - intros s a. split; [reflexivity|]. intros H. cbn. split; [reflexivity|exact H].
Qed.
Lemma ok_from : getter_ok (s2b "From") (fun v => match v with HFrom f => Some f | _ => None end) parse_fromto HFrom.
Proof.
  split.
  - intros v v' H. destruct v; cbn in H; try contradiction. destruct v'; cbn in H; try contradiction;
      try (exfalso; revert H; neq_names). destruct H as [_ H]. cbn. symmetry. exact H.
  - intros s a. split; [reflexivity|]. intros H. cbn. split; [reflexivity|exact H].
Qed.
Lemma ok_to : getter_ok (s2b "To") (fun v => match v with HTo f => Some f | _ => None end) parse_fromto HTo.
Proof.
  split.
  - intros v v' H. destruct v; cbn in H; try contradiction. destruct v'; cbn in H; try contradiction;
      try (exfalso; revert H; neq_names). destruct H as [_ H]. cbn. symmetry. exact H.
  - intros s a. split; [reflexivity|]. intros H. cbn. split; [reflexivity|exact H].
Qed.
Lemma ok_cseq : getter_ok (s2b "CSeq") (fun v => match v with HCSeq c => Some c | _ => None end) parse_cseq HCSeq.
Proof.
  split.
  - intros v v' H. destruct v; cbn in H; try contradiction. destruct v'; cbn in H; try contradiction;
      try (exfalso; revert H; neq_names). destruct H as [_ H]. cbn. symmetry. exact H.
  - intros s a. split; [reflexivity|]. intros H. cbn. split; [reflexivity|exact H].
Qed.

(* ---- computations that keep the headers in N ---- *)
Definition pres {A} (N : list bytes) (x : M A) : Prop := forall m, keeps N m (fst (x m)).

Lemma pres_ret {A} N (a : A) : pres N (mret a).
Proof. intros m. apply keeps_refl. Qed.
Lemma pres_err {A} N : pres N (@merr A).
Proof. intros m. apply keeps_refl. Qed.
Lemma pres_lift {A} N (r : res A) : pres N (mlift r).
Proof. intros m. apply keeps_refl. Qed.
Lemma pres_read {A} N (g : message -> res A) : pres N (fun m => (m, g m)).
Proof. intros m. apply keeps_refl. Qed.
Lemma pres_modify N f : (forall m, keeps N m (f m)) -> pres N (mmodify f).
Proof. intros H m. apply H. Qed.
Lemma pres_bind {A B} N (x : M A) (f : A -> M B) : pres N x -> (forall a, pres N (f a)) -> pres N (mbind x f).
Proof.
  intros Hx Hf m. unfold mbind. specialize (Hx m). destruct (x m) as [m1 r]. cbn [fst] in Hx.
  destruct r as [a| |]; cbn [fst]; [|exact Hx|exact Hx].
  eapply keeps_trans; [exact Hx|apply Hf].
Qed.
Lemma pres_try {A} N (x : M A) : pres N x -> pres N (mtry x).
Proof.
  intros Hx m. unfold mtry. specialize (Hx m). destruct (x m) as [m1 r]. destruct r; exact Hx.
Qed.
Lemma pres_typed {A} N n (proj : hval -> option A) parse inj : incl N names -> In n names ->
  getter_ok n proj parse inj -> pres N (typed_get n proj parse inj).
Proof.
  intros I Hn G m. apply typed_get_keeps; [exact G|]. intros p Hp.
  destruct (names_disj n p Hn (I p Hp)) as [E|D]; [left; symmetry; exact E|right; exact D].
Qed.
Ltac in_names := cbn; tauto.
Lemma pres_get_via N : incl N names -> pres N s_get_via.
Proof. intros I. apply pres_typed; [exact I|in_names|exact ok_via]. Qed.
Lemma pres_get_route N : incl N names -> pres N s_get_route.
Proof. intros I. apply pres_typed; [exact I|in_names|exact ok_route]. Qed.
Lemma pres_get_from N : incl N names -> pres N s_get_from.
Proof. intros I. apply pres_typed; [exact I|in_names|exact ok_from]. Qed.
Lemma pres_get_to N : incl N names -> pres N s_get_to.
Proof. intros I. apply pres_typed; [exact I|in_names|exact ok_to]. Qed.
Lemma pres_get_cseq N : incl N names -> pres N s_get_cseq.
Proof. intros I. apply pres_typed; [exact I|in_names|exact ok_cseq]. Qed.
Lemma pres_get_raw N n : pres N (s_get_raw n).
Proof. apply pres_read. Qed.
Lemma pres_get_expires N d : pres N (s_get_expires d).
Proof. intros m. apply keeps_refl. Qed.
Lemma pres_get_method N : incl N names -> pres N s_get_method.
Proof.
  intros I m. unfold s_get_method. destruct (m_start m); [apply keeps_refl|].
  apply (pres_bind N s_get_cseq); [apply pres_get_cseq; exact I|]. intros c. apply pres_ret.
Qed.
Lemma pres_top_via N : incl N names -> pres N s_top_via.
Proof.
  intros I. apply pres_bind; [apply pres_get_via; exact I|]. intros [|v l]; [apply pres_err|apply pres_ret].
Qed.
Lemma pres_client_transaction N : incl N names -> pres N s_client_transaction.
Proof.
  intros I. apply pres_bind; [apply pres_get_cseq; exact I|]. intros c.
  apply pres_bind; [apply pres_top_via; exact I|]. intros v.
  apply pres_bind; [apply pres_lift|]. intros b. apply pres_ret.
Qed.
Lemma pres_get_dialog N : incl N names -> pres N s_get_dialog.
Proof.
  intros I. apply pres_bind; [apply pres_get_raw|]. intros cid.
  apply pres_bind; [apply pres_get_from; exact I|]. intros f.
  apply pres_bind; [apply pres_lift|]. intros ftag.
  apply pres_bind; [apply pres_get_to; exact I|]. intros t.
  apply pres_bind; [apply pres_lift|]. intros ttag. apply pres_ret.
Qed.

(* [N] does not mention Via / Route: the Via / Route mutations keep N *)
Definition no_name (n : bytes) (N : list bytes) : Prop := incl N names /\ ~ In n N.
Lemma no_name_disj n N : In n names -> no_name n N -> forall p, In p N -> hdisj n p.
Proof.
  intros Hn [I NI] p Hp. destruct (names_disj n p Hn (I p Hp)) as [E|D]; [|exact D].
  subst p. contradiction.
Qed.
Lemma pres_pop_via N : no_name (s2b "Via") N -> pres N s_pop_via.
Proof.
  intros H. pose proof (no_name_disj (s2b "Via") N ltac:(in_names) H) as D. destruct H as [I _].
  apply pres_bind; [apply pres_get_via; exact I|].
  intros [|v [|v' l]]; apply pres_modify; intros m;
    first [apply keeps_remove; exact D|apply keeps_set_val; exact D].
Qed.
Lemma pres_pop_route N : no_name (s2b "Route") N -> pres N s_pop_route.
Proof.
  intros H. pose proof (no_name_disj (s2b "Route") N ltac:(in_names) H) as D. destruct H as [I _].
  apply pres_bind; [apply pres_get_route; exact I|].
  intros [|v [|v' l]]; apply pres_modify; intros m;
    first [apply keeps_remove; exact D|apply keeps_set_val; exact D].
Qed.
Lemma pres_set_received N peer port : no_name (s2b "Via") N -> pres N (s_set_received peer port).
Proof.
  intros H. pose proof (no_name_disj (s2b "Via") N ltac:(in_names) H) as D. destruct H as [I _].
  apply pres_bind; [apply pres_get_via; exact I|].
  intros [|v l]; [apply pres_err|]. apply pres_modify. intros m. apply keeps_set_val. exact D.
Qed.
Lemma pres_all_via_params N : no_name (s2b "Via") N -> pres N s_all_via_params.
Proof.
  intros H. pose proof (no_name_disj (s2b "Via") N ltac:(in_names) H) as D.
  intros m. unfold s_all_via_params. destruct (decode_all_vias (m_headers m)) as [hs vs] eqn:E. cbn [fst].
  split; [reflexivity|]. intros p Hp. apply hrel_same. cbn [m_headers with_headers].
  replace hs with (fst (decode_all_vias (m_headers m))) by (rewrite E; reflexivity).
  apply hvals_decode_vias. apply D. exact Hp.
Qed.
Lemma pres_next_response_hop N : incl N names -> pres N next_response_hop.
Proof.
  intros I. apply pres_bind; [apply pres_top_via; exact I|]. intros v.
  destruct (via_get_received v); apply pres_ret.
Qed.
Lemma pres_try_remove_top_route N c from : no_name (s2b "Route") N -> pres N (try_remove_top_route c from).
Proof.
  intros H. pose proof H as [I _].
  apply pres_bind; [apply pres_get_route; exact I|].
  intros [|rp l]; [apply pres_ret|]. destruct (na_addr (r_addr rp)); [|apply pres_ret].
  destruct (_ && _)%bool; [apply pres_pop_route; exact H|apply pres_ret].
Qed.
Lemma pres_next_hop_by_route N keep : no_name (s2b "Route") N -> pres N (next_hop_by_route keep).
Proof.
  intros H. pose proof H as [I _].
  apply pres_bind; [apply pres_get_route; exact I|].
  intros [|rp l]; [apply pres_err|].
  apply pres_bind.
  - destruct keep; [apply pres_ret|apply pres_try; apply pres_pop_route; exact H].
  - intros _. destruct (na_addr (r_addr rp)); [apply pres_ret|apply pres_err].
Qed.
Lemma pres_next_hop_by_config N rt : incl N names -> pres N (next_hop_by_config rt).
Proof.
  intros I. apply pres_bind; [apply pres_get_to; exact I|]. intros t.
  destruct (fromto_host t); [|apply pres_err]. destruct (find_route rt b); [apply pres_ret|apply pres_err].
Qed.
Lemma pres_next_request_hop N keep rt : no_name (s2b "Route") N -> pres N (next_request_hop keep rt).
Proof.
  intros H m. unfold next_request_hop.
  pose proof (pres_next_hop_by_route N keep H m) as K.
  destruct (next_hop_by_route keep m) as [m1 r]. cbn [fst] in K.
  destruct r; cbn [fst]; try exact K.
  eapply keeps_trans; [exact K|]. apply pres_next_hop_by_config. apply H.
Qed.
Lemma keeps_add_via N v m : no_name (s2b "Via") N -> keeps N m (add_via v m).
Proof.
  intros [I NI]. apply keeps_insert. intros p Hp. cbn [h_name].
  apply via_self_disj; [apply I; exact Hp|]. intros ->. contradiction.
Qed.
Lemma keeps_add_record_route N r m : incl N names -> keeps N m (add_record_route r m).
Proof.
  intros I. apply keeps_insert. intros p Hp. cbn [h_name]. apply record_route_disj. apply I. exact Hp.
Qed.
Lemma keeps_px_add_via N e t m : no_name (s2b "Via") N -> keeps N m (px_add_via e t m).
Proof. intros H. apply keeps_add_via. exact H. Qed.
Lemma keeps_px_add_record_route N must t m : incl N names -> keeps N m (px_add_record_route must t m).
Proof.
  intros I. unfold px_add_record_route. destruct (_ && _)%bool; [apply keeps_refl|].
  apply keeps_add_record_route. exact I.
Qed.

(* ---- what the getters return is a function of the kept headers ---- *)
Lemma get_raw_hrel n m m' : (forall v v', ~ decoded n v v') -> hrel n m m' -> get_raw n m' = get_raw n m.
Proof.
  intros ND H. unfold get_raw. unfold hrel in H.
  pose proof (get_header_hvals n (m_headers m)) as E1. pose proof (get_header_hvals n (m_headers m')) as E2.
  destruct H as [|v v' l l' Hv _]; cbn in E1, E2.
  - destruct (get_header n (m_headers m)), (get_header n (m_headers m')); try discriminate. reflexivity.
  - destruct (get_header n (m_headers m)) as [h|], (get_header n (m_headers m')) as [h'|]; try discriminate.
    cbn in E1, E2. injection E1 as ->. injection E2 as ->.
    destruct Hv as [->|Hv]; [reflexivity|]. exfalso. exact (ND _ _ Hv).
Qed.
Ltac not_decoded := intros v v' H; destruct v; cbn in H; try contradiction; destruct v'; cbn in H; try contradiction;
                    revert H; neq_names.
Lemma nd_callid : forall v v', ~ decoded (s2b "Call-ID") v v'. Proof. not_decoded. Qed.
Lemma nd_substate : forall v v', ~ decoded (s2b "Subscription-State") v v'. Proof. not_decoded. Qed.
Lemma nd_expires : forall v v', ~ decoded (s2b "Expires") v v'. Proof. not_decoded. Qed.

Section Views.
  Variables (N : list bytes) (m m' : message).
  Hypothesis K : keeps N m m'.
  Lemma k_start : m_start m' = m_start m. Proof. apply K. Qed.
  Lemma k_is_request : is_request m' = is_request m. Proof. unfold is_request. rewrite k_start. reflexivity. Qed.
  Lemma k_is_response : is_response m' = is_response m. Proof. unfold is_response. rewrite k_is_request. reflexivity. Qed.
  Lemma k_is_final : is_final_response m' = is_final_response m. Proof. unfold is_final_response. rewrite k_start. reflexivity. Qed.
  Lemma k_callid : In (s2b "Call-ID") N -> get_raw (s2b "Call-ID") m' = get_raw (s2b "Call-ID") m.
  Proof. intros H. apply get_raw_hrel; [exact nd_callid|apply K; exact H]. Qed.
  Lemma k_substate : In (s2b "Subscription-State") N -> get_raw (s2b "Subscription-State") m' = get_raw (s2b "Subscription-State") m.
  Proof. intros H. apply get_raw_hrel; [exact nd_substate|apply K; exact H]. Qed.
  Lemma k_expires : In (s2b "Expires") N -> get_expires m' 0 = get_expires m 0.
  Proof.
    intros H. unfold get_expires, get_header_int.
    rewrite (get_raw_hrel (s2b "Expires") m m' nd_expires); [reflexivity|apply K; exact H].
  Qed.
  Lemma k_from : In (s2b "From") N -> snd (s_get_from m') = snd (s_get_from m).
  Proof. intros H. apply typed_get_hrel; [exact ok_from|apply K; exact H]. Qed.
  Lemma k_to : In (s2b "To") N -> snd (s_get_to m') = snd (s_get_to m).
  Proof. intros H. apply typed_get_hrel; [exact ok_to|apply K; exact H]. Qed.
  Lemma k_cseq : In (s2b "CSeq") N -> snd (s_get_cseq m') = snd (s_get_cseq m).
  Proof. intros H. apply typed_get_hrel; [exact ok_cseq|apply K; exact H]. Qed.
  Lemma k_via : In (s2b "Via") N -> snd (s_get_via m') = snd (s_get_via m).
  Proof. intros H. apply typed_get_hrel; [exact ok_via|apply K; exact H]. Qed.
  Lemma k_route : In (s2b "Route") N -> snd (s_get_route m') = snd (s_get_route m).
  Proof. intros H. apply typed_get_hrel; [exact ok_route|apply K; exact H]. Qed.
End Views.

(* results of the composite getters as functions of the views *)
Definition dialog_of (m : message) : res bytes :=
  let! cid := get_raw (s2b "Call-ID") m in
  let! f := snd (s_get_from m) in
  let! ftag := of_opt (fromto_tag f) in
  let! t := snd (s_get_to m) in
  let! ttag := of_opt (fromto_tag t) in
  Ok (dialog_string cid ftag (dialog_addr (fromto_addr_spec f)) ttag (dialog_addr (fromto_addr_spec t))).
Definition method_of (m : message) : res bytes :=
  match m_start m with
  | SReq meth _ _ => Ok meth
  | SResp _ _ _ => let! c := snd (s_get_cseq m) in Ok (cs_method c)
  end.
Definition top_via_of (m : message) : res via_param :=
  let! l := snd (s_get_via m) in match l with v :: _ => Ok v | [] => Err end.
Definition tid_of (m : message) : res bytes :=
  let! c := snd (s_get_cseq m) in
  let! v := top_via_of m in
  let! b := of_opt (via_get_branch v) in
  Ok (cs_method c ++ "-"%char :: b).

Definition all_names_incl : incl names names := fun _ H => H.

Lemma s_get_dialog_snd m : snd (s_get_dialog m) = dialog_of m.
Proof.
  unfold s_get_dialog, dialog_of, mbind, s_get_raw, mlift, mret.
  destruct (get_raw (s2b "Call-ID") m) as [cid| |]; cbn; try reflexivity.
  pose proof (pres_get_from names all_names_incl m) as K.
  destruct (s_get_from m) as [m1 rf]. cbn [fst snd] in *.
  destruct rf as [f| |]; cbn; try reflexivity.
  destruct (fromto_tag f) as [ftag|]; cbn; [|reflexivity].
  rewrite <- (k_to names m m1 K ltac:(in_names)).
  destruct (s_get_to m1) as [m2 rt]. cbn [snd].
  destruct rt as [t| |]; cbn; try reflexivity.
  destruct (fromto_tag t); reflexivity.
Qed.
Lemma s_get_method_snd m : snd (s_get_method m) = method_of m.
Proof.
  unfold s_get_method, method_of. destruct (m_start m); [reflexivity|].
  unfold mbind, mret. destruct (s_get_cseq m) as [m1 r]. destruct r; reflexivity.
Qed.
Lemma s_top_via_snd m : snd (s_top_via m) = top_via_of m.
Proof.
  unfold s_top_via, top_via_of, mbind, mret, merr. destruct (s_get_via m) as [m1 r]. cbn [snd].
  destruct r as [[|v l]| |]; reflexivity.
Qed.
Lemma s_client_transaction_snd m : snd (s_client_transaction m) = tid_of m.
Proof.
  unfold s_client_transaction, tid_of, mbind.
  pose proof (pres_get_cseq names all_names_incl m) as K.
  destruct (s_get_cseq m) as [m1 rc]. cbn [fst snd] in *.
  destruct rc as [c| |]; cbn; try reflexivity.
  unfold top_via_of. rewrite <- (k_via names m m1 K ltac:(in_names)).
  fold (top_via_of m1). rewrite <- s_top_via_snd.
  destruct (s_top_via m1) as [m2 rv]. cbn [snd]. destruct rv as [v| |]; cbn; try reflexivity.
  unfold mlift, mret. destruct (via_get_branch v); reflexivity.
Qed.

Lemma dialog_of_keeps N m m' : keeps N m m' ->
  In (s2b "Call-ID") N -> In (s2b "From") N -> In (s2b "To") N -> dialog_of m' = dialog_of m.
Proof.
  intros K H1 H2 H3. unfold dialog_of.
  rewrite (k_callid N m m' K H1), (k_from N m m' K H2), (k_to N m m' K H3). reflexivity.
Qed.
Lemma method_of_keeps N m m' : keeps N m m' -> In (s2b "CSeq") N -> method_of m' = method_of m.
Proof. intros K H. unfold method_of. rewrite (k_start N m m' K), (k_cseq N m m' K H). reflexivity. Qed.
Lemma tid_of_keeps N m m' : keeps N m m' -> In (s2b "CSeq") N -> In (s2b "Via") N -> tid_of m' = tid_of m.
Proof.
  intros K H1 H2. unfold tid_of, top_via_of. rewrite (k_cseq N m m' K H1), (k_via N m m' K H2). reflexivity.
Qed.

(* direction independence, on messages: From/To exchanged (same tags, same URI cores) *)
Theorem dialog_of_symmetric : forall m m' cid f t f' t',
  get_raw (s2b "Call-ID") m = Ok cid -> get_raw (s2b "Call-ID") m' = Ok cid ->
  snd (s_get_from m) = Ok f -> snd (s_get_to m) = Ok t ->
  snd (s_get_from m') = Ok f' -> snd (s_get_to m') = Ok t' ->
  fromto_tag f' = fromto_tag t -> fromto_tag t' = fromto_tag f ->
  dialog_addr (fromto_addr_spec f') = dialog_addr (fromto_addr_spec t) ->
  dialog_addr (fromto_addr_spec t') = dialog_addr (fromto_addr_spec f) ->
  dialog_of m' = dialog_of m.
Proof.
  intros m m' cid f t f' t' C C' F T F' T' E1 E2 A1 A2. unfold dialog_of.
  rewrite C, C', F, T, F', T'. cbn. rewrite E1, E2, A1, A2.
  destruct (fromto_tag t) as [tt|], (fromto_tag f) as [ft|]; cbn; try reflexivity.
  rewrite (C16.C16_symmetric cid tt). reflexivity.
Qed.

(* ================================================================== Part 1: the pin encoding *)
Lemma firstn_length_app {A} (a b : list A) : firstn (List.length a) (a ++ b) = a.
Proof. induction a as [|x a IH]; cbn; [destruct b; reflexivity|rewrite IH; reflexivity]. Qed.
Lemma skipn_S_length_app {A} (a b : list A) c : skipn (S (List.length a)) (a ++ c :: b) = b.
Proof. induction a as [|x a IH]; cbn; [reflexivity|exact IH]. Qed.
Lemma atoi_val_itoa z : int_min <= z <= int_max -> atoi_val (itoa z) = z.
Proof. intros H. unfold atoi_val. rewrite atoi_itoa by exact H. reflexivity. Qed.
Lemma itoa_no_hash z : ~ In "#"%char (itoa z).
Proof.
  intros H. pose proof (itoa_chars z) as HF.
  apply (proj1 (Forall_forall _ _) HF) in H. destruct H as [H|H]; discriminate.
Qed.
Definition gen_ok (g : nat) : Prop := Z.of_nat g <= int_max.

(* the round trip holds for EVERY address text (the generation is read after the LAST '#'), in
   particular for addresses without '#' *)
Theorem bref_of_val_backend : forall addr g, gen_ok g -> bref_of_val (pin_val_backend addr g) = BObj addr g.
Proof.
  intros addr g G. unfold bref_of_val, pin_val_backend.
  rewrite last_index_byte_app by apply itoa_no_hash.
  rewrite firstn_length_app, skipn_S_length_app, atoi_val_itoa.
  - rewrite Nat2Z.id. reflexivity.
  - unfold gen_ok in G. unfold int_min. lia.
Qed.
Theorem bref_of_val_rr : bref_of_val pin_val_rr = BRR.
Proof. vm_compute. reflexivity. Qed.
Theorem bref_round_trip : forall b, match b with BObj _ g => gen_ok g | BRR => True end ->
  bref_of_val (bref_val b) = b.
Proof. intros [a g|] H; [apply bref_of_val_backend; exact H|apply bref_of_val_rr]. Qed.
Lemma bref_val_of_backend addr g : gen_ok g -> bref_val (bref_of_val (pin_val_backend addr g)) = pin_val_backend addr g.
Proof. intros G. rewrite bref_of_val_backend by exact G. reflexivity. Qed.
Example bref_round_trip_ex :
  bref_of_val (pin_val_backend (s2b "10.0.0.7:5070") 12) = BObj (s2b "10.0.0.7:5070") 12 /\
  bref_of_val (pin_val_backend (s2b "we#ird:1") 3) = BObj (s2b "we#ird:1") 3.
Proof. split; vm_compute; reflexivity. Qed.

(* the datagram a backend address stands for *)
Definition addr_dest (a : bytes) : option dest :=
  match last_index_byte ":"%char a with
  | Some pos => Some (DUdp (firstn pos a) (atoi_val (skipn (S pos) a)))
  | None => None
  end.
Lemma addr_dest_host_port ip port : int_min <= port <= int_max ->
  addr_dest (ip ++ ":"%char :: itoa port) = Some (DUdp ip port).
Proof.
  intros H. unfold addr_dest. rewrite last_index_byte_app by apply itoa_no_colon.
  rewrite firstn_length_app, skipn_S_length_app, atoi_val_itoa by exact H. reflexivity.
Qed.
Lemma join_host_port_plain ip port : contains_byte ":"%char ip = false -> contains_byte "%"%char ip = false ->
  join_host_port ip port = ip ++ ":"%char :: itoa port.
Proof. intros H1 H2. unfold join_host_port. rewrite H1, H2. reflexivity. Qed.

(* ================================================================== Part 2: what the transport layer leaves alone *)
(* the load-balancing half of a proxy: members, rotation, pins *)
Definition lb_eq (p p' : pstate) : Prop :=
  ps_backends p' = ps_backends p /\ ps_rr p' = ps_rr p /\ ps_has_rr p' = ps_has_rr p /\
  ps_gen p' = ps_gen p /\ ps_pins p' = ps_pins p.
Lemma lb_refl p : lb_eq p p. Proof. repeat split. Qed.
Lemma lb_trans a b c : lb_eq a b -> lb_eq b c -> lb_eq a c.
Proof. unfold lb_eq. intros (A1&A2&A3&A4&A5) (B1&B2&B3&B4&B5). repeat split; congruence. Qed.
Lemma lb_sym a b : lb_eq a b -> lb_eq b a.
Proof. unfold lb_eq. intros (A1&A2&A3&A4&A5). repeat split; congruence. Qed.
Lemma lb_with_table p t : lb_eq p (with_table p t). Proof. repeat split. Qed.
Lemma lb_with_clients p c : lb_eq p (with_clients p c). Proof. repeat split. Qed.
Lemma lb_clean_expired n p : lb_eq p (clean_expired n p).
Proof. unfold clean_expired. destruct (_ <? _); repeat split. Qed.
Lemma lb_set_primary k pr p : lb_eq p (set_primary k pr p).
Proof. unfold set_primary. destruct (alookup k (ps_table p)); [apply lb_with_table|apply lb_refl]. Qed.
Lemma lb_remove_transport pr h pt t p : lb_eq p (remove_transport pr h pt t p).
Proof. unfold remove_transport. destruct (negb _); [apply lb_refl|apply lb_with_table]. Qed.
Lemma lb_get_transport n pr h pt t p : lb_eq p (fst (get_transport n pr h pt t p)).
Proof.
  unfold get_transport. pose proof (lb_clean_expired n p) as C. set (q := clean_expired n p) in *. clearbody q.
  destruct (negb _); [exact C|].
  destruct (alookup _ (ps_table q)); [exact C|].
  destruct (beq _ _).
  - destruct (resolvable h pt); [|exact C]. cbn [fst]. eapply lb_trans; [exact C|apply lb_with_table].
  - destruct (alookup _ (ps_table q)); cbn [fst].
    + eapply lb_trans; [exact C|apply lb_with_table].
    + eapply lb_trans; [exact C|]. eapply lb_trans; [apply lb_with_clients|apply lb_with_table].
Qed.
Lemma lb_tcp_client_send n li local rs id b : forall p cs w outs,
  lb_eq p (fst (fst (fst (fst (tcp_client_send n li local rs id b p cs w outs))))).
Proof.
  induction n as [|n IH]; intros p cs w outs; cbn [tcp_client_send]; [apply lb_refl|].
  destruct (find_client id (ps_clients p)) as [cl|]; [|apply lb_refl].
  destruct (tc_cached cl) as [c|].
  - destruct (conn_open cs c); [apply lb_refl|].
    eapply lb_trans; [|apply IH]. apply lb_with_clients.
  - destruct (existsb _ _); [|apply lb_refl].
    cbn [fst]. apply lb_with_clients.
Qed.
Lemma lb_failover_send li local rs f b p cs w :
  lb_eq p (fst (fst (fst (fst (fst (failover_send li local rs f b p cs w)))))).
Proof.
  unfold failover_send.
  assert (T : forall f1 outs,
    lb_eq p (fst (fst (fst (fst (fst
      (match fo_sec f1 with
       | Some id => let '(p2, cs2, w2, outs2, ok) := tcp_client_send 2 li local rs id b p cs w outs in
                    (p2, cs2, w2, outs2, ok, f1)
       | None => (p, cs, w, outs, false, f1)
       end))))))).
  { intros f1 outs. destruct (fo_sec f1) as [id|]; [|apply lb_refl].
    pose proof (lb_tcp_client_send 2 li local rs id b p cs w outs) as H.
    destruct (tcp_client_send 2 li local rs id b p cs w outs) as [[[[p2 cs2] w2] outs2] ok]. exact H. }
  destruct (fo_pri f) as [[ip port|ip port|c ex]|].
  - destruct (fits_datagram b); [apply lb_refl|apply T].
  - destruct (fits_datagram b); [apply lb_refl|apply T].
  - destruct (conn_open cs c); [apply lb_refl|apply T].
  - apply T.
Qed.
Lemma lb_send_message e host port tr m x : lb_eq (x_p x) (x_p (fst (send_message e host port tr m x))).
Proof.
  unfold send_message.
  destruct (mtry s_client_transaction m) as [m1 tid].
  set (trans_id := match tid with Ok (Some t) => t | _ => [] end).
  set (ip := match get_ip (e_cfg e) host with Some i => i | None => host end).
  pose proof (lb_get_transport (now_s e) tr ip port trans_id (x_p x)) as G.
  destruct (get_transport (now_s e) tr ip port trans_id (x_p x)) as [p1 rkey]. cbn [fst] in G.
  destruct rkey as [key| |]; cbn [fst x_p]; try exact G.
  set (p2 := match alookup key (ps_table p1) with
             | Some {| fo_pri := None |} => _ | _ => p1 end).
  assert (L2 : lb_eq p1 p2).
  { subst p2. destruct (alookup key (ps_table p1)) as [[[pr|] sec]|]; try apply lb_refl.
    destruct (_ && _)%bool; [apply lb_refl|].
    destruct (alookup ip (x_learned x)) as [[[| |] a pt]|]; try apply lb_refl.
    destruct (resolvable ip port); [apply lb_set_primary|apply lb_refl]. }
  clearbody p2.
  destruct (alookup key (ps_table p2)) as [f|]; cbn [fst x_p]; [|eapply lb_trans; eassumption].
  set (p3 := if is_final_response m1 then remove_transport tr (if fx_resolved_key (e_fx e) then ip else host) port trans_id p2 else p2).
  assert (L3 : lb_eq p2 p3) by (subst p3; destruct (is_final_response m1); [apply lb_remove_transport|apply lb_refl]).
  clearbody p3.
  pose proof (lb_failover_send (e_li e) (lc_addr (e_lc e)) (pa_received_support (wire_proxy (e_lc e))) f
                               (write_message m1) p3 (x_conns x) (x_world x)) as F.
  destruct (failover_send _ _ _ f (write_message m1) p3 (x_conns x) (x_world x)) as [[[[[p4 cs] w] outs] ok] f'].
  cbn [fst] in F. cbn [fst x_p].
  assert (L : lb_eq (x_p x) p4) by (eapply lb_trans; [exact G|]; eapply lb_trans; [exact L2|]; eapply lb_trans; eassumption).
  destruct (alookup key (ps_table p4)); [|exact L]. eapply lb_trans; [exact L|apply lb_with_table].
Qed.

(* ================================================================== Part 3: the pin table *)
(* the dialog key [d] is bound to the value [v] until [ex] *)
Definition pin_at (d v : bytes) (ex : Z) (p : pins) : Prop :=
  alookup d (p_tab p) = Some {| pin_backend := v; pin_expire := ex |}.

Lemma alookup_filter_keep {V} (f : bytes * V -> bool) k v tab :
  alookup k tab = Some v -> f (k, v) = true -> alookup k (filter f tab) = Some v.
Proof.
  induction tab as [|[k' v'] r IH]; cbn; [discriminate|].
  destruct (beq k k') eqn:E.
  - intros H Hf. injection H as ->. apply beq_eq in E. subst k'. rewrite Hf. cbn. rewrite beq_refl. reflexivity.
  - intros H Hf. destruct (f (k', v')); cbn; [rewrite E|]; apply IH; assumption.
Qed.
Lemma pin_at_get_live d v ex now p : pin_at d v ex p -> now < ex -> pins_get now d p = (p, Some v).
Proof.
  unfold pin_at, pins_get. intros -> H. cbn. apply Z.ltb_lt in H. rewrite H. reflexivity.
Qed.
Lemma pin_at_get_other d v ex now k p : k <> d -> pin_at d v ex p -> pin_at d v ex (fst (pins_get now k p)).
Proof.
  unfold pin_at, pins_get. intros NE H. destruct (alookup k (p_tab p)) as [e|]; [|exact H].
  destruct (now <? pin_expire e); [exact H|]. cbn. rewrite alookup_adel_other by congruence. exact H.
Qed.
Lemma pin_at_get d v ex now k p : now < ex -> pin_at d v ex p -> pin_at d v ex (fst (pins_get now k p)).
Proof.
  intros L H. destruct (beq_spec k d) as [->|NE].
  - rewrite (pin_at_get_live d v ex now p H L). exact H.
  - apply pin_at_get_other; assumption.
Qed.
Lemma pin_at_remove_other d v ex k p : k <> d -> pin_at d v ex p -> pin_at d v ex (pins_remove k p).
Proof. unfold pin_at, pins_remove. intros NE H. cbn. rewrite alookup_adel_other by congruence. exact H. Qed.
Lemma pin_at_add_other d v ex now k b e p : k <> d -> now <= ex -> pin_at d v ex p ->
  pin_at d v ex (pins_add now k b e p).
Proof.
  unfold pin_at, pins_add. intros NE L H.
  assert (H1 : alookup d (aset k {| pin_backend := b; pin_expire := now + pins_lifetime p e |} (p_tab p))
               = Some {| pin_backend := v; pin_expire := ex |})
    by (rewrite alookup_aset_other by congruence; exact H).
  destruct (p_next_clean p <? now); cbn; [|exact H1].
  unfold pins_clean. apply alookup_filter_keep; [exact H1|]. cbn.
  apply negb_true_iff. apply Z.ltb_ge. exact L.
Qed.
Lemma pin_at_add_same d now b e p : 0 <= pins_lifetime p e ->
  pin_at d b (now + pins_lifetime p e) (pins_add now d b e p).
Proof.
  unfold pin_at, pins_add. intros L.
  pose proof (alookup_aset_same d {| pin_backend := b; pin_expire := now + pins_lifetime p e |} (p_tab p)) as H1.
  destruct (p_next_clean p <? now); cbn; [|exact H1].
  unfold pins_clean. apply alookup_filter_keep; [exact H1|]. cbn.
  apply negb_true_iff. apply Z.ltb_ge. lia.
Qed.
Lemma pin_at_honoured d v ex p t : pin_at d v ex p -> t < ex -> snd (pins_get t d p) = Some v.
Proof. intros H L. rewrite (pin_at_get_live d v ex t p H L). reflexivity. Qed.
(* the lifetime is the configured timeout or the announced Expires, whichever is longer (C15's domain) *)
Lemma pins_lifetime_nonneg p e : 0 <= p_timeout p -> 0 <= e * second < two63 -> p_timeout p <= pins_lifetime p e.
Proof.
  intros T E. unfold pins_lifetime. destruct (Z.ltb_spec (p_timeout p) (e * second)) as [H|H]; [|lia].
  rewrite C15.wrap64_small by exact E. lia.
Qed.

(* ================================================================== Part 4: bind *)
(* running a getter: the result is the view, the message keeps every header *)
Lemma run_view {A} (x : M A) (view : message -> res A) m :
  pres names x -> (forall m0, snd (x m0) = view m0) -> exists m1, x m = (m1, view m) /\ keeps names m m1.
Proof.
  intros P V. exists (fst (x m)). split; [|apply P]. rewrite <- V. destruct (x m); reflexivity.
Qed.
Definition opt_res {A} (r : res A) : res (option A) :=
  match r with Ok a => Ok (Some a) | Err => Ok None | Panic => Panic end.
Lemma run_try {A} (x : M A) (view : message -> res A) m :
  pres names x -> (forall m0, snd (x m0) = view m0) -> exists m1, mtry x m = (m1, opt_res (view m)) /\ keeps names m m1.
Proof.
  intros P V. destruct (run_view x view m P V) as (m1 & E & K). exists m1. split; [|exact K].
  unfold mtry. rewrite E. destruct (view m); reflexivity.
Qed.
Definition P_method := pres_get_method names all_names_incl.
Definition P_dialog := pres_get_dialog names all_names_incl.
Definition P_tid := pres_client_transaction names all_names_incl.

(* handleDialog as a function of the views of the response *)
Definition hd_tail_pure (e : env) (p1 : pstate) (ob : option bref) (m : message) : res pstate :=
  match ob with
  | None => Ok p1
  | Some b =>
      match method_of m with
      | Panic => Panic
      | Err => Ok p1
      | Ok meth =>
          if beq meth (s2b "INVITE") then
            match dialog_of m with
            | Panic => Panic
            | Ok d => Ok (with_pins p1 (pins_add (e_now e) d (bref_val b) (get_expires m 0) (ps_pins p1)))
            | Err => Ok p1
            end
          else if beq meth (s2b "BYE") then
            match dialog_of m with
            | Panic => Panic
            | Ok d => Ok (with_pins p1 (pins_remove d (ps_pins p1)))
            | Err => Ok p1
            end
          else Ok p1
      end
  end.
Definition hd_pure (e : env) (peer : bytes) (peer_port : Z) (p : pstate) (m : message) : res pstate :=
  let addr := join_host_port peer peer_port in
  match alookup addr (ps_backends p) with
  | Some g => hd_tail_pure e p (Some (BObj addr g)) m
  | None =>
      match tid_of m with
      | Ok tid =>
          let pins1 := fst (pins_get (e_now e) tid (ps_pins p)) in
          let ob := snd (pins_get (e_now e) tid (ps_pins p)) in
          let pins2 := if is_final_response m then pins_remove tid pins1 else pins1 in
          hd_tail_pure e (with_pins p pins2) (option_map bref_of_val ob) m
      | Err => Err
      | Panic => Panic
      end
  end.

Definition hd_tail (e : env) (p1 : pstate) (ob : option bref) : M pstate :=
  match ob with
  | None => mret p1
  | Some b =>
      mlet om := mtry s_get_method in
      match om with
      | None => mret p1
      | Some meth =>
          if beq meth (s2b "INVITE") then
            mlet od := mtry s_get_dialog in
            mlet ex := s_get_expires 0 in
            match od with
            | Some d => mret (with_pins p1 (pins_add (e_now e) d (bref_val b) ex (ps_pins p1)))
            | None => mret p1
            end
          else if beq meth (s2b "BYE") then
            mlet od := mtry s_get_dialog in
            match od with
            | Some d => mret (with_pins p1 (pins_remove d (ps_pins p1)))
            | None => mret p1
            end
          else mret p1
      end
  end.
Lemma hd_tail_run e p1 ob m0 m : keeps names m0 m ->
  exists m', hd_tail e p1 ob m = (m', hd_tail_pure e p1 ob m0) /\ keeps names m0 m'.
Proof.
  intros K0. unfold hd_tail, hd_tail_pure. destruct ob as [b|]; [|exists m; split; [reflexivity|exact K0]].
  unfold mbind at 1.
  destruct (run_try s_get_method method_of m P_method s_get_method_snd) as (m1 & E1 & K1). rewrite E1.
  rewrite (method_of_keeps names m0 m K0 ltac:(in_names)).
  assert (K01 : keeps names m0 m1) by (eapply keeps_trans; eassumption).
  destruct (method_of m0) as [meth| |]; cbn [opt_res]; try (exists m1; split; [reflexivity|exact K01]).
  destruct (beq meth (s2b "INVITE")).
  { unfold mbind.
    destruct (run_try s_get_dialog dialog_of m1 P_dialog s_get_dialog_snd) as (m2 & E2 & K2). rewrite E2.
    assert (K02 : keeps names m0 m2) by (eapply keeps_trans; eassumption).
    rewrite (dialog_of_keeps names m0 m1 K01) by in_names.
    destruct (dialog_of m0) as [d| |]; cbn [opt_res]; try (exists m2; split; [reflexivity|exact K02]).
    unfold s_get_expires, mret. rewrite <- (k_expires names m0 m2 K02 ltac:(in_names)).
    exists m2. split; [reflexivity|exact K02]. }
  destruct (beq meth (s2b "BYE")); [|exists m1; split; [reflexivity|exact K01]].
  unfold mbind.
  destruct (run_try s_get_dialog dialog_of m1 P_dialog s_get_dialog_snd) as (m2 & E2 & K2). rewrite E2.
  assert (K02 : keeps names m0 m2) by (eapply keeps_trans; eassumption).
  rewrite (dialog_of_keeps names m0 m1 K01) by in_names.
  destruct (dialog_of m0) as [d| |]; cbn [opt_res]; exists m2; (split; [reflexivity|exact K02]).
Qed.
Lemma handle_dialog_run e peer port p m :
  exists m', handle_dialog e peer port p m = (m', hd_pure e peer port p m) /\ keeps names m m'.
Proof.
  unfold handle_dialog, hd_pure.
  destruct (alookup (join_host_port peer port) (ps_backends p)) as [g|].
  - unfold mbind at 1, mret at 1.
    apply (hd_tail_run e p (Some (BObj (join_host_port peer port) g)) m m). apply keeps_refl.
  - unfold mbind at 1. unfold mbind at 1.
    destruct (run_view s_client_transaction tid_of m P_tid s_client_transaction_snd) as (m1 & E1 & K1). rewrite E1.
    destruct (tid_of m) as [tid| |]; try (exists m1; split; [reflexivity|exact K1]).
    destruct (pins_get (e_now e) tid (ps_pins p)) as [pins1 ob]. cbn [fst snd].
    unfold mbind at 1. unfold mret at 1. rewrite (k_is_final names m m1 K1).
    apply (hd_tail_run e _ _ m m1). exact K1.
Qed.

(* ---- the Via stack of a response: what PopVia leaves on top ---- *)
Definition pv (v : hval) : option (list via_param) := match v with HVia l => Some l | _ => None end.
Definition sem_via (v : hval) : res (list via_param) := semg pv parse_via v.
Definition via_vals (m : message) : list hval := hvals (s2b "Via") (m_headers m).
Definition pop_vals (vs : list hval) : list hval :=
  match vs with
  | [] => []
  | v :: r => match sem_via v with
              | Ok (_ :: (_ :: _) as rest) => HVia rest :: r
              | Ok _ => r
              | _ => vs
              end
  end.
Definition top_of_vals (vs : list hval) : res via_param :=
  match vs with
  | v :: _ => let! l := sem_via v in match l with x :: _ => Ok x | [] => Err end
  | [] => Err
  end.
Lemma top_via_of_vals m : top_via_of m = top_of_vals (via_vals m).
Proof.
  unfold top_via_of, s_get_via. rewrite typed_get_snd. fold (via_vals m).
  destruct (via_vals m) as [|v r]; reflexivity.
Qed.
Lemma get_via_vals m :
  via_vals (fst (s_get_via m)) =
  match via_vals m with
  | v :: r => match v with HRaw s => match parse_via s with Ok l => HVia l :: r | _ => v :: r end | _ => v :: r end
  | [] => []
  end.
Proof.
  unfold s_get_via, typed_get, via_vals.
  pose proof (get_header_hvals (s2b "Via") (m_headers m)) as E.
  destruct (hvals (s2b "Via") (m_headers m)) as [|v r] eqn:Ev;
    destruct (get_header (s2b "Via") (m_headers m)) as [h|]; cbn [option_map hd_error] in E; try discriminate.
  - cbn [fst]. exact Ev.
  - injection E as E. rewrite E.
    destruct v as [s|l|l|l|f|f|c]; cbn [fst]; try (exact Ev).
    destruct (parse_via s) as [l| |]; cbn [fst]; try exact Ev.
    unfold set_val. cbn [m_headers with_headers]. rewrite hvals_update_same, Ev. reflexivity.
Qed.
Lemma pop_via_vals m : via_vals (fst (s_pop_via m)) = pop_vals (via_vals m).
Proof.
  unfold s_pop_via, mbind.
  pose proof (get_via_vals m) as G.
  assert (S : snd (s_get_via m) = match hd_error (via_vals m) with Some v => sem_via v | None => Err end)
    by apply typed_get_snd.
  destruct (s_get_via m) as [m1 r]. cbn [fst snd] in *. subst r.
  unfold pop_vals. destruct (via_vals m) as [|v vs]; cbn [hd_error]; [cbn [fst]; exact G|].
  assert (G' : forall l, sem_via v = Ok l -> via_vals m1 = HVia l :: vs).
  { intros l Hl. rewrite G. unfold sem_via, semg in Hl. destruct v as [s|l0|l0|l0|f|f|c]; cbn in Hl; try discriminate.
    - rewrite Hl. reflexivity.
    - injection Hl as ->. reflexivity. }
  destruct (sem_via v) as [l| |] eqn:Ev; cbn [fst].
  - specialize (G' l eq_refl).
    destruct l as [|a [|b l]]; unfold mmodify; cbn [fst]; unfold via_vals in *.
    + cbn [m_headers with_headers]. rewrite hvals_remove_same, G'. reflexivity.
    + cbn [m_headers with_headers]. rewrite hvals_remove_same, G'. reflexivity.
    + unfold set_val. cbn [m_headers with_headers]. rewrite hvals_update_same, G'. reflexivity.
  - rewrite G. unfold sem_via, semg in Ev. destruct v as [s|l0|l0|l0|f|f|c]; cbn in Ev; try discriminate; try reflexivity.
    rewrite Ev. reflexivity.
  - rewrite G. unfold sem_via, semg in Ev. destruct v as [s|l0|l0|l0|f|f|c]; cbn in Ev; try discriminate; try reflexivity.
    rewrite Ev. reflexivity.
Qed.
Lemma sem_via_vrel v v' : vrel (s2b "Via") v v' -> sem_via v' = sem_via v.
Proof. intros [->|H]; [reflexivity|]. apply (proj1 ok_via). exact H. Qed.
Lemma pop_vals_rel vs vs' : Forall2 (vrel (s2b "Via")) vs vs' -> Forall2 (vrel (s2b "Via")) (pop_vals vs) (pop_vals vs').
Proof.
  intros H. destruct H as [|v v' r r' Hv Hr]; [constructor|]. unfold pop_vals.
  rewrite (sem_via_vrel v v' Hv).
  destruct (sem_via v) as [[|a [|b l]]| |]; try exact Hr; try (constructor; assumption).
  constructor; [left; reflexivity|exact Hr].
Qed.
Lemma top_of_vals_rel vs vs' : Forall2 (vrel (s2b "Via")) vs vs' -> top_of_vals vs' = top_of_vals vs.
Proof.
  intros H. destruct H as [|v v' r r' Hv Hr]; [reflexivity|]. unfold top_of_vals.
  rewrite (sem_via_vrel v v' Hv). reflexivity.
Qed.
(* the Via entry on top once the proxy's own entry has been popped *)
Definition next_top (m : message) : res via_param := top_via_of (fst (s_pop_via m)).
Lemma next_top_vals m : next_top m = top_of_vals (pop_vals (via_vals m)).
Proof. unfold next_top. rewrite top_via_of_vals, pop_via_vals. reflexivity. Qed.
Lemma next_top_keeps N m m' : keeps N m m' -> In (s2b "Via") N -> next_top m' = next_top m.
Proof.
  intros [_ K] H. rewrite !next_top_vals. apply top_of_vals_rel. apply pop_vals_rel. apply K. exact H.
Qed.
Definition hop_of_via (v : via_param) : bytes * Z * bytes :=
  match via_get_received v with
  | Some h => (h, match via_get_rport v with Some p => p | None => via_get_port v end, v_transport v)
  | None => (v_host v, via_get_port v, v_transport v)
  end.
Lemma next_response_hop_snd m : snd (next_response_hop m) = rmap hop_of_via (top_via_of m).
Proof.
  unfold next_response_hop, mbind. rewrite <- s_top_via_snd. destruct (s_top_via m) as [m1 r]. cbn [snd].
  destruct r as [v| |]; cbn; try reflexivity. unfold hop_of_via. destruct (via_get_received v); reflexivity.
Qed.
Definition relay_hop (m : message) : res (bytes * Z * bytes) := rmap hop_of_via (next_top m).

Lemma lb_send_message2 e host port tr m x p : p = x_p x -> lb_eq p (x_p (fst (send_message e host port tr m x))).
Proof. intros ->. apply lb_send_message. Qed.
Lemma mtry_fst {A} (x : M A) m : fst (mtry x m) = fst (x m).
Proof. unfold mtry. destruct (x m) as [m1 r]. destruct r; reflexivity. Qed.
Lemma mtry_snd {A} (x : M A) m : snd (mtry x m) = opt_res (snd (x m)).
Proof. unfold mtry. destruct (x m) as [m1 r]. destruct r; reflexivity. Qed.

(* names without Via / without Route *)
Definition NP : list bytes :=
  [s2b "Route"; s2b "From"; s2b "To"; s2b "CSeq"; s2b "Call-ID"; s2b "Subscription-State"; s2b "Expires"].
Definition NR : list bytes :=
  [s2b "Via"; s2b "From"; s2b "To"; s2b "CSeq"; s2b "Call-ID"; s2b "Subscription-State"; s2b "Expires"].
(* neither *)
Definition NQ : list bytes :=
  [s2b "From"; s2b "To"; s2b "CSeq"; s2b "Call-ID"; s2b "Subscription-State"; s2b "Expires"].
Ltac no_name_tac := split; [intros ? H; cbn in H |- *; tauto|
                            cbn; intros H; repeat (destruct H as [H|H]; [discriminate H|]); exact H].
Lemma NP_novia : no_name (s2b "Via") NP. Proof. no_name_tac. Qed.
Lemma NR_noroute : no_name (s2b "Route") NR. Proof. no_name_tac. Qed.
Lemma NQ_novia : no_name (s2b "Via") NQ. Proof. no_name_tac. Qed.
Lemma NQ_noroute : no_name (s2b "Route") NQ. Proof. no_name_tac. Qed.
Lemma NQ_names : incl NQ names. Proof. apply NQ_novia. Qed.
Lemma NQ_NP : incl NQ NP. Proof. intros ? H; cbn in H |- *; tauto. Qed.
Lemma NQ_NR : incl NQ NR. Proof. intros ? H; cbn in H |- *; tauto. Qed.
Lemma NP_names : incl NP names. Proof. apply NP_novia. Qed.
Lemma NR_names : incl NR names. Proof. apply NR_noroute. Qed.

(* the SUBSCRIBE-response rule of HandleMessage as a function of the views *)
Definition sub_bind_pure (e : env) (p : pstate) (m : message) : pstate :=
  match relay_hop m, method_of m with
  | Ok (host, port, _), Ok meth =>
      if beq meth (s2b "SUBSCRIBE") then
        let addr := host ++ ":"%char :: itoa port in
        match alookup addr (ps_backends p), dialog_of m with
        | Some g, Ok d => with_pins p (pins_add (e_now e) d (pin_val_backend addr g) (get_expires m 0) (ps_pins p))
        | _, _ => p
        end
      else p
  | _, _ => p
  end.
Lemma handle_message_response e from m x : is_request m = false ->
  lb_eq (sub_bind_pure e (x_p x) m) (x_p (fst (handle_message e from m x))).
Proof.
  intros R. unfold handle_message. rewrite R.
  pose proof (pres_try NP _ (pres_pop_via NP NP_novia) m) as K1.
  pose proof (mtry_fst s_pop_via m) as F1.
  destruct (mtry s_pop_via m) as [m1 r0]. cbn [fst] in K1, F1.
  pose proof (pres_try names _ (pres_next_response_hop names all_names_incl) m1) as K2.
  pose proof (mtry_snd next_response_hop m1) as S2.
  destruct (mtry next_response_hop m1) as [m2 hop]. cbn [fst snd] in K2, S2.
  rewrite next_response_hop_snd, F1 in S2. fold (next_top m) in S2. fold (relay_hop m) in S2.
  assert (K02 : keeps NP m m2) by (eapply keeps_trans; [exact K1|eapply keeps_incl; [apply NP_names|exact K2]]).
  pose proof (pres_try names _ P_method m2) as K3.
  pose proof (mtry_snd s_get_method m2) as S3.
  destruct (mtry s_get_method m2) as [m3 ometh]. cbn [fst snd] in K3, S3.
  rewrite s_get_method_snd, (method_of_keeps NP m m2 K02 ltac:(in_names)) in S3.
  assert (K03 : keeps NP m m3) by (eapply keeps_trans; [exact K02|eapply keeps_incl; [apply NP_names|exact K3]]).
  subst hop ometh. unfold sub_bind_pure.
  set (X := fun (m4 : message) (p1 : pstate) =>
              {| x_learned := x_learned x; x_p := p1; x_conns := x_conns x; x_world := x_world x; x_outs := x_outs x |}).
  destruct (relay_hop m) as [[[host port] tr]| |]; cbn [opt_res].
  2:{ destruct (opt_res (method_of m)) as [[?|]| |]; apply lb_refl. }
  2:{ destruct (opt_res (method_of m)) as [[?|]| |]; apply lb_refl. }
  destruct (method_of m) as [meth| |]; cbn [opt_res]; try (apply lb_send_message2; reflexivity).
  destruct (beq meth (s2b "SUBSCRIBE")); [|apply lb_send_message2; reflexivity].
  destruct (alookup (host ++ ":"%char :: itoa port) (ps_backends (x_p x))) as [g|]; [|apply lb_send_message2; reflexivity].
  pose proof (pres_try names _ P_dialog m3) as K4.
  pose proof (mtry_snd s_get_dialog m3) as S4.
  destruct (mtry s_get_dialog m3) as [m4 od]. cbn [fst snd] in K4, S4.
  rewrite s_get_dialog_snd, (dialog_of_keeps NP m m3 K03) in S4 by in_names.
  assert (K04 : keeps NP m m4) by (eapply keeps_trans; [exact K03|eapply keeps_incl; [apply NP_names|exact K4]]).
  subst od. destruct (dialog_of m) as [d| |]; cbn [opt_res]; try (apply lb_send_message2; reflexivity).
  rewrite (k_expires NP m m4 K04 ltac:(in_names)).
  apply lb_send_message2. reflexivity.
Qed.

Lemma hd_tail_pure_keeps N e p1 ob m m' : keeps N m m' -> incl NQ N ->
  hd_tail_pure e p1 ob m' = hd_tail_pure e p1 ob m.
Proof.
  intros K I. unfold hd_tail_pure.
  rewrite (method_of_keeps N m m' K), (dialog_of_keeps N m m' K), (k_expires N m m' K); try (apply I; in_names).
  reflexivity.
Qed.
Lemma hd_pure_keeps N e peer port p m m' : keeps N m m' -> incl NR N ->
  hd_pure e peer port p m' = hd_pure e peer port p m.
Proof.
  intros K I. unfold hd_pure.
  assert (IQ : incl NQ N) by (intros a Ha; apply I; apply NQ_NR; exact Ha).
  rewrite (tid_of_keeps N m m' K), (k_is_final N m m' K); try (apply I; in_names).
  destruct (alookup _ _); [apply (hd_tail_pure_keeps N); assumption|].
  destruct (tid_of m); try reflexivity. apply (hd_tail_pure_keeps N); assumption.
Qed.
Lemma sub_bind_pure_keeps N e p m m' : keeps N m m' -> incl NR N ->
  sub_bind_pure e p m' = sub_bind_pure e p m.
Proof.
  intros K I. unfold sub_bind_pure, relay_hop.
  rewrite (next_top_keeps N m m' K), (method_of_keeps N m m' K), (dialog_of_keeps N m m' K), (k_expires N m m' K);
    try (apply I; in_names). reflexivity.
Qed.

(* a response, end to end: handleDialog, then the SUBSCRIBE rule; the transports never touch the
   load-balancing half *)
Definition resp_pure (e : env) (peer : bytes) (port : Z) (p : pstate) (m : message) : pstate :=
  sub_bind_pure e (match hd_pure e peer port p m with Ok p' => p' | _ => p end) m.
Lemma process_message_response e peer port from rs tcp m x : is_request m = false ->
  exists x', process_message e peer port from rs tcp m x = Ok x' /\
             lb_eq (resp_pure e peer port (x_p x) m) (x_p x').
Proof.
  intros R. unfold process_message. rewrite R. cbn [andb].
  cbv iota. rewrite R. cbn [andb]. cbv iota. rewrite R.
  assert (T : (match tcp with Some _ => (m, Ok (x_p x)) | None => (m, Ok (x_p x)) end) = (m, @Ok pstate (x_p x)))
    by (destruct tcp; reflexivity).
  rewrite T. cbv iota. clear T.
  pose proof (pres_try NR _ (pres_try_remove_top_route NR (e_cfg e) from NR_noroute) m) as K4.
  set (m4 := fst (mtry (try_remove_top_route (e_cfg e) from) m)) in *.
  assert (R4 : is_response m4 = true) by (rewrite (k_is_response NR m m4 K4); unfold is_response; rewrite R; reflexivity).
  rewrite R4.
  destruct (handle_dialog_run e peer port (x_p x) m4) as (m5 & E5 & K5). rewrite E5.
  rewrite (hd_pure_keeps NR e peer port (x_p x) m m4 K4) by (intros a Ha; exact Ha).
  assert (K05 : keeps NR m m5) by (eapply keeps_trans; [exact K4|eapply keeps_incl; [apply NR_names|exact K5]]).
  assert (R5 : is_request m5 = false) by (rewrite (k_is_request NR m m5 K05); exact R).
  eexists. split; [reflexivity|].
  unfold resp_pure. rewrite <- (sub_bind_pure_keeps NR e _ m m5 K05) by (intros a Ha; exact Ha).
  match goal with |- lb_eq (sub_bind_pure e ?p m5) (x_p (fst (handle_message e from m5 ?x1))) =>
    apply (handle_message_response e from m5 x1 R5) end.
Qed.

(* everything but the pin TABLE is static across the pin operations *)
Definition static_eq (p p' : pstate) : Prop :=
  ps_backends p' = ps_backends p /\ ps_rr p' = ps_rr p /\ ps_has_rr p' = ps_has_rr p /\ ps_gen p' = ps_gen p /\
  p_timeout (ps_pins p') = p_timeout (ps_pins p).
Lemma static_refl p : static_eq p p. Proof. repeat split. Qed.
Lemma static_trans a b c : static_eq a b -> static_eq b c -> static_eq a c.
Proof. unfold static_eq. intros (A1&A2&A3&A4&A5) (B1&B2&B3&B4&B5). repeat split; congruence. Qed.
Lemma static_of_lb p p' : lb_eq p p' -> static_eq p p'.
Proof. unfold lb_eq, static_eq. intros (A1&A2&A3&A4&A5). rewrite A5. repeat split; assumption. Qed.
Lemma timeout_get now k p : p_timeout (fst (pins_get now k p)) = p_timeout p.
Proof. unfold pins_get. destruct (alookup k (p_tab p)) as [e|]; [|reflexivity]. destruct (_ <? _); reflexivity. Qed.
Lemma timeout_remove k p : p_timeout (pins_remove k p) = p_timeout p. Proof. reflexivity. Qed.
Lemma timeout_add now k b e p : p_timeout (pins_add now k b e p) = p_timeout p.
Proof. unfold pins_add. destruct (_ <? _); reflexivity. Qed.
Lemma static_with_pins p x : p_timeout x = p_timeout (ps_pins p) -> static_eq p (with_pins p x).
Proof. intros H. repeat split. exact H. Qed.
Lemma lifetime_timeout p p' e : p_timeout p' = p_timeout p -> pins_lifetime p' e = pins_lifetime p e.
Proof. unfold pins_lifetime. intros ->. reflexivity. Qed.

Lemma hd_tail_pure_static e p1 ob m p' : hd_tail_pure e p1 ob m = Ok p' -> static_eq p1 p'.
Proof.
  unfold hd_tail_pure. destruct ob as [b|]; [|intros H; injection H as <-; apply static_refl].
  destruct (method_of m) as [meth| |]; try discriminate; [|intros H; injection H as <-; apply static_refl].
  destruct (beq meth (s2b "INVITE")).
  { destruct (dialog_of m); try discriminate; intros H; injection H as <-; [|apply static_refl].
    apply static_with_pins. apply timeout_add. }
  destruct (beq meth (s2b "BYE")); [|intros H; injection H as <-; apply static_refl].
  destruct (dialog_of m); try discriminate; intros H; injection H as <-; [|apply static_refl].
  apply static_with_pins. apply timeout_remove.
Qed.
Lemma hd_pure_static e peer port p m p' : hd_pure e peer port p m = Ok p' -> static_eq p p'.
Proof.
  unfold hd_pure. destruct (alookup _ _); [apply hd_tail_pure_static|].
  destruct (tid_of m) as [tid| |]; try discriminate. intros H. apply hd_tail_pure_static in H.
  eapply static_trans; [|exact H]. apply static_with_pins.
  destruct (is_final_response m); [rewrite timeout_remove|]; apply timeout_get.
Qed.
Lemma sub_bind_pure_static e p m : static_eq p (sub_bind_pure e p m).
Proof.
  unfold sub_bind_pure. destruct (relay_hop m) as [[[h pt] tr]| |]; try apply static_refl.
  destruct (method_of m); try apply static_refl. destruct (beq _ _); [|apply static_refl].
  destruct (alookup _ _); [|apply static_refl]. destruct (dialog_of m); try apply static_refl.
  apply static_with_pins. apply timeout_add.
Qed.
Lemma resp_pure_static e peer port p m : static_eq p (resp_pure e peer port p m).
Proof.
  unfold resp_pure. eapply static_trans; [|apply sub_bind_pure_static].
  destruct (hd_pure e peer port p m) eqn:E; try apply static_refl. eapply hd_pure_static. exact E.
Qed.

(* ---- C04_bind: an INVITE response received from a backend address binds its dialog ---- *)
Theorem C04_bind : forall e peer port from rs tcp m x g d,
  is_request m = false ->
  alookup (join_host_port peer port) (ps_backends (x_p x)) = Some g ->
  method_of m = Ok (s2b "INVITE") -> dialog_of m = Ok d ->
  let addr := join_host_port peer port in
  let life := pins_lifetime (ps_pins (x_p x)) (get_expires m 0) in
  0 <= life ->
  exists x', process_message e peer port from rs tcp m x = Ok x' /\
    pin_at d (pin_val_backend addr g) (e_now e + life) (ps_pins (x_p x')) /\
    (forall t, t < e_now e + life -> snd (pins_get t d (ps_pins (x_p x'))) = Some (pin_val_backend addr g)) /\
    static_eq (x_p x) (x_p x').
Proof.
  intros e peer port from rs tcp m x g d R A Hm Hd addr life L.
  destruct (process_message_response e peer port from rs tcp m x R) as (x' & E & LB).
  exists x'. split; [exact E|].
  assert (P : resp_pure e peer port (x_p x) m =
              with_pins (x_p x) (pins_add (e_now e) d (pin_val_backend addr g) (get_expires m 0) (ps_pins (x_p x)))).
  { unfold resp_pure, hd_pure. cbv zeta. rewrite A. unfold hd_tail_pure. rewrite Hm, Hd.
    replace (beq (s2b "INVITE") (s2b "INVITE")) with true by (vm_compute; reflexivity). cbn [bref_val].
    unfold sub_bind_pure. rewrite Hm.
    replace (beq (s2b "INVITE") (s2b "SUBSCRIBE")) with false by (vm_compute; reflexivity).
    destruct (relay_hop m) as [[[h pt] tr]| |]; reflexivity. }
  assert (PA : pin_at d (pin_val_backend addr g) (e_now e + life) (ps_pins (x_p x'))).
  { destruct LB as (_ & _ & _ & _ & ->). rewrite P. cbn [ps_pins with_pins]. apply pin_at_add_same. exact L. }
  split; [exact PA|]. split.
  - intros t Ht. eapply pin_at_honoured; eassumption.
  - eapply static_trans; [apply (resp_pure_static e peer port (x_p x) m)|]. apply static_of_lb. exact LB.
Qed.

(* ---- the SUBSCRIBE rule: a SUBSCRIBE response relayed towards a backend address binds its dialog ---- *)
Theorem C04_bind_subscribe : forall e peer port from rs tcp m x host hport tr g d,
  is_request m = false ->
  relay_hop m = Ok (host, hport, tr) ->
  alookup (host ++ ":"%char :: itoa hport) (ps_backends (x_p x)) = Some g ->
  method_of m = Ok (s2b "SUBSCRIBE") -> dialog_of m = Ok d ->
  let addr := host ++ ":"%char :: itoa hport in
  let life := pins_lifetime (ps_pins (x_p x)) (get_expires m 0) in
  0 <= life ->
  exists x', process_message e peer port from rs tcp m x = Ok x' /\
    pin_at d (pin_val_backend addr g) (e_now e + life) (ps_pins (x_p x')) /\
    (forall t, t < e_now e + life -> snd (pins_get t d (ps_pins (x_p x'))) = Some (pin_val_backend addr g)) /\
    static_eq (x_p x) (x_p x').
Proof.
  intros e peer port from rs tcp m x host hport tr g d R Hh A Hm Hd addr life L.
  destruct (process_message_response e peer port from rs tcp m x R) as (x' & E & LB).
  exists x'. split; [exact E|].
  set (p1 := match hd_pure e peer port (x_p x) m with Ok p' => p' | _ => x_p x end).
  assert (S1 : static_eq (x_p x) p1).
  { subst p1. destruct (hd_pure e peer port (x_p x) m) eqn:Eh; try apply static_refl. eapply hd_pure_static. exact Eh. }
  assert (P : resp_pure e peer port (x_p x) m =
              with_pins p1 (pins_add (e_now e) d (pin_val_backend addr g) (get_expires m 0) (ps_pins p1))).
  { unfold resp_pure. fold p1. unfold sub_bind_pure. rewrite Hh, Hm.
    replace (beq (s2b "SUBSCRIBE") (s2b "SUBSCRIBE")) with true by (vm_compute; reflexivity).
    destruct S1 as (-> & _). cbv zeta. rewrite A, Hd. reflexivity. }
  assert (PA : pin_at d (pin_val_backend addr g) (e_now e + life) (ps_pins (x_p x'))).
  { destruct LB as (_ & _ & _ & _ & ->). rewrite P. cbn [ps_pins with_pins]. subst life.
    rewrite <- (lifetime_timeout (ps_pins (x_p x)) (ps_pins p1)) by apply S1.
    apply pin_at_add_same. rewrite (lifetime_timeout (ps_pins (x_p x)) (ps_pins p1)) by apply S1. exact L. }
  split; [exact PA|]. split.
  - intros t Ht. eapply pin_at_honoured; eassumption.
  - eapply static_trans; [apply (resp_pure_static e peer port (x_p x) m)|]. apply static_of_lb. exact LB.
Qed.

(* ================================================================== Part 5: the sticky step *)
(* isRegisteredBackend: the pinned backend OBJECT (address and generation) is still in the set *)
Lemma bref_alive_registered p addr g : alookup addr (ps_backends p) = Some g -> bref_alive p (BObj addr g) = true.
Proof. intros A. unfold bref_alive. rewrite A. apply Nat.eqb_refl. Qed.
Lemma bref_alive_unregistered p addr g : alookup addr (ps_backends p) <> Some g -> bref_alive p (BObj addr g) = false.
Proof.
  intros A. unfold bref_alive. destruct (alookup addr (ps_backends p)) as [g'|]; [|reflexivity].
  apply Nat.eqb_neq. intros ->. apply A. reflexivity.
Qed.
Lemma bref_alive_backends p p' b : ps_backends p' = ps_backends p -> bref_alive p' b = bref_alive p b.
Proof. intros E. unfold bref_alive. rewrite E. reflexivity. Qed.
(* NOTIFY with Subscription-State exactly "terminated" *)
Definition notify_terminated (meth : bytes) (m : message) : bool :=
  beq meth (s2b "NOTIFY") && match get_raw (s2b "Subscription-State") m with Ok s => beq s (s2b "terminated") | _ => false end.

(* findBackendByDialog as a function of the views *)
Definition fbd_pure (e : env) (p : pstate) (m : message) : res (pstate * option bref) :=
  match method_of m with
  | Ok meth =>
      if (negb (fx_indialog_invite (e_fx e)) && (beq meth (s2b "INVITE") || beq meth (s2b "SUBSCRIBE")))%bool then Ok (p, None)
      else
        match dialog_of m with
        | Panic => Panic
        | Err => Ok (p, None)
        | Ok d =>
            let pins1 := fst (pins_get (e_now e) d (ps_pins p)) in
            let ob := snd (pins_get (e_now e) d (ps_pins p)) in
            let p1 := with_pins p pins1 in
            (* the pinned backend object has left the set: the binding is forgotten, the rotation decides *)
            if (fx_stale_pin (e_fx e) && match ob with Some v => negb (bref_alive p1 (bref_of_val v)) | None => false end)%bool
            then Ok (with_pins p1 (pins_remove d (ps_pins p1)), None)
            else
            match get_raw (s2b "Subscription-State") m with
            | Panic => Panic
            | _ => Ok (if notify_terminated meth m then with_pins p1 (pins_remove d (ps_pins p1)) else p1,
                       option_map bref_of_val ob)
            end
        end
  | Err => Err
  | Panic => Panic
  end.
Lemma fbd_run e p m : exists m', find_backend_by_dialog e p m = (m', fbd_pure e p m) /\ keeps names m m'.
Proof.
  unfold find_backend_by_dialog, fbd_pure. unfold mbind at 1.
  destruct (run_view s_get_method method_of m P_method s_get_method_snd) as (m1 & E1 & K1). rewrite E1.
  destruct (method_of m) as [meth| |]; try (exists m1; split; [reflexivity|exact K1]).
  destruct (_ && _)%bool; [exists m1; split; [reflexivity|exact K1]|].
  unfold mbind at 1.
  destruct (run_try s_get_dialog dialog_of m1 P_dialog s_get_dialog_snd) as (m2 & E2 & K2). rewrite E2.
  assert (K02 : keeps names m m2) by (eapply keeps_trans; eassumption).
  rewrite (dialog_of_keeps names m m1 K1) by in_names.
  destruct (dialog_of m) as [d| |]; cbn [opt_res]; try (exists m2; split; [reflexivity|exact K02]).
  destruct (pins_get (e_now e) d (ps_pins p)) as [pins1 ob]. cbn [fst snd]. cbv zeta.
  destruct (_ && _)%bool; [exists m2; split; [reflexivity|exact K02]|].
  unfold mbind, mtry, s_get_raw, mret, notify_terminated.
  rewrite (k_substate names m m2 K02 ltac:(in_names)).
  destruct (get_raw (s2b "Subscription-State") m) as [s| |]; exists m2; (split; [reflexivity|exact K02]).
Qed.

(* ---- the Via the proxy pushes is on top, with the branch of this step ---- *)
Lemma hvals_app n l1 l2 : hvals n (l1 ++ l2) = hvals n l1 ++ hvals n l2.
Proof. unfold hvals. rewrite filter_app, map_app. reflexivity. Qed.
Lemma find_pos_from_spec n hs : forall i,
  match find_header_pos_from n hs i with
  | Some j => exists k, j = (i + k)%nat /\ hvals n (firstn k hs) = [] /\ (k <= List.length hs)%nat
  | None => hvals n hs = []
  end.
Proof.
  induction hs as [|h r IH]; intros i; cbn [find_header_pos_from]; [reflexivity|].
  destruct (same_header (h_name h) n) eqn:E.
  - exists 0%nat. repeat split; [lia|cbn; lia].
  - specialize (IH (S i)). destruct (find_header_pos_from n r (S i)) as [j|].
    + destruct IH as (k & -> & H1 & H2). exists (S k). split; [lia|]. split; [|cbn; lia].
      cbn [firstn]. unfold hvals in *. cbn. rewrite E. exact H1.
    + unfold hvals in *. cbn. rewrite E. exact IH.
Qed.
Lemma hvals_insert_first n h hs : same_header (h_name h) n = true ->
  hvals n (insert_at (match find_header_pos n hs with Some i => i | None => O end) h hs) = h_val h :: hvals n hs.
Proof.
  intros E. unfold find_header_pos, insert_at. pose proof (find_pos_from_spec n hs 0) as S.
  assert (C : forall l, hvals n (h :: l) = h_val h :: hvals n l) by (intros l; unfold hvals; cbn; rewrite E; reflexivity).
  destruct (find_header_pos_from n hs 0) as [j|].
  - destruct S as (k & -> & H1 & H2). cbn [Nat.add].
    rewrite hvals_app, H1, C. cbn [app]. f_equal.
    rewrite <- (firstn_skipn k hs) at 2. rewrite hvals_app, H1. reflexivity.
  - cbn [firstn skipn app]. apply C.
Qed.
Lemma via_vals_add_via v m : via_vals (add_via v m) = HVia [v] :: via_vals m.
Proof.
  unfold add_via, via_vals. cbn [m_headers with_headers].
  apply (hvals_insert_first (s2b "Via") {| h_name := s2b "Via"; h_val := HVia [v] |}). vm_compute. reflexivity.
Qed.
Lemma via_vals_add_record_route r m : via_vals (add_record_route r m) = via_vals m.
Proof.
  unfold add_record_route, via_vals. cbn [m_headers with_headers].
  apply hvals_insert_other. vm_compute. reflexivity.
Qed.
Definition own_via (e : env) (t : stransport) : via_param :=
  via_set_param (s2b "branch") (e_branch e) (create_via_param (t_proto t) (t_addr t) (t_port t)).
Definition fwd_msg (e : env) (t0 : stransport) (m1 : message) : message :=
  px_add_record_route (pa_must_rr (wire_proxy (e_lc e))) t0 (px_add_via e t0 m1).
Lemma fwd_msg_top e t0 m1 : top_via_of (fwd_msg e t0 m1) = Ok (own_via e t0).
Proof.
  rewrite top_via_of_vals. unfold fwd_msg, px_add_record_route, px_add_via.
  destruct (_ && _)%bool; [|rewrite via_vals_add_record_route]; rewrite via_vals_add_via; reflexivity.
Qed.
Lemma own_via_branch e t : via_get_branch (own_via e t) = Some (e_branch e).
Proof. unfold own_via, via_get_branch, via_set_param, create_via_param. cbn. reflexivity. Qed.
Lemma fwd_msg_keeps e t0 m1 : keeps NP m1 (fwd_msg e t0 m1).
Proof.
  unfold fwd_msg. eapply keeps_trans; [apply keeps_px_add_via; apply NP_novia|].
  apply keeps_px_add_record_route. apply NP_names.
Qed.
Lemma fwd_msg_tid e t0 m1 :
  tid_of (fwd_msg e t0 m1) = let! c := snd (s_get_cseq m1) in Ok (cs_method c ++ "-"%char :: e_branch e).
Proof.
  unfold tid_of. rewrite fwd_msg_top, (k_cseq NP m1 _ (fwd_msg_keeps e t0 m1) ltac:(in_names)).
  destruct (snd (s_get_cseq m1)); cbn; reflexivity.
Qed.

(* sendToBackend as a function of the views (the bytes are those of the relayed message) *)
Definition stb_sel (e : env) (p : pstate) (m : message) : pstate * bref :=
  let '(p1, ob) := match fbd_pure e p m with Ok v => v | _ => (p, None) end in
  (p1, match ob with Some b => b | None => BRR end).
Definition fwd_bytes (e : env) (t0 : stransport) (p : pstate) (m : message) : bytes :=
  write_message (fwd_msg e t0 (fst (find_backend_by_dialog e p m))).
Definition trans_key (e : env) (c : cseq) : bytes := cs_method c ++ "-"%char :: e_branch e.
Definition stb_pure (e : env) (t0 : stransport) (p : pstate) (m : message) : pstate * list output :=
  let '(p1, b) := stb_sel e p m in
  let '(p2, outs, ok) := backend_send b (fwd_bytes e t0 p m) p1 in
  if ok then
    (match snd (s_get_cseq m) with
     | Ok c => with_pins p2 (pins_add (e_now e) (trans_key e c) (bref_val b) (get_expires m 0) (ps_pins p2))
     | _ => p2
     end, outs)
  else (p2, []).
Lemma send_to_backend_spec e m x t0 : ps_has_rr (x_p x) = true -> first_transport (e_lc e) = Some t0 ->
  let x' := fst (send_to_backend e m x) in
  x_p x' = fst (stb_pure e t0 (x_p x) m) /\ x_outs x' = x_outs x ++ snd (stb_pure e t0 (x_p x) m) /\
  x_learned x' = x_learned x /\ x_conns x' = x_conns x /\ x_world x' = x_world x.
Proof.
  intros HR FT. unfold send_to_backend, stb_pure, stb_sel, fwd_bytes. rewrite HR, FT. cbn [negb].
  destruct (fbd_run e (x_p x) m) as (m1 & E1 & K1). rewrite E1. cbn [fst].
  destruct (match fbd_pure e (x_p x) m with Ok v => v | _ => (x_p x, None) end) as [p1 ob].
  set (b := match ob with Some b => b | None => BRR end). fold (fwd_msg e t0 m1).
  destruct (backend_send b (write_message (fwd_msg e t0 m1)) p1) as [[p2 outs] ok].
  destruct ok; cbn [fst snd x_p x_outs x_learned x_conns x_world].
  2:{ rewrite app_nil_r. repeat split. }
  pose proof (mtry_snd s_client_transaction (fwd_msg e t0 m1)) as S3.
  pose proof (pres_try names _ P_tid (fwd_msg e t0 m1)) as K3.
  destruct (mtry s_client_transaction (fwd_msg e t0 m1)) as [m3 tid]. cbn [fst snd] in S3, K3.
  rewrite s_client_transaction_snd, fwd_msg_tid, (k_cseq names m m1 K1 ltac:(in_names)) in S3. subst tid.
  cbn [fst snd x_p x_outs x_learned x_conns x_world]. repeat split.
  assert (KE : get_expires m3 0 = get_expires m 0).
  { assert (K : keeps NQ m m3).
    { eapply keeps_trans; [eapply keeps_incl; [apply NQ_names|exact K1]|].
      eapply keeps_trans; [eapply keeps_incl; [apply NQ_NP|apply fwd_msg_keeps]|].
      eapply keeps_incl; [apply NQ_names|exact K3]. }
    apply (k_expires NQ m m3 K). in_names. }
  destruct (snd (s_get_cseq m)) as [c| |]; cbn [rbind opt_res]; [|reflexivity|reflexivity].
  rewrite KE. reflexivity.
Qed.

Definition req_method (m : message) : bytes := match m_start m with SReq meth _ _ => meth | _ => [] end.
Lemma method_of_request m : is_request m = true -> method_of m = Ok (req_method m).
Proof. unfold is_request, method_of, req_method. destruct (m_start m); [reflexivity|discriminate]. Qed.
Lemma get_raw_not_panic n m : get_raw n m <> Panic.
Proof. unfold get_raw. destruct (get_header n (m_headers m)) as [h|]; [destruct (h_val h)|]; discriminate. Qed.

Definition to_addr_outs (a : bytes) (b : bytes) : list output :=
  match addr_dest a with Some d => [(d, b)] | None => [] end.
Lemma backend_send_obj a g b p : In (a, g) (ps_backends p) ->
  backend_send (BObj a g) b p = (p, if fits_datagram b then to_addr_outs a b else [], fits_datagram b).
Proof.
  intros HI. unfold backend_send, to_addr_outs, addr_dest.
  assert (E : existsb (fun '(a', g') => beq a a' && Nat.eqb g g') (ps_backends p) = true).
  { apply existsb_exists. exists (a, g). split; [exact HI|]. rewrite beq_refl, Nat.eqb_refl. reflexivity. }
  rewrite E. cbn [andb]. destruct (fits_datagram b); [|reflexivity].
  destruct (last_index_byte ":"%char a); reflexivity.
Qed.
Lemma backend_send_obj_dead a g b p : ~ In (a, g) (ps_backends p) -> backend_send (BObj a g) b p = (p, [], false).
Proof.
  intros HI. unfold backend_send.
  assert (E : existsb (fun '(a', g') => beq a a' && Nat.eqb g g') (ps_backends p) = false).
  { apply not_true_is_false. intros H. apply existsb_exists in H. destruct H as ([a' g'] & H1 & H2).
    apply andb_true_iff in H2. destruct H2 as [H2 H3]. apply beq_eq in H2. apply Nat.eqb_eq in H3. subst. contradiction. }
  rewrite E. reflexivity.
Qed.
Lemma backend_send_rr b p :
  backend_send BRR b p =
  (with_rr p (fst (rr_dispatch (ps_rr p))),
   match snd (rr_dispatch (ps_rr p)) with Some a => if fits_datagram b then to_addr_outs a b else [] | None => [] end,
   match snd (rr_dispatch (ps_rr p)) with Some a => fits_datagram b | None => false end).
Proof.
  unfold backend_send, to_addr_outs, addr_dest. destruct (rr_dispatch (ps_rr p)) as [r' o]. cbn [fst snd].
  destruct o as [a|]; [|reflexivity]. destruct (fits_datagram b); [|reflexivity].
  destruct (last_index_byte ":"%char a); reflexivity.
Qed.

(* the selection made for a request of a live-pinned dialog *)
Lemma stb_sel_pinned e p m d addr g ex :
  fx_indialog_invite (e_fx e) = true -> is_request m = true -> dialog_of m = Ok d ->
  pin_at d (pin_val_backend addr g) ex (ps_pins p) -> e_now e < ex -> gen_ok g ->
  alookup addr (ps_backends p) = Some g ->
  stb_sel e p m =
  (if notify_terminated (req_method m) m
   then with_pins (with_pins p (ps_pins p)) (pins_remove d (ps_pins p)) else with_pins p (ps_pins p),
   BObj addr g).
Proof.
  intros FX R D P L G A. unfold stb_sel, fbd_pure. rewrite (method_of_request m R), FX, D. cbn [negb andb].
  rewrite (pin_at_get_live d _ ex (e_now e) (ps_pins p) P L). cbn [fst snd option_map].
  rewrite (bref_of_val_backend addr g G).
  rewrite (bref_alive_registered (with_pins p (ps_pins p)) addr g A). cbn [negb]. rewrite andb_false_r.
  pose proof (get_raw_not_panic (s2b "Subscription-State") m) as NP.
  destruct (get_raw (s2b "Subscription-State") m) eqn:E; try contradiction; reflexivity.
Qed.

Theorem C04_sticky_step : forall e m x t0 d addr g ex dst,
  fx_indialog_invite (e_fx e) = true ->
  ps_has_rr (x_p x) = true -> first_transport (e_lc e) = Some t0 ->
  is_request m = true -> dialog_of m = Ok d ->
  pin_at d (pin_val_backend addr g) ex (ps_pins (x_p x)) -> e_now e < ex ->
  alookup addr (ps_backends (x_p x)) = Some g -> gen_ok g -> addr_dest addr = Some dst ->
  let b := fwd_bytes e t0 (x_p x) m in
  let x' := fst (send_to_backend e m x) in
  (* exactly one datagram, to the pinned backend (none at all if it exceeds a datagram) *)
  x_outs x' = x_outs x ++ (if fits_datagram b then [(dst, b)] else []) /\
  (* the rotation did not move, the members did not change *)
  ps_rr (x_p x') = ps_rr (x_p x) /\ ps_backends (x_p x') = ps_backends (x_p x) /\
  (* the pin stays, except after a terminating NOTIFY which removes it after having used it *)
  ((forall c, snd (s_get_cseq m) = Ok c -> trans_key e c <> d) ->
   if notify_terminated (req_method m) m
   then alookup d (p_tab (ps_pins (x_p x'))) = None
   else pin_at d (pin_val_backend addr g) ex (ps_pins (x_p x'))).
Proof.
  intros e m x t0 d addr g ex dst FX HR FT R D P L A G AD b x'.
  destruct (send_to_backend_spec e m x t0 HR FT) as (EP & EO & _). fold x' in EP, EO.
  unfold stb_pure in EP, EO. rewrite (stb_sel_pinned e (x_p x) m d addr g ex FX R D P L G A) in EP, EO.
  fold b in EP, EO.
  set (p1 := if notify_terminated (req_method m) m
             then with_pins (with_pins (x_p x) (ps_pins (x_p x))) (pins_remove d (ps_pins (x_p x)))
             else with_pins (x_p x) (ps_pins (x_p x))) in *.
  assert (B1 : ps_backends p1 = ps_backends (x_p x)) by (subst p1; destruct (notify_terminated _ _); reflexivity).
  assert (R1 : ps_rr p1 = ps_rr (x_p x)) by (subst p1; destruct (notify_terminated _ _); reflexivity).
  rewrite (backend_send_obj addr g b p1) in EP, EO by (rewrite B1; apply alookup_in; exact A).
  unfold to_addr_outs in EO. rewrite AD in EO.
  destruct (fits_datagram b); cbn [fst snd] in EP, EO.
  - split; [exact EO|]. rewrite EP.
    split; [destruct (snd (s_get_cseq m)); exact R1|]. split; [destruct (snd (s_get_cseq m)); exact B1|].
    intros NK. subst p1. destruct (notify_terminated (req_method m) m).
    + destruct (snd (s_get_cseq m)) as [c| |] eqn:EC; cbn [ps_pins with_pins pins_remove p_tab];
        try apply alookup_adel_same.
      unfold pins_add. cbn [p_tab p_timeout p_next_clean].
      assert (H0 : alookup d (aset (trans_key e c)
                     {| pin_backend := bref_val (BObj addr g);
                        pin_expire := e_now e + pins_lifetime (pins_remove d (ps_pins (x_p x))) (get_expires m 0) |}
                     (adel d (p_tab (ps_pins (x_p x))))) = None).
      { rewrite alookup_aset_other by (intros H; apply (NK c eq_refl); symmetry; exact H). apply alookup_adel_same. }
      destruct (_ <? _); cbn [p_tab]; [apply C15.alookup_clean_none|]; exact H0.
    + destruct (snd (s_get_cseq m)) as [c| |] eqn:EC; cbn [ps_pins with_pins]; try exact P.
      apply pin_at_add_other; [apply (NK c eq_refl)|lia|exact P].
  - split; [exact EO|]. rewrite EP. split; [exact R1|]. split; [exact B1|].
    intros _. subst p1. destruct (notify_terminated (req_method m) m); cbn [ps_pins with_pins pins_remove p_tab].
    + apply alookup_adel_same.
    + exact P.
Qed.

(* the same step for a request arriving from the other party: From/To exchanged, same dialog *)
Corollary C04_sticky_step_reverse : forall e m m' x t0 d addr g ex dst cid f t f' t',
  get_raw (s2b "Call-ID") m = Ok cid -> get_raw (s2b "Call-ID") m' = Ok cid ->
  snd (s_get_from m) = Ok f -> snd (s_get_to m) = Ok t ->
  snd (s_get_from m') = Ok f' -> snd (s_get_to m') = Ok t' ->
  fromto_tag f' = fromto_tag t -> fromto_tag t' = fromto_tag f ->
  dialog_addr (fromto_addr_spec f') = dialog_addr (fromto_addr_spec t) ->
  dialog_addr (fromto_addr_spec t') = dialog_addr (fromto_addr_spec f) ->
  dialog_of m = Ok d ->
  fx_indialog_invite (e_fx e) = true -> ps_has_rr (x_p x) = true -> first_transport (e_lc e) = Some t0 ->
  is_request m' = true ->
  pin_at d (pin_val_backend addr g) ex (ps_pins (x_p x)) -> e_now e < ex ->
  alookup addr (ps_backends (x_p x)) = Some g -> gen_ok g -> addr_dest addr = Some dst ->
  let b := fwd_bytes e t0 (x_p x) m' in
  let x' := fst (send_to_backend e m' x) in
  x_outs x' = x_outs x ++ (if fits_datagram b then [(dst, b)] else []) /\
  ps_rr (x_p x') = ps_rr (x_p x) /\ ps_backends (x_p x') = ps_backends (x_p x).
Proof.
  intros e m m' x t0 d addr g ex dst cid f t f' t' C C' F T F' T' E1 E2 A1 A2 D FX HR FT R P L A G AD.
  assert (D' : dialog_of m' = Ok d) by (rewrite (dialog_of_symmetric m m' cid f t f' t'); assumption).
  destruct (C04_sticky_step e m' x t0 d addr g ex dst FX HR FT R D' P L A G AD) as (H1 & H2 & H3 & _).
  repeat split; assumption.
Qed.

(* ================================================================== Part 6: preservation *)
(* membership half: unchanged by every message *)
Definition mem_eq (p p' : pstate) : Prop :=
  ps_backends p' = ps_backends p /\ ps_has_rr p' = ps_has_rr p /\ ps_gen p' = ps_gen p.
Lemma mem_refl p : mem_eq p p. Proof. repeat split. Qed.
Lemma mem_trans a b c : mem_eq a b -> mem_eq b c -> mem_eq a c.
Proof. unfold mem_eq. intros (A1&A2&A3) (B1&B2&B3). repeat split; congruence. Qed.
Lemma mem_of_lb p p' : lb_eq p p' -> mem_eq p p'.
Proof. unfold lb_eq, mem_eq. intros (A1&A2&A3&A4&A5). repeat split; assumption. Qed.
Lemma mem_of_static p p' : static_eq p p' -> mem_eq p p'.
Proof. unfold static_eq, mem_eq. intros (A1&A2&A3&A4&A5). repeat split; assumption. Qed.

Lemma stb_sel_mem e p m : mem_eq p (fst (stb_sel e p m)) /\ ps_rr (fst (stb_sel e p m)) = ps_rr p.
Proof.
  unfold stb_sel, fbd_pure.
  destruct (method_of m) as [meth| |]; try (split; [apply mem_refl|reflexivity]).
  destruct (_ && _)%bool; [split; [apply mem_refl|reflexivity]|].
  destruct (dialog_of m) as [d| |]; try (split; [apply mem_refl|reflexivity]).
  cbv zeta. destruct (_ && _)%bool; [split; [repeat split|reflexivity]|].
  destruct (get_raw _ m); cbn [fst]; try (split; [apply mem_refl|reflexivity]);
    destruct (notify_terminated meth m); split; try reflexivity; repeat split.
Qed.
(* the pin of d survives the selection when the object it names is still registered (a pin whose
   object has left the set is forgotten by the request of its own dialog) *)
Lemma stb_sel_pin e p m d v ex : is_request m = true ->
  pin_at d v ex (ps_pins p) -> e_now e < ex ->
  bref_alive p (bref_of_val v) = true ->
  (dialog_of m = Ok d -> notify_terminated (req_method m) m = false) ->
  pin_at d v ex (ps_pins (fst (stb_sel e p m))).
Proof.
  intros R P L AL NT. unfold stb_sel, fbd_pure. rewrite (method_of_request m R).
  destruct (_ && _)%bool; [exact P|].
  destruct (dialog_of m) as [d'| |]; try exact P.
  pose proof (get_raw_not_panic (s2b "Subscription-State") m) as NP.
  assert (P1 : pin_at d v ex (fst (pins_get (e_now e) d' (ps_pins p)))) by (apply pin_at_get; assumption).
  cbv zeta. destruct (fx_stale_pin (e_fx e) && _)%bool eqn:ST.
  { cbn [fst ps_pins with_pins]. apply pin_at_remove_other; [|exact P1].
    intros ->. rewrite (pin_at_get_live d v ex (e_now e) (ps_pins p) P L) in ST. cbn [fst snd] in ST.
    rewrite (bref_alive_backends p (with_pins p (ps_pins p)) (bref_of_val v) eq_refl), AL in ST.
    rewrite andb_false_r in ST. discriminate ST. }
  assert (G : pin_at d v ex (ps_pins
            (if notify_terminated (req_method m) m
             then with_pins (with_pins p (fst (pins_get (e_now e) d' (ps_pins p))))
                    (pins_remove d' (ps_pins (with_pins p (fst (pins_get (e_now e) d' (ps_pins p))))))
             else with_pins p (fst (pins_get (e_now e) d' (ps_pins p)))))).
  { destruct (notify_terminated (req_method m) m) eqn:EN; cbn [ps_pins with_pins]; [|exact P1].
    apply pin_at_remove_other; [|exact P1]. intros E. subst d'. discriminate (NT eq_refl). }
  destruct (get_raw (s2b "Subscription-State") m); try contradiction; exact G.
Qed.
(* sendToBackend for ANY request keeps the pin of d, provided the pinned object is still registered, it is not
   the terminating NOTIFY of d and its transaction key is not d *)
Lemma stb_pin_preserved e t0 p m d v ex : is_request m = true ->
  pin_at d v ex (ps_pins p) -> e_now e < ex ->
  bref_alive p (bref_of_val v) = true ->
  (forall c, snd (s_get_cseq m) = Ok c -> trans_key e c <> d) ->
  (dialog_of m = Ok d -> notify_terminated (req_method m) m = false) ->
  pin_at d v ex (ps_pins (fst (stb_pure e t0 p m))) /\ mem_eq p (fst (stb_pure e t0 p m)).
Proof.
  intros R P L AL NK NT. unfold stb_pure.
  pose proof (stb_sel_pin e p m d v ex R P L AL NT) as P1. pose proof (stb_sel_mem e p m) as [M1 _].
  destruct (stb_sel e p m) as [p1 b]. cbn [fst] in P1, M1.
  assert (B : forall bytes_, ps_pins (fst (fst (backend_send b bytes_ p1))) = ps_pins p1 /\
                             mem_eq p1 (fst (fst (backend_send b bytes_ p1)))).
  { intros bytes_. unfold backend_send. destruct b as [a g|].
    - destruct (_ && _)%bool; split; try reflexivity; apply mem_refl.
    - destruct (rr_dispatch (ps_rr p1)) as [r' o]. destruct o as [a|]; [destruct (fits_datagram bytes_)|];
        split; try reflexivity; repeat split. }
  specialize (B (fwd_bytes e t0 p m)).
  destruct (backend_send b (fwd_bytes e t0 p m) p1) as [[p2 outs] ok]. cbn [fst] in B. destruct B as [B1 B2].
  assert (M2 : mem_eq p p2) by (eapply mem_trans; eassumption).
  destruct ok; cbn [fst]; [|rewrite B1; split; assumption].
  destruct (snd (s_get_cseq m)) as [c| |] eqn:EC; try (rewrite B1; split; assumption).
  cbn [ps_pins with_pins]. split.
  - apply pin_at_add_other; [apply (NK c eq_refl)|lia|rewrite B1; exact P1].
  - eapply mem_trans; [exact M2|]. repeat split.
Qed.

(* ---- the Route set of a request: nothing left to follow once the proxy's own entry is consumed ---- *)
Definition pr (v : hval) : option (list route_param) := match v with HRoute l => Some l | _ => None end.
Definition sem_route (v : hval) : res (list route_param) := semg pr parse_route v.
Definition own_route (c : cfg) (from : stransport) (rp : route_param) : bool :=
  match na_addr (r_addr rp) with
  | ASip u => Z.eqb (sip_uri_get_port u) (t_port from) && is_same_address c (u_host u) (t_addr from)
  | AAbs _ => false
  end.
(* no Route header at all, or exactly one Route header with exactly one entry, which designates
   the receiving listener (tryRemoveTopRoute consumes it) *)
Definition route_consumed (c : cfg) (from : stransport) (m : message) : Prop :=
  hvals (s2b "Route") (m_headers m) = [] \/
  exists v0 rp, hvals (s2b "Route") (m_headers m) = [v0] /\ sem_route v0 = Ok [rp] /\ own_route c from rp = true.
Lemma sem_route_vrel v v' : vrel (s2b "Route") v v' -> sem_route v' = sem_route v.
Proof. intros [->|H]; [reflexivity|]. apply (proj1 ok_route). exact H. Qed.
Lemma route_consumed_keeps N c from m m' : keeps N m m' -> In (s2b "Route") N ->
  route_consumed c from m -> route_consumed c from m'.
Proof.
  intros [_ K] HN HC. specialize (K _ HN). unfold hrel in K.
  remember (hvals (s2b "Route") (m_headers m')) as l' eqn:EL.
  destruct HC as [H|(v0 & rp & H & S & O)]; rewrite H in K.
  - left. rewrite <- EL. apply (F2_nil _ _ K).
  - right. destruct (F2_single _ _ _ K) as (b & E1 & Hab).
    exists b, rp. split; [rewrite <- EL; exact E1|].
    split; [rewrite (sem_route_vrel v0 b Hab); exact S|exact O].
Qed.
Lemma typed_get_vals {A} n (proj : hval -> option A) parse inj m :
  hvals n (m_headers (fst (typed_get n proj parse inj m))) =
  match hvals n (m_headers m) with
  | v :: r => match proj v with
              | Some _ => v :: r
              | None => match v with
                        | HRaw s => match parse s with Ok a => inj a :: r | _ => v :: r end
                        | _ => v :: r
                        end
              end
  | [] => []
  end.
Proof.
  unfold typed_get. pose proof (get_header_hvals n (m_headers m)) as E.
  destruct (hvals n (m_headers m)) as [|v r] eqn:Ev;
    destruct (get_header n (m_headers m)) as [h|]; cbn [option_map hd_error] in E; try discriminate.
  - cbn [fst]. exact Ev.
  - injection E as E. rewrite E. destruct (proj v); [cbn [fst]; exact Ev|].
    destruct v as [s|l|l|l|f|f|c]; cbn [fst]; try exact Ev.
    destruct (parse s) as [a| |]; cbn [fst]; try exact Ev.
    unfold set_val. cbn [m_headers with_headers]. rewrite hvals_update_same, Ev. reflexivity.
Qed.
Lemma try_remove_consumes c from m : route_consumed c from m ->
  hvals (s2b "Route") (m_headers (fst (mtry (try_remove_top_route c from) m))) = [].
Proof.
  intros [H|(v0 & rp & H & S & O)]; rewrite mtry_fst; unfold try_remove_top_route, mbind.
  - assert (G : s_get_route m = (m, Err)).
    { unfold s_get_route, typed_get. pose proof (get_header_hvals (s2b "Route") (m_headers m)) as Eh.
      rewrite H in Eh. destruct (get_header (s2b "Route") (m_headers m)); [discriminate|reflexivity]. }
    rewrite G. cbn [fst]. exact H.
  - pose proof (typed_get_vals (s2b "Route") pr parse_route HRoute m) as G.
    pose proof (typed_get_snd (s2b "Route") pr parse_route HRoute m) as Sn.
    change (typed_get (s2b "Route") pr parse_route HRoute) with s_get_route in G, Sn.
    rewrite H in G, Sn. cbn [hd_error] in Sn. fold (sem_route v0) in Sn. rewrite S in Sn.
    destruct (s_get_route m) as [m1 r]. cbn [fst snd] in G, Sn. subst r.
    assert (G1 : hvals (s2b "Route") (m_headers m1) = [HRoute [rp]]).
    { rewrite G. unfold sem_route, semg in S. destruct v0 as [s|l|l|l|f|f|c0]; cbn in S; try discriminate.
      - cbn [pr]. rewrite S. reflexivity.
      - injection S as ->. reflexivity. }
    unfold own_route in O. destruct (na_addr (r_addr rp)) as [u|s]; [|discriminate]. rewrite O.
    unfold s_pop_route, mbind.
    pose proof (typed_get_vals (s2b "Route") pr parse_route HRoute m1) as G2.
    pose proof (typed_get_snd (s2b "Route") pr parse_route HRoute m1) as S2.
    change (typed_get (s2b "Route") pr parse_route HRoute) with s_get_route in G2, S2.
    rewrite G1 in G2, S2. cbn [pr hd_error semg] in G2, S2.
    destruct (s_get_route m1) as [m2 r2]. cbn [fst snd] in G2, S2. subst r2.
    unfold mmodify. cbn [fst m_headers with_headers]. rewrite hvals_remove_same, G2. reflexivity.
Qed.

(* ---- a request through handleRawMessage: what reaches HandleMessage ---- *)
Definition pm_tail (e : env) (peer : bytes) (peer_port : Z) (from : stransport) (m3 : message) (p1 : pstate)
           (l1 : learned) (x : ctx) : res ctx :=
  let m4 := fst (mtry (try_remove_top_route (e_cfg e) from) m3) in
  let '(m5, p2) :=
    if is_response m4 then
      let '(m', r) := handle_dialog e peer peer_port p1 m4 in
      (m', match r with Ok p' => p' | _ => p1 end)
    else (m4, p1) in
  let x1 := {| x_learned := l1; x_p := p2; x_conns := x_conns x; x_world := x_world x; x_outs := x_outs x |} in
  Ok (fst (handle_message e from m5 x1)).
Lemma pm_tail_spec e peer port from m3 p1 l1 x x' m :
  keeps NP m m3 -> is_request m = true -> lb_eq (x_p x) p1 ->
  pm_tail e peer port from m3 p1 l1 x = Ok x' ->
  exists m4 x1, keeps NQ m m4 /\
                (route_consumed (e_cfg e) from m -> hvals (s2b "Route") (m_headers m4) = []) /\
                lb_eq (x_p x) (x_p x1) /\ x_outs x1 = x_outs x /\ x' = fst (handle_message e from m4 x1).
Proof.
  intros K R LB. unfold pm_tail.
  pose proof (pres_try NQ _ (pres_try_remove_top_route NQ (e_cfg e) from NQ_noroute) m3) as K4.
  set (m4 := fst (mtry (try_remove_top_route (e_cfg e) from) m3)) in *.
  assert (K04 : keeps NQ m m4) by (eapply keeps_trans; [eapply keeps_incl; [apply NQ_NP|exact K]|exact K4]).
  assert (R4 : is_response m4 = false) by (rewrite (k_is_response NQ m m4 K04); unfold is_response; rewrite R; reflexivity).
  rewrite R4. intros H. injection H as <-.
  eexists m4, _. split; [exact K04|]. split; [|split; [|split; [|reflexivity]]]; [|exact LB|reflexivity].
  intros HR. subst m4. apply try_remove_consumes.
  apply (route_consumed_keeps NP (e_cfg e) from m m3 K); [in_names|exact HR].
Qed.

Lemma process_message_request e peer port from rs tcp m x x' : is_request m = true ->
  process_message e peer port from rs tcp m x = Ok x' ->
  exists m4 x1, keeps NQ m m4 /\
                (route_consumed (e_cfg e) from m -> hvals (s2b "Route") (m_headers m4) = []) /\
                lb_eq (x_p x) (x_p x1) /\ x_outs x1 = x_outs x /\ x' = fst (handle_message e from m4 x1).
Proof.
  intros R. unfold process_message. rewrite R. cbn [andb].
  set (ML := if negb (amem peer (ps_backends (x_p x))) then _ else _).
  assert (K1 : keeps NP m (fst ML)).
  { subst ML. destruct (negb _); [|apply keeps_refl].
    pose proof (pres_all_via_params NP NP_novia m) as K. destruct (s_all_via_params m) as [m' vs]. exact K. }
  destruct ML as [m1 l1]. cbn [fst] in K1.
  assert (R1 : is_request m1 = true) by (rewrite (k_is_request NP m m1 K1); exact R).
  rewrite R1. cbn [andb].
  set (m2 := if rs then fst (s_set_received peer port m1) else m1).
  assert (K2 : keeps NP m m2).
  { subst m2. destruct rs; [|exact K1]. eapply keeps_trans; [exact K1|]. apply pres_set_received. apply NP_novia. }
  assert (R2 : is_request m2 = true) by (rewrite (k_is_request NP m m2 K2); exact R).
  clearbody m2. clear K1 R1 m1.
  destruct tcp as [c|].
  2:{ exact (pm_tail_spec e peer port from m2 (x_p x) l1 x x' m K2 R (lb_refl _)). }
  rewrite R2.
  pose proof (pres_try names _ (pres_next_response_hop names all_names_incl) m2) as K3.
  destruct (mtry next_response_hop m2) as [m' hop]. cbn [fst] in K3.
  assert (K03 : keeps NP m m') by (eapply keeps_trans; [exact K2|eapply keeps_incl; [apply NP_names|exact K3]]).
  destruct hop as [oh| |]; try exact (pm_tail_spec e peer port from m' (x_p x) l1 x x' m K03 R (lb_refl _)).
  match goal with |- context [match ?B with Ok _ => _ | Err => _ | Panic => _ end] => destruct B as [host| |] end.
  2:{ discriminate. }
  2:{ discriminate. }
  destruct oh as [[[h0 pt] tr0]|]; [|exact (pm_tail_spec e peer port from m' (x_p x) l1 x x' m K03 R (lb_refl _))].
  pose proof (pres_try names _ P_tid m') as K4.
  destruct (mtry s_client_transaction m') as [m'' tid]. cbn [fst] in K4.
  assert (K04 : keeps NP m m'') by (eapply keeps_trans; [exact K03|eapply keeps_incl; [apply NP_names|exact K4]]).
  destruct tid as [[t|]| |]; try exact (pm_tail_spec e peer port from m'' (x_p x) l1 x x' m K04 R (lb_refl _)).
  set (host_r := if fx_resolved_key (e_fx e)
                 then match get_ip (e_cfg e) host with Some i => i | None => host end else host).
  pose proof (lb_get_transport (now_s e) (s2b "tcp") host_r pt t (x_p x)) as G.
  destruct (get_transport (now_s e) (s2b "tcp") host_r pt t (x_p x)) as [p1 rk]. cbn [fst] in G.
  destruct rk as [key| |]; try exact (pm_tail_spec e peer port from m'' p1 l1 x x' m K04 R G).
  apply (pm_tail_spec e peer port from m'' _ l1 x x' m K04 R).
  eapply lb_trans; [exact G|apply lb_set_primary].
Qed.

Lemma is_my_message_start n from m m' : m_start m' = m_start m -> is_my_message n from m' = is_my_message n from m.
Proof. unfold is_my_message. intros ->. reflexivity. Qed.

(* HandleMessage on a request: relayed along a Route / static route, or handed to sendToBackend, or dropped *)
Definition hop_result (e : env) (m : message) : res (bytes * Z * bytes) :=
  snd (next_request_hop (c_keep_next_hop (e_cfg e)) (route_table_of (e_cfg e)) m).
Definition for_service (e : env) (from : stransport) (m : message) : bool :=
  match hop_result e m with Ok _ => false | _ => is_my_message (new_my_name (c_name (e_cfg e))) from m end.
Lemma handle_message_request e from m x : is_request m = true ->
  let x' := fst (handle_message e from m x) in
  match hop_result e m with
  | Ok _ => lb_eq (x_p x) (x_p x')
  | _ => if is_my_message (new_my_name (c_name (e_cfg e))) from m
         then exists m', keeps NQ m m' /\ x' = fst (send_to_backend e m' x)
         else x' = x
  end.
Proof.
  intros R. unfold handle_message, hop_result. rewrite R.
  pose proof (pres_next_request_hop NQ (c_keep_next_hop (e_cfg e)) (route_table_of (e_cfg e)) NQ_noroute m) as K.
  destruct (next_request_hop (c_keep_next_hop (e_cfg e)) (route_table_of (e_cfg e)) m) as [m1 r]. cbn [fst snd] in *.
  rewrite (is_my_message_start _ from m m1 (proj1 K)).
  destruct r as [[[host port] tr]| |].
  - apply lb_send_message.
  - destruct (is_my_message _ from m); [exists m1; split; [exact K|reflexivity]|reflexivity].
  - destruct (is_my_message _ from m); [exists m1; split; [exact K|reflexivity]|reflexivity].
Qed.

Lemma req_method_keeps N m m' : keeps N m m' -> req_method m' = req_method m.
Proof. intros [S _]. unfold req_method. rewrite S. reflexivity. Qed.
Lemma notify_terminated_keeps N meth m m' : keeps N m m' -> In (s2b "Subscription-State") N ->
  notify_terminated meth m' = notify_terminated meth m.
Proof. intros K H. unfold notify_terminated. rewrite (k_substate N m m' K H). reflexivity. Qed.

Lemma send_to_backend_pin e m x d v ex : is_request m = true ->
  pin_at d v ex (ps_pins (x_p x)) -> e_now e < ex ->
  bref_alive (x_p x) (bref_of_val v) = true ->
  (forall c, snd (s_get_cseq m) = Ok c -> trans_key e c <> d) ->
  (dialog_of m = Ok d -> notify_terminated (req_method m) m = false) ->
  pin_at d v ex (ps_pins (x_p (fst (send_to_backend e m x)))) /\ mem_eq (x_p x) (x_p (fst (send_to_backend e m x))).
Proof.
  intros R P L AL NK NT.
  destruct (ps_has_rr (x_p x)) eqn:HR.
  2:{ unfold send_to_backend. rewrite HR. cbn. split; [exact P|apply mem_refl]. }
  destruct (first_transport (e_lc e)) as [t0|] eqn:FT.
  2:{ unfold send_to_backend. rewrite HR, FT. cbn. split; [exact P|apply mem_refl]. }
  destruct (send_to_backend_spec e m x t0 HR FT) as (EP & _). rewrite EP.
  apply stb_pin_preserved; assumption.
Qed.

(* any request whatsoever, end to end *)
Lemma request_pin_preserved e peer port from rs tcp m x x' d v ex : is_request m = true ->
  process_message e peer port from rs tcp m x = Ok x' ->
  pin_at d v ex (ps_pins (x_p x)) -> e_now e < ex ->
  bref_alive (x_p x) (bref_of_val v) = true ->
  (forall c, snd (s_get_cseq m) = Ok c -> trans_key e c <> d) ->
  (dialog_of m = Ok d -> notify_terminated (req_method m) m = false) ->
  pin_at d v ex (ps_pins (x_p x')) /\ mem_eq (x_p x) (x_p x').
Proof.
  intros R E P L AL NK NT.
  destruct (process_message_request e peer port from rs tcp m x x' R E) as (m4 & x1 & K4 & _ & LB & _ & ->).
  assert (R4 : is_request m4 = true) by (rewrite (k_is_request NQ m m4 K4); exact R).
  assert (P1 : pin_at d v ex (ps_pins (x_p x1))) by (destruct LB as (_&_&_&_&->); exact P).
  assert (AL1 : bref_alive (x_p x1) (bref_of_val v) = true)
    by (rewrite (bref_alive_backends (x_p x) (x_p x1) _ (proj1 LB)); exact AL).
  pose proof (handle_message_request e from m4 x1 R4) as H. cbv zeta in H.
  assert (LBP : forall y, lb_eq (x_p x1) (x_p y) -> pin_at d v ex (ps_pins (x_p y)) /\ mem_eq (x_p x) (x_p y)).
  { intros y LY. split; [destruct LY as (_&_&_&_&->); exact P1|].
    eapply mem_trans; apply mem_of_lb; eassumption. }
  assert (SB : (exists m', keeps NQ m4 m' /\ fst (handle_message e from m4 x1) = fst (send_to_backend e m' x1)) ->
               pin_at d v ex (ps_pins (x_p (fst (handle_message e from m4 x1)))) /\
               mem_eq (x_p x) (x_p (fst (handle_message e from m4 x1)))).
  { intros (m' & K' & ->).
    assert (K : keeps NQ m m') by (eapply keeps_trans; eassumption).
    destruct (send_to_backend_pin e m' x1 d v ex) as [Q1 Q2].
    - rewrite (k_is_request NQ m m' K). exact R.
    - exact P1.
    - exact L.
    - exact AL1.
    - intros c Hc. apply NK. rewrite <- (k_cseq NQ m m' K) by in_names. exact Hc.
    - intros Hd. rewrite (req_method_keeps NQ m m' K), (notify_terminated_keeps NQ _ m m' K) by in_names.
      apply NT. rewrite <- (dialog_of_keeps NQ m m' K) by in_names. exact Hd.
    - split; [exact Q1|]. eapply mem_trans; [apply mem_of_lb; exact LB|exact Q2]. }
  destruct (hop_result e m4); [apply LBP; exact H| |];
    (destruct (is_my_message _ from m4); [apply SB; exact H|rewrite H; apply LBP; apply lb_refl]).
Qed.

(* ---- requests addressed to the proxy's service ---- *)
Definition static_hop (e : env) (m : message) : res (bytes * Z * bytes) :=
  let! t := snd (s_get_to m) in
  match fromto_host t with
  | None => Err
  | Some h => match find_route (route_table_of (e_cfg e)) h with
              | Some it => Ok (ri_host it, ri_port it, ri_proto it)
              | None => Err
              end
  end.
(* no Route entry to follow (none at all, or only the proxy's own), no static route for the To host,
   Request-URI designates the service *)
Definition addressed_to_service (e : env) (from : stransport) (m : message) : Prop :=
  is_request m = true /\ route_consumed (e_cfg e) from m /\
  (forall v, static_hop e m <> Ok v) /\
  is_my_message (new_my_name (c_name (e_cfg e))) from m = true.
Lemma hop_result_no_route e m : hvals (s2b "Route") (m_headers m) = [] -> hop_result e m = static_hop e m.
Proof.
  intros HR. unfold hop_result, next_request_hop, next_hop_by_route, mbind.
  assert (G : s_get_route m = (m, Err)).
  { unfold s_get_route, typed_get. pose proof (get_header_hvals (s2b "Route") (m_headers m)) as Eh.
    rewrite HR in Eh. destruct (get_header (s2b "Route") (m_headers m)); [discriminate|reflexivity]. }
  rewrite G. unfold next_hop_by_config, static_hop, mbind.
  destruct (s_get_to m) as [m1 r]. cbn [snd]. destruct r as [t| |]; try reflexivity. cbn [rbind].
  destruct (fromto_host t) as [h|]; [|reflexivity]. destruct (find_route _ h); reflexivity.
Qed.
Lemma static_hop_keeps N e m m' : keeps N m m' -> In (s2b "To") N -> static_hop e m' = static_hop e m.
Proof. intros K H. unfold static_hop. rewrite (k_to N m m' K H). reflexivity. Qed.
Lemma process_message_to_backend e peer port from rs tcp m x x' : addressed_to_service e from m ->
  process_message e peer port from rs tcp m x = Ok x' ->
  exists m' xa, keeps NQ m m' /\ lb_eq (x_p x) (x_p xa) /\ x_outs xa = x_outs x /\ x' = fst (send_to_backend e m' xa).
Proof.
  intros (R & HR & NS & MY) E.
  destruct (process_message_request e peer port from rs tcp m x x' R E) as (m4 & x1 & K4 & HR4 & LB & EO & ->).
  assert (R4 : is_request m4 = true) by (rewrite (k_is_request NQ m m4 K4); exact R).
  pose proof (handle_message_request e from m4 x1 R4) as H. cbv zeta in H.
  rewrite (hop_result_no_route e m4 (HR4 HR)), (static_hop_keeps NQ e m m4 K4 ltac:(in_names)) in H.
  rewrite (is_my_message_start _ from m m4 (proj1 K4)), MY in H.
  destruct (static_hop e m) as [v| |] eqn:ES; [exfalso; exact (NS v eq_refl)| |];
    destruct H as (m' & K' & ->); exists m', x1;
    (split; [eapply keeps_trans; eassumption|]; split; [exact LB|]; split; [exact EO|reflexivity]).
Qed.

(* ---- responses ---- *)
Definition binding_method (meth : bytes) : bool :=
  beq meth (s2b "INVITE") || beq meth (s2b "BYE") || beq meth (s2b "SUBSCRIBE").
Lemma hd_tail_pure_pin e p1 ob m d v ex p' :
  pin_at d v ex (ps_pins p1) -> e_now e <= ex ->
  (dialog_of m = Ok d -> forall meth, method_of m = Ok meth -> binding_method meth = false) ->
  hd_tail_pure e p1 ob m = Ok p' -> pin_at d v ex (ps_pins p').
Proof.
  intros P L NB. unfold hd_tail_pure. destruct ob as [b|]; [|intros H; injection H as <-; exact P].
  destruct (method_of m) as [meth| |] eqn:EM; try discriminate; [|intros H; injection H as <-; exact P].
  destruct (beq meth (s2b "INVITE")) eqn:E1.
  { destruct (dialog_of m) as [d'| |] eqn:ED; try discriminate; intros H; injection H as <-; [|exact P].
    cbn [ps_pins with_pins]. apply pin_at_add_other; [|exact L|exact P].
    intros ->. specialize (NB eq_refl meth eq_refl). unfold binding_method in NB. rewrite E1 in NB. discriminate. }
  destruct (beq meth (s2b "BYE")) eqn:E2; [|intros H; injection H as <-; exact P].
  destruct (dialog_of m) as [d'| |] eqn:ED; try discriminate; intros H; injection H as <-; [|exact P].
  cbn [ps_pins with_pins]. apply pin_at_remove_other; [|exact P].
  intros ->. specialize (NB eq_refl meth eq_refl). unfold binding_method in NB. rewrite E1, E2 in NB. discriminate.
Qed.
Lemma resp_pure_pin e peer port p m d v ex :
  pin_at d v ex (ps_pins p) -> e_now e < ex ->
  (forall t, tid_of m = Ok t -> t <> d) ->
  (dialog_of m = Ok d -> forall meth, method_of m = Ok meth -> binding_method meth = false) ->
  pin_at d v ex (ps_pins (resp_pure e peer port p m)).
Proof.
  intros P L NK NB. unfold resp_pure.
  assert (P1 : pin_at d v ex (ps_pins (match hd_pure e peer port p m with Ok p' => p' | _ => p end))).
  { destruct (hd_pure e peer port p m) as [p'| |] eqn:EH; try exact P.
    unfold hd_pure in EH. destruct (alookup _ (ps_backends p)).
    - apply (hd_tail_pure_pin e p _ m d v ex p' P ltac:(lia) NB EH).
    - destruct (tid_of m) as [tid| |] eqn:ET; try discriminate.
      refine (hd_tail_pure_pin e _ _ m d v ex p' _ ltac:(lia) NB EH). cbn [ps_pins with_pins].
      assert (P0 : pin_at d v ex (fst (pins_get (e_now e) tid (ps_pins p)))) by (apply pin_at_get; assumption).
      destruct (is_final_response m); [|exact P0]. apply pin_at_remove_other; [apply (NK tid eq_refl)|exact P0]. }
  set (p1 := match hd_pure e peer port p m with Ok p' => p' | _ => p end) in *. clearbody p1.
  unfold sub_bind_pure. destruct (relay_hop m) as [[[h pt] tr]| |]; try exact P1.
  destruct (method_of m) as [meth| |] eqn:EM; try exact P1.
  destruct (beq meth (s2b "SUBSCRIBE")) eqn:E3; [|exact P1].
  destruct (alookup _ (ps_backends p1)); [|exact P1]. destruct (dialog_of m) as [d'| |] eqn:ED; try exact P1.
  cbn [ps_pins with_pins]. apply pin_at_add_other; [|lia|exact P1].
  intros ->. specialize (NB eq_refl meth eq_refl). unfold binding_method in NB. rewrite E3 in NB.
  rewrite orb_true_r in NB. discriminate.
Qed.

(* [msg_ok d branch m]: processing m (with proxy branch [branch]) is not a terminator / re-binder for d *)
Definition msg_ok (d branch : bytes) (m : message) : Prop :=
  if is_request m then
    (forall c, snd (s_get_cseq m) = Ok c -> cs_method c ++ "-"%char :: branch <> d) /\
    (dialog_of m = Ok d -> notify_terminated (req_method m) m = false)
  else
    (forall t, tid_of m = Ok t -> t <> d) /\
    (dialog_of m = Ok d -> forall meth, method_of m = Ok meth -> binding_method meth = false).

Theorem C04_preserved_message : forall e peer port from rs tcp m x x' d v ex,
  process_message e peer port from rs tcp m x = Ok x' ->
  msg_ok d (e_branch e) m ->
  pin_at d v ex (ps_pins (x_p x)) -> e_now e < ex ->
  (* the pinned backend object is still registered (a pin whose object has left the set is forgotten
     by the next request of its dialog, C04_stale_pin_balanced) *)
  bref_alive (x_p x) (bref_of_val v) = true ->
  pin_at d v ex (ps_pins (x_p x')) /\ mem_eq (x_p x) (x_p x').
Proof.
  intros e peer port from rs tcp m x x' d v ex E OK P L AL. unfold msg_ok in OK.
  destruct (is_request m) eqn:R.
  - destruct OK as [NK NT]. eapply request_pin_preserved; eassumption.
  - destruct OK as [NK NB].
    destruct (process_message_response e peer port from rs tcp m x R) as (x2 & E2 & LB).
    rewrite E in E2. injection E2 as <-. split.
    + destruct LB as (_&_&_&_&->). apply resp_pure_pin; assumption.
    + eapply mem_trans; [apply mem_of_static; apply (resp_pure_static e peer port (x_p x) m)|apply mem_of_lb; exact LB].
Qed.

(* ---- the converse step: no live pin => the rotation decides (C05) ---- *)
Theorem C04_unpinned_step : forall e m x t0,
  ps_has_rr (x_p x) = true -> first_transport (e_lc e) = Some t0 -> is_request m = true ->
  (forall d, dialog_of m = Ok d -> snd (pins_get (e_now e) d (ps_pins (x_p x))) = None) ->
  let b := fwd_bytes e t0 (x_p x) m in
  let x' := fst (send_to_backend e m x) in
  x_outs x' = x_outs x ++
    match snd (rr_dispatch (ps_rr (x_p x))) with
    | Some a => if fits_datagram b then to_addr_outs a b else []
    | None => []
    end /\
  ps_rr (x_p x') = fst (rr_dispatch (ps_rr (x_p x))).
Proof.
  intros e m x t0 HR FT R NP b x'.
  destruct (send_to_backend_spec e m x t0 HR FT) as (EP & EO & _). fold x' in EP, EO.
  unfold stb_pure in EP, EO. fold b in EP, EO.
  pose proof (stb_sel_mem e (x_p x) m) as [_ RR].
  assert (S : snd (stb_sel e (x_p x) m) = BRR).
  { unfold stb_sel, fbd_pure. rewrite (method_of_request m R).
    destruct (_ && _)%bool; [reflexivity|].
    destruct (dialog_of m) as [d| |] eqn:ED; try reflexivity. rewrite (NP d eq_refl).
    cbv beta iota zeta. rewrite andb_false_r.
    destruct (get_raw _ m); reflexivity. }
  destruct (stb_sel e (x_p x) m) as [p1 sel]. cbn [fst snd] in RR, S. subst sel.
  rewrite backend_send_rr in EP, EO. rewrite RR in EP, EO.
  destruct (snd (rr_dispatch (ps_rr (x_p x)))) as [a|]; cbn [fst snd] in EP, EO.
  - destruct (fits_datagram b); cbn [fst snd] in EP, EO; (split; [exact EO|]); rewrite EP;
      try destruct (snd (s_get_cseq m)); reflexivity.
  - split; [exact EO|]. rewrite EP. reflexivity.
Qed.

(* ---- a live pin whose backend OBJECT has left the set (removed by the resolver, socket closed): the binding is
   forgotten and the request is balanced like one of an unknown dialog (Proxy.findBackendByDialog + isRegisteredBackend),
   instead of being written on the closed backend and lost ---- *)
Lemma pins_add_absent d now k bv ee p : k <> d -> alookup d (p_tab p) = None ->
  alookup d (p_tab (pins_add now k bv ee p)) = None.
Proof.
  intros NE H. unfold pins_add.
  assert (H0 : alookup d (aset k {| pin_backend := bv; pin_expire := now + pins_lifetime p ee |} (p_tab p)) = None)
    by (rewrite alookup_aset_other by (intros E; apply NE; symmetry; exact E); exact H).
  destruct (_ <? _); cbn [p_tab]; [apply C15.alookup_clean_none|]; exact H0.
Qed.
(* the selection made for a request of a dialog pinned to an object that is not registered any more *)
Lemma stb_sel_stale e p m d addr g ex :
  fx_stale_pin (e_fx e) = true -> is_request m = true -> dialog_of m = Ok d ->
  pin_at d (pin_val_backend addr g) ex (ps_pins p) -> e_now e < ex -> gen_ok g ->
  alookup addr (ps_backends p) <> Some g ->
  snd (stb_sel e p m) = BRR /\
  (fx_indialog_invite (e_fx e) = true ->
   fst (stb_sel e p m) = with_pins (with_pins p (ps_pins p)) (pins_remove d (ps_pins p))).
Proof.
  intros FS R D P L G A. unfold stb_sel, fbd_pure. rewrite (method_of_request m R), D. cbv beta iota.
  rewrite (pin_at_get_live d _ ex (e_now e) (ps_pins p) P L). cbn [fst snd].
  rewrite (bref_of_val_backend addr g G), FS.
  rewrite (bref_alive_unregistered (with_pins p (ps_pins p)) addr g A). cbn [negb andb].
  destruct (fx_indialog_invite (e_fx e)); cbn [negb andb].
  - split; [reflexivity|intros _; reflexivity].
  - destruct (_ || _)%bool; split; try reflexivity; intros H; discriminate H.
Qed.

Theorem C04_stale_pin_balanced : forall e m x t0 d addr g ex,
  fx_stale_pin (e_fx e) = true ->
  ps_has_rr (x_p x) = true -> first_transport (e_lc e) = Some t0 ->
  is_request m = true -> dialog_of m = Ok d ->
  (* the dialog is bound, the binding has not expired ... *)
  pin_at d (pin_val_backend addr g) ex (ps_pins (x_p x)) -> e_now e < ex ->
  (* ... but the backend object it names is not registered any more *)
  alookup addr (ps_backends (x_p x)) <> Some g -> gen_ok g ->
  let b := fwd_bytes e t0 (x_p x) m in
  let x' := fst (send_to_backend e m x) in
  (* exactly what an unpinned request gets (C04_unpinned_step): the rotation's next backend *)
  x_outs x' = x_outs x ++
    match snd (rr_dispatch (ps_rr (x_p x))) with
    | Some a => if fits_datagram b then to_addr_outs a b else []
    | None => []
    end /\
  ps_rr (x_p x') = fst (rr_dispatch (ps_rr (x_p x))) /\
  (* and the stale binding is gone *)
  (fx_indialog_invite (e_fx e) = true ->
   (forall c, snd (s_get_cseq m) = Ok c -> trans_key e c <> d) ->
   alookup d (p_tab (ps_pins (x_p x'))) = None).
Proof.
  intros e m x t0 d addr g ex FS HR FT R D P L A G b x'.
  destruct (send_to_backend_spec e m x t0 HR FT) as (EP & EO & _). fold x' in EP, EO.
  unfold stb_pure in EP, EO. fold b in EP, EO.
  pose proof (stb_sel_mem e (x_p x) m) as [_ RR].
  destruct (stb_sel_stale e (x_p x) m d addr g ex FS R D P L G A) as [S F1].
  destruct (stb_sel e (x_p x) m) as [p1 sel]. cbn [fst snd] in RR, S, F1. subst sel.
  assert (PN : fx_indialog_invite (e_fx e) = true -> alookup d (p_tab (ps_pins p1)) = None).
  { intros FX. rewrite (F1 FX). cbn [ps_pins with_pins pins_remove p_tab]. apply alookup_adel_same. }
  rewrite backend_send_rr in EP, EO. rewrite RR in EP, EO.
  destruct (snd (rr_dispatch (ps_rr (x_p x)))) as [a|]; cbn [fst snd] in EP, EO.
  - destruct (fits_datagram b); cbn [fst snd] in EP, EO; (split; [exact EO|]); rewrite EP.
    + split; [destruct (snd (s_get_cseq m)); reflexivity|]. intros FX NK.
      destruct (snd (s_get_cseq m)) as [c| |] eqn:EC; try exact (PN FX).
      cbn [ps_pins with_pins]. apply pins_add_absent; [apply (NK c eq_refl)|exact (PN FX)].
    + split; [reflexivity|]. intros FX _. exact (PN FX).
  - split; [exact EO|]. rewrite EP. split; [reflexivity|]. intros FX _. exact (PN FX).
Qed.

(* ================================================================== Part 7: events and histories *)
Lemma nth_set_same l : forall i p q, nth_p l i = Some q -> nth_p (set_nth_p l i p) i = Some p.
Proof.
  unfold nth_p. induction l as [|a l IH]; intros [|i] p q H; cbn in *; try discriminate; [reflexivity|].
  eapply IH. exact H.
Qed.
Lemma nth_set_other l : forall i j p, i <> j -> nth_p (set_nth_p l i p) j = nth_p l j.
Proof.
  unfold nth_p. induction l as [|a l IH]; intros [|i] [|j] p NE; cbn; try reflexivity; try congruence.
  apply IH. congruence.
Qed.

Section Pinned.
  Variables (li : nat) (d addr : bytes) (g : nat) (ex : Z).
  Let v := pin_val_backend addr g.
  (* the dialog is bound to (addr, g) until ex and that backend object is registered *)
  Definition pinned_p (p : pstate) : Prop :=
    pin_at d v ex (ps_pins p) /\ alookup addr (ps_backends p) = Some g /\ ps_has_rr p = true.
  Definition pinned (st : state) : Prop := exists p, nth_p (st_proxies st) li = Some p /\ pinned_p p.

  Lemma pinned_p_message e peer port from rs tcp m x x' :
    process_message e peer port from rs tcp m x = Ok x' -> msg_ok d (e_branch e) m -> e_now e < ex -> gen_ok g ->
    pinned_p (x_p x) -> pinned_p (x_p x').
  Proof.
    intros E OK L G (P & A & H).
    assert (AL : bref_alive (x_p x) (bref_of_val v) = true)
      by (unfold v; rewrite (bref_of_val_backend addr g G); apply bref_alive_registered; exact A).
    destruct (C04_preserved_message e peer port from rs tcp m x x' d v ex E OK P L AL) as (P' & B & HR & _).
    split; [exact P'|]. split; [rewrite B; exact A|rewrite HR; exact H].
  Qed.

  (* the messages a TCP chunk is cut into *)
  Fixpoint chunk_msgs (fuel : nat) (s : bytes) : list message :=
    match fuel with
    | O => []
    | S f => match trim_left s with
             | [] => []
             | _ => match parse_message s with Ok (m, rest) => m :: chunk_msgs f rest | _ => [] end
             end
    end.
  Lemma pinned_p_tcp e cn : e_now e < ex -> gen_ok g -> forall fuel s x x',
    tcp_messages fuel e cn s x = Ok x' -> Forall (msg_ok d (e_branch e)) (chunk_msgs fuel s) ->
    pinned_p (x_p x) -> pinned_p (x_p x').
  Proof.
    intros L G. induction fuel as [|f IH]; intros s x x' E F Q; cbn [tcp_messages chunk_msgs] in E, F.
    - injection E as <-. exact Q.
    - destruct (trim_left s); [injection E as <-; exact Q|].
      destruct (parse_message s) as [[m rest]| |]; try (injection E as <-; exact Q).
      inversion F as [|m0 l0 OK F']; subst.
      destruct (process_message e (cn_peer cn) (cn_peer_port cn) (cn_from cn) (cn_received_support cn) (Some (cn_id cn)) m x)
        as [x1| |] eqn:E1; try discriminate.
      eapply IH; [exact E|exact F'|]. eapply pinned_p_message; eassumption.
  Qed.

  Definition ev_ok (branch : bytes) (ev : event) : Prop :=
    match ev with
    | EvUdp li' _ _ data => li' = li -> forall m rest, parse_message data = Ok (m, rest) -> msg_ok d branch m
    | EvTcpData _ data => Forall (msg_ok d branch) (chunk_msgs (S (List.length data)) data)
    | EvBackendAdd li' a => li' = li -> a <> addr
    | EvBackendRemove li' a => li' = li -> a <> addr
    | EvTcpAccept _ _ _ => True
    | EvTcpClose _ => True
    end.

  Lemma run_ctx_pinned st li' f st' outs :
    run_ctx st li' f = Ok (st', outs) ->
    (li' = li -> forall p x', f p {| x_learned := st_learned st; x_p := p; x_conns := st_conns st; x_world := st_world st; x_outs := [] |} = Ok x' ->
                 pinned_p p -> pinned_p (x_p x')) ->
    pinned st -> pinned st'.
  Proof.
    intros E H (p & N & Q). unfold run_ctx in E.
    destruct (nth_p (st_proxies st) li') as [p0|] eqn:N0; [|injection E as <- _; exists p; split; assumption].
    destruct (f p0 _) as [x'| |] eqn:EF; try discriminate. injection E as <- _. unfold pinned. cbn [st_proxies].
    destruct (Nat.eq_dec li' li) as [->|NE].
    - rewrite N in N0. injection N0 as <-. exists (x_p x'). split; [eapply nth_set_same; exact N|].
      eapply H; [reflexivity|exact EF|exact Q].
    - exists p. split; [rewrite nth_set_other by exact NE; exact N|exact Q].
  Qed.

  (* C04_preserved: every event that is not a terminator for d keeps the binding *)
  Theorem C04_preserved : forall fx c now branch st ev st' outs,
    proxy_step fx c now branch st ev = Ok (st', outs) ->
    ev_ok branch ev -> now < ex -> gen_ok g -> pinned st -> pinned st'.
  Proof.
    intros fx c now branch st ev st' outs E OK L GK Q. destruct ev as [li' src sport data|li' src sport|cid data|cid|li' a|li' a];
      cbn [proxy_step ev_ok] in E, OK.
    - (* UDP datagram *)
      destruct (nth_opt (c_listens c) li') as [lc|]; [|injection E as <- _; exact Q].
      destruct (parse_message data) as [[m rest]| |] eqn:EP; try (injection E as <- _; exact Q).
      eapply run_ctx_pinned; [exact E| |exact Q]. intros -> p x' EF Qp.
      eapply pinned_p_message; [exact EF|exact (OK eq_refl m rest eq_refl)|exact L|exact GK|exact Qp].
    - (* accept *)
      destruct (nth_opt (c_listens c) li') as [lc|]; [|injection E as <- _; exact Q].
      destruct (nth_p (st_proxies st) li') as [p0|] eqn:N0; [|injection E as <- _; exact Q].
      match type of E with context [get_transport ?a ?b ?c ?dd ?ee ?ff] =>
        pose proof (lb_get_transport a b c dd ee ff) as G; destruct (get_transport a b c dd ee ff) as [p1 rk] end.
      cbn [fst] in G. injection E as <- _. unfold pinned. cbn [st_proxies]. destruct Q as (p & N & Qp).
      destruct (Nat.eq_dec li' li) as [->|NE].
      + rewrite N in N0. injection N0 as <-. eexists. split; [eapply nth_set_same; exact N|].
        assert (LB : lb_eq p (match rk with Ok key => set_primary key (PConn (w_next_conn (st_world st)) (now_s (mk_env fx c (item_rs_of (fx_wiring fx)) li lc now branch) + 3600)) p1 | _ => p1 end)).
        { destruct rk; try exact G. eapply lb_trans; [exact G|apply lb_set_primary]. }
        destruct LB as (B & _ & H & _ & PI). destruct Qp as (P & A & HR). unfold pinned_p. rewrite B, H, PI. repeat split; assumption.
      + exists p. split; [rewrite nth_set_other by exact NE; exact N|exact Qp].
    - (* TCP data *)
      destruct (find (fun x => Nat.eqb (cn_id x) cid) (st_conns st)) as [cn|]; [|injection E as <- _; exact Q].
      destruct (cn_open cn); [|injection E as <- _; exact Q].
      destruct (nth_opt (c_listens c) (cn_li cn)) as [lc|]; [|injection E as <- _; exact Q].
      eapply run_ctx_pinned; [exact E| |exact Q]. intros _ p x' EF Qp.
      eapply pinned_p_tcp; [| |exact EF|exact OK|exact Qp]; [exact L|exact GK].
    - (* close *)
      injection E as <- _. exact Q.
    - (* backend added *)
      destruct Q as (p & N & Qp).
      destruct (nth_p (st_proxies st) li') as [p0|] eqn:N0; [|injection E as <- _; exists p; split; assumption].
      injection E as <- _. unfold pinned. cbn [st_proxies].
      destruct (Nat.eq_dec li' li) as [->|NE].
      + rewrite N in N0. injection N0 as <-. eexists. split; [eapply nth_set_same; exact N|].
        destruct Qp as (P & A & HR). unfold pinned_p. cbn [ps_pins ps_backends ps_has_rr].
        rewrite alookup_aset_other by (intros H; apply (OK eq_refl); symmetry; exact H). repeat split; assumption.
      + exists p. split; [rewrite nth_set_other by exact NE; exact N|exact Qp].
    - (* backend removed *)
      destruct Q as (p & N & Qp).
      destruct (nth_p (st_proxies st) li') as [p0|] eqn:N0; [|injection E as <- _; exists p; split; assumption].
      destruct (rr_remove a (ps_rr p0)) as [r' closed]. injection E as <- _. unfold pinned. cbn [st_proxies].
      destruct (Nat.eq_dec li' li) as [->|NE].
      + rewrite N in N0. injection N0 as <-. eexists. split; [eapply nth_set_same; exact N|].
        destruct Qp as (P & A & HR). unfold pinned_p. cbn [ps_pins ps_backends ps_has_rr].
        split; [exact P|]. split; [|exact HR].
        destruct (mem_bytes a (rr_map (ps_rr p))); [|exact A].
        rewrite alookup_adel_other by (intros H; apply (OK eq_refl); symmetry; exact H). exact A.
      + exists p. split; [rewrite nth_set_other by exact NE; exact N|exact Qp].
  Qed.
End Pinned.

(* ---- histories: every event carries its own time and the branch the proxy generates ---- *)
Definition hist := list (Z * bytes * event).
Fixpoint run (fx : fixes) (c : cfg) (st : state) (h : hist) : res (state * list (list output)) :=
  match h with
  | [] => Ok (st, [])
  | (now, br, ev) :: r =>
      let! (st1, o) := proxy_step fx c now br st ev in
      let! (st2, os) := run fx c st1 r in
      Ok (st2, o :: os)
  end.
Lemma run_app fx c h1 : forall h2 st,
  run fx c st (h1 ++ h2) =
  (let! (st1, o1) := run fx c st h1 in let! (st2, o2) := run fx c st1 h2 in Ok (st2, o1 ++ o2)).
Proof.
  induction h1 as [|[[now br] ev] r IH]; intros h2 st; cbn [run app].
  - cbn. destruct (run fx c st h2) as [[st2 o2]| |]; reflexivity.
  - destruct (proxy_step fx c now br st ev) as [[st1 o]| |]; cbn [rbind]; try reflexivity.
    rewrite IH. destruct (run fx c st1 r) as [[st2 os]| |]; cbn [rbind]; try reflexivity.
    destruct (run fx c st2 h2) as [[st3 o3]| |]; reflexivity.
Qed.
Theorem C04_preserved_history : forall li d addr g ex fx c h st st' outss,
  run fx c st h = Ok (st', outss) ->
  Forall (fun '(now, br, ev) => now < ex /\ ev_ok li d addr br ev) h ->
  gen_ok g ->
  pinned li d addr g ex st -> pinned li d addr g ex st'.
Proof.
  intros li d addr g ex fx c. induction h as [|[[now br] ev] r IH]; intros st st' outss E F G Q; cbn [run] in E.
  - injection E as <- _. exact Q.
  - inversion F as [|x0 l0 HH F']; subst. cbv beta iota in HH. destruct HH as [L OK].
    destruct (proxy_step fx c now br st ev) as [[st1 o]| |] eqn:E1; cbn [rbind] in E; try discriminate.
    destruct (run fx c st1 r) as [[st2 os]| |] eqn:E2; cbn [rbind] in E; try discriminate.
    injection E as <- _. eapply IH; [exact E2|exact F'|exact G|].
    eapply C04_preserved; eassumption.
Qed.

Definition udp_from (lc : listen_cfg) : stransport := {| t_kind := KUdp; t_addr := lc_addr lc; t_port := lc_udp lc |}.

(* the binding response as an event *)
Lemma bind_event fx c li lc now br st st' outs peer port data m rest p g d :
  nth_opt (c_listens c) li = Some lc -> nth_p (st_proxies st) li = Some p ->
  proxy_step fx c now br st (EvUdp li peer port data) = Ok (st', outs) ->
  parse_message data = Ok (m, rest) -> is_request m = false ->
  alookup (join_host_port peer port) (ps_backends p) = Some g -> ps_has_rr p = true ->
  method_of m = Ok (s2b "INVITE") -> dialog_of m = Ok d ->
  0 <= pins_lifetime (ps_pins p) (get_expires m 0) ->
  pinned li d (join_host_port peer port) g (now + pins_lifetime (ps_pins p) (get_expires m 0)) st'.
Proof.
  intros NL NP E EP R A HR Hm Hd L. cbn [proxy_step] in E. rewrite NL, EP in E.
  unfold run_ctx in E. rewrite NP in E.
  set (e := mk_env fx c (item_rs_of (fx_wiring fx)) li lc now br) in *.
  set (x0 := {| x_learned := st_learned st; x_p := p; x_conns := st_conns st; x_world := st_world st; x_outs := [] |}) in *.
  destruct (C04_bind e peer port (udp_from lc) (e_item_rs e) None m x0 g d R A Hm Hd L) as (x' & E' & PA & _ & ST).
  unfold udp_from in E'. rewrite E' in E. injection E as <- _.
  exists (x_p x'). split; [cbn [st_proxies]; eapply nth_set_same; exact NP|].
  destruct ST as (B & _ & H & _). split; [exact PA|]. split; [rewrite B; exact A|rewrite H; exact HR].
Qed.

(* the in-dialog request as an event *)
Lemma sticky_event c li lc t0 now br st st' outs src sport data m rest d addr g ex dst :
  nth_opt (c_listens c) li = Some lc -> first_transport lc = Some t0 ->
  proxy_step all_fixed c now br st (EvUdp li src sport data) = Ok (st', outs) ->
  parse_message data = Ok (m, rest) -> dialog_of m = Ok d ->
  addressed_to_service (mk_env all_fixed c (item_rs_of true) li lc now br) (udp_from lc) m ->
  pinned li d addr g ex st -> now < ex -> gen_ok g -> addr_dest addr = Some dst ->
  exists b, outs = if fits_datagram b then [(dst, b)] else [].
Proof.
  intros NL FT E EP Hd AS (p & NP & P & A & HR) L G AD. cbn [proxy_step] in E. rewrite NL, EP in E.
  unfold run_ctx in E. rewrite NP in E. cbn [fx_wiring all_fixed] in E.
  set (e := mk_env all_fixed c (item_rs_of true) li lc now br) in *.
  set (x0 := {| x_learned := st_learned st; x_p := p; x_conns := st_conns st; x_world := st_world st; x_outs := [] |}) in *.
  destruct (process_message e src sport (udp_from lc) (e_item_rs e) None m x0) as [x'| |] eqn:E'; unfold udp_from in E';
    rewrite E' in E; try discriminate.
  injection E as _ <-.
  destruct (process_message_to_backend e src sport (udp_from lc) (e_item_rs e) None m x0 x' AS E') as (m' & xa & K & LB & EO & ->).
  destruct LB as (B & _ & H & _ & PI). cbn [x_p x0] in B, H, PI.
  assert (R' : is_request m' = true) by (rewrite (k_is_request NQ m m' K); apply AS).
  assert (D' : dialog_of m' = Ok d) by (rewrite (dialog_of_keeps NQ m m' K) by in_names; exact Hd).
  destruct (C04_sticky_step e m' xa t0 d addr g ex dst eq_refl) as (O & _); try assumption.
  - rewrite H. exact HR.
  - rewrite PI. exact P.
  - rewrite B. exact A.
  - eexists. rewrite O, EO. reflexivity.
Qed.

Theorem C04_sticky : forall c li lc t0 h1 tb bb peer port datab h2 tr br src sport datar st0 stf outss
                            st1 o1 p1 mb restb mr restr g d dst,
  nth_opt (c_listens c) li = Some lc -> first_transport lc = Some t0 ->
  run all_fixed c st0 (h1 ++ (tb, bb, EvUdp li peer port datab) :: h2 ++ [(tr, br, EvUdp li src sport datar)])
    = Ok (stf, outss) ->
  (* when the response arrives its sender is a registered backend (generation g) *)
  run all_fixed c st0 h1 = Ok (st1, o1) -> nth_p (st_proxies st1) li = Some p1 ->
  let addr := join_host_port peer port in
  alookup addr (ps_backends p1) = Some g -> gen_ok g -> ps_has_rr p1 = true -> addr_dest addr = Some dst ->
  (* the binding response: INVITE in CSeq, both tags *)
  parse_message datab = Ok (mb, restb) -> is_request mb = false ->
  method_of mb = Ok (s2b "INVITE") -> dialog_of mb = Ok d ->
  let life := pins_lifetime (ps_pins p1) (get_expires mb 0) in
  0 <= life ->
  (* in between: anything but a terminator for d, within the lifetime *)
  Forall (fun '(now, b, ev) => now < tb + life /\ ev_ok li d addr b ev) h2 ->
  (* the request: same dialog (either direction, any method), addressed to the service *)
  parse_message datar = Ok (mr, restr) -> dialog_of mr = Ok d -> tr < tb + life ->
  addressed_to_service (mk_env all_fixed c (item_rs_of true) li lc tr br) (udp_from lc) mr ->
  exists b, last outss [] = if fits_datagram b then [(dst, b)] else [].
Proof.
  intros c li lc t0 h1 tb bb peer port datab h2 tr br src sport datar st0 stf outss st1 o1 p1 mb restb mr restr g d dst
         NL FT E E1 NP addr A G HR AD EPb Rb Mb Db life L F EPr Dr Lr AS.
  rewrite run_app, E1 in E. cbn [rbind run] in E.
  destruct (proxy_step all_fixed c tb bb st1 (EvUdp li peer port datab)) as [[st2 ob]| |] eqn:E2; cbn [rbind] in E; try discriminate.
  rewrite run_app in E.
  destruct (run all_fixed c st2 h2) as [[st3 o3]| |] eqn:E3; cbn [rbind run] in E; try discriminate.
  destruct (proxy_step all_fixed c tr br st3 (EvUdp li src sport datar)) as [[st4 outs]| |] eqn:E4; cbn [rbind] in E; try discriminate.
  injection E as _ <-.
  assert (Q2 : pinned li d addr g (tb + life) st2) by (eapply bind_event; eassumption).
  assert (Q3 : pinned li d addr g (tb + life) st3) by (eapply C04_preserved_history; eassumption).
  destruct (sticky_event c li lc t0 tr br st3 st4 outs src sport datar mr restr d addr g (tb + life) dst) as (b & ->); try assumption.
  exists b. rewrite app_comm_cons, app_assoc, last_last. reflexivity.
Qed.

Theorem C04_unpinned_balanced : forall e peer port from rs tcp m x x' t0,
  addressed_to_service e from m -> process_message e peer port from rs tcp m x = Ok x' ->
  ps_has_rr (x_p x) = true -> first_transport (e_lc e) = Some t0 ->
  (forall d, dialog_of m = Ok d -> snd (pins_get (e_now e) d (ps_pins (x_p x))) = None) ->
  exists b,
    x_outs x' = x_outs x ++
      match snd (rr_dispatch (ps_rr (x_p x))) with
      | Some a => if fits_datagram b then to_addr_outs a b else []
      | None => []
      end /\
    ps_rr (x_p x') = fst (rr_dispatch (ps_rr (x_p x))).
Proof.
  intros e peer port from rs tcp m x x' t0 AS E HR FT NP.
  destruct (process_message_to_backend e peer port from rs tcp m x x' AS E) as (m' & xa & K & LB & EO & ->).
  destruct LB as (_ & RR & H & _ & PI).
  destruct (C04_unpinned_step e m' xa t0) as (O & R2); try assumption.
  - rewrite H. exact HR.
  - rewrite (k_is_request NQ m m' K). apply AS.
  - intros d Hd. rewrite PI. apply NP. rewrite <- (dialog_of_keeps NQ m m' K) by in_names. exact Hd.
  - eexists. rewrite O, R2, RR, EO. split; reflexivity.
Qed.

(* the same from any state in which the binding holds (whatever created it: the INVITE rule,
   the SUBSCRIBE rule) *)
Theorem C04_sticky_pinned : forall c li lc t0 h2 tr br src sport datar st2 stf outss mr restr addr g d ex dst,
  nth_opt (c_listens c) li = Some lc -> first_transport lc = Some t0 ->
  pinned li d addr g ex st2 -> gen_ok g -> addr_dest addr = Some dst ->
  run all_fixed c st2 (h2 ++ [(tr, br, EvUdp li src sport datar)]) = Ok (stf, outss) ->
  Forall (fun '(now, b, ev) => now < ex /\ ev_ok li d addr b ev) h2 ->
  parse_message datar = Ok (mr, restr) -> dialog_of mr = Ok d -> tr < ex ->
  addressed_to_service (mk_env all_fixed c (item_rs_of true) li lc tr br) (udp_from lc) mr ->
  exists b, last outss [] = if fits_datagram b then [(dst, b)] else [].
Proof.
  intros c li lc t0 h2 tr br src sport datar st2 stf outss mr restr addr g d ex dst NL FT Q2 G AD E F EPr Dr Lr AS.
  rewrite run_app in E.
  destruct (run all_fixed c st2 h2) as [[st3 o3]| |] eqn:E3; cbn [rbind run] in E; try discriminate.
  destruct (proxy_step all_fixed c tr br st3 (EvUdp li src sport datar)) as [[st4 outs]| |] eqn:E4; cbn [rbind] in E; try discriminate.
  injection E as _ <-.
  assert (Q3 : pinned li d addr g ex st3) by (eapply C04_preserved_history; eassumption).
  destruct (sticky_event c li lc t0 tr br st3 st4 outs src sport datar mr restr d addr g ex dst) as (b & ->); try assumption.
  exists b. rewrite last_last. reflexivity.
Qed.

(* the SUBSCRIBE-response rule as an event *)
Lemma bind_subscribe_event fx c li lc now br st st' outs peer port data m rest p host hport tr g d :
  nth_opt (c_listens c) li = Some lc -> nth_p (st_proxies st) li = Some p ->
  proxy_step fx c now br st (EvUdp li peer port data) = Ok (st', outs) ->
  parse_message data = Ok (m, rest) -> is_request m = false ->
  relay_hop m = Ok (host, hport, tr) ->
  alookup (host ++ ":"%char :: itoa hport) (ps_backends p) = Some g -> ps_has_rr p = true ->
  method_of m = Ok (s2b "SUBSCRIBE") -> dialog_of m = Ok d ->
  0 <= pins_lifetime (ps_pins p) (get_expires m 0) ->
  pinned li d (host ++ ":"%char :: itoa hport) g (now + pins_lifetime (ps_pins p) (get_expires m 0)) st'.
Proof.
  intros NL NP E EP R RH A HR Hm Hd L. cbn [proxy_step] in E. rewrite NL, EP in E.
  unfold run_ctx in E. rewrite NP in E.
  set (e := mk_env fx c (item_rs_of (fx_wiring fx)) li lc now br) in *.
  set (x0 := {| x_learned := st_learned st; x_p := p; x_conns := st_conns st; x_world := st_world st; x_outs := [] |}) in *.
  destruct (C04_bind_subscribe e peer port (udp_from lc) (e_item_rs e) None m x0 host hport tr g d R RH A Hm Hd L)
    as (x' & E' & PA & _ & ST).
  unfold udp_from in E'. rewrite E' in E. injection E as <- _.
  exists (x_p x'). split; [cbn [st_proxies]; eapply nth_set_same; exact NP|].
  destruct ST as (B & _ & H & _). split; [exact PA|]. split; [rewrite B; exact A|rewrite H; exact HR].
Qed.

(* ---- the key hypothesis: transaction keys differ from the dialog key.  Sufficient syntactic
   condition: the method has no '-', the branch carries the RFC 3261 cookie, and what follows
   the first '-' of d does not start with the cookie ---- *)
Definition cookie : bytes := s2b "z9hG4bK".
Lemma has_prefix_app p r : has_prefix p (p ++ r) = true.
Proof. induction p as [|x p IH]; cbn; [reflexivity|]. rewrite Ascii.eqb_refl, IH. reflexivity. Qed.
Theorem key_neq_dialog : forall meth branch d,
  ~ In "-"%char meth -> has_prefix cookie branch = true ->
  match index_byte "-"%char d with
  | Some i => has_prefix cookie (skipn (S i) d) = false
  | None => True
  end ->
  meth ++ "-"%char :: branch <> d.
Proof.
  intros meth branch d NI HP H E. subst d.
  rewrite (index_byte_app_notin "-"%char meth branch NI), skipn_S_length_app in H. congruence.
Qed.
Example key_neq_dialog_ex :
  s2b "INVITE" ++ "-"%char :: s2b "z9hG4bKpx3" <> s2b "c-1@ua-a-1-sip:alice@ua.example.org-b-2-sip:bob@sip.example.com".
Proof. apply key_neq_dialog; [intros H; cbn in H; repeat (destruct H as [H|H]; [discriminate H|]); exact H|reflexivity|reflexivity]. Qed.

(* ---- executable versions of the hypotheses (for concrete histories and for judges) ---- *)
Definition msg_ok_b (d branch : bytes) (m : message) : bool :=
  if is_request m then
    match snd (s_get_cseq m) with Ok c => negb (beq (cs_method c ++ "-"%char :: branch) d) | _ => true end &&
    match dialog_of m with
    | Ok d' => if beq d' d then negb (notify_terminated (req_method m) m) else true
    | _ => true
    end
  else
    match tid_of m with Ok t => negb (beq t d) | _ => true end &&
    match dialog_of m with
    | Ok d' => if beq d' d then match method_of m with Ok meth => negb (binding_method meth) | _ => true end else true
    | _ => true
    end.
Lemma msg_ok_b_sound d branch m : msg_ok_b d branch m = true -> msg_ok d branch m.
Proof.
  unfold msg_ok_b, msg_ok. destruct (is_request m); intros H; apply andb_true_iff in H; destruct H as [H1 H2]; split.
  - intros c Hc. rewrite Hc in H1. apply negb_true_iff in H1. apply beq_neq. exact H1.
  - intros Hd. rewrite Hd, beq_refl in H2. apply negb_true_iff in H2. exact H2.
  - intros t Ht. rewrite Ht in H1. apply negb_true_iff in H1. apply beq_neq. exact H1.
  - intros Hd meth Hm. rewrite Hd, beq_refl, Hm in H2. apply negb_true_iff in H2. exact H2.
Qed.
Definition ev_ok_b (li : nat) (d addr branch : bytes) (ev : event) : bool :=
  match ev with
  | EvUdp li' _ _ data =>
      negb (Nat.eqb li' li) || match parse_message data with Ok (m, _) => msg_ok_b d branch m | _ => true end
  | EvTcpData _ data => forallb (msg_ok_b d branch) (chunk_msgs (S (List.length data)) data)
  | EvBackendAdd li' a => negb (Nat.eqb li' li) || negb (beq a addr)
  | EvBackendRemove li' a => negb (Nat.eqb li' li) || negb (beq a addr)
  | EvTcpAccept _ _ _ => true
  | EvTcpClose _ => true
  end.
Lemma ev_ok_b_sound li d addr branch ev : ev_ok_b li d addr branch ev = true -> ev_ok li d addr branch ev.
Proof.
  destruct ev as [li' src sport data|li' src sport|cid data|cid|li' a|li' a]; cbn [ev_ok_b ev_ok]; intros H; try exact I.
  - intros -> m rest EP. rewrite Nat.eqb_refl, EP in H. apply msg_ok_b_sound. exact H.
  - apply Forall_forall. intros m Hm. apply msg_ok_b_sound. rewrite forallb_forall in H. apply H. exact Hm.
  - intros -> E. rewrite Nat.eqb_refl in H. cbn in H. apply negb_true_iff in H. apply beq_neq in H. contradiction.
  - intros -> E. rewrite Nat.eqb_refl in H. cbn in H. apply negb_true_iff in H. apply beq_neq in H. contradiction.
Qed.
Definition route_consumed_b (c : cfg) (from : stransport) (m : message) : bool :=
  match hvals (s2b "Route") (m_headers m) with
  | [] => true
  | [v0] => match sem_route v0 with Ok [rp] => own_route c from rp | _ => false end
  | _ => false
  end.
Lemma route_consumed_b_sound c from m : route_consumed_b c from m = true -> route_consumed c from m.
Proof.
  unfold route_consumed_b, route_consumed. destruct (hvals (s2b "Route") (m_headers m)) as [|v0 [|v1 l]]; intros H.
  - left. reflexivity.
  - right. destruct (sem_route v0) as [[|rp [|rp' l']]| |] eqn:S; try discriminate.
    exists v0, rp. split; [reflexivity|]. split; [exact S|exact H].
  - discriminate.
Qed.
Definition addressed_to_service_b (e : env) (from : stransport) (m : message) : bool :=
  is_request m && route_consumed_b (e_cfg e) from m &&
  match static_hop e m with Ok _ => false | _ => true end &&
  is_my_message (new_my_name (c_name (e_cfg e))) from m.
Lemma addressed_to_service_b_sound e from m : addressed_to_service_b e from m = true -> addressed_to_service e from m.
Proof.
  unfold addressed_to_service_b, addressed_to_service. intros H.
  apply andb_true_iff in H. destruct H as [H H4]. apply andb_true_iff in H. destruct H as [H H3].
  apply andb_true_iff in H. destruct H as [H1 H2]. split; [exact H1|]. split; [apply route_consumed_b_sound; exact H2|].
  split; [|exact H4]. intros v Hv. rewrite Hv in H3. discriminate.
Qed.

(* ================================================================== Part 8: a concrete history (non-vacuity) and the legacy witness *)
Definition sip (lines : list string) : bytes := flat_map (fun l => s2b l ++ crlf) lines ++ crlf.
Definition ex_lc : listen_cfg :=
  {| lc_addr := s2b "10.0.0.1"; lc_udp := 5060; lc_tcp := 5060;
     lc_backends := [s2b "10.0.0.11:5070"; s2b "10.0.0.12:5070"; s2b "10.0.0.13:5070"];
     lc_dynamic := false; lc_no_received := false; lc_def_route := false; lc_must_rr := false |}.
Definition ex_cfg : cfg :=
  {| c_name := s2b "sip.example.com"; c_keep_next_hop := false; c_dialog_timeout := 1800;
     c_routes := []; c_hosts := []; c_listens := [ex_lc] |}.
Definition ex_invite : bytes := sip [
  "INVITE sip:bob@sip.example.com SIP/2.0";
  "Via: SIP/2.0/UDP 10.0.0.99:5060;branch=z9hG4bKua1";
  "From: <sip:alice@ua.example.org>;tag=a-1";
  "To: <sip:bob@sip.example.com>";
  "Call-ID: c-1@ua";
  "CSeq: 1 INVITE";
  "Content-Length: 0"]%string.
Definition ex_200 : bytes := sip [
  "SIP/2.0 200 OK";
  "Via: SIP/2.0/UDP 10.0.0.1:5060;branch=z9hG4bKpx0";
  "Via: SIP/2.0/UDP 10.0.0.99:5060;branch=z9hG4bKua1;received=10.0.0.99";
  "From: <sip:alice@ua.example.org>;tag=a-1";
  "To: <sip:bob@sip.example.com>;tag=b-2";
  "Call-ID: c-1@ua";
  "CSeq: 1 INVITE";
  "Content-Length: 0"]%string.
Definition ex_options (n : string) : bytes := sip [
  "OPTIONS sip:svc@sip.example.com SIP/2.0";
  ("Via: SIP/2.0/UDP 10.0.0.98:5060;branch=z9hG4bKo" ++ n)%string;
  "From: <sip:carol@ua.example.org>;tag=c-3";
  "To: <sip:svc@sip.example.com>";
  ("Call-ID: o-" ++ n)%string;
  "CSeq: 7 OPTIONS";
  "Content-Length: 0"]%string.
(* the callee side re-INVITEs: From/To exchanged *)
Definition ex_reinvite : bytes := sip [
  "INVITE sip:alice@sip.example.com SIP/2.0";
  "Via: SIP/2.0/UDP 10.0.0.77:5060;branch=z9hG4bKb1";
  "From: <sip:bob@sip.example.com>;tag=b-2";
  "To: <sip:alice@ua.example.org>;tag=a-1";
  "Call-ID: c-1@ua";
  "CSeq: 1 INVITE";
  "Content-Length: 0"]%string.
Definition ex_bye : bytes := sip [
  "BYE sip:bob@sip.example.com SIP/2.0";
  "Route: <sip:10.0.0.1:5060;lr>";
  "Via: SIP/2.0/UDP 10.0.0.99:5060;branch=z9hG4bKua2";
  "From: <sip:alice@ua.example.org>;tag=a-1";
  "To: <sip:bob@sip.example.com>;tag=b-2";
  "Call-ID: c-1@ua";
  "CSeq: 2 BYE";
  "Content-Length: 0"]%string.
Definition sec (n : Z) : Z := n * second.
Definition ex_hist : hist :=
  [ (sec 1, s2b "z9hG4bKpx0", EvUdp 0 (s2b "10.0.0.99") 5060 ex_invite);
    (sec 2, s2b "z9hG4bKpx1", EvUdp 0 (s2b "10.0.0.12") 5070 ex_200);
    (sec 3, s2b "z9hG4bKpx2", EvUdp 0 (s2b "10.0.0.98") 5060 (ex_options "1"));
    (sec 4, s2b "z9hG4bKpx3", EvUdp 0 (s2b "10.0.0.77") 5060 ex_reinvite);
    (sec 5, s2b "z9hG4bKpx4", EvUdp 0 (s2b "10.0.0.98") 5060 (ex_options "2"));
    (sec 6, s2b "z9hG4bKpx5", EvUdp 0 (s2b "10.0.0.99") 5060 ex_bye) ].


Definition ex_st0 : state := init_state ex_cfg 0 [].
Definition ex_outs : list (list output) := match run all_fixed ex_cfg ex_st0 ex_hist with Ok (_, o) => o | _ => [] end.
Definition ex_h1 : hist := [(sec 1, s2b "z9hG4bKpx0", EvUdp 0 (s2b "10.0.0.99") 5060 ex_invite)].
Definition ex_h2 : hist :=
  [(sec 3, s2b "z9hG4bKpx2", EvUdp 0 (s2b "10.0.0.98") 5060 (ex_options "1"));
   (sec 4, s2b "z9hG4bKpx3", EvUdp 0 (s2b "10.0.0.77") 5060 ex_reinvite);
   (sec 5, s2b "z9hG4bKpx4", EvUdp 0 (s2b "10.0.0.98") 5060 (ex_options "2"))].
Definition ex_r1 := run all_fixed ex_cfg ex_st0 ex_h1.
Definition ex_st1 : state := match ex_r1 with Ok (s, _) => s | _ => ex_st0 end.
Definition ex_o1 : list (list output) := match ex_r1 with Ok (_, o) => o | _ => [] end.
Definition ex_p1 : pstate := match nth_p (st_proxies ex_st1) 0 with Some p => p | None => init_pstate ex_cfg 0 ex_lc end.
Definition msg_of (b : bytes) : message :=
  match parse_message b with Ok (m, _) => m | _ => {| m_start := SResp [] 0 []; m_headers := []; m_body := [] |} end.
Definition rest_of (b : bytes) : bytes := match parse_message b with Ok (_, r) => r | _ => [] end.
Definition ex_d : bytes := s2b "c-1@ua-a-1-sip:alice@ua.example.org-b-2-sip:bob@sip.example.com".
Example C04_sticky_ex :
  exists b, last ex_outs [] = if fits_datagram b then [(DUdp (s2b "10.0.0.12") 5070, b)] else [].
Proof.
  unfold ex_outs.
  destruct (run all_fixed ex_cfg ex_st0 ex_hist) as [[stf outss]| |] eqn:E; try (vm_compute in E; discriminate E).
  eapply (C04_sticky ex_cfg 0%nat ex_lc (udp_from ex_lc) ex_h1
            (sec 2) (s2b "z9hG4bKpx1") (s2b "10.0.0.12") 5070 ex_200 ex_h2
            (sec 6) (s2b "z9hG4bKpx5") (s2b "10.0.0.99") 5060 ex_bye ex_st0 stf outss
            ex_st1 ex_o1 ex_p1 (msg_of ex_200) (rest_of ex_200) (msg_of ex_bye) (rest_of ex_bye) 1%nat ex_d
            (DUdp (s2b "10.0.0.12") 5070)).
  - reflexivity.
  - reflexivity.
  - (exact E).
  - (vm_compute; reflexivity).
  - (vm_compute; reflexivity).
  - (vm_compute; reflexivity).
  - unfold gen_ok. vm_compute. discriminate.
  - (vm_compute; reflexivity).
  - (vm_compute; reflexivity).
  - (vm_compute; reflexivity).
  - (vm_compute; reflexivity).
  - (vm_compute; reflexivity).
  - (vm_compute; reflexivity).
  - vm_compute. discriminate.
  - (repeat (apply Forall_cons; [split; [vm_compute; reflexivity|apply ev_ok_b_sound; vm_compute; reflexivity]|]); apply Forall_nil).
  - (vm_compute; reflexivity).
  - (vm_compute; reflexivity).
  - (vm_compute; reflexivity).
  - apply addressed_to_service_b_sound. (vm_compute; reflexivity).
Qed.

(* what the whole history does: INVITE -> .12 (rotation), 200 -> caller, OPTIONS -> .13, re-INVITE from the
   callee side -> .12 (pinned; the rotation would have said .11), OPTIONS -> .11, BYE -> .12 *)
Definition dests (r : res (state * list (list output))) : list (list dest) :=
  match r with Ok (_, o) => map (map fst) o | _ => [] end.
Example C04_history_ex :
  dests (run all_fixed ex_cfg ex_st0 ex_hist) =
  [ [DUdp (s2b "10.0.0.12") 5070]; [DUdp (s2b "10.0.0.99") 5060]; [DUdp (s2b "10.0.0.13") 5070];
    [DUdp (s2b "10.0.0.12") 5070]; [DUdp (s2b "10.0.0.11") 5070]; [DUdp (s2b "10.0.0.12") 5070] ].
Proof. vm_compute. reflexivity. Qed.
(* the bind on that history, and the state it leaves: honoured before, not after the lifetime *)
Example C04_bind_ex :
  let st2 := match run all_fixed ex_cfg ex_st0 (firstn 2 ex_hist) with Ok (s, _) => s | _ => ex_st0 end in
  match nth_p (st_proxies st2) 0 with
  | Some p => snd (pins_get (sec 1000) ex_d (ps_pins p)) = Some (pin_val_backend (s2b "10.0.0.12:5070") 1) /\
              snd (pins_get (sec 1802) ex_d (ps_pins p)) = None
  | None => False
  end.
Proof. vm_compute. split; reflexivity. Qed.

(* before the repair of findBackendByDialog (fx_indialog_invite = false): the re-INVITE inside the
   pinned dialog goes to the rotation's next backend (.11) although the pin (.12) is live *)
Definition legacy_fixes : fixes :=
  {| fx_wiring := true; fx_udp_via_listener := true; fx_indialog_invite := false; fx_bracket_host := true; fx_resolved_key := true; fx_stale_pin := true |}.
Theorem C04_legacy_refuted :
  let h := firstn 4 ex_hist in
  let st3 := match run legacy_fixes ex_cfg ex_st0 (firstn 3 ex_hist) with Ok (s, _) => s | _ => ex_st0 end in
  (* the binding is there and live when the re-INVITE arrives (t = 4 s) *)
  match nth_p (st_proxies st3) 0 with
  | Some p => snd (pins_get (sec 4) ex_d (ps_pins p)) = Some (pin_val_backend (s2b "10.0.0.12:5070") 1)
  | None => False
  end /\
  dialog_of (msg_of ex_reinvite) = Ok ex_d /\
  last (dests (run legacy_fixes ex_cfg ex_st0 h)) [] = [DUdp (s2b "10.0.0.11") 5070] /\
  last (dests (run all_fixed ex_cfg ex_st0 h)) [] = [DUdp (s2b "10.0.0.12") 5070].
Proof. vm_compute. repeat split; reflexivity. Qed.

(* ---- a dialog answered by a DYNAMIC backend which the resolver then removes.  Before the repair of
   findBackendByDialog (fx_stale_pin = false) the BYE of that dialog is written on the closed backend object and
   lost although another backend is registered; the current tree forgets the binding and balances it ---- *)
Definition dyn_lc : listen_cfg :=
  {| lc_addr := s2b "10.0.0.1"; lc_udp := 5060; lc_tcp := 5060;
     lc_backends := [s2b "10.0.0.11:5070"];
     lc_dynamic := true; lc_no_received := false; lc_def_route := false; lc_must_rr := false |}.
Definition dyn_cfg : cfg :=
  {| c_name := s2b "sip.example.com"; c_keep_next_hop := false; c_dialog_timeout := 1800;
     c_routes := []; c_hosts := []; c_listens := [dyn_lc] |}.
Definition dyn_hist : hist :=
  [ (sec 1, [], EvBackendAdd 0 (s2b "10.0.0.12:5070"));
    (sec 2, s2b "z9hG4bKpx0", EvUdp 0 (s2b "10.0.0.99") 5060 ex_invite);
    (sec 3, s2b "z9hG4bKpx1", EvUdp 0 (s2b "10.0.0.12") 5070 ex_200);
    (sec 4, [], EvBackendRemove 0 (s2b "10.0.0.12:5070"));
    (sec 5, s2b "z9hG4bKpx2", EvUdp 0 (s2b "10.0.0.99") 5060 ex_bye) ].
Definition dyn_st0 : state := init_state dyn_cfg 0 [].
Definition stale_legacy_fixes : fixes :=
  {| fx_wiring := true; fx_udp_via_listener := true; fx_indialog_invite := true; fx_bracket_host := true; fx_resolved_key := true; fx_stale_pin := false |}.
Definition dyn_st4 (fx : fixes) : state := match run fx dyn_cfg dyn_st0 (firstn 4 dyn_hist) with Ok (s, _) => s | _ => dyn_st0 end.
Definition dyn_p4 (fx : fixes) : pstate :=
  match nth_p (st_proxies (dyn_st4 fx)) 0 with Some p => p | None => init_pstate dyn_cfg 0 dyn_lc end.
Theorem C04_stale_pin_legacy_refuted :
  (* when the BYE arrives (t = 5 s) the binding to the object 10.0.0.12:5070#1 is there and live, that object is not
     registered any more, 10.0.0.11:5070 is *)
  match nth_p (st_proxies (dyn_st4 stale_legacy_fixes)) 0 with
  | Some p => snd (pins_get (sec 5) ex_d (ps_pins p)) = Some (pin_val_backend (s2b "10.0.0.12:5070") 1) /\
              alookup (s2b "10.0.0.12:5070") (ps_backends p) = None /\
              alookup (s2b "10.0.0.11:5070") (ps_backends p) = Some 0%nat
  | None => False
  end /\
  dialog_of (msg_of ex_bye) = Ok ex_d /\
  (* INVITE -> .12 (the dynamic backend), 200 -> caller, BYE -> nowhere *)
  dests (run stale_legacy_fixes dyn_cfg dyn_st0 dyn_hist) =
    [ []; [DUdp (s2b "10.0.0.12") 5070]; [DUdp (s2b "10.0.0.99") 5060]; []; [] ] /\
  (* the current tree: BYE -> .11, the registered backend *)
  dests (run all_fixed dyn_cfg dyn_st0 dyn_hist) =
    [ []; [DUdp (s2b "10.0.0.12") 5070]; [DUdp (s2b "10.0.0.99") 5060]; []; [DUdp (s2b "10.0.0.11") 5070] ].
Proof. vm_compute. repeat split; reflexivity. Qed.

(* the hypotheses of C04_stale_pin_balanced hold on that history (the state the BYE finds) *)
Example C04_stale_pin_balanced_ex :
  let e := mk_env all_fixed dyn_cfg (item_rs_of true) 0 dyn_lc (sec 5) (s2b "z9hG4bKpx2") in
  let st := dyn_st4 all_fixed in
  let x := {| x_learned := st_learned st; x_p := dyn_p4 all_fixed; x_conns := st_conns st; x_world := st_world st; x_outs := [] |} in
  let x' := fst (send_to_backend e (msg_of ex_bye) x) in
  ps_rr (x_p x') = fst (rr_dispatch (ps_rr (dyn_p4 all_fixed))) /\ alookup ex_d (p_tab (ps_pins (x_p x'))) = None.
Proof.
  intros e st x x'.
  unshelve epose proof (C04_stale_pin_balanced e (msg_of ex_bye) x (udp_from dyn_lc) ex_d (s2b "10.0.0.12:5070") 1%nat
                          (sec 1803) _ _ _ _ _ _ _ _ _) as H.
  1-7: vm_compute; reflexivity.
  1-2: vm_compute; discriminate.
  destruct H as (_ & H2 & H3). split; [exact H2|]. apply H3; [reflexivity|].
  intros c Hc E. vm_compute in Hc. injection Hc as <-. vm_compute in E. discriminate E.
Qed.

(* ------------------------------------------------------------------ axiom audit *)
Print Assumptions bref_of_val_backend.
Print Assumptions bref_round_trip.
Print Assumptions dialog_of_symmetric.
Print Assumptions C04_bind.
Print Assumptions C04_bind_subscribe.
Print Assumptions C04_sticky_step.
Print Assumptions C04_sticky_step_reverse.
Print Assumptions C04_preserved_message.
Print Assumptions C04_preserved.
Print Assumptions C04_preserved_history.
Print Assumptions C04_sticky.
Print Assumptions C04_sticky_pinned.
Print Assumptions C04_unpinned_step.
Print Assumptions C04_unpinned_balanced.
Print Assumptions key_neq_dialog.
Print Assumptions C04_legacy_refuted.
Print Assumptions C04_sticky_ex.
Print Assumptions C04_stale_pin_balanced.
Print Assumptions C04_stale_pin_legacy_refuted.
Print Assumptions C04_stale_pin_balanced_ex.
