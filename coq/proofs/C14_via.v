(* proofs/C14_via.v — property C14 for the Via and CSeq headers.
   For EVERY abstract value of the domain of SpecC14.v (any number >= 1 of Via entries, any
   sent-protocol tokens, optional port, any number of parameters, valueless or not):
     - decoding the reference text yields exactly the embedded abstract value,
     - encoding the embedded value yields the reference text byte for byte
       (a sent-by without port stays without port),
     - the accessors (GetPort default, branch / received / rport) report what the text denotes,
     - the whole observation made by the correspondence run (Codec.codec_obs) equals
       SpecC14.expected_obs.
   No axioms, no admits. *)
From Coq Require Import List Ascii String ZArith NArith Bool Lia.
From Coq Require Import ZifyBool ZifyNat ZifyN.
From Model Require Import Bytes BytesLemmas Uri Hdr Wire SpecC14 Codec.
Import ListNotations.
Open Scope Z_scope.
Open Scope list_scope.

(* ================================================================== 1. character classes *)

Lemma forallb_notin (f : ascii -> bool) (s : bytes) (d : ascii) :
  f d = false -> forallb f s = true -> ~ In d s.
Proof.
  intros Hd Hs Hin. rewrite forallb_forall in Hs. apply Hs in Hin. congruence.
Qed.

Lemma safe_notin d s : safe_char d = false -> safe s = true -> ~ In d s.
Proof. apply forallb_notin. Qed.

Lemma val_ok_notin d s : val_char d = false -> val_ok s = true -> ~ In d s.
Proof. apply forallb_notin. Qed.

Lemma safe_no_semi s : safe s = true -> ~ In ";"%char s.
Proof. apply safe_notin. reflexivity. Qed.
Lemma safe_no_comma s : safe s = true -> ~ In ","%char s.
Proof. apply safe_notin. reflexivity. Qed.
Lemma safe_no_slash s : safe s = true -> ~ In "/"%char s.
Proof. apply safe_notin. reflexivity. Qed.
Lemma safe_no_colon s : safe s = true -> ~ In ":"%char s.
Proof. apply safe_notin. reflexivity. Qed.
Lemma safe_no_eq s : safe s = true -> ~ In "="%char s.
Proof. apply safe_notin. reflexivity. Qed.
Lemma safe_no_blank s : safe s = true -> ~ In " "%char s.
Proof. apply safe_notin. reflexivity. Qed.
Lemma val_ok_no_semi s : val_ok s = true -> ~ In ";"%char s.
Proof. apply val_ok_notin. reflexivity. Qed.
Lemma val_ok_no_comma s : val_ok s = true -> ~ In ","%char s.
Proof. apply val_ok_notin. reflexivity. Qed.

(* no white space at all *)
Definition nospace (s : bytes) : Prop := forall c, In c s -> is_space c = false.

Lemma safe_char_nospace c : safe_char c = true -> is_space c = false.
Proof.
  unfold safe_char, ws. destruct (is_space c); cbn; intros H; [discriminate H|reflexivity].
Qed.

Lemma val_char_nospace c : val_char c = true -> is_space c = false.
Proof.
  unfold val_char, ws. destruct (is_space c); cbn; intros H; [discriminate H|reflexivity].
Qed.

Lemma safe_nospace s : safe s = true -> nospace s.
Proof.
  intros H c Hc. apply safe_char_nospace.
  unfold safe in H. rewrite forallb_forall in H. apply H. exact Hc.
Qed.

Lemma val_ok_nospace s : val_ok s = true -> nospace s.
Proof.
  intros H c Hc. apply val_char_nospace.
  unfold val_ok in H. rewrite forallb_forall in H. apply H. exact Hc.
Qed.

Lemma safe1_inv s : safe1 s = true -> s <> [] /\ safe s = true.
Proof.
  unfold safe1. intros H. apply andb_true_iff in H. destruct H as [H1 H2].
  split; [|exact H2]. intros ->. cbn in H1. discriminate H1.
Qed.

Lemma nospace_app a b : nospace a -> nospace b -> nospace (a ++ b).
Proof.
  intros Ha Hb c Hc. apply in_app_or in Hc. destruct Hc as [Hc|Hc]; [apply Ha|apply Hb]; exact Hc.
Qed.

Lemma nospace_cons x a : is_space x = false -> nospace a -> nospace (x :: a).
Proof. intros Hx Ha c [Hc|Hc]; [subst c; exact Hx|apply Ha; exact Hc]. Qed.

(* ---- decimal numbers ---- *)
Lemma is_digit_nospace c : is_digit c = true -> is_space c = false.
Proof. intros H. apply is_digit_range in H. unfold is_space. cbv zeta. lia. Qed.

Lemma itoa_nospace z : nospace (itoa z).
Proof.
  intros c Hc. pose proof (itoa_chars z) as HF.
  apply (proj1 (Forall_forall _ _) HF) in Hc. destruct Hc as [Hc|Hc].
  - apply is_digit_nospace. exact Hc.
  - subst c. reflexivity.
Qed.

Lemma itoa_notin d z : is_digit d = false -> d <> "-"%char -> ~ In d (itoa z).
Proof.
  intros Hd Hm Hin. pose proof (itoa_chars z) as HF.
  apply (proj1 (Forall_forall _ _) HF) in Hin. destruct Hin as [H|H]; congruence.
Qed.

Lemma itoa_no_semi z : ~ In ";"%char (itoa z).
Proof. apply itoa_notin; [reflexivity|discriminate]. Qed.
Lemma itoa_no_comma z : ~ In ","%char (itoa z).
Proof. apply itoa_notin; [reflexivity|discriminate]. Qed.

Lemma atoi_itoa_port z : (1 <=? z) && (z <=? 65535) = true -> atoi (itoa z) = Some z.
Proof. intros H. apply atoi_itoa. unfold int_min, int_max. lia. Qed.

Lemma atoi_itoa_seq z : (0 <=? z) && (z <=? 4294967295) = true -> atoi (itoa z) = Some z.
Proof. intros H. apply atoi_itoa. unfold int_min, int_max. lia. Qed.

(* ================================================================== 2. strings.Fields *)

Lemma fields_aux_nospace a : forall rest cur, nospace a ->
  fields_aux (a ++ rest) cur = fields_aux rest (rev a ++ cur).
Proof.
  induction a as [|x a IH]; intros rest cur H; [reflexivity|].
  cbn [app fields_aux]. rewrite (H x (or_introl eq_refl)).
  rewrite IH by (intros c Hc; apply H; right; exact Hc).
  cbn [rev]. rewrite <- app_assoc. reflexivity.
Qed.

Lemma rev_nonnil {A} (a : list A) : a <> [] -> rev a <> [].
Proof. intros H E. apply H. rewrite <- (rev_involutive a), E. reflexivity. Qed.

Lemma fields_one b : b <> [] -> nospace b -> fields_aux b [] = [b].
Proof.
  intros Hb Nb. rewrite <- (app_nil_r b) at 1.
  rewrite fields_aux_nospace by exact Nb. rewrite app_nil_r. cbn [fields_aux].
  pose proof (rev_nonnil b Hb) as R.
  destruct (rev b) as [|y r] eqn:E; [contradiction|].
  rewrite <- E, rev_involutive. reflexivity.
Qed.

(* "a SP b" with a, b non-empty and free of white space has exactly the two fields a, b *)
Lemma fields_two a b : a <> [] -> b <> [] -> nospace a -> nospace b ->
  fields (a ++ " "%char :: b) = [a; b].
Proof.
  intros Ha Hb Na Nb. unfold fields.
  rewrite fields_aux_nospace by exact Na. rewrite app_nil_r.
  cbn [fields_aux]. change (is_space " "%char) with true. cbv iota.
  pose proof (rev_nonnil a Ha) as R.
  destruct (rev a) as [|y r] eqn:E; [contradiction|].
  rewrite <- E, rev_involutive. f_equal. apply fields_one; assumption.
Qed.

(* the same for strings.Fields proper, when neither word contains a Unicode-space sequence
   (the ASCII blank between them cannot be part of one) *)
Lemma fields_go_two a b : a <> [] -> b <> [] -> nospace a -> nospace b ->
  no_usp a = true -> no_usp b = true ->
  fields_go (a ++ " "%char :: b) = [a; b].
Proof.
  intros Ha Hb Na Nb Ua Ub. rewrite fields_go_two_words by assumption. apply fields_two; assumption.
Qed.

Lemma itoa_no_usp z : no_usp (itoa z) = true.
Proof. apply no_usp_ascii_F, itoa_ascii. Qed.

(* ================================================================== 3. parameters *)

Definition embed_param (p : a_param) : kv :=
  {| k_key := ap_key p; k_val := match ap_val p with Some v => v | None => [] end |}.

Lemma wf_param_inv p : wf_param p = true ->
  ap_key p <> [] /\ safe (ap_key p) = true /\
  match ap_val p with Some v => v <> [] /\ val_ok v = true | None => True end.
Proof.
  unfold wf_param. intros H. apply andb_true_iff in H. destruct H as [H1 H2].
  apply safe1_inv in H1. destruct H1 as [K1 K2]. repeat split; try assumption.
  destruct (ap_val p) as [v|]; [|exact I].
  apply andb_true_iff in H2. destruct H2 as [V1 V2]. split; [|exact V2].
  intros ->. cbn in V1. discriminate V1.
Qed.

Lemma firstn_length_app {A} (a b : list A) : firstn (List.length a) (a ++ b) = a.
Proof. induction a as [|x a IH]; cbn; [destruct b; reflexivity|f_equal; exact IH]. Qed.

Lemma skipn_S_length_app {A} (a : list A) x b : skipn (S (List.length a)) (a ++ x :: b) = b.
Proof. induction a as [|y a IH]; cbn; [reflexivity|exact IH]. Qed.

(* decode one parameter: the key has no '=' *)
Lemma kv_split_rp_param p : wf_param p = true -> kv_split (rp_param p) = embed_param p.
Proof.
  intros H. apply wf_param_inv in H. destruct H as (_ & Hk & _).
  apply safe_no_eq in Hk. unfold kv_split, rp_param, embed_param.
  destruct (ap_val p) as [v|].
  - rewrite index_byte_app_notin by exact Hk.
    rewrite firstn_length_app, skipn_S_length_app. reflexivity.
  - rewrite (proj2 (index_byte_none _ _) Hk). reflexivity.
Qed.

(* encode one parameter: a present value is non-empty *)
Lemma kv_print_embed_param p : wf_param p = true -> kv_print (embed_param p) = rp_param p.
Proof.
  intros H. apply wf_param_inv in H. destruct H as (_ & _ & Hv).
  unfold kv_print, rp_param, embed_param. cbn [k_key k_val].
  destruct (ap_val p) as [v|]; [|reflexivity].
  destruct Hv as [Hv _]. destruct v as [|x v]; [contradiction|reflexivity].
Qed.

Lemma rp_param_notin d p :
  safe_char d = false -> val_char d = false -> d <> "="%char ->
  wf_param p = true -> ~ In d (rp_param p).
Proof.
  intros Hs Hv He H. apply wf_param_inv in H. destruct H as (_ & Hk & Hval).
  unfold rp_param. destruct (ap_val p) as [v|].
  - destruct Hval as [_ Hval]. intros Hin. apply in_app_or in Hin.
    destruct Hin as [Hin|[Hin|Hin]].
    + exact (safe_notin d _ Hs Hk Hin).
    + apply He. symmetry. exact Hin.
    + exact (val_ok_notin d _ Hv Hval Hin).
  - exact (safe_notin d _ Hs Hk).
Qed.

Lemma rp_param_no_semi p : wf_param p = true -> ~ In ";"%char (rp_param p).
Proof. apply rp_param_notin; [reflexivity|reflexivity|discriminate]. Qed.
Lemma rp_param_no_comma p : wf_param p = true -> ~ In ","%char (rp_param p).
Proof. apply rp_param_notin; [reflexivity|reflexivity|discriminate]. Qed.

Lemma rp_params_cons p ps : rp_params (p :: ps) = ";"%char :: rp_param p ++ rp_params ps.
Proof. reflexivity. Qed.

Lemma rp_params_no_comma ps : forallb wf_param ps = true -> ~ In ","%char (rp_params ps).
Proof.
  induction ps as [|p ps IH]; intros H; [intros []|].
  cbn [forallb] in H. apply andb_true_iff in H. destruct H as [Hp Hps].
  rewrite rp_params_cons. intros [Hin|Hin]; [discriminate Hin|].
  apply in_app_or in Hin. destruct Hin as [Hin|Hin].
  - exact (rp_param_no_comma p Hp Hin).
  - exact (IH Hps Hin).
Qed.

(* strings.Split(head ++ ";p1;p2...", ";") = head, p1, p2 ... *)
Lemma split_semi_params ps : forall head, ~ In ";"%char head -> forallb wf_param ps = true ->
  split_byte ";"%char (head ++ rp_params ps) = head :: map rp_param ps.
Proof.
  induction ps as [|p ps IH]; intros head Hh H.
  - cbn. rewrite app_nil_r. apply split_byte_single. exact Hh.
  - cbn [forallb] in H. apply andb_true_iff in H. destruct H as [Hp Hps].
    rewrite rp_params_cons. cbn [map].
    rewrite split_byte_app by exact Hh. f_equal.
    apply IH; [apply rp_param_no_semi; exact Hp|exact Hps].
Qed.

Lemma map_kv_split_params ps : forallb wf_param ps = true ->
  map kv_split (map rp_param ps) = map embed_param ps.
Proof.
  intros H. rewrite map_map. apply map_ext_in. intros p Hp.
  apply kv_split_rp_param. rewrite forallb_forall in H. apply H. exact Hp.
Qed.

Lemma print_params_embed ps : forallb wf_param ps = true ->
  print_params ";"%char (map embed_param ps) = rp_params ps.
Proof.
  induction ps as [|p ps IH]; intros H; [reflexivity|].
  cbn [forallb] in H. apply andb_true_iff in H. destruct H as [Hp Hps].
  unfold print_params, rp_params in *. cbn [map flat_map].
  rewrite kv_print_embed_param by exact Hp. rewrite IH by exact Hps. reflexivity.
Qed.

(* accessors over the embedded parameters = the abstract lookup; no hypothesis needed *)
Lemma kv_get_embed name ps : kv_get name (map embed_param ps) = a_get name ps.
Proof.
  unfold a_get. induction ps as [|p ps IH]; [reflexivity|].
  cbn [map kv_get find]. unfold embed_param at 1. cbn [k_key k_val].
  destruct (beq (ap_key p) name); [reflexivity|exact IH].
Qed.

Lemma e_kvs_embed ps : e_kvs (map embed_param ps) = x_params ps.
Proof.
  unfold e_kvs, x_params, e_list. rewrite map_length. f_equal.
  induction ps as [|p ps IH]; [reflexivity|].
  cbn [map flat_map]. rewrite IH. reflexivity.
Qed.

(* ================================================================== 4. one Via entry *)

Definition embed_via (v : a_via) : via_param :=
  {| v_name := av_name v; v_version := av_version v; v_transport := av_transport v;
     v_host := av_host v; v_port := match av_port v with Some z => z | None => 0 end;
     v_params := map embed_param (av_params v) |}.

Definition via_proto (v : a_via) : bytes :=
  av_name v ++ "/"%char :: av_version v ++ "/"%char :: av_transport v.
Definition via_sentby (v : a_via) : bytes := av_host v ++ rp_port (av_port v).
Definition via_head (v : a_via) : bytes := via_proto v ++ " "%char :: via_sentby v.

Lemma rp_via1_shape v : rp_via1 v = via_head v ++ rp_params (av_params v).
Proof.
  unfold rp_via1, via_head, via_proto, via_sentby.
  repeat (rewrite <- app_assoc; cbn [app]). reflexivity.
Qed.

Lemma wf_via_shape_inv v : wf_via_shape v = true ->
  safe1 (av_name v) = true /\ safe1 (av_version v) = true /\ safe1 (av_transport v) = true /\
  safe1 (av_host v) = true /\ wf_port (av_port v) = true /\ forallb wf_param (av_params v) = true.
Proof. unfold wf_via_shape, noslash. rewrite !andb_true_iff. tauto. Qed.

(* [wf_via] = the token shape + no Unicode-space sequence inside the four tokens that
   strings.Fields sees *)
Lemma wf_via_weaken v : wf_via v = true -> wf_via_shape v = true.
Proof. unfold wf_via. intros H. apply andb_true_iff in H. exact (proj1 H). Qed.
Lemma wf_via_no_usp v : wf_via v = true ->
  no_usp (av_name v) = true /\ no_usp (av_version v) = true /\ no_usp (av_transport v) = true /\
  no_usp (av_host v) = true.
Proof. unfold wf_via, via_no_usp. rewrite !andb_true_iff. tauto. Qed.
Lemma wf_via_inv v : wf_via v = true ->
  safe1 (av_name v) = true /\ safe1 (av_version v) = true /\ safe1 (av_transport v) = true /\
  safe1 (av_host v) = true /\ wf_port (av_port v) = true /\ forallb wf_param (av_params v) = true.
Proof. intros H. apply wf_via_shape_inv, wf_via_weaken, H. Qed.
Lemma forallb_wf_via_weaken l : forallb wf_via l = true -> forallb wf_via_shape l = true.
Proof.
  intros H. rewrite forallb_forall in *. intros v Hv. apply wf_via_weaken, H, Hv.
Qed.

Lemma rp_port_notin d p : d <> ":"%char -> is_digit d = false -> d <> "-"%char -> ~ In d (rp_port p).
Proof.
  intros H1 H2 H3. destruct p as [z|]; [|intros []].
  cbn [rp_port]. intros [Hin|Hin]; [apply H1; symmetry; exact Hin|].
  exact (itoa_notin d z H2 H3 Hin).
Qed.

Lemma rp_port_nospace p : nospace (rp_port p).
Proof.
  destruct p as [z|]; [|intros c []]. cbn [rp_port].
  apply nospace_cons; [reflexivity|apply itoa_nospace].
Qed.

(* the part before the parameters contains none of the separators d that are excluded from
   [safe] and differ from the four punctuation marks the reference printer inserts *)
Lemma via_head_notin d v :
  safe_char d = false -> d <> "/"%char -> d <> " "%char -> d <> ":"%char ->
  is_digit d = false -> d <> "-"%char ->
  wf_via_shape v = true -> ~ In d (via_head v).
Proof.
  intros Hs H1 H2 H3 H4 H5 H. apply wf_via_shape_inv in H. destruct H as (Hn & Hv & Ht & Hh & _ & _).
  apply safe1_inv in Hn, Hv, Ht, Hh.
  destruct Hn as [_ Hn], Hv as [_ Hv], Ht as [_ Ht], Hh as [_ Hh].
  unfold via_head, via_proto, via_sentby. intros Hin.
  repeat (apply in_app_or in Hin; destruct Hin as [Hin|Hin]);
    try (exact (safe_notin d _ Hs Hn Hin)).
  - destruct Hin as [Hin|Hin]; [apply H1; symmetry; exact Hin|].
    apply in_app_or in Hin. destruct Hin as [Hin|Hin]; [exact (safe_notin d _ Hs Hv Hin)|].
    destruct Hin as [Hin|Hin]; [apply H1; symmetry; exact Hin|].
    exact (safe_notin d _ Hs Ht Hin).
  - destruct Hin as [Hin|Hin]; [apply H2; symmetry; exact Hin|].
    apply in_app_or in Hin. destruct Hin as [Hin|Hin]; [exact (safe_notin d _ Hs Hh Hin)|].
    exact (rp_port_notin d _ H3 H4 H5 Hin).
Qed.

Lemma via_head_no_semi v : wf_via_shape v = true -> ~ In ";"%char (via_head v).
Proof. apply via_head_notin; try discriminate; reflexivity. Qed.
Lemma via_head_no_comma v : wf_via_shape v = true -> ~ In ","%char (via_head v).
Proof. apply via_head_notin; try discriminate; reflexivity. Qed.

Lemma rp_via1_no_comma v : wf_via_shape v = true -> ~ In ","%char (rp_via1 v).
Proof.
  intros H. rewrite rp_via1_shape. intros Hin. apply in_app_or in Hin. destruct Hin as [Hin|Hin].
  - exact (via_head_no_comma v H Hin).
  - apply wf_via_shape_inv in H. destruct H as (_ & _ & _ & _ & _ & Hp).
    exact (rp_params_no_comma _ Hp Hin).
Qed.

Lemma via_proto_split v : wf_via_shape v = true ->
  split_byte "/"%char (via_proto v) = [av_name v; av_version v; av_transport v].
Proof.
  intros H. apply wf_via_shape_inv in H. destruct H as (Hn & Hv & Ht & _).
  apply safe1_inv in Hn, Hv, Ht. destruct Hn as [_ Hn], Hv as [_ Hv], Ht as [_ Ht].
  unfold via_proto.
  rewrite split_byte_app by (apply safe_no_slash; exact Hn).
  rewrite split_byte_app by (apply safe_no_slash; exact Hv).
  rewrite split_byte_single by (apply safe_no_slash; exact Ht). reflexivity.
Qed.

Lemma via_sentby_split v : wf_via_shape v = true ->
  split_byte ":"%char (via_sentby v) =
  match av_port v with Some z => [av_host v; itoa z] | None => [av_host v] end.
Proof.
  intros H. apply wf_via_shape_inv in H. destruct H as (_ & _ & _ & Hh & _).
  apply safe1_inv in Hh. destruct Hh as [_ Hh]. apply safe_no_colon in Hh.
  unfold via_sentby. destruct (av_port v) as [z|]; cbn [rp_port].
  - rewrite split_byte_app by exact Hh.
    rewrite split_byte_single by apply itoa_no_colon. reflexivity.
  - rewrite app_nil_r. apply split_byte_single. exact Hh.
Qed.

Lemma via_head_words v : wf_via_shape v = true ->
  via_proto v <> [] /\ via_sentby v <> [] /\ nospace (via_proto v) /\ nospace (via_sentby v).
Proof.
  intros H. apply wf_via_shape_inv in H. destruct H as (Hn & Hv & Ht & Hh & _).
  apply safe1_inv in Hn, Hv, Ht, Hh.
  destruct Hn as [Nn Hn], Hv as [_ Hv], Ht as [_ Ht], Hh as [Nh Hh].
  split; [|split; [|split]].
  - unfold via_proto. destruct (av_name v); [contradiction|discriminate].
  - unfold via_sentby. destruct (av_host v); [contradiction|discriminate].
  - unfold via_proto.
    apply nospace_app; [apply safe_nospace; exact Hn|].
    apply nospace_cons; [reflexivity|].
    apply nospace_app; [apply safe_nospace; exact Hv|].
    apply nospace_cons; [reflexivity|apply safe_nospace; exact Ht].
  - unfold via_sentby. apply nospace_app; [apply safe_nospace; exact Hh|apply rp_port_nospace].
Qed.

(* the ASCII split (what the judges use) *)
Lemma via_head_fields v : wf_via_shape v = true -> fields (via_head v) = [via_proto v; via_sentby v].
Proof.
  intros H. destruct (via_head_words v H) as (A & B & C & D). unfold via_head. apply fields_two; assumption.
Qed.

Lemma rp_port_ascii p : forallb is_ascii (rp_port p) = true.
Proof.
  destruct p as [z|]; [|reflexivity]. cbn [rp_port forallb]. apply andb_true_iff. split; [reflexivity|].
  apply forallb_forall. intros c Hc. pose proof (itoa_ascii z) as F. rewrite Forall_forall in F. exact (F c Hc).
Qed.

(* strings.Fields (what parseViaParam uses) *)
Lemma via_head_fields_go v : wf_via v = true -> fields_go (via_head v) = [via_proto v; via_sentby v].
Proof.
  intros H. destruct (via_head_words v (wf_via_weaken v H)) as (A & B & C & D).
  destruct (wf_via_no_usp v H) as (Un & Uv & Ut & Uh).
  unfold via_head. apply fields_go_two; try assumption.
  - unfold via_proto. apply no_usp_app_ascii; [exact Un|reflexivity|].
    apply no_usp_app_ascii; [exact Uv|reflexivity|exact Ut].
  - unfold via_sentby. apply no_usp_app_ascii_r; [exact Uh|apply rp_port_ascii].
Qed.

(* ---- decode (item 2, one entry) ---- *)
Theorem parse_via_param_rp v : wf_via v = true -> parse_via_param (rp_via1 v) = Ok (embed_via v).
Proof.
  intros H. pose proof (wf_via_inv v H) as (_ & _ & _ & _ & Hport & Hps).
  pose proof (wf_via_weaken v H) as Hs.
  unfold parse_via_param. rewrite rp_via1_shape.
  rewrite split_semi_params by (try apply via_head_no_semi; assumption).
  rewrite via_head_fields_go by exact H.
  rewrite via_proto_split by exact Hs.
  rewrite via_sentby_split by exact Hs.
  rewrite map_kv_split_params by exact Hps.
  unfold embed_via. destruct (av_port v) as [z|].
  - cbn [wf_port] in Hport. rewrite atoi_itoa_port by exact Hport. reflexivity.
  - reflexivity.
Qed.

(* ---- encode (item 3, one entry): byte-identical, no default port is added ---- *)
Theorem via_param_print_embed v : wf_via_shape v = true -> via_param_print (embed_via v) = rp_via1 v.
Proof.
  intros H. pose proof (wf_via_shape_inv v H) as (_ & _ & _ & _ & Hport & Hps).
  unfold via_param_print, rp_via1, embed_via.
  cbn [v_name v_version v_transport v_host v_port v_params].
  rewrite print_params_embed by exact Hps.
  destruct (av_port v) as [z|].
  - cbn [wf_port] in Hport.
    assert (E : (z =? 0) = false) by lia. rewrite E. cbn [rp_port].
    rewrite <- app_assoc. reflexivity.
  - cbn [rp_port app]. reflexivity.
Qed.

(* ---- accessors (item 4) ---- *)
Theorem obs_via_param_embed v : wf_via_shape v = true -> obs_via_param (embed_via v) = x_via1 v.
Proof.
  intros H. pose proof (wf_via_shape_inv v H) as (_ & _ & _ & _ & Hport & _).
  unfold obs_via_param, x_via1, via_get_branch, via_get_received, via_get_rport, via_get_port, x_opt.
  unfold embed_via. cbn [v_name v_version v_transport v_host v_port v_params].
  rewrite e_kvs_embed, !kv_get_embed.
  destruct (av_port v) as [z|].
  - cbn [wf_port] in Hport.
    assert (E : (z =? 0) = false) by lia. rewrite E. reflexivity.
  - reflexivity.
Qed.

(* individual accessors, for the record *)
Corollary via_get_port_embed v : wf_via_shape v = true ->
  via_get_port (embed_via v) =
  match av_port v with
  | Some z => z
  | None => if beq (av_transport v) (s2b "TLS") then 5061 else 5060
  end.
Proof.
  intros H. pose proof (wf_via_shape_inv v H) as (_ & _ & _ & _ & Hport & _).
  unfold via_get_port, embed_via. cbn [v_port v_transport].
  destruct (av_port v) as [z|]; [|reflexivity].
  cbn [wf_port] in Hport. assert (E : (z =? 0) = false) by lia. rewrite E. reflexivity.
Qed.

Corollary via_get_branch_embed v : via_get_branch (embed_via v) = a_get (s2b "branch") (av_params v).
Proof. unfold via_get_branch, embed_via. cbn [v_params]. apply kv_get_embed. Qed.
Corollary via_get_received_embed v : via_get_received (embed_via v) = a_get (s2b "received") (av_params v).
Proof. unfold via_get_received, embed_via. cbn [v_params]. apply kv_get_embed. Qed.
Corollary via_get_rport_embed v : via_get_rport (embed_via v) =
  match a_get (s2b "rport") (av_params v) with Some r => atoi r | None => None end.
Proof. unfold via_get_rport, embed_via. cbn [v_params]. rewrite kv_get_embed. reflexivity. Qed.

(* ================================================================== 5. Via lists *)

Lemma parse_all_map {A B} (f : bytes -> res B) (g : A -> bytes) (h : A -> B) (l : list A) :
  (forall x, In x l -> f (g x) = Ok (h x)) -> parse_all f (map g l) = Ok (map h l).
Proof.
  induction l as [|a l IH]; intros H; [reflexivity|].
  cbn [map parse_all]. rewrite H by (left; reflexivity). cbn [rbind].
  rewrite IH by (intros x Hx; apply H; right; exact Hx). reflexivity.
Qed.

Theorem parse_via_rp l : l <> [] -> forallb wf_via l = true ->
  parse_via (rp_via l) = Ok (map embed_via l).
Proof.
  intros NE H. rewrite forallb_forall in H. unfold parse_via, rp_via.
  rewrite split_join.
  - apply parse_all_map. intros v Hv. apply parse_via_param_rp. apply H. exact Hv.
  - destruct l; [contradiction|discriminate].
  - apply Forall_forall. intros s Hs. apply in_map_iff in Hs. destruct Hs as (v & <- & Hv).
    apply rp_via1_no_comma. apply wf_via_weaken. apply H. exact Hv.
Qed.

Theorem via_print_embed l : forallb wf_via l = true -> via_print (map embed_via l) = rp_via l.
Proof.
  intros H. rewrite forallb_forall in H. unfold via_print, rp_via. f_equal.
  rewrite map_map. apply map_ext_in. intros v Hv. apply via_param_print_embed. apply wf_via_weaken. apply H. exact Hv.
Qed.

Theorem obs_via_embed l : forallb wf_via l = true ->
  e_list obs_via_param (map embed_via l) = e_list x_via1 l.
Proof.
  intros H. unfold e_list. rewrite map_length. f_equal.
  induction l as [|v l IH]; [reflexivity|].
  cbn [forallb] in H. apply andb_true_iff in H. destruct H as [Hv Hl].
  cbn [map flat_map]. rewrite obs_via_param_embed by exact (wf_via_weaken _ Hv). rewrite IH by exact Hl. reflexivity.
Qed.

(* print (parse text) = text and the re-encoding is stable *)
Theorem via_roundtrip l : l <> [] -> forallb wf_via l = true ->
  exists a, parse_via (rp_via l) = Ok a /\ via_print a = rp_via l /\
            parse_via (via_print a) = Ok a.
Proof.
  intros NE H. exists (map embed_via l).
  rewrite via_print_embed by exact H. rewrite parse_via_rp by assumption.
  repeat split.
Qed.

(* ---- judge form (item 5) ---- *)
Lemma codec_obs_exact {A} (parse : bytes -> res A) (print : A -> bytes) (obs : A -> list bytes)
      (t : bytes) (a : A) (x : list bytes) :
  parse t = Ok a -> print a = t -> obs a = x -> codec_obs parse print obs t = expected_obs t x.
Proof.
  intros Hp Hq Ho. unfold codec_obs, expected_obs. rewrite Hp, Hq, Hp, Hq, Ho. reflexivity.
Qed.

Theorem C14_via l : l <> [] -> forallb wf_via l = true ->
  codec_obs parse_via via_print (e_list obs_via_param) (rp_via l) =
  expected_obs (rp_via l) (e_list x_via1 l).
Proof.
  intros NE H. apply codec_obs_exact with (a := map embed_via l).
  - apply parse_via_rp; assumption.
  - apply via_print_embed; exact H.
  - apply obs_via_embed; exact H.
Qed.

Corollary C14_via_judge l : l <> [] -> forallb wf_via l = true ->
  judge_C14 (expected_obs (rp_via l) (e_list x_via1 l))
            (codec_obs parse_via via_print (e_list obs_via_param) (rp_via l)) = true.
Proof.
  intros NE H. rewrite C14_via by assumption. unfold judge_C14.
  generalize (expected_obs (rp_via l) (e_list x_via1 l)). intros o.
  induction o as [|b o IH]; [reflexivity|]. cbn [list_beq]. rewrite beq_refl, IH. reflexivity.
Qed.

(* ================================================================== 6. CSeq *)

Definition embed_cseq (c : a_cseq) : cseq := {| cs_seq := ac_seq c; cs_method := ac_method c |}.

Lemma wf_cseq_inv c : wf_cseq c = true ->
  (0 <=? ac_seq c) && (ac_seq c <=? 4294967295) = true /\ ac_method c <> [] /\ safe (ac_method c) = true.
Proof.
  unfold wf_cseq. intros H. apply andb_true_iff in H. destruct H as [H _].
  apply andb_true_iff in H. destruct H as [H1 H2].
  apply safe1_inv in H2. tauto.
Qed.
Lemma wf_cseq_no_usp c : wf_cseq c = true -> no_usp (ac_method c) = true.
Proof. unfold wf_cseq. intros H. apply andb_true_iff in H. exact (proj2 H). Qed.

(* the ASCII split (what the judges use) *)
Lemma rp_cseq_fields c : wf_cseq c = true -> fields (rp_cseq c) = [itoa (ac_seq c); ac_method c].
Proof.
  intros H. apply wf_cseq_inv in H. destruct H as (_ & Hm & Hs).
  unfold rp_cseq. apply fields_two.
  - apply itoa_nonempty.
  - exact Hm.
  - apply itoa_nospace.
  - apply safe_nospace. exact Hs.
Qed.
(* strings.Fields (what ParseCSeq uses) *)
Lemma rp_cseq_fields_go c : wf_cseq c = true -> fields_go (rp_cseq c) = [itoa (ac_seq c); ac_method c].
Proof.
  intros H. unfold rp_cseq. rewrite fields_go_two_words; [apply rp_cseq_fields, H|apply itoa_no_usp|].
  apply wf_cseq_no_usp, H.
Qed.

Theorem parse_cseq_rp c : wf_cseq c = true -> parse_cseq (rp_cseq c) = Ok (embed_cseq c).
Proof.
  intros H. unfold parse_cseq. rewrite rp_cseq_fields_go by exact H.
  apply wf_cseq_inv in H. destruct H as (Hz & _).
  rewrite atoi_itoa_seq by exact Hz. reflexivity.
Qed.

(* holds for every abstract value, well-formed or not *)
Theorem cseq_print_embed c : cseq_print (embed_cseq c) = rp_cseq c.
Proof. reflexivity. Qed.

Theorem obs_cseq_embed c : obs_cseq (embed_cseq c) = x_cseq c.
Proof. reflexivity. Qed.

Theorem cseq_roundtrip c : wf_cseq c = true ->
  exists a, parse_cseq (rp_cseq c) = Ok a /\ cseq_print a = rp_cseq c /\
            parse_cseq (cseq_print a) = Ok a.
Proof.
  intros H. exists (embed_cseq c). rewrite cseq_print_embed, parse_cseq_rp by exact H.
  repeat split.
Qed.

Theorem C14_cseq c : wf_cseq c = true ->
  codec_obs parse_cseq cseq_print obs_cseq (rp_cseq c) = expected_obs (rp_cseq c) (x_cseq c).
Proof.
  intros H. apply codec_obs_exact with (a := embed_cseq c).
  - apply parse_cseq_rp. exact H.
  - apply cseq_print_embed.
  - apply obs_cseq_embed.
Qed.

(* ================================================================== 7. legacy witness *)

(* the pre-fix encoder adds ":5060" to a sent-by that had no port: the text changes *)
Example via_legacy_adds_port :
  let t := s2b "SIP/2.0/UDP host;branch=x" in
  match parse_via_param t with
  | Ok v => via_param_print_legacy v = s2b "SIP/2.0/UDP host:5060;branch=x" /\
            via_param_print_legacy v <> t /\
            via_param_print v = t
  | _ => False
  end.
Proof. vm_compute. repeat split. discriminate. Qed.

(* the same witness stated over the domain: a well-formed abstract Via on which the legacy
   encoder is not byte-identical *)
Example via_legacy_not_lossless :
  exists v, wf_via v = true /\ via_param_print_legacy (embed_via v) <> rp_via1 v.
Proof.
  exists {| av_name := s2b "SIP"; av_version := s2b "2.0"; av_transport := s2b "UDP";
            av_host := s2b "host"; av_port := None;
            av_params := [{| ap_key := s2b "branch"; ap_val := Some (s2b "x") |}] |}.
  split; [reflexivity|]. vm_compute. discriminate.
Qed.

(* ================================================================== 8. examples (non-vacuity) *)

Definition ex_via_a : a_via :=
  {| av_name := s2b "SIP"; av_version := s2b "2.0"; av_transport := s2b "TLS";
     av_host := s2b "proxy-1.example.org"; av_port := None;
     av_params := [ {| ap_key := s2b "branch"; ap_val := Some (s2b "z9hG4bK%7e=a:b/c@d") |};
                    {| ap_key := s2b "rport"; ap_val := None |};
                    {| ap_key := s2b "x%41"; ap_val := Some (s2b "50%25") |} ] |}.
Definition ex_via_b : a_via :=
  {| av_name := s2b "SIP"; av_version := s2b "2.0"; av_transport := s2b "UDP";
     av_host := s2b "10.0.0.7"; av_port := Some 5080;
     av_params := [ {| ap_key := s2b "received"; ap_val := Some (s2b "192.0.2.4") |};
                    {| ap_key := s2b "rport"; ap_val := Some (s2b "40123") |};
                    {| ap_key := s2b "branch"; ap_val := Some (s2b "z9hG4bKnashds8") |};
                    {| ap_key := s2b "lr"; ap_val := None |} ] |}.
Definition ex_vias : list a_via := [ex_via_a; ex_via_b].

Example ex_vias_wf : ex_vias <> [] /\ forallb wf_via ex_vias = true.
Proof. split; [discriminate|reflexivity]. Qed.

Example ex_vias_text : rp_via ex_vias =
  s2b "SIP/2.0/TLS proxy-1.example.org;branch=z9hG4bK%7e=a:b/c@d;rport;x%41=50%25,SIP/2.0/UDP 10.0.0.7:5080;received=192.0.2.4;rport=40123;branch=z9hG4bKnashds8;lr".
Proof. vm_compute. reflexivity. Qed.

Example ex_vias_decode : parse_via (rp_via ex_vias) = Ok (map embed_via ex_vias).
Proof. vm_compute. reflexivity. Qed.

Example ex_vias_encode : via_print (map embed_via ex_vias) = rp_via ex_vias.
Proof. vm_compute. reflexivity. Qed.

Example ex_vias_obs :
  codec_obs parse_via via_print (e_list obs_via_param) (rp_via ex_vias) =
  expected_obs (rp_via ex_vias) (e_list x_via1 ex_vias).
Proof. vm_compute. reflexivity. Qed.

(* what the accessors report on the example: default port 5061 for TLS, explicit 5080,
   valueless rport -> none, rport=40123 -> 40123 *)
Example ex_vias_accessors :
  map via_get_port (map embed_via ex_vias) = [5061; 5080] /\
  map via_get_rport (map embed_via ex_vias) = [None; Some 40123] /\
  map via_get_received (map embed_via ex_vias) = [None; Some (s2b "192.0.2.4")] /\
  map via_get_branch (map embed_via ex_vias) = [Some (s2b "z9hG4bK%7e=a:b/c@d"); Some (s2b "z9hG4bKnashds8")].
Proof. vm_compute. repeat split. Qed.

(* the same instance obtained from the general theorem (hypotheses are satisfiable) *)
Example ex_vias_by_theorem :
  codec_obs parse_via via_print (e_list obs_via_param) (rp_via ex_vias) =
  expected_obs (rp_via ex_vias) (e_list x_via1 ex_vias).
Proof. apply C14_via; [discriminate|reflexivity]. Qed.

Definition ex_cseq : a_cseq := {| ac_seq := 4294967295; ac_method := s2b "INVITE" |}.
Example ex_cseq_wf : wf_cseq ex_cseq = true.
Proof. reflexivity. Qed.
Example ex_cseq_obs :
  rp_cseq ex_cseq = s2b "4294967295 INVITE" /\
  parse_cseq (rp_cseq ex_cseq) = Ok (embed_cseq ex_cseq) /\
  codec_obs parse_cseq cseq_print obs_cseq (rp_cseq ex_cseq) =
  expected_obs (rp_cseq ex_cseq) (x_cseq ex_cseq).
Proof. vm_compute. repeat split. Qed.
Example ex_cseq_zero : wf_cseq {| ac_seq := 0; ac_method := s2b "ACK" |} = true /\
  parse_cseq (s2b "0 ACK") = Ok {| cs_seq := 0; cs_method := s2b "ACK" |}.
Proof. vm_compute. repeat split. Qed.

(* the hypothesis l <> [] is necessary: the empty list prints as "" which does not decode *)
Example via_empty_rejected : parse_via (rp_via []) = Err.
Proof. reflexivity. Qed.

(* the Unicode-space conjuncts of wf_via / wf_cseq are necessary: a host / a method that passes
   [safe1] but contains U+00A0 (C2 A0) is split by strings.Fields, and the decoder rejects the
   reference text *)
Definition ex_via_nbsp : a_via :=
  {| av_name := s2b "SIP"; av_version := s2b "2.0"; av_transport := s2b "UDP";
     av_host := s2b "a" ++ [ascii_of_nat 194; ascii_of_nat 160] ++ s2b "b"; av_port := None; av_params := [] |}.
Example via_usp_necessary :
  wf_via_shape ex_via_nbsp = true /\ wf_via ex_via_nbsp = false /\ parse_via (rp_via [ex_via_nbsp]) = Err.
Proof. vm_compute. repeat split. Qed.
Example cseq_usp_necessary :
  let c := {| ac_seq := 1; ac_method := s2b "A" ++ [ascii_of_nat 194; ascii_of_nat 160] ++ s2b "B" |} in
  safe1 (ac_method c) = true /\ wf_cseq c = false /\ parse_cseq (rp_cseq c) = Err.
Proof. vm_compute. repeat split. Qed.

(* ================================================================== assumptions *)
Print Assumptions parse_via_param_rp.
Print Assumptions via_param_print_embed.
Print Assumptions obs_via_param_embed.
Print Assumptions parse_via_rp.
Print Assumptions via_print_embed.
Print Assumptions obs_via_embed.
Print Assumptions via_roundtrip.
Print Assumptions C14_via.
Print Assumptions C14_via_judge.
Print Assumptions parse_cseq_rp.
Print Assumptions cseq_print_embed.
Print Assumptions obs_cseq_embed.
Print Assumptions cseq_roundtrip.
Print Assumptions C14_cseq.
