(* C03_bridge.v — the executable judge of C03 (SpecProxy.judge_C03_event: it reads the raw bytes of the
   received datagram with its own reader and looks at the LABELS of what was observed) accepts what the
   MODEL emits for a request of the domain.

   Parts:
     A. the judge's URI reader on reference text (user part, transport, effective port).
     B. choose_agree: j_choose (judge, bytes) prescribes the hop the model takes (C03.effective_hop,
        decoded message): first remaining Route entry / static route of the To host / service name.
     C. the model side: where the (at most one) message of the event goes, for every hop
        (udp_hop_outs, tcp_hop_outs, backend_sends, choice_udp).
     D. agree (judge bookkeeping vs model state), C03_judge_bridge_udp (process_message level),
        C03_judge_bridge_step (proxy_step level), C03_judge_bridge_step_no_tcp.
     E. concrete runs on the configuration of proofs/C01.v: Route next hop over udp, backend.
     F. agree_step_udp: the agreement is kept by any datagram (pool members, dialled connections).
     G. concrete run with a TCP next hop (dial + bytes on the connection) and the bookkeeping after it.

   What is NOT proved (see the comment at C03_judge_bridge_udp): for a TCP next hop the bridge keeps one
   premise on the observation side: when the model writes nothing on a connection, the judge must see a
   refusing peer (no listener, no open connection there).  The model can stay silent towards a listening
   peer (a request with a transaction id towards the source port of an accepted connection), so that
   premise does not follow from the agreement alone.  (A cached
   connection that was closed no longer causes silence: since the repair of Proxy.tcp_client_send the
   round that dials also writes, C02.C02_stale_redial.) *)
From Coq Require Import List Ascii String ZArith NArith Bool Arith Lia.
From Model Require Import Bytes BytesLemmas Wire Uri Hdr Message Msg Rx Glob StaticRoute RoundRobin Pins
     Proxy RunProxy SpecProxy SpecC14.
From Model.proofs Require Import C14_uri C14_hdr MsgLemmas C06 C01 C13 C03 C13_bridge.
From Model.proofs Require C05 C07 C02 C04.
Import ListNotations.
Open Scope list_scope.

(* ================================================================== A. the judge's URI reader *)
Definition mk_ju (txt usr : bytes) (u : a_sipuri) : juri :=
  {| ju_sip := true; ju_text := txt; ju_user := usr; ju_host := au_host u; ju_port := au_port u;
     ju_params := map j_kv (map rp_param (au_params u)) |}.

Lemma j_userhost_user o hp : wf_user o = true -> ~ In "@"%char hp ->
  fst (j_userhost (rp_user o ++ hp)) = emb_user o.
Proof.
  intros H Hhp. unfold j_userhost.
  destruct o as [[usr [pw|]]|]; cbn [wf_user rp_user emb_user] in *.
  - apply andb_true_iff in H. destruct H as [H1 H2].
    apply safe1_parts in H1, H2. destruct H1 as [_ H1], H2 as [_ H2].
    assert (N : ~ In "@"%char (usr ++ ":"%char :: pw)).
    { apply notin_app; [apply safe_no_at, H1|]. apply notin_cons; [discriminate|apply safe_no_at, H2]. }
    replace ((usr ++ ":"%char :: pw ++ ["@"%char]) ++ hp)
      with ((usr ++ ":"%char :: pw) ++ "@"%char :: hp) by (norm_app; reflexivity).
    destruct (index_cut _ _ hp N) as (E1 & E2 & E3). rewrite E1, E2. cbn [fst].
    destruct (index_cut _ usr pw (safe_no_colon _ H1)) as (F1 & _ & _). rewrite F1.
    rewrite <- app_assoc. apply firstn_len_app.
  - rewrite andb_true_r in H. apply safe1_parts in H. destruct H as [_ H].
    replace ((usr ++ ["@"%char]) ++ hp) with (usr ++ "@"%char :: hp) by (norm_app; reflexivity).
    destruct (index_cut _ usr hp (safe_no_at _ H)) as (E1 & E2 & E3). rewrite E1, E2. cbn [fst].
    rewrite index_notin by (apply safe_no_colon, H). reflexivity.
  - cbn [app]. rewrite index_notin by exact Hhp. reflexivity.
Qed.

Lemma j_go_sip2 txt u : wf_sipuri u = true ->
  j_go txt ((rp_core u ++ rp_params (au_params u)) ++ rp_hdrs (au_headers u)) = mk_ju txt (emb_user (au_user u)) u.
Proof.
  intros H. destruct (wf_sipuri_parts u H) as (Hu & Hh & Hp & Hps & Hhs).
  apply safe1_parts in Hh. destruct Hh as [_ Hh].
  set (S1 := rp_core u ++ rp_params (au_params u)).
  assert (N : ~ In "?"%char S1) by (apply (pm_notin "?"%char _ eq_refl), rp_core_params_pm, H).
  assert (B1 : match index_byte "?"%char (S1 ++ rp_hdrs (au_headers u)) with
               | Some p => firstn p (S1 ++ rp_hdrs (au_headers u))
               | None => S1 ++ rp_hdrs (au_headers u) end = S1).
  { destruct (au_headers u) as [|h r]; cbn [rp_hdrs].
    - rewrite app_nil_r, index_notin by exact N. reflexivity.
    - destruct (index_cut _ S1 (rp_hdr h ++ flat_map (fun y => "&"%char :: rp_hdr y) r) N) as (E1 & E2 & _).
      rewrite E1. exact E2. }
  assert (SP : split_byte ";"%char S1 = rp_core u :: map rp_param (au_params u)).
  { unfold S1, rp_params. apply split_flat.
    - apply (hp_notin ";"%char _ eq_refl), rp_core_hp, H.
    - apply (forallb_Forall_wf wf_param); [apply rp_param_no_semi|exact Hps]. }
  unfold j_go. rewrite B1. cbv zeta. rewrite SP. cbv beta iota.
  assert (NA : ~ In "@"%char (au_host u ++ rp_port (au_port u))).
  { apply notin_app; [apply safe_no_at, Hh|apply rp_port_notin; [discriminate|reflexivity]]. }
  pose proof (j_userhost_core (au_user u) _ Hu NA) as K. fold (rp_core u) in K.
  pose proof (j_userhost_user (au_user u) _ Hu NA) as K1. fold (rp_core u) in K1.
  destruct (j_userhost (rp_core u)) as [usr hostport]. cbn [fst snd] in K, K1. subst hostport usr.
  rewrite (j_hostport_ok _ _ Hh Hp). reflexivity.
Qed.

Lemma j_uri_sipuri2 u : wf_sipuri u = true ->
  exists txt, j_uri (rp_sipuri u) = mk_ju txt (emb_user (au_user u)) u.
Proof.
  intros H. rewrite j_uri_unfold, rp_sipuri_eq2.
  set (B := (rp_core u ++ rp_params (au_params u)) ++ rp_hdrs (au_headers u)).
  destruct (au_secure u); unfold rp_scheme.
  - change (has_prefix (s2b "sip:") (s2b "sips:" ++ B)) with false.
    change (has_prefix (s2b "sips:") (s2b "sips:" ++ B)) with true.
    change (skipn 5 (s2b "sips:" ++ B)) with B. cbv iota.
    eexists. apply (j_go_sip2 _ u H).
  - change (has_prefix (s2b "sip:") (s2b "sip:" ++ B)) with true.
    change (skipn 4 (s2b "sip:" ++ B)) with B. cbv iota.
    eexists. apply (j_go_sip2 _ u H).
Qed.

Lemma ju_facts txt usr u : wf_sipuri u = true ->
  ju_transport (mk_ju txt usr u) = sip_uri_transport (embed_sipuri u) /\
  ju_eff_port (mk_ju txt usr u) = sip_uri_get_port (embed_sipuri u).
Proof.
  intros H. destruct (wf_sipuri_parts u H) as (_ & _ & Hpt & Hps & _).
  assert (T : ju_transport (mk_ju txt usr u) = x_transport u).
  { unfold ju_transport, mk_ju. cbn [ju_params]. rewrite (j_get_params _ _ Hps). reflexivity. }
  split.
  - rewrite sip_uri_transport_embed. exact T.
  - rewrite (sip_uri_get_port_embed u Hpt). unfold ju_eff_port. rewrite T. unfold mk_ju at 1. cbn [ju_port].
    destruct (au_port u) as [z|]; [|reflexivity].
    apply wf_port_range in Hpt. replace (Z.eqb z 0) with false; [reflexivity|].
    symmetry. apply Z.eqb_neq. lia.
Qed.

Lemma j_uri_other s : wf_other s = true -> ju_sip (j_uri s) = false.
Proof. intros H. destruct (wf_other_parts s H) as (_ & _ & E1 & E2). rewrite j_uri_unfold, E1, E2. reflexivity. Qed.

(* the URI of "display<uri>tail" *)
Lemma j_entry_nameaddr n tail : wf_nameaddr n = true ->
  j_entry_uri (rp_nameaddr n ++ tail) = j_uri (rp_addr (an_addr n)).
Proof.
  intros Hn. unfold j_entry_uri.
  destruct (nameaddr_cut n tail Hn) as (E1 & E2 & _).
  rewrite E1, E2. f_equal.
  unfold slice, na_pos. rewrite rp_nameaddr_app, <- app_assoc. cbn [app].
  rewrite skipn_S_len_app, app_length. cbn [List.length].
  replace (List.length (an_display n) + S (List.length (rp_addr (an_addr n))) - S (List.length (an_display n)))%nat
    with (List.length (rp_addr (an_addr n))) by lia.
  apply firstn_len_app.
Qed.

(* the URI of a From / To value, both forms *)
Lemma j_entry_fromto f : wf_fromto f = true -> j_entry_uri (rp_fromto f) = j_uri (rp_addr (a_ft_addr f)).
Proof.
  intros H. destruct (wf_fromto_parts f H) as [Ha Hps]. unfold rp_fromto, a_ft_addr.
  destruct (af_addr f) as [n|a]; cbn [wf_ftaddr] in Ha.
  - apply j_entry_nameaddr, Ha.
  - pose proof (wf_bare_addr a Ha) as Hw. unfold j_entry_uri.
    rewrite (index_notin "<"%char)
      by (apply notin_app; [apply rp_addr_no_lt, Hw|apply rp_params_no_lt, Hps]).
    f_equal. destruct (af_params f) as [|p ps].
    + cbn [rp_params flat_map map]. rewrite app_nil_r.
      rewrite index_notin by (apply rp_bare_no_semi, Ha). reflexivity.
    + rewrite rp_params_cons.
      destruct (index_cut ";"%char (rp_addr a) (rp_param p ++ rp_params ps) (rp_bare_no_semi a Ha)) as (F1 & F2 & _).
      rewrite F1. exact F2.
Qed.

(* ================================================================== B. the judge's choice is the model's *)
Lemma same_header_to n : same_header n (s2b "To") = is_to n.
Proof. reflexivity. Qed.

(* the first To header: the judge reads the raw value the model holds *)
Lemma j_first_to jhs hl : Forall2 hrel2 jhs hl ->
  match get_header (s2b "To") hl with
  | Some h => exists s, h_val h = HRaw s /\ j_first is_to jhs = Some s
  | None => j_first is_to jhs = None
  end.
Proof.
  induction 1 as [|p h jhs hl (En & Ev & _) F IH]; [reflexivity|].
  unfold j_first in *. cbn [get_header filter]. rewrite En, <- same_header_to.
  destruct (same_header (h_name h) (s2b "To")); [|exact IH].
  exists (snd p). split; [exact Ev|reflexivity].
Qed.

(* the value of the first To header is the reference rendering of a well-formed From / To value *)
Definition to_domain (m : message) : Prop :=
  match get_header (s2b "To") (m_headers m) with
  | Some h => exists f, wf_fromto f = true /\ h_val h = HRaw (rp_fromto f)
  | None => True
  end.
(* the Request-URI (second field of the request line) is the reference rendering of a well-formed address *)
(* ... and strings.Fields (the proxy) splits the request line like the judge's ASCII split: no
   UTF-8 encoding of a Unicode white-space rune inside it ([no_usp (jm_start jin) = true] is
   sufficient, BytesLemmas.fields_go_no_usp; [wf_addr] allows bytes >= 128 in the Request-URI) *)
Definition ruri_domain (jin : jmsg) : Prop :=
  fields_go (jm_start jin) = fields (jm_start jin) /\
  forall meth u ver, fields (jm_start jin) = [meth; u; ver] -> exists au, wf_addr au = true /\ u = rp_addr au.

Lemma start_agree l st meth u ver :
  parse_start_line l = Ok st -> has_prefix (s2b "SIP/") l = false -> fields l = [meth; u; ver] ->
  fields_go l = fields l ->
  exists a, st = SReq meth a ver /\ parse_addr_spec u = Ok a.
Proof.
  unfold parse_start_line. intros P R F G. rewrite R in P. unfold parse_request_line in P. rewrite G, F in P.
  destruct (parse_addr_spec u) as [a| |]; try discriminate P. cbn [rbind] in P. injection P as <-.
  exists a. split; reflexivity.
Qed.

Lemma entries_good h rest l : good_hdr h l -> entries_of (h :: rest) = map EDec (map embed_relem l) ++ entries_of rest.
Proof.
  intros ((NE & W & _ & _) & E). unfold entries_of. cbn [flat_map]. f_equal.
  unfold hval_entries, dec_route.
  destruct E as [E|E]; rewrite E; [rewrite (parse_route_rp l NE W)|]; (destruct l; [contradiction|reflexivity]).
Qed.

Lemma good_hdr_wf h l b : good_hdr h l -> In b l -> wf_relem b = true.
Proof. intros ((_ & W & _) & _) I. rewrite forallb_forall in W. exact (W b I). Qed.

(* the entries that remain once the own one is consumed: judge (text) and model (decoded) *)
Lemma remaining_agree c lc from hs :
  t_addr from = lc_addr lc -> t_port from = listener_port lc false -> route_domain hs ->
  match (match tview hs with e :: r => if j_own c lc false e then r else e :: r | [] => [] end) with
  | [] => drop_own c from (entries_of hs) = []
  | e :: _ => exists b rest, wf_relem b = true /\ e = rp_relem b /\
                             drop_own c from (entries_of hs) = EDec (embed_relem b) :: rest
  end.
Proof.
  intros Ha Hp D. destruct hs as [|h1 rest]; [reflexivity|]. destruct D as ((l1 & G1) & D2).
  destruct l1 as [|a l1]; [destruct G1 as ((NE & _) & _); contradiction|].
  rewrite (tview_good h1 rest (a :: l1) G1), (entries_good h1 rest (a :: l1) G1). cbn [map app].
  assert (Wa : wf_relem a = true) by (apply (good_hdr_wf _ _ _ G1); left; reflexivity).
  rewrite (own_agree c lc false from a Ha Hp Wa). unfold drop_own.
  destruct (designates c from (embed_relem a)).
  - destruct l1 as [|b l1].
    + cbn [map app]. destruct rest as [|h2 rest']; [reflexivity|]. destruct D2 as (l2 & G2).
      destruct l2 as [|b l2]; [destruct G2 as ((NE & _) & _); contradiction|].
      rewrite (tview_good h2 rest' (b :: l2) G2), (entries_good h2 rest' (b :: l2) G2). cbn [map app].
      exists b. eexists. split; [apply (good_hdr_wf _ _ _ G2); left; reflexivity|]. split; reflexivity.
    + cbn [map app]. exists b. eexists.
      split; [apply (good_hdr_wf _ _ _ G1); right; left; reflexivity|]. split; reflexivity.
  - exists a. eexists. split; [exact Wa|]. split; reflexivity.
Qed.

(* (3) the service name / the listener's own address *)
Lemma service_agree c lc m meth au ver : wf_addr au = true -> m_start m = SReq meth (embed_addr au) ver ->
  j_service_match c lc false (rp_addr au) = is_my_message (new_my_name (c_name c)) (udp_transport lc) m.
Proof.
  intros W Em. unfold j_service_match, is_my_message. rewrite Em.
  destruct au as [u|s]; cbn [rp_addr embed_addr wf_addr] in *.
  - destruct (j_uri_sipuri2 u W) as (txt & ->). rewrite (proj2 (ju_facts txt _ u W)).
    unfold mk_ju. cbn [ju_sip ju_host ju_user embed_sipuri u_host u_user udp_transport t_addr t_port listener_port].
    reflexivity.
  - rewrite (j_uri_other s W). reflexivity.
Qed.

(* the hop the judge prescribes against the hop the model takes *)
Definition hop_rel (c : cfg) (jh : jhop) (h : hop) : Prop :=
  match jh with
  | HOut => True
  | HDrop => h = HopNone
  | HBackend => h = HopBackend
  | HHop d => exists host port tr, h = HopAddr host port tr /\ d = j_dest c tr host port /\ (0 <= port <= 65535)%Z
  end.

(* the ports of the static routes are port numbers *)
Definition routes_ok (c : cfg) : Prop :=
  forall h it, find_route (route_table_of c) h = Some it -> (0 <= ri_port it <= 65535)%Z.

Lemma port_range_embed u : wf_sipuri u = true -> (0 <= sip_uri_get_port (embed_sipuri u) <= 65535)%Z.
Proof.
  intros H. destruct (wf_sipuri_parts u H) as (_ & _ & Hpt & _ & _).
  rewrite (sip_uri_get_port_embed u Hpt). destruct (au_port u) as [z|].
  - apply wf_port_range in Hpt. lia.
  - destruct (beq (x_transport u) (s2b "tls")); lia.
Qed.

Theorem choose_agree : forall c lc data jin m rest q,
  j_read data = Some jin -> parse_message data = Ok (m, rest) -> j_request jin = Some q ->
  route_domain_in (RS m) -> to_domain m -> ruri_domain jin -> routes_ok c ->
  is_request m = true /\ hop_rel c (j_choose c lc false q) (effective_hop c (udp_transport lc) m).
Proof.
  intros c lc data jin m rest q J P Q Dom DT DR RO.
  pose proof (read_headers_agree _ _ _ _ J P) as HR.
  destruct (read_agree _ _ _ _ J P) as (_ & _ & _ & _ & PS).
  unfold j_request in Q. unfold j_is_response in Q.
  destruct (has_prefix (s2b "SIP/") (jm_start jin)) eqn:Resp; [discriminate Q|].
  destruct (fields (jm_start jin)) as [|meth [|u [|ver [|x y]]]] eqn:F; try discriminate Q.
  injection Q as <-.
  destruct (start_agree _ _ _ _ _ PS Resp F (proj1 DR)) as (a & Em & Pa).
  destruct (proj2 DR meth u ver F) as (au & Wau & ->).
  rewrite (parse_addr_spec_rp au Wau) in Pa. injection Pa as <-.
  split; [unfold is_request; rewrite Em; reflexivity|].
  unfold j_choose. cbn [jq_routes jq_to jq_ruri].
  rewrite (j_flat_input _ _ HR). fold (RS m).
  assert (RD : route_domain (RS m)).
  { apply domain_in_good; [|exact Dom]. unfold RS, sel.
    pose proof (raw_trimmed_of_rel _ _ HR) as T. rewrite Forall_forall in *.
    intros h Ih. apply filter_In in Ih. apply T, Ih. }
  pose proof (remaining_agree c lc (udp_transport lc) (RS m) eq_refl eq_refl RD) as RA.
  rewrite effective_hop_spec. unfold route_view. fold (RS m).
  destruct (match tview (RS m) with e :: r => if j_own c lc false e then r else e :: r | [] => [] end) as [|e erest].
  2:{ destruct RA as (b & rest' & Wb & -> & ->).
      destruct (wf_relem_parts b Wb) as [Hn _]. destruct (wf_nameaddr_parts _ Hn) as [_ Hw].
      unfold rp_relem. rewrite (j_entry_nameaddr _ _ Hn).
      cbn [embed_relem r_addr embed_nameaddr na_addr].
      destruct (an_addr (ar_na b)) as [ub|s]; cbn [embed_addr rp_addr wf_addr] in *.
      - destruct (j_uri_sipuri2 ub Hw) as (txt & ->). destruct (ju_facts txt (emb_user (au_user ub)) ub Hw) as (T1 & T2).
        rewrite T1, T2. unfold mk_ju at 1 2. cbn [ju_sip ju_host hop_rel].
        eexists _, _, _. split; [reflexivity|]. split; [reflexivity|apply port_range_embed, Hw].
      - rewrite (j_uri_other s Hw). exact I. }
  rewrite RA.
  (* (2) static route of the To host, then (3) *)
  assert (SV : hop_rel c (if j_service_match c lc false (rp_addr au) then HBackend else HDrop)
                 (if is_my_message (new_my_name (c_name c)) (udp_transport lc) m then HopBackend else HopNone)).
  { rewrite (service_agree c lc m meth au ver Wau Em).
    destruct (is_my_message _ _ m); reflexivity. }
  unfold lower_choice, static_hop, decoded_to.
  pose proof (j_first_to _ _ HR) as JT. unfold to_domain in DT.
  destruct (get_header (s2b "To") (m_headers m)) as [h|].
  2:{ rewrite JT. exact SV. }
  destruct JT as (s & Ev & ->). destruct DT as (f & Wf & Ef). rewrite Ev in Ef. injection Ef as ->.
  rewrite Ev, (parse_fromto_rp f Wf), (fromto_host_embed f), (j_entry_fromto f Wf).
  pose proof (wf_fromto_addr f Wf) as Wa.
  destruct (a_ft_addr f) as [uf|sf]; cbn [rp_addr wf_addr] in *.
  - destruct (j_uri_sipuri2 uf Wa) as (txt & ->). unfold mk_ju at 1 2. cbn [ju_sip ju_host].
    destruct (find_route (route_table_of c) (au_host uf)) as [it|] eqn:FR; [|exact SV].
    cbn [hop_rel]. eexists _, _, _. split; [reflexivity|]. split; [reflexivity|exact (RO _ _ FR)].
  - rewrite (j_uri_other sf Wa). exact SV.
Qed.

(* ================================================================== C. the model side *)
(* the message that enters HandleMessage for a datagram (learned, stamped, own Route entry consumed), the
   state it is processed in, and the message after the route steps *)
Definition pre_msg (e : env) (peer : bytes) (pp : Z) (from : stransport) (rs : bool) (m0 : message) (x : ctx) : message :=
  let m1 := fst (pm_learn peer from m0 x) in
  let m2 := if (is_request m1 && rs)%bool then fst (s_set_received peer pp m1) else m1 in
  fst (mtry (try_remove_top_route (e_cfg e) from) m2).
Definition ctx1 (peer : bytes) (from : stransport) (m0 : message) (x : ctx) : ctx :=
  {| x_learned := learned_after peer from m0 x; x_p := x_p x; x_conns := x_conns x; x_world := x_world x;
     x_outs := x_outs x |}.
Definition routed_msg (e : env) (peer : bytes) (pp : Z) (from : stransport) (rs : bool) (m0 : message) (x : ctx) : message :=
  fst (next_request_hop (c_keep_next_hop (e_cfg e)) (route_table_of (e_cfg e)) (pre_msg e peer pp from rs m0 x)).

Lemma pm_request_udp e peer pp from rs m0 x x' :
  is_request m0 = true -> process_message e peer pp from rs None m0 x = Ok x' ->
  (forall nm, disjoint_names nm (s2b "Via") -> disjoint_names nm (s2b "Route") ->
              frame nm m0 (pre_msg e peer pp from rs m0 x)) /\
  route_view (pre_msg e peer pp from rs m0 x) = drop_own (e_cfg e) from (route_view m0) /\
  x' = fst (handle_message e from (pre_msg e peer pp from rs m0 x) (ctx1 peer from m0 x)).
Proof.
  intros R. rewrite process_message_unfold. unfold pre_msg, ctx1.
  destruct (pm_learn_spec peer from m0 x) as (L & F1).
  destruct (pm_learn peer from m0 x) as [m1 l1]. cbn [fst snd] in L, F1 |- *. subst l1. cbv zeta.
  set (m2 := if (is_request m1 && rs)%bool then fst (s_set_received peer pp m1) else m1).
  assert (F2 : forall nm, disjoint_names nm (s2b "Via") -> frame nm m1 m2).
  { intros nm D. subst m2. destruct (is_request m1 && rs)%bool; [|apply frame_refl].
    apply (mframe_set_received _ D). }
  assert (F02 : forall nm, disjoint_names nm (s2b "Via") -> frame nm m0 m2).
  { intros nm D. eapply frame_trans; [apply F1; exact D|apply F2; exact D]. }
  change (pm_conn e None m2 x) with (m2, Ok (x_p x)). cbv beta iota.
  intros H. unfold pm_tail in H. cbv zeta in H.
  set (m4 := fst (mtry (try_remove_top_route (e_cfg e) from) m2)) in *.
  assert (F24 : forall nm, disjoint_names nm (s2b "Route") -> frame nm m2 m4).
  { intros nm D. apply (mframe_try _ _ (mframe_try_remove_top_route nm (e_cfg e) from D)). }
  assert (R4 : is_response m4 = false).
  { unfold is_response. replace (is_request m4) with true; [reflexivity|]. symmetry.
    rewrite (frame_request (s2b "To") m2 m4 (F24 _ dj_To_Route)).
    rewrite (frame_request _ _ _ (F02 _ dj_To_Via)). exact R. }
  rewrite R4 in H. injection H as <-.
  split; [intros nm D1 D2; eapply frame_trans; [apply F02; exact D1|apply F24; exact D2]|].
  split; [|reflexivity].
  subst m4. rewrite try_remove_top_route_pops_iff_own.
  rewrite (route_view_frame m0 m2 (F02 _ dj_Route_Via)). reflexivity.
Qed.

Definition hop_goal (e : env) (x1 : ctx) (m1 : message) (x' : ctx) (h : hop) : Prop :=
  match h with
  | HopAddr host port tr => x' = fst (send_message e host port tr (decorate e (x_learned x1) host m1) x1)
  | HopBackend => x' = fst (send_to_backend e m1 x1)
  | HopNone => x' = x1
  | HopOut => False
  end.

(* C03_choice for a datagram, with the proxy object and the relayed message named *)
Lemma choice_udp e peer pp from rs m0 x x' :
  is_request m0 = true -> process_message e peer pp from rs None m0 x = Ok x' ->
  hop_goal e (ctx1 peer from m0 x) (routed_msg e peer pp from rs m0 x) x' (effective_hop (e_cfg e) from m0).
Proof.
  intros R H. destruct (pm_request_udp _ _ _ _ _ _ _ _ R H) as (F4 & V4 & ->).
  unfold routed_msg. set (m4 := pre_msg e peer pp from rs m0 x) in *. set (x1 := ctx1 peer from m0 x).
  assert (R4 : is_request m4 = true) by (rewrite (frame_request _ _ _ (F4 _ dj_To_Via dj_To_Route)); exact R).
  rewrite (handle_message_request e from m4 _ R4).
  set (keep := c_keep_next_hop (e_cfg e)). set (rt := route_table_of (e_cfg e)).
  pose proof (next_request_hop_choice keep rt m4) as CH. cbv zeta in CH.
  pose proof (frame_next_request_hop (s2b "Via") keep rt m4 dj_Via_Route dj_Via_To) as FN.
  destruct (next_request_hop keep rt m4) as [m1 r]. cbn [fst snd] in *.
  assert (ST : static_hop rt m4 = static_hop rt m0).
  { unfold static_hop. rewrite (decoded_to_frame m0 m4 (F4 _ dj_To_Via dj_To_Route)). reflexivity. }
  assert (MY : is_my_message (new_my_name (c_name (e_cfg e))) from m1 =
               is_my_message (new_my_name (c_name (e_cfg e))) from m0).
  { apply is_my_message_start. rewrite (proj1 (proj2 FN)). exact (proj1 (proj2 (F4 _ dj_To_Via dj_To_Route))). }
  assert (LC : match static_hop rt m4 with Some v => r = Ok v | None => is_ok r = false end ->
               hop_goal e x1 m1
                 (fst match r with
                      | Ok (host, port, transport) => send_message e host port transport (decorate e (x_learned x1) host m1) x1
                      | _ => if is_my_message (new_my_name (c_name (e_cfg e))) from m1 then send_to_backend e m1 x1
                             else (x1, m1)
                      end) (lower_choice (e_cfg e) from m0)).
  { intros BC. unfold lower_choice. fold rt. rewrite <- ST.
    destruct (static_hop rt m4) as [[[h p] t]|].
    - rewrite BC. reflexivity.
    - rewrite <- MY. destruct r as [v| |]; try discriminate BC;
        destruct (is_my_message (new_my_name (c_name (e_cfg e))) from m1); reflexivity. }
  rewrite effective_hop_spec, <- V4. revert CH.
  destruct (route_view m4) as [|[rp|v] rest]; intros CH.
  - apply LC, CH.
  - destruct (na_addr (r_addr rp)) as [u|s].
    + rewrite CH. reflexivity.
    + apply LC, CH.
  - apply LC, CH.
Qed.

(* ---- what the driver observes of a list of outputs ---- *)
Definition obs (pc : proxy_case) (outs : list output) : list (bytes * bytes) :=
  msgs_of (map labelled (filter (visible (pc_udp_endpoints pc)) outs)).
Lemma obs_eq pc outs : obs pc outs = map labelled (filter is_msg (filter (visible (pc_udp_endpoints pc)) outs)).
Proof. apply msgs_of_labelled. Qed.
Lemma obs_len pc outs : (List.length (obs pc outs) <= msg_count outs)%nat.
Proof.
  rewrite obs_eq, map_length. unfold msg_count.
  induction outs as [|o outs IH]; [apply Nat.le_refl|]. cbn [filter].
  destruct (visible (pc_udp_endpoints pc) o); cbn [filter]; destruct (is_msg o); cbn [List.length]; lia.
Qed.
Lemma obs_udp pc ip port b :
  obs pc [(DUdp ip port, b)] = if has_peer (pc_udp_endpoints pc) ip port then [(udp_label ip port, b)] else [].
Proof.
  rewrite obs_eq. cbn [filter]. change (visible (pc_udp_endpoints pc) (DUdp ip port, b)) with (has_peer (pc_udp_endpoints pc) ip port).
  destruct (has_peer (pc_udp_endpoints pc) ip port); reflexivity.
Qed.
Lemma obs_tcp pc b outs : C07.tcp_shape b outs ->
  (obs pc outs = [] /\ msg_count outs = 0%nat) \/ exists c, obs pc outs = [(label_of (DConn c), b)].
Proof.
  intros [->|[(c & ->)|[(h & p & c & ->)|(h & p & c & c' & ->)]]]; rewrite obs_eq.
  - left. split; reflexivity.
  - right. exists c. reflexivity.
  - left. split; reflexivity.
  - right. exists c'. reflexivity.
Qed.

Lemma dest_ok_udp pc stj ip port b :
  dest_ok pc stj (JUdp ip port) (obs pc [(DUdp ip port, b)]) = true.
Proof.
  rewrite obs_udp. unfold dest_ok. destruct (has_peer (pc_udp_endpoints pc) ip port); [apply beq_refl|reflexivity].
Qed.

(* ---- get_ip yields IPv4 literals when the host table holds IPv4 literals ---- *)
Definition hosts_ok (c : cfg) : Prop := forall n ip, alookup n (c_hosts c) = Some ip -> is_ipv4 ip = true.
Lemma get_ip_ipv4 c host ip : hosts_ok c -> get_ip c host = Some ip -> is_ipv4 ip = true.
Proof.
  intros HO. unfold get_ip. destruct (is_ipv4 host) eqn:E.
  - intros H. injection H as <-. exact E.
  - apply HO.
Qed.

(* ---- the pool ---- *)
Lemma find_backend_alive e p : fx_stale_pin (e_fx e) = true ->
  mpost (fun r => match snd r with Some (BObj a g) => backend_alive a g p = true | _ => True end)
        (find_backend_by_dialog e p).
Proof.
  intros Hfx. unfold find_backend_by_dialog. apply mpost_bind. intros meth.
  destruct (_ && _)%bool; [apply mpost_ret; exact I|].
  apply mpost_bind. intros [d|]; [|apply mpost_ret; exact I].
  destruct (pins_get (e_now e) d (ps_pins p)) as [pins1 ob]. cbv zeta. rewrite Hfx. cbn [andb].
  destruct ob as [v|].
  - destruct (negb (bref_alive (with_pins p pins1) (bref_of_val v))) eqn:A; [apply mpost_ret; exact I|].
    apply mpost_bind. intros ss. apply mpost_ret. cbn [snd option_map].
    apply negb_false_iff in A. destruct (bref_of_val v) as [a g|]; [|exact I].
    cbn [bref_alive with_pins ps_backends] in A.
    destruct (alookup a (ps_backends p)) as [g'|] eqn:AL; [|discriminate A].
    unfold backend_alive. apply existsb_exists. exists (a, g'). split; [apply alookup_in, AL|].
    rewrite beq_refl, A. reflexivity.
  - apply mpost_bind. intros ss. apply mpost_ret. exact I.
Qed.

(* the judge's list of backends of the listener against the proxy object: same members as the rotation;
   every live backend object is a member; a non-empty pool has its rotation object *)
Definition pool_agree (l : list bytes) (p : pstate) : Prop :=
  (forall a, In a l <-> In a (rr_backends (ps_rr p))) /\
  (forall a g, In (a, g) (ps_backends p) -> In a l) /\
  (l <> [] -> ps_has_rr p = true).

Lemma backend_alive_in a g p : backend_alive a g p = true -> In (a, g) (ps_backends p).
Proof.
  unfold backend_alive. intros H. apply existsb_exists in H. destruct H as ([a' g'] & I & E).
  apply andb_true_iff in E. destruct E as [E1 E2]. apply beq_eq in E1. apply Nat.eqb_eq in E2. subst. exact I.
Qed.

Lemma backend_outs e m x l t0 :
  fx_stale_pin (e_fx e) = true -> pool_agree l (x_p x) -> first_transport (e_lc e) = Some t0 ->
  (forall a, In a l -> backend_dest a <> None) ->
  fits_datagram (write_message (backend_message e t0 (x_p x) m)) = true ->
  exists extra, x_outs (fst (send_to_backend e m x)) = x_outs x ++ extra /\
    match l with
    | [] => extra = []
    | _ :: _ => exists a d b, In a l /\ backend_dest a = Some d /\ extra = [(d, b)]
    end.
Proof.
  intros Hfx (PA1 & PA2 & PA3) FT HD Hfit.
  destruct l as [|a0 l0].
  { destruct (send_to_backend_shape e m x) as (_ & extra & O & D). exists extra. split; [exact O|].
    destruct D as [->|(t1 & a & d & _ & _ & _ & _ & PB)]; [reflexivity|]. exfalso.
    destruct (pinned_backend e (x_p x) m) as [[a' g|]|].
    - destruct PB as [-> PB]. exact (PA2 _ _ (backend_alive_in _ _ _ PB)).
    - exact (proj2 (PA1 a) PB).
    - exact (proj2 (PA1 a) PB). }
  set (l := a0 :: l0) in *.
  assert (HR : ps_has_rr (x_p x) = true) by (apply PA3; discriminate).
  unfold send_to_backend. rewrite HR, FT. cbn [negb].
  pose proof (find_backend_by_dialog_same_rr e (x_p x) m) as SR.
  pose proof (find_backend_alive e (x_p x) Hfx m) as AL.
  unfold backend_message in Hfit.
  destruct (find_backend_by_dialog e (x_p x) m) as [m1 r] eqn:FB. cbn [fst] in Hfit.
  set (pr := match r with Ok v => v | _ => (x_p x, None) end).
  assert (SR' : same_rr (x_p x) (fst pr)).
  { subst pr. destruct r as [v| |]; [exact (SR _ _ eq_refl)|apply same_rr_refl|apply same_rr_refl]. }
  assert (AL' : match snd pr with Some (BObj a g) => backend_alive a g (x_p x) = true | _ => True end).
  { subst pr. destruct r as [v| |]; [exact (AL _ _ eq_refl)|exact I|exact I]. }
  destruct pr as [p1 ob]. cbn [fst snd] in SR', AL'. destruct SR' as (R1 & R2 & R3).
  set (m2 := px_add_record_route _ t0 (px_add_via e t0 m1)) in *.
  assert (TA : forall a, In a l -> exists d, backend_dest a = Some d /\
             (match last_index_byte ":"%char a with
              | Some pos => [(DUdp (firstn pos a) (atoi_val (skipn (S pos) a)), write_message m2)]
              | None => [] end) = [(d, write_message m2)]).
  { intros a Ia. specialize (HD a Ia). unfold backend_dest in *.
    destruct (last_index_byte ":"%char a) as [pos|]; [|contradiction]. eexists. split; reflexivity. }
  assert (BS : exists p2 a d, In a l /\ backend_dest a = Some d /\
                 backend_send (match ob with Some b => b | None => BRR end) (write_message m2) p1
                 = (p2, [(d, write_message m2)], true)).
  { unfold backend_send. rewrite Hfit.
    assert (RRc : exists p2 a d, In a l /\ backend_dest a = Some d /\
              (let '(r', o) := rr_dispatch (ps_rr p1) in
               match o with
               | Some a => if true then (with_rr p1 r',
                              match last_index_byte ":"%char a with
                              | Some pos => [(DUdp (firstn pos a) (atoi_val (skipn (S pos) a)), write_message m2)]
                              | None => [] end, true) else (with_rr p1 r', [], false)
               | None => (with_rr p1 r', [], false)
               end) = (p2, [(d, write_message m2)], true)).
    { rewrite R1.
      assert (NZ : List.length (rr_backends (ps_rr (x_p x))) <> 0%nat).
      { assert (I0 : In a0 (rr_backends (ps_rr (x_p x)))) by (apply PA1; left; reflexivity).
        destruct (rr_backends (ps_rr (x_p x))); [destruct I0|discriminate]. }
      destruct (C05.rr_member _ NZ) as (b & E1 & E2 & _).
      destruct (rr_dispatch (ps_rr (x_p x))) as [r' o]. cbn [snd] in E1. subst o.
      assert (Ib : In b l) by (apply PA1; exact E2).
      destruct (TA b Ib) as (d & BD & ->). exists (with_rr p1 r'), b, d. auto. }
    destruct ob as [[a g|]|]; [|exact RRc|exact RRc].
    assert (Ia : In a l) by (apply (PA2 a g), backend_alive_in, AL').
    unfold backend_alive in AL'. rewrite R2, AL'. cbn [andb].
    destruct (TA a Ia) as (d & BD & ->). exists p1, a, d. auto. }
  destruct BS as (p2 & a & d & Ia & BD & ->).
  destruct (mtry s_client_transaction m2) as [m3 tid]. cbn [fst x_outs].
  exists [(d, write_message m2)]. split; [reflexivity|]. exists a, d, (write_message m2). auto.
Qed.

(* ================================================================== D. the bridge *)
(* a backend address the driver can observe and name: "ip:port" in canonical form, with a driver socket there *)
Definition backend_ok (ue : list (bytes * Z)) (a : bytes) : Prop :=
  exists ip port, backend_dest a = Some (DUdp ip port) /\ ip ++ ":"%char :: itoa port = a /\ has_peer ue ip port = true.

(* the message the model serialises for the request (datagram size: a message over 65507 bytes is not sent) *)
Definition would_send (e : env) (peer : bytes) (pp : Z) (from : stransport) (rs : bool) (m0 : message) (x : ctx) : message :=
  let m1 := routed_msg e peer pp from rs m0 x in
  match effective_hop (e_cfg e) from m0 with
  | HopAddr host _ _ => C07.sent_msg (decorate e (learned_after peer from m0 x) host m1)
  | HopBackend => match first_transport (e_lc e) with Some t0 => backend_message e t0 (x_p x) m1 | None => m1 end
  | _ => m1
  end.

Lemma judge_C03_udp_unfold pc st li src sport data outs closed jin lc :
  j_read data = Some jin -> nth_opt (c_listens (pc_cfg pc)) li = Some lc ->
  judge_C03_event pc st (EvUdp li src sport data) outs closed =
  if jm_has_cl jin then
    match j_request jin with
    | Some q =>
        if Nat.ltb 1 (List.length (msgs_of outs)) then 1%nat
        else match j_choose (pc_cfg pc) lc false q with
             | HOut => O
             | HDrop => match msgs_of outs with [] => O | _ => 2%nat end
             | HHop d => if dest_ok pc st d (msgs_of outs) then O else match msgs_of outs with [] => 3%nat | _ => 2%nat end
             | HBackend =>
                 match msgs_of outs, backend_labels (match nth_opt (js_backends st) li with Some l => l | None => [] end) with
                 | [], [] => O
                 | [], _ => 3%nat
                 | [(l, _)], _ => if mem_bytes l (backend_labels (match nth_opt (js_backends st) li with Some l => l | None => [] end))
                                  then O else 2%nat
                 | _, _ => 1%nat
                 end
             end
    | None => O
    end
  else O.
Proof.
  intros J N. unfold judge_C03_event. cbv beta iota zeta delta [j_input ji_data ji_li ji_tcp].
  rewrite J, N. cbv beta iota. cbn [negb orb]. rewrite andb_true_r. reflexivity.
Qed.

Lemma backend_verdict lab (b : bytes) l : In lab (backend_labels l) ->
  match [(lab, b)], backend_labels l with
  | [], [] => O
  | [], _ => 3%nat
  | [(l0, _)], _ => if mem_bytes l0 (backend_labels l) then O else 2%nat
  | _, _ => 1%nat
  end = O.
Proof.
  intros I. apply C05.mem_bytes_In in I. revert I.
  destruct (backend_labels l); intros I; cbv beta iota; rewrite I; reflexivity.
Qed.

Lemma app_same_inv {A} (a b c : list A) : a ++ b = a ++ c -> b = c.
Proof. apply app_inv_head. Qed.

(* THE BRIDGE, process_message level.
   Input side:   route_domain_in / to_domain / ruri_domain: the first two Route headers, the To header and the
                 Request-URI are reference renderings of the C14 grammar.
   Configuration: hosts_ok (the host table maps to IPv4 literals), routes_ok (static-route ports are ports),
                 the listener has a UDP port; fixes fx_udp_via_listener (B1) and fx_stale_pin (9d11976).
   Judge vs model: the judge's backend list [l] of the listener has the members of the rotation (pool_agree);
                 every backend is "ip:port" in canonical form where the driver owns a socket (backend_ok).
   Model state:  the UDP slots of the transport table hold UDP clients (C02.udp_slot_ok; true until a send
                 fails), no tcp key holds a UDP client (C02.tcp_slot_ok, an invariant: C02_tcp_slot_reachable);
                 the message to send fits a datagram.
   TCP next hop: when nothing is written on a connection the peer must be a refusing one for the judge
                 (premise of the conclusion: the model can stay silent towards a listening peer, e.g. a
                 request with a transaction id towards the source port of an accepted connection; a stale
                 cached connection alone no longer silences it, C02.C02_stale_redial). *)
Theorem C03_judge_bridge_udp :
  forall pc stj li lc src sport data closed jin m rest e rs x x' l,
  nth_opt (c_listens (pc_cfg pc)) li = Some lc -> e_cfg e = pc_cfg pc -> e_lc e = lc ->
  j_read data = Some jin -> parse_message data = Ok (m, rest) ->
  route_domain_in (RS m) -> to_domain m -> ruri_domain jin ->
  hosts_ok (pc_cfg pc) -> routes_ok (pc_cfg pc) -> (0 < lc_udp lc)%Z ->
  fx_udp_via_listener (e_fx e) = true -> fx_stale_pin (e_fx e) = true ->
  nth_opt (js_backends stj) li = Some l -> pool_agree l (x_p x) ->
  Forall (backend_ok (pc_udp_endpoints pc)) l ->
  (forall ip port, C02.udp_slot_ok ip port (x_p x)) -> C02.tcp_slot_ok (x_p x) ->
  fits_datagram (write_message (would_send e src sport (udp_transport lc) rs m x)) = true ->
  process_message e src sport (udp_transport lc) rs None m x = Ok x' ->
  exists pre, x_outs x' = x_outs x ++ pre /\ (msg_count pre <= 1)%nat /\
    ((forall q ip port, j_request jin = Some q -> j_choose (pc_cfg pc) lc false q = HHop (JTcp ip port) ->
        msg_count pre = 0%nat -> dest_ok pc stj (JTcp ip port) [] = true) ->
     judge_C03_event pc stj (EvUdp li src sport data)
       (map labelled (filter (visible (pc_udp_endpoints pc)) pre)) closed = 0%nat).
Proof.
  intros pc stj li lc src sport data closed jin m rest e rs x x' l
         N He Hlc J P Dom DT DR HO RO Hudp Hfx1 Hfx2 Nl PA BO Hslot Htso Hfit H.
  destruct (C03_at_most_one _ _ _ _ _ _ _ _ _ H) as (pre & O & C).
  exists pre. split; [exact O|]. split; [exact C|]. intros Htcp.
  rewrite (judge_C03_udp_unfold pc stj li src sport data _ closed jin lc J N).
  change (msgs_of (map labelled (filter (visible (pc_udp_endpoints pc)) pre))) with (obs pc pre).
  destruct (jm_has_cl jin); [|reflexivity].
  destruct (j_request jin) as [q|] eqn:Q; [|reflexivity].
  pose proof (obs_len pc pre) as OL.
  assert (LT : Nat.ltb 1 (List.length (obs pc pre)) = false) by (apply Nat.ltb_ge; lia).
  rewrite LT.
  destruct (choose_agree (pc_cfg pc) lc data jin m rest q J P Q Dom DT DR RO) as (R & HR).
  pose proof (choice_udp e src sport (udp_transport lc) rs m x x' R H) as CH.
  unfold would_send in Hfit. rewrite He in CH, Hfit.
  specialize (Htcp q).
  set (x1 := ctx1 src (udp_transport lc) m x) in *.
  set (m1 := routed_msg e src sport (udp_transport lc) rs m x) in *.
  assert (PRE : forall extra, x_outs x' = x_outs x1 ++ extra -> pre = extra).
  { intros extra E. rewrite O in E. exact (app_same_inv _ _ _ E). }
  destruct (j_choose (pc_cfg pc) lc false q) as [| |d|] eqn:JC; cbn [hop_rel] in HR.
  - reflexivity.
  - (* nothing *)
    rewrite HR in CH. cbn [hop_goal] in CH.
    rewrite (PRE [] (eq_trans (f_equal x_outs CH) (eq_sym (app_nil_r _)))). reflexivity.
  - (* an address *)
    destruct HR as (host & port & tr & EH & -> & PR). rewrite EH in CH, Hfit. cbn [hop_goal] in CH.
    set (mm := decorate e (x_learned x1) host m1) in *.
    assert (ANY : dest_ok pc stj JAny (obs pc pre) = true) by (apply Nat.leb_le; lia).
    destruct (beq (to_lower tr) (s2b "udp")) eqn:TU.
    + destruct (get_ip (pc_cfg pc) host) as [ip|] eqn:GI.
      * assert (JD : j_dest (pc_cfg pc) tr host port = JUdp ip port)
          by (unfold j_dest, lower_is; rewrite TU, GI; reflexivity).
        rewrite JD. apply beq_eq in TU.
        assert (RS1 : resolvable ip port = true).
        { unfold resolvable. rewrite (get_ip_ipv4 _ _ _ HO GI). cbn [andb].
          apply andb_true_iff. split; apply Z.leb_le; lia. }
        assert (GI' : get_ip (e_cfg e) host = Some ip) by (rewrite He; exact GI).
        pose proof (C02.C02_dest_udp e host port tr mm x1 ip TU GI' RS1 (Hslot ip port) Hfit) as OUT.
        rewrite <- CH in OUT. rewrite (PRE _ OUT), dest_ok_udp. reflexivity.
      * assert (JD : j_dest (pc_cfg pc) tr host port = JAny)
          by (unfold j_dest, lower_is; rewrite TU, GI; reflexivity).
        rewrite JD, ANY. reflexivity.
    + destruct (beq (to_lower tr) (s2b "tcp")) eqn:TT.
      * destruct (get_ip (pc_cfg pc) host) as [ip|] eqn:GI.
        -- assert (JD : j_dest (pc_cfg pc) tr host port = JTcp ip port)
             by (unfold j_dest, lower_is; rewrite TU, TT, GI; reflexivity).
           rewrite JD in *. apply beq_eq in TT.
           destruct (C02.C02_dest_tcp e host port tr mm x1 Hfx1 TT Htso) as (outs & O2 & SH).
           rewrite <- CH in O2. rewrite (PRE _ O2) in *.
           destruct (obs_tcp pc _ _ SH) as [(E0 & C0)|(c & E1)].
           ++ rewrite E0, (Htcp ip port eq_refl eq_refl C0). reflexivity.
           ++ rewrite E1. reflexivity.
        -- assert (JD : j_dest (pc_cfg pc) tr host port = JAny)
             by (unfold j_dest, lower_is; rewrite TU, TT, GI; reflexivity).
           rewrite JD, ANY. reflexivity.
      * assert (JD : j_dest (pc_cfg pc) tr host port = JDrop)
          by (unfold j_dest, lower_is; rewrite TU, TT; reflexivity).
        rewrite JD. apply beq_neq in TU, TT.
        pose proof (C03_unsupported_transport_dropped e host port tr mm x1 TU TT) as OUT.
        rewrite <- CH in OUT.
        rewrite (PRE [] (eq_trans OUT (eq_sym (app_nil_r _)))). reflexivity.
  - (* the pool *)
    rewrite HR in CH, Hfit. cbn [hop_goal] in CH.
    assert (FT : first_transport (e_lc e) = Some (udp_transport lc)).
    { unfold first_transport. rewrite Hlc. replace (Z.ltb 0 (lc_udp lc)) with true; [reflexivity|].
      symmetry. apply Z.ltb_lt. exact Hudp. }
    rewrite FT in Hfit.
    assert (HD : forall a, In a l -> backend_dest a <> None).
    { intros a Ia. rewrite Forall_forall in BO. destruct (BO a Ia) as (ip & port & E & _). rewrite E. discriminate. }
    destruct (backend_outs e m1 x1 l (udp_transport lc) Hfx2 PA FT HD Hfit) as (extra & O2 & EX).
    rewrite <- CH in O2. rewrite (PRE _ O2). rewrite Nl.
    destruct l as [|a0 l0].
    + rewrite EX. reflexivity.
    + destruct EX as (a & d & b & Ia & BD & ->).
      rewrite Forall_forall in BO. destruct (BO a Ia) as (ip & port & BD' & CAN & VIS).
      rewrite BD' in BD. injection BD as <-. rewrite obs_udp, VIS.
      assert (HI : In (udp_label ip port) (backend_labels (a0 :: l0))).
      { unfold backend_labels.
        replace (udp_label ip port) with (s2b "udp:" ++ a) by (rewrite <- CAN; reflexivity).
        apply (in_map (fun a => s2b "udp:" ++ a)). exact Ia. }
      exact (backend_verdict (udp_label ip port) b (a0 :: l0) HI).
Qed.

(* ---- the judge's bookkeeping against the model state ---- *)
(* the listen entry as the judge files it: with SpecProxy.dial_mark added for a connection THE PROXY DIALLED
   (read by its own KTcpConn transport), as it is for an accepted one *)
Definition jli_of (cn : conn) : nat :=
  match t_kind (cn_from cn) with KTcpConn => (cn_li cn + dial_mark)%nat | _ => cn_li cn end.
Definition conns_agree (jc : list (nat * (nat * bytes * Z))) (cs : list conn) : Prop :=
  forall id li ip port, In (id, (li, ip, port)) jc <->
    exists cn, In cn cs /\ cn_open cn = true /\ cn_id cn = id /\ jli_of cn = li /\ cn_peer cn = ip /\ cn_peer_port cn = port.
Definition agree (stj : jstate) (st : state) : Prop :=
  (forall li p, nth_p (st_proxies st) li = Some p ->
     exists l, nth_opt (js_backends stj) li = Some l /\ pool_agree l p) /\
  conns_agree (js_conns stj) (st_conns st).

Definition step_would_send (fx : fixes) (c : cfg) (now : Z) (br : bytes) (st : state) (li : nat) (lc : listen_cfg)
           (p : pstate) (src : bytes) (sport : Z) (m : message) : message :=
  let e := mk_env fx c (item_rs_of (fx_wiring fx)) li lc now br in
  would_send e src sport (udp_transport lc) (e_item_rs e) m
    {| x_learned := st_learned st; x_p := p; x_conns := st_conns st; x_world := st_world st; x_outs := [] |}.

(* THE BRIDGE for one step of the whole proxy on a datagram: [outs] is what RunProxy prints for the event *)
Theorem C03_judge_bridge_step :
  forall pc stj fx now br st st' outs li lc p src sport data closed jin m rest,
  nth_opt (c_listens (pc_cfg pc)) li = Some lc ->
  j_read data = Some jin -> parse_message data = Ok (m, rest) ->
  route_domain_in (RS m) -> to_domain m -> ruri_domain jin ->
  hosts_ok (pc_cfg pc) -> routes_ok (pc_cfg pc) -> (0 < lc_udp lc)%Z ->
  fx_udp_via_listener fx = true -> fx_stale_pin fx = true ->
  agree stj st -> nth_p (st_proxies st) li = Some p ->
  (forall l, nth_opt (js_backends stj) li = Some l -> Forall (backend_ok (pc_udp_endpoints pc)) l) ->
  (forall ip port, C02.udp_slot_ok ip port p) -> C02.tcp_slot_ok p ->
  fits_datagram (write_message (step_would_send fx (pc_cfg pc) now br st li lc p src sport m)) = true ->
  proxy_step fx (pc_cfg pc) now br st (EvUdp li src sport data) = Ok (st', outs) ->
  (forall q ip port, j_request jin = Some q -> j_choose (pc_cfg pc) lc false q = HHop (JTcp ip port) ->
     msg_count outs = 0%nat -> dest_ok pc stj (JTcp ip port) [] = true) ->
  judge_C03_event pc stj (EvUdp li src sport data)
    (map labelled (filter (visible (pc_udp_endpoints pc)) outs)) closed = 0%nat.
Proof.
  intros pc stj fx now br st st' outs li lc p src sport data closed jin m rest
         N J P Dom DT DR HO RO Hudp Hfx1 Hfx2 (AG & _) Np BO Hslot Htso Hfit H Htcp.
  destruct (AG li p Np) as (l & Nl & PA).
  unfold proxy_step in H. rewrite N, P in H. unfold run_ctx in H. rewrite Np in H.
  match type of H with context [process_message ?e ?a ?b ?f ?r ?t ?mm ?xx] =>
    destruct (process_message e a b f r t mm xx) as [x'| |] eqn:PM; try discriminate H;
    destruct (C03_judge_bridge_udp pc stj li lc src sport data closed jin m rest e r xx x' l
                N eq_refl eq_refl J P Dom DT DR HO RO Hudp Hfx1 Hfx2 Nl PA (BO l Nl) Hslot Htso Hfit PM)
      as (pre & O & _ & K) end.
  cbn [x_outs app] in O. injection H as _ <-. rewrite O in *. apply K. exact Htcp.
Qed.

(* ... with conditions on the input, the configuration and the two states only, when the hop the judge reads in
   the request is not a TCP destination (Route / static route over udp, unsupported transport, unresolvable
   host, backend, nothing) *)
Corollary C03_judge_bridge_step_no_tcp :
  forall pc stj fx now br st st' outs li lc p src sport data closed jin m rest,
  nth_opt (c_listens (pc_cfg pc)) li = Some lc ->
  j_read data = Some jin -> parse_message data = Ok (m, rest) ->
  route_domain_in (RS m) -> to_domain m -> ruri_domain jin ->
  hosts_ok (pc_cfg pc) -> routes_ok (pc_cfg pc) -> (0 < lc_udp lc)%Z ->
  fx_udp_via_listener fx = true -> fx_stale_pin fx = true ->
  agree stj st -> nth_p (st_proxies st) li = Some p ->
  (forall l, nth_opt (js_backends stj) li = Some l -> Forall (backend_ok (pc_udp_endpoints pc)) l) ->
  (forall ip port, C02.udp_slot_ok ip port p) -> C02.tcp_slot_ok p ->
  fits_datagram (write_message (step_would_send fx (pc_cfg pc) now br st li lc p src sport m)) = true ->
  proxy_step fx (pc_cfg pc) now br st (EvUdp li src sport data) = Ok (st', outs) ->
  (forall q ip port, j_request jin = Some q -> j_choose (pc_cfg pc) lc false q <> HHop (JTcp ip port)) ->
  judge_C03_event pc stj (EvUdp li src sport data)
    (map labelled (filter (visible (pc_udp_endpoints pc)) outs)) closed = 0%nat.
Proof.
  intros pc stj fx now br st st' outs li lc p src sport data closed jin m rest
         N J P Dom DT DR HO RO Hudp Hfx1 Hfx2 AG Np BO Hslot Htso Hfit H NT.
  apply (C03_judge_bridge_step pc stj fx now br st st' outs li lc p src sport data closed jin m rest
           N J P Dom DT DR HO RO Hudp Hfx1 Hfx2 AG Np BO Hslot Htso Hfit H).
  intros q ip port Q JC _. exfalso. exact (NT q ip port Q JC).
Qed.

(* ================================================================== E. concrete instances *)
Lemma first_glob_in t h it : first_glob t h = Some it -> exists d, In (d, it) t.
Proof.
  induction t as [|[d i0] r IH]; cbn [first_glob]; [discriminate|].
  destruct (glob d h).
  - intros E. injection E as <-. exists d. left. reflexivity.
  - intros E. destruct (IH E) as (d' & I'). exists d'. right. exact I'.
Qed.
Lemma find_route_in t h it : find_route t h = Some it -> exists d, In (d, it) t.
Proof.
  unfold find_route. destruct (alookup h t) as [i0|] eqn:A.
  - intros E. injection E as <-. exists h. apply alookup_in, A.
  - destruct (first_glob t h) as [i1|] eqn:G.
    + intros E. injection E as <-. exact (first_glob_in _ _ _ G).
    + intros E. exists (s2b "default"). apply alookup_in, E.
Qed.
Definition routes_ok_b (c : cfg) : bool :=
  forallb (fun kv => Z.leb 0 (ri_port (snd kv)) && Z.leb (ri_port (snd kv)) 65535) (route_table_of c).
Lemma routes_ok_b_sound c : routes_ok_b c = true -> routes_ok c.
Proof.
  unfold routes_ok_b, routes_ok. intros H h it F. destruct (find_route_in _ _ _ F) as (d & I).
  rewrite forallb_forall in H. specialize (H _ I). cbn [snd] in H.
  apply andb_true_iff in H. destruct H as [H1 H2]. apply Z.leb_le in H1. apply Z.leb_le in H2. lia.
Qed.

(* the configuration of proofs/C01.v (service "example.com", listener 10.0.0.1:5060, one backend
   10.0.0.2:5080, a static route for static.example.org); the driver owns sockets at the peer
   10.0.0.9:5070 and at the backend *)
Definition b3_pc : proxy_case :=
  {| pc_cfg := C01.ex_cfg; pc_tcp_listeners := [(s2b "10.0.0.7", 5080%Z)];
     pc_udp_endpoints := [(s2b "10.0.0.9", 5070%Z); (s2b "10.0.0.2", 5080%Z)]; pc_events := []; pc_waits := [] |}.
Definition jdummy : jmsg :=
  {| jm_start := []; jm_headers := []; jm_body := []; jm_rest := []; jm_has_cl := false; jm_cl_count := 0;
     jm_cl_value := None |}.
Definition jin_of (d : bytes) : jmsg := match j_read d with Some j => j | None => jdummy end.
Definition b3_p : pstate := init_pstate C01.ex_cfg 0 C01.ex_lc.
Definition b3_src : bytes := s2b "10.0.0.9".
Definition b3_step (d : bytes) : res (state * list output) :=
  proxy_step all_fixed (pc_cfg b3_pc) 1000 (branch_of 0) C01.ex_st (EvUdp 0 b3_src 5070%Z d).
Definition b3_outs (d : bytes) : list output := match b3_step d with Ok (_, o) => o | _ => [] end.
Definition b3_to : a_fromto :=
  {| af_addr := AFName {| an_display := [];
                          an_addr := AASip {| au_secure := false; au_user := Some (s2b "svc", None);
                                              au_host := s2b "example.com"; au_port := None;
                                              au_params := []; au_headers := [] |} |};
     af_params := [] |}.
Definition b3_uri (user host : string) : a_addr :=
  AASip {| au_secure := false; au_user := Some (s2b user, None); au_host := s2b host; au_port := None;
           au_params := []; au_headers := [] |}.

Lemma b3_agree_init : agree (js_init C01.ex_cfg) C01.ex_st.
Proof.
  split.
  - intros li p Np. destruct li as [|li]; [|destruct li; discriminate Np].
    assert (E : p = b3_p) by (injection Np as <-; reflexivity). subst p.
    exists [s2b "10.0.0.2:5080"]. split; [reflexivity|].
    assert (E1 : rr_backends (ps_rr b3_p) = [s2b "10.0.0.2:5080"]) by (vm_compute; reflexivity).
    assert (E2 : ps_backends b3_p = [(s2b "10.0.0.2:5080", 0%nat)]) by (vm_compute; reflexivity).
    split; [intros a; rewrite E1; tauto|]. split.
    + intros a g I. rewrite E2 in I. destruct I as [I|[]]. injection I as <- _. left. reflexivity.
    + intros _. vm_compute. reflexivity.
  - intros id li ip port. split; [intros []|intros (cn & [] & _)].
Qed.

(* the bridge theorem instantiated on the case: what remains to check on a concrete request *)
Lemma b3_bridge d :
  j_read d = Some (jin_of d) -> parse_message d = Ok (parsed d, []) ->
  route_domain_in (RS (parsed d)) -> to_domain (parsed d) -> ruri_domain (jin_of d) ->
  fits_datagram (write_message (step_would_send all_fixed C01.ex_cfg 1000 (branch_of 0) C01.ex_st 0 C01.ex_lc b3_p
                                  b3_src 5070%Z (parsed d))) = true ->
  (forall ip port, option_map (j_choose C01.ex_cfg C01.ex_lc false) (j_request (jin_of d)) <> Some (HHop (JTcp ip port))) \/
  msg_count (b3_outs d) = 1%nat ->
  is_ok (b3_step d) = true ->
  judge_C03_event b3_pc (js_init C01.ex_cfg) (EvUdp 0 b3_src 5070%Z d)
    (map labelled (filter (visible (pc_udp_endpoints b3_pc)) (b3_outs d))) [] = 0%nat.
Proof.
  intros J P Dom DT DR Hfit NT OK.
  assert (Hrun : exists s, b3_step d = Ok (s, b3_outs d)).
  { unfold b3_outs. destruct (b3_step d) as [[s o]| |]; [exists s; reflexivity|discriminate OK|discriminate OK]. }
  destruct Hrun as (s & Hrun). unfold b3_step in Hrun.
  refine (C03_judge_bridge_step b3_pc (js_init C01.ex_cfg) all_fixed 1000%Z (branch_of 0) C01.ex_st s (b3_outs d)
            0%nat C01.ex_lc b3_p b3_src 5070%Z d [] (jin_of d) (parsed d) []
            eq_refl J P Dom DT DR _ _ _ eq_refl eq_refl b3_agree_init eq_refl _ _ _ Hfit Hrun _).
  - intros n ip A. discriminate A.
  - apply routes_ok_b_sound. vm_compute. reflexivity.
  - unfold C01.ex_lc. cbn [lc_udp]. lia.
  - intros l E. injection E as <-. constructor; [|constructor].
    exists (s2b "10.0.0.2"), 5080%Z. split; [vm_compute; reflexivity|]. split; vm_compute; reflexivity.
  - intros ip port. exact (proj1 (C02.slots_ok_init C01.ex_cfg 0 C01.ex_lc ip port)).
  - exact (proj2 (C02.slots_ok_init C01.ex_cfg 0 C01.ex_lc [] 0%Z)).
  - intros q ip port Q JC C0. destruct NT as [NT|C1]; [|rewrite C1 in C0; discriminate C0].
    exfalso. apply (NT ip port). rewrite Q. cbn [option_map]. f_equal. exact JC.
Qed.

(* 1. Route: own entry, next hop 10.0.0.9:5070 (udp), one more entry *)
Example b3_route_accepted :
  map (fun o => fst (labelled o)) (b3_outs b13_req) = [s2b "udp:10.0.0.9:5070"] /\
  judge_C03_event b3_pc (js_init C01.ex_cfg) (EvUdp 0 b3_src 5070%Z b13_req)
    (map labelled (filter (visible (pc_udp_endpoints b3_pc)) (b3_outs b13_req))) [] = 0%nat.
Proof.
  split; [vm_compute; reflexivity|]. apply b3_bridge.
  - vm_compute. reflexivity.
  - vm_compute. reflexivity.
  - exact b13_hyp_routes.
  - assert (E : get_header (s2b "To") (m_headers (parsed b13_req)) =
                Some {| h_name := s2b "T"; h_val := HRaw (rp_fromto b3_to) |}) by (vm_compute; reflexivity).
    unfold to_domain. rewrite E. exists b3_to. split; [vm_compute; reflexivity|reflexivity].
  - split; [vm_compute; reflexivity|]. intros meth u ver F.
    assert (E : fields (jm_start (jin_of b13_req)) = [s2b "INVITE"; rp_addr (b3_uri "bob" "elsewhere.example"); s2b "SIP/2.0"])
      by (vm_compute; reflexivity).
    rewrite E in F. injection F as _ <- _. exists (b3_uri "bob" "elsewhere.example").
    split; [vm_compute; reflexivity|reflexivity].
  - vm_compute. reflexivity.
  - left. intros ip port.
    assert (E : option_map (j_choose C01.ex_cfg C01.ex_lc false) (j_request (jin_of b13_req)) =
                Some (HHop (JUdp (s2b "10.0.0.9") 5070%Z))) by (vm_compute; reflexivity).
    rewrite E. discriminate.
  - vm_compute. reflexivity.
Qed.

(* 2. no Route, no static route for the To host, the Request-URI names the service: a backend *)
Definition b3_req_svc : bytes := s2b "INVITE sip:bob@example.com SIP/2.0" ++ crlf ++ C01.ex_common.
Example b3_backend_accepted :
  map (fun o => fst (labelled o)) (b3_outs b3_req_svc) = [s2b "udp:10.0.0.2:5080"] /\
  judge_C03_event b3_pc (js_init C01.ex_cfg) (EvUdp 0 b3_src 5070%Z b3_req_svc)
    (map labelled (filter (visible (pc_udp_endpoints b3_pc)) (b3_outs b3_req_svc))) [] = 0%nat.
Proof.
  split; [vm_compute; reflexivity|]. apply b3_bridge.
  - vm_compute. reflexivity.
  - vm_compute. reflexivity.
  - assert (E : RS (parsed b3_req_svc) = []) by (vm_compute; reflexivity). rewrite E. exact I.
  - assert (E : get_header (s2b "To") (m_headers (parsed b3_req_svc)) =
                Some {| h_name := s2b "T"; h_val := HRaw (rp_fromto b3_to) |}) by (vm_compute; reflexivity).
    unfold to_domain. rewrite E. exists b3_to. split; [vm_compute; reflexivity|reflexivity].
  - split; [vm_compute; reflexivity|]. intros meth u ver F.
    assert (E : fields (jm_start (jin_of b3_req_svc)) = [s2b "INVITE"; rp_addr (b3_uri "bob" "example.com"); s2b "SIP/2.0"])
      by (vm_compute; reflexivity).
    rewrite E in F. injection F as _ <- _. exists (b3_uri "bob" "example.com").
    split; [vm_compute; reflexivity|reflexivity].
  - vm_compute. reflexivity.
  - left. intros ip port.
    assert (E : option_map (j_choose C01.ex_cfg C01.ex_lc false) (j_request (jin_of b3_req_svc)) = Some HBackend)
      by (vm_compute; reflexivity).
    rewrite E. discriminate.
  - vm_compute. reflexivity.
Qed.

(* ================================================================== F. the agreement is kept by a datagram *)
(* what one message does to the proxy object as far as the judge's bookkeeping goes: the pool keeps its members,
   the connection table grows by exactly the connections whose dialling was reported, nothing is closed *)
Definition pool_same (p p' : pstate) : Prop :=
  (forall a, In a (rr_backends (ps_rr p')) <-> In a (rr_backends (ps_rr p))) /\
  ps_backends p' = ps_backends p /\ ps_has_rr p' = ps_has_rr p.
Lemma pool_same_refl p : pool_same p p.
Proof. split; [intros a; split; intros H; exact H|split; reflexivity]. Qed.
Lemma pool_same_trans a b c : pool_same a b -> pool_same b c -> pool_same a c.
Proof. intros (A1 & A2 & A3) (B1 & B2 & B3). split; [intros x; rewrite B1; apply A1|split; congruence]. Qed.
Lemma same_rr_pool p p' : same_rr p p' -> pool_same p p'.
Proof. intros (A & B & C). split; [intros a; rewrite A; split; intros H; exact H|split; assumption]. Qed.
Lemma lb_pool p p' : C04.lb_eq p p' -> pool_same p p'.
Proof. intros (A & B & C & _). split; [intros a; rewrite B; split; intros H; exact H|split; assumption]. Qed.
Lemma pool_with_pins p x : pool_same p (with_pins p x).
Proof. split; [intros a; split; intros H; exact H|split; reflexivity]. Qed.
Lemma pool_agree_same l p p' : pool_same p p' -> pool_agree l p -> pool_agree l p'.
Proof.
  intros (A & B & C) (P1 & P2 & P3). split; [intros a; rewrite A; apply P1|].
  split; [intros a g I; rewrite B in I; exact (P2 a g I)|intros NE; rewrite C; exact (P3 NE)].
Qed.

Definition dial_conns (li : nat) (local : bytes) (rs : bool) (outs : list output) : list conn :=
  flat_map (fun o => match fst o with
                     | DDial ip port c =>
                         [{| cn_id := c; cn_li := li; cn_open := true; cn_peer := ip; cn_peer_port := port;
                             cn_from := {| t_kind := KTcpConn; t_addr := local; t_port := 0 |};
                             cn_received_support := rs |}]
                     | _ => []
                     end) outs.

Lemma tcp_client_send_step n : forall li local rs id b p cs w outs p' cs' w' outs' ok,
  tcp_client_send n li local rs id b p cs w outs = (p', cs', w', outs', ok) ->
  exists extra, outs' = outs ++ extra /\ cs' = cs ++ dial_conns li local rs extra.
Proof.
  induction n as [|n IH]; intros li local rs id b p cs w outs p' cs' w' outs' ok H; cbn [tcp_client_send] in H.
  - injection H as <- <- <- <- <-. exists []. split; symmetry; apply app_nil_r.
  - destruct (find_client id (ps_clients p)) as [cl|].
    2:{ injection H as <- <- <- <- <-. exists []. split; symmetry; apply app_nil_r. }
    destruct (tc_cached cl) as [c|].
    + destruct (conn_open cs c).
      * injection H as <- <- <- <- <-. exists [(DConn c, b)]. split; [reflexivity|symmetry; apply app_nil_r].
      * exact (IH _ _ _ _ _ _ _ _ _ _ _ _ _ _ H).
    + destruct (existsb _ (w_tcp_listeners w)).
      * injection H as <- <- <- <- <-.
        exists [(DDial (tc_host cl) (tc_port cl) (w_next_conn w), []); (DConn (w_next_conn w), b)].
        split; reflexivity.
      * injection H as <- <- <- <- <-. exists []. split; symmetry; apply app_nil_r.
Qed.

Lemma failover_send_step li local rs f b p cs w p' cs' w' outs ok f' :
  failover_send li local rs f b p cs w = (p', cs', w', outs, ok, f') -> cs' = cs ++ dial_conns li local rs outs.
Proof.
  unfold failover_send.
  assert (T : forall f1 p' cs' w' outs ok f',
             match fo_sec f1 with
             | Some id => let '(p2, cs2, w2, outs2, ok) := tcp_client_send 2 li local rs id b p cs w [] in
                          (p2, cs2, w2, outs2, ok, f1)
             | None => (p, cs, w, [], false, f1)
             end = (p', cs', w', outs, ok, f') -> cs' = cs ++ dial_conns li local rs outs).
  { intros f1 p1 cs1 w1 o1 ok1 f1' H. destruct (fo_sec f1) as [id|].
    - destruct (tcp_client_send 2 li local rs id b p cs w []) as [[[[p2 cs2] w2] outs2] ok2] eqn:E.
      injection H as <- <- <- <- <- <-. apply tcp_client_send_step in E. destruct E as (extra & -> & ->). reflexivity.
    - injection H as <- <- <- <- <- <-. symmetry. apply app_nil_r. }
  intros H. destruct (fo_pri f) as [[ip port|ip port|c ex]|].
  - destruct (fits_datagram b); [|exact (T _ _ _ _ _ _ _ H)].
    injection H as <- <- <- <- <- <-. symmetry. apply app_nil_r.
  - destruct (fits_datagram b); [|exact (T _ _ _ _ _ _ _ H)].
    injection H as <- <- <- <- <- <-. symmetry. apply app_nil_r.
  - destruct (conn_open cs c); [|exact (T _ _ _ _ _ _ _ H)].
    injection H as <- <- <- <- <- <-. symmetry. apply app_nil_r.
  - exact (T _ _ _ _ _ _ _ H).
Qed.

Definition ctx_step (e : env) (x x' : ctx) : Prop :=
  pool_same (x_p x) (x_p x') /\
  exists extra, x_outs x' = x_outs x ++ extra /\
    x_conns x' = x_conns x ++ dial_conns (e_li e) (lc_addr (e_lc e)) (pa_received_support (wire_proxy (e_lc e))) extra.
Lemma ctx_step_same e x y : pool_same (x_p x) (x_p y) -> x_outs y = x_outs x -> x_conns y = x_conns x -> ctx_step e x y.
Proof. intros A B C. split; [exact A|]. exists []. rewrite B, C. split; symmetry; apply app_nil_r. Qed.
Lemma ctx_step_pre e x x1 x' :
  pool_same (x_p x) (x_p x1) -> x_outs x1 = x_outs x -> x_conns x1 = x_conns x -> ctx_step e x1 x' -> ctx_step e x x'.
Proof.
  intros A B C (D & extra & E1 & E2). split; [exact (pool_same_trans _ _ _ A D)|].
  exists extra. rewrite <- B, <- C. split; assumption.
Qed.

Lemma send_message_step e host port tr m x : ctx_step e x (fst (send_message e host port tr m x)).
Proof.
  split; [apply lb_pool, C04.lb_send_message|].
  assert (NIL : forall y : ctx, x_outs y = x_outs x -> x_conns y = x_conns x ->
            exists extra, x_outs y = x_outs x ++ extra /\
              x_conns y = x_conns x ++ dial_conns (e_li e) (lc_addr (e_lc e)) (pa_received_support (wire_proxy (e_lc e))) extra).
  { intros y A B. exists []. rewrite A, B. split; symmetry; apply app_nil_r. }
  unfold send_message. destruct (mtry s_client_transaction m) as [m1 tid].
  destruct (get_transport _ _ _ _ _ _) as [p1 rkey].
  destruct rkey as [key| |]; try (apply NIL; reflexivity).
  match goal with |- context [alookup key (ps_table ?p2)] => set (P2 := p2) end.
  destruct (alookup key (ps_table P2)) as [f|]; [|apply NIL; reflexivity].
  match goal with |- context [failover_send ?a ?b ?c ?d ?e ?f ?g ?h] =>
    destruct (failover_send a b c d e f g h) as [[[[[p4 cs] w] outs] ok] f'] eqn:EF end.
  cbn [fst x_outs x_conns]. exists outs. split; [reflexivity|].
  exact (failover_send_step _ _ _ _ _ _ _ _ _ _ _ _ _ _ EF).
Qed.

Lemma rr_dispatch_backends s : rr_backends (fst (rr_dispatch s)) = rr_backends s.
Proof.
  destruct (Nat.eq_dec (List.length (rr_backends s)) 0) as [Z|NZ].
  - rewrite (C05.rr_member_empty _ Z). reflexivity.
  - destruct (C05.rr_member _ NZ) as (b & _ & _ & E & _). exact E.
Qed.

Lemma send_to_backend_pool e m x : pool_same (x_p x) (x_p (fst (send_to_backend e m x))).
Proof.
  unfold send_to_backend. destruct (negb (ps_has_rr (x_p x))); [apply pool_same_refl|].
  destruct (first_transport (e_lc e)) as [t0|]; [|apply pool_same_refl].
  pose proof (find_backend_by_dialog_same_rr e (x_p x) m) as SR.
  destruct (find_backend_by_dialog e (x_p x) m) as [m1 r].
  set (pr := match r with Ok v => v | _ => (x_p x, None) end).
  assert (SR' : same_rr (x_p x) (fst pr)).
  { subst pr. destruct r as [v| |]; [exact (SR _ _ eq_refl)|apply same_rr_refl|apply same_rr_refl]. }
  destruct pr as [p1 ob]. cbn [fst] in SR'. apply same_rr_pool in SR'.
  set (b := match ob with Some b => b | None => BRR end).
  set (m2 := px_add_record_route _ t0 (px_add_via e t0 m1)).
  assert (BS : pool_same p1 (fst (fst (backend_send b (write_message m2) p1)))).
  { unfold backend_send. cbv zeta. destruct b as [a g|].
    - destruct (_ && _)%bool; apply pool_same_refl.
    - pose proof (rr_dispatch_backends (ps_rr p1)) as RB.
      destruct (rr_dispatch (ps_rr p1)) as [r' o]. cbn [fst] in RB.
      assert (W : pool_same p1 (with_rr p1 r')).
      { split; [intros a; cbn [with_rr ps_rr]; rewrite RB; split; intros H; exact H|split; reflexivity]. }
      destruct o; [destruct (fits_datagram _)|]; exact W. }
  destruct (backend_send b (write_message m2) p1) as [[p2 outs] ok]. cbn [fst] in BS.
  pose proof (pool_same_trans _ _ _ SR' BS) as P2.
  destruct ok.
  - destruct (mtry s_client_transaction m2) as [m3 tid]. cbn [fst x_p].
    destruct tid as [[t|]| |]; exact P2.
  - exact P2.
Qed.

Lemma send_to_backend_step e m x : ctx_step e x (fst (send_to_backend e m x)).
Proof.
  split; [apply send_to_backend_pool|].
  destruct (C07.send_to_backend_outs e m x) as (outs & O & _ & Cn).
  destruct (send_to_backend_shape e m x) as (_ & extra & O2 & D).
  exists outs. split; [exact O|]. rewrite Cn.
  assert (E : outs = extra) by (rewrite O in O2; exact (app_same_inv _ _ _ O2)). subst outs.
  destruct D as [->|(t0 & a & d & _ & _ & -> & BD & _)]; [symmetry; apply app_nil_r|].
  unfold backend_dest in BD. destruct (last_index_byte ":"%char a); [|discriminate BD]. injection BD as <-.
  symmetry. apply app_nil_r.
Qed.

Ltac leaf_send :=
  match goal with |- ctx_step ?e ?x (fst (send_message ?e ?h ?p ?t ?m ?X)) =>
    apply (ctx_step_pre e x X);
    [cbn [x_p]; first [apply pool_same_refl|apply pool_with_pins]|reflexivity|reflexivity|apply send_message_step] end.
Ltac leaf_same :=
  apply ctx_step_same; [cbn [fst x_p]; first [apply pool_same_refl|apply pool_with_pins]|reflexivity|reflexivity].

Lemma handle_message_step e from m x : ctx_step e x (fst (handle_message e from m x)).
Proof.
  unfold handle_message. destruct (is_request m).
  - destruct (next_request_hop _ _ m) as [m1 r].
    assert (BK : ctx_step e x (fst (if is_my_message (new_my_name (c_name (e_cfg e))) from m1
                                    then send_to_backend e m1 x else (x, m1)))).
    { destruct (is_my_message _ from m1); [apply send_to_backend_step|leaf_same]. }
    destruct r as [[[host port] tr]| |]; try exact BK. apply send_message_step.
  - destruct (mtry s_pop_via m) as [m1 r1]. destruct (mtry next_response_hop m1) as [m2 hop].
    destruct (mtry s_get_method m2) as [m3 ometh].
    destruct hop as [[[[h p] t]|]| |]; try leaf_same.
    destruct ometh as [[meth|]| |]; try leaf_send.
    destruct (beq meth (s2b "SUBSCRIBE")); [|leaf_send].
    destruct (alookup _ (ps_backends (x_p x))); [|leaf_send].
    destruct (mtry s_get_dialog m3) as [m' od]. destruct od as [[d|]| |]; leaf_send.
Qed.

Lemma process_message_step e peer pp from rs tcp m0 x x' :
  process_message e peer pp from rs tcp m0 x = Ok x' -> ctx_step e x x'.
Proof.
  rewrite process_message_unfold. destruct (pm_learn peer from m0 x) as [m1 l1]. cbv zeta.
  set (m2 := if (is_request m1 && rs)%bool then fst (s_set_received peer pp m1) else m1).
  pose proof (pm_conn_same_rr e tcp m2 x) as SRc.
  destruct (pm_conn e tcp m2 x) as [m3 rp]. cbn [snd] in SRc.
  destruct rp as [p1| |]; try discriminate. specialize (SRc p1 eq_refl). apply same_rr_pool in SRc.
  unfold pm_tail. cbv zeta.
  set (m4 := fst (mtry (try_remove_top_route (e_cfg e) from) m3)).
  set (pr := if is_response m4
             then let '(m', r) := handle_dialog e peer pp p1 m4 in (m', match r with Ok p' => p' | _ => p1 end)
             else (m4, p1)).
  assert (P2 : pool_same p1 (snd pr)).
  { subst pr. destruct (is_response m4); [|apply pool_same_refl].
    pose proof (C02.handle_dialog_pins e peer pp p1 m4) as HP.
    destruct (handle_dialog e peer pp p1 m4) as [m' r]. cbn [snd] in HP |- *.
    destruct r as [p'| |]; try apply pool_same_refl.
    destruct (HP p' eq_refl) as (pins' & ->). apply pool_with_pins. }
  destruct pr as [m5 p2]. cbn [snd] in P2. intros H. injection H as <-.
  match goal with |- ctx_step ?e ?x (fst (handle_message ?e ?f ?m ?X)) =>
    apply (ctx_step_pre e x X); [cbn [x_p]; exact (pool_same_trans _ _ _ SRc P2)|reflexivity|reflexivity|
                                 apply handle_message_step] end.
Qed.

(* ---- the judge's reading of the dial reports ---- *)
Definition jc_of (cn : conn) : nat * (nat * bytes * Z) := (cn_id cn, (jli_of cn, cn_peer cn, cn_peer_port cn)).
(* the label and payload of a dial report can be read back: port and identifier in the int64 range *)
Definition dials_readable (outs : list output) : Prop :=
  Forall (fun o => match fst o with
                   | DDial ip port c => (int_min <= port <= int_max)%Z /\ (Z.of_nat c <= int_max)%Z
                   | _ => True end) outs.

Lemma dialled_cons li o l :
  dialled li (o :: l) =
  (if is_dial o then
     match last_index_byte ":"%char (skipn 5 (fst o)), atoi (snd o) with
     | Some p, Some id => [(Z.to_nat id, ((li + dial_mark)%nat, firstn p (skipn 5 (fst o)),
                                          atoi_val (skipn (S p) (skipn 5 (fst o)))))]
     | _, _ => []
     end
   else []) ++ dialled li l.
Proof. reflexivity. Qed.

Lemma dialled_labelled ue li local rs outs : dials_readable outs ->
  dialled li (map labelled (filter (visible ue) outs)) = map jc_of (dial_conns li local rs outs).
Proof.
  intros DRd. induction outs as [|o outs IH]; [reflexivity|]. inversion DRd as [|? ? Ho Hr]; subst.
  specialize (IH Hr). destruct o as [[ip port|c|ip port c] b].
  - cbn [filter]. change (dial_conns li local rs ((DUdp ip port, b) :: outs)) with (dial_conns li local rs outs).
    destruct (visible ue (DUdp ip port, b)); [|exact IH].
    cbn [map]. rewrite dialled_cons, is_dial_labelled. cbn [is_msg fst negb app]. exact IH.
  - change (dial_conns li local rs ((DConn c, b) :: outs)) with (dial_conns li local rs outs).
    cbn [filter]. change (visible ue (DConn c, b)) with true. cbv iota.
    cbn [map]. rewrite dialled_cons, is_dial_labelled. cbn [is_msg fst negb app]. exact IH.
  - cbn [filter]. change (visible ue (DDial ip port c, b)) with true. cbv iota.
    cbn [map]. rewrite dialled_cons, is_dial_labelled. cbn [is_msg fst negb].
    change (skipn 5 (fst (labelled (DDial ip port c, b)))) with (ip ++ ":"%char :: itoa port).
    change (snd (labelled (DDial ip port c, b))) with (itoa (Z.of_nat c)).
    cbn [fst] in Ho. destruct Ho as (Hp & Hc).
    rewrite (last_index_byte_app ":"%char ip (itoa port) (itoa_no_colon port)).
    rewrite atoi_itoa by (unfold int_min; lia).
    rewrite firstn_len_app, C14_uri.skipn_S_len_app, (atoi_val_itoa port Hp), Nat2Z.id.
    cbn [app]. rewrite IH. reflexivity.
Qed.

Lemma filter_true_id {A} (f : A -> bool) l : (forall x, f x = true) -> filter f l = l.
Proof. intros H. induction l as [|a l IH]; [reflexivity|]. cbn [filter]. rewrite (H a), IH. reflexivity. Qed.

Lemma js_step_c_udp stj li src sport data o :
  js_backends (js_step_c stj (EvUdp li src sport data) o []) = js_backends stj /\
  js_conns (js_step_c stj (EvUdp li src sport data) o []) = js_conns stj ++ dialled li o.
Proof.
  unfold js_step_c, js_step. cbv beta iota zeta. cbn [js_backends js_conns app].
  split; [reflexivity|]. apply filter_true_id. intros x. reflexivity.
Qed.

Lemma nth_set_nth_p l : forall i q j p',
  nth_p (set_nth_p l i q) j = Some p' ->
  (j = i /\ p' = q /\ exists p0, nth_p l i = Some p0) \/ nth_p l j = Some p'.
Proof.
  unfold nth_p. induction l as [|x r IH]; intros i q j p'; cbn [set_nth_p].
  - destruct i; cbn [nth_opt]; discriminate.
  - destruct i as [|i]; destruct j as [|j]; cbn [nth_opt].
    + intros H. injection H as <-. left. split; [reflexivity|]. split; [reflexivity|]. exists x. reflexivity.
    + intros H. right. exact H.
    + intros H. right. exact H.
    + intros H. destruct (IH i q j p' H) as [(-> & -> & p0 & E)|E].
      * left. split; [reflexivity|]. split; [reflexivity|]. exists p0. exact E.
      * right. exact E.
Qed.

(* PRESERVATION for a datagram (any datagram: request, response, undecodable): the bookkeeping the judge
   derives from the event and the observed outputs (js_step_c, no connection reported closed) agrees with
   the state of the model after the step *)
Theorem agree_step_udp : forall pc stj fx now br st st' outs li src sport data,
  agree stj st ->
  proxy_step fx (pc_cfg pc) now br st (EvUdp li src sport data) = Ok (st', outs) ->
  dials_readable outs ->
  agree (js_step_c stj (EvUdp li src sport data) (map labelled (filter (visible (pc_udp_endpoints pc)) outs)) []) st'.
Proof.
  intros pc stj fx now br st st' outs li src sport data (AG1 & AG2) H DRd.
  destruct (js_step_c_udp stj li src sport data (map labelled (filter (visible (pc_udp_endpoints pc)) outs))) as (JB & JC).
  unfold agree. rewrite JB, JC. clear JB JC.
  assert (NOOP : Ok (st, @nil output) = Ok (st', outs) ->
            (forall li0 p, nth_p (st_proxies st') li0 = Some p ->
               exists l, nth_opt (js_backends stj) li0 = Some l /\ pool_agree l p) /\
            conns_agree (js_conns stj ++ dialled li (map labelled (filter (visible (pc_udp_endpoints pc)) outs))) (st_conns st')).
  { intros E. injection E as <- <-. split; [exact AG1|]. cbn [filter map]. change (dialled li []) with (@nil (nat * (nat * bytes * Z))).
    rewrite app_nil_r. exact AG2. }
  unfold proxy_step in H.
  destruct (nth_opt (c_listens (pc_cfg pc)) li) as [lc|]; [|exact (NOOP H)].
  destruct (parse_message data) as [[m rest]| |]; [|exact (NOOP H)|exact (NOOP H)].
  unfold run_ctx in H. destruct (nth_p (st_proxies st) li) as [p|] eqn:Np; [|exact (NOOP H)].
  match type of H with context [process_message ?e ?a ?b ?f ?r ?t ?mm ?xx] =>
    destruct (process_message e a b f r t mm xx) as [x'| |] eqn:PM; try discriminate H;
    pose proof (process_message_step e a b f r t mm xx x' PM) as (PS & extra & O & Cn) end.
  cbn [x_p x_outs x_conns app e_li e_lc mk_env] in PS, O, Cn. injection H as <- <-.
  cbn [st_proxies st_conns]. rewrite O in *. split.
  - intros li0 p0 N0. destruct (nth_set_nth_p _ _ _ _ _ N0) as [(-> & -> & _)|E].
    + destruct (AG1 li p Np) as (l & Nl & PA). exists l. split; [exact Nl|]. exact (pool_agree_same _ _ _ PS PA).
    + exact (AG1 li0 p0 E).
  - rewrite Cn. rewrite (dialled_labelled _ li (lc_addr lc) (pa_received_support (wire_proxy lc)) extra DRd).
    intros id li0 ip port. split.
    + intros I. apply in_app_or in I. destruct I as [I|I].
      * apply AG2 in I. destruct I as (cn & Ic & R). exists cn. split; [apply in_or_app; left; exact Ic|exact R].
      * apply in_map_iff in I. destruct I as (cn & E & Ic). exists cn. split; [apply in_or_app; right; exact Ic|].
        unfold dial_conns in Ic. apply in_flat_map in Ic. destruct Ic as (o & _ & Io).
        destruct (fst o) as [? ?|?|ip' port' c']; [destruct Io|destruct Io|]. destruct Io as [<-|[]].
        unfold jc_of in E. cbn in E. injection E as <- <- <- <-. repeat split.
    + intros (cn & Ic & Op & <- & <- & <- & <-). apply in_app_or in Ic. apply in_or_app. destruct Ic as [Ic|Ic].
      * left. apply AG2. exists cn. repeat split; assumption.
      * right. apply in_map_iff. exists cn. split; [reflexivity|exact Ic].
Qed.

(* ================================================================== G. a TCP next hop, and the bookkeeping after it *)
(* 3. Route: own entry, then a next hop with transport=tcp at a peer that accepts connections: the proxy
   dials and writes on the new connection; the judge accepts, and its bookkeeping after the event (one
   connection, to 10.0.0.7:5080) agrees with the state of the model *)
Definition b3_tcp_elem : a_relem :=
  {| ar_na := {| an_display := [];
                 an_addr := AASip {| au_secure := false; au_user := None; au_host := s2b "10.0.0.7"; au_port := Some 5080%Z;
                                     au_params := [{| ap_key := s2b "transport"; ap_val := Some (s2b "tcp") |};
                                                   {| ap_key := s2b "lr"; ap_val := None |}];
                                     au_headers := [] |} |};
     ar_params := [] |}.
Definition b3_tcp_routes : list a_relem := [b13_elem "" "10.0.0.1" (Some 5060%Z); b3_tcp_elem].
Definition b3_req_tcp : bytes :=
  s2b "INVITE sip:bob@elsewhere.example SIP/2.0" ++ crlf ++
  s2b "Route: <sip:10.0.0.1:5060;lr>,<sip:10.0.0.7:5080;transport=tcp;lr>" ++ crlf ++ C01.ex_common.
Definition b3_state (d : bytes) : state := match b3_step d with Ok (s, _) => s | _ => C01.ex_st end.

Example b3_tcp_accepted :
  map (fun o => fst (labelled o)) (b3_outs b3_req_tcp) = [s2b "dial:10.0.0.7:5080"; s2b "conn:0"] /\
  judge_C03_event b3_pc (js_init C01.ex_cfg) (EvUdp 0 b3_src 5070%Z b3_req_tcp)
    (map labelled (filter (visible (pc_udp_endpoints b3_pc)) (b3_outs b3_req_tcp))) [] = 0%nat.
Proof.
  split; [vm_compute; reflexivity|]. apply b3_bridge.
  - vm_compute. reflexivity.
  - vm_compute. reflexivity.
  - assert (E : RS (parsed b3_req_tcp) = [{| h_name := s2b "Route"; h_val := HRaw (rp_route b3_tcp_routes) |}])
      by (vm_compute; reflexivity).
    rewrite E. cbn [route_domain_in]. split; [|exact I]. exists b3_tcp_routes.
    split; [discriminate|]. split; [vm_compute; reflexivity|]. split; [vm_compute; reflexivity|reflexivity].
  - assert (E : get_header (s2b "To") (m_headers (parsed b3_req_tcp)) =
                Some {| h_name := s2b "T"; h_val := HRaw (rp_fromto b3_to) |}) by (vm_compute; reflexivity).
    unfold to_domain. rewrite E. exists b3_to. split; [vm_compute; reflexivity|reflexivity].
  - split; [vm_compute; reflexivity|]. intros meth u ver F.
    assert (E : fields (jm_start (jin_of b3_req_tcp)) =[s2b "INVITE"; rp_addr (b3_uri "bob" "elsewhere.example"); s2b "SIP/2.0"])
      by (vm_compute; reflexivity).
    rewrite E in F. injection F as _ <- _. exists (b3_uri "bob" "elsewhere.example").
    split; [vm_compute; reflexivity|reflexivity].
  - vm_compute. reflexivity.
  - right. vm_compute. reflexivity.
  - vm_compute. reflexivity.
Qed.

Lemma dials_readable_fst outs :
  Forall (fun d => match d with
                   | DDial ip port c => (int_min <= port <= int_max)%Z /\ (Z.of_nat c <= int_max)%Z
                   | _ => True end) (map fst outs) -> dials_readable outs.
Proof. unfold dials_readable. rewrite Forall_map. intros H. exact H. Qed.

(* preservation instantiated on the case, for any datagram *)
Lemma b3_agree_step d :
  is_ok (b3_step d) = true -> dials_readable (b3_outs d) ->
  agree (js_step_c (js_init C01.ex_cfg) (EvUdp 0 b3_src 5070%Z d)
           (map labelled (filter (visible (pc_udp_endpoints b3_pc)) (b3_outs d))) [])
        (b3_state d).
Proof.
  intros OK DRd.
  assert (Hrun : b3_step d = Ok (b3_state d, b3_outs d)).
  { unfold b3_state, b3_outs. destruct (b3_step d) as [[s o]| |]; [reflexivity|discriminate OK|discriminate OK]. }
  unfold b3_step in Hrun.
  exact (agree_step_udp b3_pc (js_init C01.ex_cfg) all_fixed 1000%Z (branch_of 0) C01.ex_st (b3_state d)
           (b3_outs d) 0%nat b3_src 5070%Z d b3_agree_init Hrun DRd).
Qed.

Example b3_tcp_agree_after :
  js_conns (js_step_c (js_init C01.ex_cfg) (EvUdp 0 b3_src 5070%Z b3_req_tcp)
              (map labelled (filter (visible (pc_udp_endpoints b3_pc)) (b3_outs b3_req_tcp))) [])
    = [(0%nat, (dial_mark, s2b "10.0.0.7", 5080%Z))] /\      (* listen entry 0, a connection the proxy dialled *)
  agree (js_step_c (js_init C01.ex_cfg) (EvUdp 0 b3_src 5070%Z b3_req_tcp)
           (map labelled (filter (visible (pc_udp_endpoints b3_pc)) (b3_outs b3_req_tcp))) [])
        (b3_state b3_req_tcp).
Proof.
  split; [vm_compute; reflexivity|]. apply b3_agree_step; [vm_compute; reflexivity|].
  apply dials_readable_fst.
  assert (E : map fst (b3_outs b3_req_tcp) = [DDial (s2b "10.0.0.7") 5080%Z 0%nat; DConn 0%nat]) by (vm_compute; reflexivity).
  rewrite E. constructor; [unfold int_min, int_max; cbn [Z.of_nat]; lia|]. constructor; [exact I|constructor].
Qed.

Print Assumptions choose_agree.
Print Assumptions C03_judge_bridge_udp.
Print Assumptions C03_judge_bridge_step.
Print Assumptions b3_route_accepted.
Print Assumptions b3_backend_accepted.
Print Assumptions agree_step_udp.
Print Assumptions b3_tcp_accepted.
Print Assumptions b3_tcp_agree_after.
Print Assumptions C03_judge_bridge_step_no_tcp.
