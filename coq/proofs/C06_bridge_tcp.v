(* proofs/C06_bridge_tcp.v — JUDGE BRIDGE for property C06 (own Via / Record-Route insertion, learning), TCP events.

   proofs/C06_bridge.v proves that the executable judge [SpecProxy.judge_C06_event] answers 0 on what the
   MODEL emits for a datagram ([EvUdp]).  This file lifts the bridge to a request that arrives on an
   ACCEPTED TCP connection ([EvTcpData cid data]).  For such a request
     - the source and the Via hosts are LEARNED WITH THE TCP LISTENER (model: [learn h (cn_from cn)] with the
       KTcpListen transport (lc_addr, lc_tcp); judge: [j_learn] files (li, true), read back by
       [jtrans_of c li true] = ("TCP", lc_addr, lc_tcp));
     - the own Route entry and the service match use the TCP port ([j_own c lc true], [j_service_match c lc true],
       i.e. [listener_port lc true] = lc_tcp; model: [designates c (cn_from cn)], [is_my_message n (cn_from cn)]).

   Part A  model side for ANY connection argument of process_message (C06_bridge.pm_request6 / C06_outputs fix
           [None]): pm_conn_good, pm_conn_veq, pm_request6_tcp, C06_outputs_tcp
   Part B  the judge on an [EvTcpData] event, spelled out (judge_C06_tcp_unfold)
   Part C  learned tables: j_learn_agree_tcp
   Part D  C06_judge_bridge_tcp_partial (under [ident_agree_g true])
   Part E  hop agreement for any [tcp] flag of the judge (C06_bridge.hop_agree fixes [false]): hop_agree_g
   Part F  C06_judge_bridge_tcp_msg, tcp_messages_single, C06_judge_bridge_tcp_step,
           C06_agree_tcp_step / C06_lrn_ok_tcp_step (the invariants are kept by a TCP chunk),
           C06_tcp_accept_records (what EvTcpAccept files)
   Part G  example and sensitivity checks
   Part H  C06_dialled_example: a host learned over a connection THE PROXY DIALLED; the port-less own Via /
           Record-Route is what the model emits and what the judge accepts (and only then)
   No axioms, no admits.

   HYPOTHESES THAT THE UDP THEOREM DID NOT NEED
     H_conn   find (fun y => Nat.eqb (fst y) cid) (js_conns stj) = Some (cid, (li, cn_peer cn, cn_peer_port cn)):
              the judge takes listen entry, source address and source port from ITS record of the connection;
              they must be those of the model's record [cn] (for UDP the event carries li, src, sport).  The
              source address matters for C06: the judge learns it ([j_learn]: ji_src), the model learns cn_peer.
     H_from   cn_from cn = {| t_kind := KTcpListen; t_addr := lc_addr lc; t_port := lc_tcp lc |}: the connection is
              an ACCEPTED one.  Needed: the model learns / compares own entries with cn_from; the judge always
              uses (TCP, lc_addr, lc_tcp).  For a dialled connection cn_from is a KTcpConn transport with
              port 0: the judge follows (no own entry, port-less identity: Part H), that is not proved here.
     H_mark   (li < dial_mark)%nat: the judge's record is one of an ACCEPTED connection (a dialled one is filed
              with the listen entry + SpecProxy.dial_mark, and j_input / ji_dialled / j_learn read the mark).
     PORTS   1 <= lc_tcp lc <= 65535 and 0 <= lc_udp lc <= 65535 (the UDP theorem: 1 <= lc_udp, 0 <= lc_tcp):
              the transport that is learned must carry a port (own Record-Route text, jv_port of the own Via).
     step level only:
     H_find   find (fun y => Nat.eqb (cn_id y) cid) (st_conns st) = Some cn  (which record the model uses),
     H_li     cn_li cn = li,
     H_one    trim_left rest = []  (nothing but blanks behind the message: tcp_messages stops after it; with
              more messages in the chunk their outputs would be judged against the first message).
   NOT needed although announced in the task text:
     - anything about the received-support flag (cn_received_support cn vs received_on lc): judge_C06_event
       does not use [received_on]; it compares host and protocol of the entries beneath the own one, which
       stamping (received / rport parameters) leaves alone (C06_bridge.stamp_compat holds for any flag);
     - cn_id cn = cid at the message level (at the step level it follows from H_find);
     - the judge's [single_message jin]: if it is false the judge answers 0 without looking, if it is true the
       proof goes through.  (It cannot be derived from H_one in general: the judge takes the body length from the
       first Content-Length header, the model from get_header_int.) *)
From Coq Require Import List Ascii String ZArith NArith Bool Arith Lia.
From Coq Require Import ZifyBool ZifyNat ZifyN.
From Model Require Import Bytes BytesLemmas Wire Uri Hdr Message Msg Rx Glob StaticRoute RoundRobin Pins
     Proxy RunProxy SpecProxy SpecC14.
From Model.proofs Require Import C14_uri C14_hdr MsgLemmas C06 C01 C13 C03 C06_bridge.
From Model.proofs Require C07 C14_via C07_bridge C13_bridge.
Import ListNotations.
Open Scope list_scope.

(* the ServerTransport of an accepted connection: the listener (Proxy.proxy_step, EvTcpAccept) *)
Definition tcp_transport (lc : listen_cfg) : stransport :=
  {| t_kind := KTcpListen; t_addr := lc_addr lc; t_port := lc_tcp lc |}.

(* ====================================================================== Part A: the model side, any [tcp] *)
(* remembering the connection for the responses (handleRawMessage on a TCP request) only decodes Via / CSeq in place *)
Lemma pm_conn_good e tcp m2 x : B7.good m2 -> B7.good (fst (pm_conn e tcp m2 x)).
Proof.
  intros G2. unfold pm_conn. destruct tcp as [c|]; [|exact G2].
  destruct (is_request m2); [|exact G2].
  pose proof (B7.gpres_mtry _ B7.gpres_next_response_hop m2 G2) as GH.
  destruct (mtry next_response_hop m2) as [m' hop]. cbn [fst] in GH.
  destruct hop as [oh| |]; try exact GH.
  match goal with |- context [match ?X with Ok _ => _ | Err => _ | Panic => _ end] => destruct X as [host| |] end;
    try exact GH.
  destruct oh as [hp|]; [|exact GH].
  pose proof (B7.gpres_mtry _ B7.gpres_s_client_transaction m' GH) as GC.
  destruct (mtry s_client_transaction m') as [m'' tid]. cbn [fst] in GC.
  destruct tid as [[t|]| |]; try exact GC.
  destruct (get_transport _ _ _ _ _ _) as [p1 rk]. destruct rk; exact GC.
Qed.

Lemma pm_conn_veq e tcp m2 x : C07.veq m2 (fst (pm_conn e tcp m2 x)).
Proof.
  unfold pm_conn. destruct tcp as [c|]; [|apply C07.veq_refl].
  destruct (is_request m2); [|apply C07.veq_refl].
  pose proof (C07.vpres_mtry _ C07.vpres_next_response_hop m2) as VH.
  destruct (mtry next_response_hop m2) as [m' hop]. cbn [fst] in VH.
  destruct hop as [oh| |]; try exact VH.
  match goal with |- context [match ?X with Ok _ => _ | Err => _ | Panic => _ end] => destruct X as [host| |] end;
    try exact VH.
  destruct oh as [hp|]; [|exact VH].
  pose proof (C07.vpres_mtry _ C07.vpres_s_client_transaction m') as VC.
  destruct (mtry s_client_transaction m') as [m'' tid]. cbn [fst] in VC.
  assert (VV : C07.veq m2 m'') by (eapply C07.veq_trans; eassumption).
  destruct tid as [[t|]| |]; try exact VV.
  destruct (get_transport _ _ _ _ _ _) as [p1 rk]. destruct rk; exact VV.
Qed.

(* C06_bridge.pm_request6 for any [tcp]: the pool may have changed (the connection was filed), and the frame
   now excludes CSeq as well (s_client_transaction decodes it in place) *)
Lemma pm_request6_tcp e peer pp from rs tcp m0 x x' :
  is_request m0 = true -> B7.good m0 -> B7.src_ok peer -> B7.t_ok (e_branch e) from ->
  B7.learned_ok (e_branch e) (x_learned x) ->
  process_message e peer pp from rs tcp m0 x = Ok x' ->
  exists m4 p1,
    (forall nm, disjoint_names nm (s2b "Via") -> disjoint_names nm (s2b "Route") ->
                disjoint_names nm (s2b "CSeq") -> frame nm m0 m4) /\
    relayed6 (e_branch e) (must_of e) rs peer pp m0 None m4 /\
    route_view m4 = drop_own (e_cfg e) from (route_view m0) /\
    B7.learned_ok (e_branch e) (learned_after peer from m0 x) /\
    is_request m4 = true /\
    x' = fst (handle_message e from m4
                {| x_learned := learned_after peer from m0 x; x_p := p1; x_conns := x_conns x;
                   x_world := x_world x; x_outs := x_outs x |}).
Proof.
  intros R G0 Hs Hf HL. rewrite process_message_unfold.
  destruct (pm_learn_spec peer from m0 x) as (L & F1).
  assert (GL : B7.good (fst (pm_learn peer from m0 x)) /\
               B7.learned_ok (e_branch e) (snd (pm_learn peer from m0 x)) /\
               C07.veq m0 (fst (pm_learn peer from m0 x))).
  { unfold pm_learn. destruct (is_request m0 && negb (amem peer (ps_backends (x_p x))))%bool;
      [|split; [assumption|split; [assumption|apply C07.veq_refl]]].
    pose proof (B7.gpres_s_all_via_params m0 G0) as GA.
    destruct (C07.s_all_via_params_spec m0) as (_ & A & B & C).
    destruct (s_all_via_params m0) as [m' vs]. cbn [fst snd] in *. split; [exact GA|]. split.
    - apply B7.learned_ok_fold; [exact Hf|]. apply B7.learned_ok_learn; assumption.
    - split; [exact B|split; [exact C|exact A]]. }
  destruct (pm_learn peer from m0 x) as [m1 l1]. cbn [fst snd] in L, F1, GL. subst l1.
  destruct GL as (G1 & HL1 & V1). cbv zeta.
  assert (R1 : is_request m1 = true) by (rewrite (C07.veq_is_request _ _ V1); exact R).
  rewrite R1. cbn [andb].
  set (m2 := if rs then fst (s_set_received peer pp m1) else m1).
  assert (P2 : (forall nm, disjoint_names nm (s2b "Via") -> frame nm m1 m2) /\ B7.good m2 /\
               m_start m2 = m_start m0 /\ m_body m2 = m_body m0 /\
               C07.via_hdrs m2 = C07.stamp_hdrs rs peer pp (C07.via_hdrs m0)).
  { subst m2. destruct V1 as (A & B & C). destruct rs.
    - destruct (C07.s_set_received_view peer pp m1) as (S1 & S2 & S3).
      split; [intros nm DV; apply (mframe_set_received nm DV)|].
      split; [apply B7.gpres_s_set_received; assumption|].
      rewrite S1, S2, S3, A, B, C. repeat split.
    - split; [intros nm _; apply frame_refl|]. split; [exact G1|]. cbn [C07.stamp_hdrs]. repeat split; assumption. }
  destruct P2 as (F2 & G2 & S2 & B2 & V2).
  pose proof (pm_conn_frame e tcp m2 x) as F3.
  pose proof (pm_conn_good e tcp m2 x G2) as G3.
  pose proof (pm_conn_veq e tcp m2 x) as V3.
  destruct (pm_conn e tcp m2 x) as [m3 rp]. cbn [fst] in F3, G3, V3.
  destruct rp as [p1| |]; try discriminate.
  intros H. unfold pm_tail in H. cbv zeta in H.
  set (m4 := fst (mtry (try_remove_top_route (e_cfg e) from) m3)) in *.
  assert (F4 : forall nm, disjoint_names nm (s2b "Route") -> frame nm m3 m4).
  { intros nm D. apply (mframe_try _ _ (mframe_try_remove_top_route nm (e_cfg e) from D)). }
  assert (V4 : C07.veq m3 m4) by (apply (C07.vpres_mtry _ (C07.vpres_try_remove_top_route _ _))).
  assert (G4 : B7.good m4) by (exact (B7.gpres_mtry _ (B7.gpres_try_remove_top_route (e_cfg e) from) m3 G3)).
  assert (V24 : C07.veq m2 m4) by (eapply C07.veq_trans; eassumption).
  assert (R4 : is_request m4 = true).
  { rewrite (C07.veq_is_request _ _ V24). unfold is_request in *. rewrite S2. exact R. }
  assert (R4' : is_response m4 = false) by (unfold is_response; rewrite R4; reflexivity).
  rewrite R4' in H. injection H as <-. exists m4, p1.
  assert (F02 : forall nm, disjoint_names nm (s2b "Via") -> frame nm m0 m2).
  { intros nm DV. eapply frame_trans; [apply F1; exact DV|apply F2; exact DV]. }
  assert (F03 : forall nm, disjoint_names nm (s2b "Via") -> disjoint_names nm (s2b "CSeq") -> frame nm m0 m3).
  { intros nm DV DC. eapply frame_trans; [apply F02; exact DV|apply F3; assumption]. }
  assert (F04 : forall nm, disjoint_names nm (s2b "Via") -> disjoint_names nm (s2b "Route") ->
                           disjoint_names nm (s2b "CSeq") -> frame nm m0 m4).
  { intros nm DV DR DC. eapply frame_trans; [apply F03; assumption|apply F4; exact DR]. }
  split; [exact F04|].
  split.
  { destruct V24 as (A4 & B4 & C4). split; [exact G4|]. split; [congruence|]. split; [congruence|].
    split; [congruence|]. exact (proj1 (F04 _ dj_RR_Via dj_RR_Route dj_RR_CSeq)). }
  split.
  { subst m4. rewrite try_remove_top_route_pops_iff_own.
    rewrite (route_view_frame m0 m3 (F03 _ dj_Route_Via dj_Route_CSeq)). reflexivity. }
  split; [exact HL1|]. split; [exact R4|reflexivity].
Qed.

(* C06_bridge.C06_outputs for any [tcp] *)
Theorem C06_outputs_tcp : forall e peer pp from rs tcp m0 x x',
  is_request m0 = true -> B7.good m0 -> B7.src_ok peer -> B7.t_ok (e_branch e) from ->
  B7.learned_ok (e_branch e) (x_learned x) ->
  (forall t0, first_transport (e_lc e) = Some t0 -> B7.t_ok (e_branch e) t0) ->
  process_message e peer pp from rs tcp m0 x = Ok x' ->
  exists extra, x_outs x' = x_outs x ++ extra /\
    forall o, In o extra -> is_msg o = true ->
      exists mo, snd o = write_message mo /\
                 post6 e rs peer pp m0 (learned_after peer from m0 x) (effective_hop (e_cfg e) from m0) mo.
Proof.
  intros e peer pp from rs tcp m0 x x' R G0 Hs Hf HL HF H.
  destruct (pm_request6_tcp _ _ _ _ _ _ _ _ _ R G0 Hs Hf HL H) as (m4 & p1 & F & Rl4 & V4 & HL1 & R4 & ->).
  rewrite (handle_message_request e from m4 _ R4). cbn [x_learned].
  set (keep := c_keep_next_hop (e_cfg e)). set (rt := route_table_of (e_cfg e)).
  set (L1 := learned_after peer from m0 x) in *.
  set (x1 := {| x_learned := L1; x_p := p1; x_conns := x_conns x; x_world := x_world x; x_outs := x_outs x |}).
  pose proof (next_request_hop_choice keep rt m4) as CH. cbv zeta in CH.
  pose proof (frame_next_request_hop RRn keep rt m4 dj_RR_Route dj_RR_To) as FN.
  pose proof (C07.vpres_next_request_hop keep rt m4) as VN.
  pose proof (B7.gpres_next_request_hop keep rt m4 (proj1 Rl4)) as GN.
  destruct (next_request_hop keep rt m4) as [m1 r]. cbn [fst snd] in *.
  assert (Rl1 : relayed6 (e_branch e) (must_of e) rs peer pp m0 None m1)
    by (exact (relayed6_frame _ _ _ _ _ _ _ _ _ Rl4 GN VN FN)).
  assert (ST : static_hop rt m4 = static_hop rt m0).
  { unfold static_hop. rewrite (decoded_to_frame m0 m4 (F _ dj_To_Via dj_To_Route dj_To_CSeq)). reflexivity. }
  assert (MY : is_my_message (new_my_name (c_name (e_cfg e))) from m1 =
               is_my_message (new_my_name (c_name (e_cfg e))) from m0).
  { apply is_my_message_start. exact (proj1 (proj2 Rl1)). }
  assert (SM : forall host port tr,
            exists extra, x_outs (fst (send_message e host port tr (decorate e L1 host m1) x1)) = x_outs x ++ extra /\
              forall o, In o extra -> is_msg o = true ->
                exists mo, snd o = write_message mo /\ post6 e rs peer pp m0 L1 (HopAddr host port tr) mo).
  { intros host port tr. exact (sm_branch e host port tr rs peer pp m0 m1 x1 Rl1 HL1). }
  assert (LOW : match static_hop rt m4 with Some v => r = Ok v | None => is_ok r = false end ->
            exists extra,
              x_outs (fst match r with
                          | Ok (host, port, transport) => send_message e host port transport (decorate e L1 host m1) x1
                          | _ => if is_my_message (new_my_name (c_name (e_cfg e))) from m1
                                 then send_to_backend e m1 x1 else (x1, m1)
                          end) = x_outs x ++ extra /\
              forall o, In o extra -> is_msg o = true ->
                exists mo, snd o = write_message mo /\ post6 e rs peer pp m0 L1 (lower_choice (e_cfg e) from m0) mo).
  { intros BC. unfold lower_choice. fold rt. rewrite <- ST.
    destruct (static_hop rt m4) as [[[h p] t]|].
    - rewrite BC. apply SM.
    - rewrite <- MY.
      assert (BK : exists extra,
                x_outs (fst (if is_my_message (new_my_name (c_name (e_cfg e))) from m1
                             then send_to_backend e m1 x1 else (x1, m1))) = x_outs x ++ extra /\
                forall o, In o extra -> is_msg o = true ->
                  exists mo, snd o = write_message mo /\
                    post6 e rs peer pp m0 L1 (if is_my_message (new_my_name (c_name (e_cfg e))) from m1
                                              then HopBackend else HopNone) mo).
      { destruct (is_my_message _ from m1).
        - exact (bk_branch e rs peer pp m0 m1 x1 Rl1 HF).
        - exists []. cbn [fst x_outs x1]. rewrite app_nil_r. split; [reflexivity|]. intros o []. }
      destruct r as [v| |]; [discriminate BC|exact BK|exact BK]. }
  rewrite effective_hop_spec, <- V4.
  destruct (route_view m4) as [|[rp|v] rest].
  - apply LOW, CH.
  - destruct (na_addr (r_addr rp)) as [u|s].
    + rewrite CH. apply SM.
    + apply LOW, CH.
  - apply LOW, CH.
Qed.

(* ====================================================================== Part B: the judge on EvTcpData *)
Definition jin_tcp (li cid : nat) (ip : bytes) (port : Z) (data : bytes) : jin :=
  {| ji_li := li; ji_tcp := true; ji_conn := cid; ji_src := ip; ji_sport := port; ji_data := data |}.

Lemma judge_C06_tcp_unfold pc st cid li ip port data outs closed :
  find (fun y => Nat.eqb (fst y) cid) (js_conns st) = Some (cid, (li, ip, port)) -> (li < dial_mark)%nat ->
  judge_C06_event pc st (EvTcpData cid data) outs closed =
  match j_read data, nth_opt (c_listens (pc_cfg pc)) li with
  | Some m, Some lc =>
      if (negb (j_is_response m) && jm_has_cl m && (negb true || single_message m))%bool then
        match j_request m, opt_all (map j_via (j_flat_via (jm_headers m))) with
        | Some q, Some ivs =>
            if match j_choose (pc_cfg pc) lc true q with HOut => true | _ => false end then O else
            first_nonzero
              (map (c06_check (branch_of (js_event st))
                              (c06_ident (pc_cfg pc) lc true q (j_learn st (jin_tcp li cid ip port data) m))
                              (c06_must lc (j_choose (pc_cfg pc) lc true q)) ivs (j_flat is_rr (jm_headers m)))
                   (msgs_of outs))
        | _, _ => O
        end
      else O
  | _, _ => O
  end.
Proof.
  intros H HMk. unfold judge_C06_event. rewrite (C07_bridge.j_input_accepted st cid li ip port data H HMk).
  cbv beta iota zeta delta [ji_data ji_li ji_tcp].
  rewrite (C07_bridge.ji_dialled_accepted st cid li ip port data H HMk). reflexivity.
Qed.

Lemma judge_C06_nil pc st ev closed : judge_C06_event pc st ev [] closed = 0%nat.
Proof.
  unfold judge_C06_event. cbv zeta.
  destruct (j_input st ev) as [i|]; [|reflexivity].
  destruct (j_read (ji_data i)) as [jm|]; [|reflexivity].
  destruct (nth_opt (c_listens (pc_cfg pc)) (ji_li i)) as [lc|]; [|reflexivity].
  destruct (_ && _)%bool; [|reflexivity].
  destruct (j_request jm) as [q|]; [|reflexivity].
  destruct (opt_all _); [|reflexivity].
  destruct (j_choose_d _ _ _ _ _); reflexivity.
Qed.

(* ====================================================================== Part C: the learned tables *)
(* the judge's j_learn (listen entry, TCP) and the model's learning with the KTcpListen transport keep the
   tables in agreement: THE SOURCE IS LEARNED WITH THE TCP LISTENER *)
Lemma j_learn_agree_tcp c stj li cid lc src sport data jin m x :
  conn_dialled stj cid = false -> (li < dial_mark)%nat ->
  agree_learned c (js_learned stj) (x_learned x) ->
  nth_opt (c_listens c) li = Some lc ->
  j_is_response jin = false -> is_request m = true -> amem src (ps_backends (x_p x)) = false ->
  opt_all (map j_via (j_flat_via (jm_headers jin))) = Some (map B7.jv_of (C07.flat_view (C07.via_hdrs m))) ->
  agree_learned c (j_learn stj (jin_tcp li cid src sport data) jin) (learned_after src (tcp_transport lc) m x).
Proof.
  intros CD HMk A N Rj Rm NB EV. unfold j_learn, learned_after, jin_tcp, ji_dialled. rewrite Rj, Rm, NB.
  cbn [andb negb ji_src ji_li ji_tcp ji_conn]. rewrite CD. cbv iota.
  rewrite (hosts_agree _ _ EV), map_map, all_vias_flat.
  change (map (fun x0 : via_param => jv_host (B7.jv_of x0))) with (map v_host).
  apply (agree_fold c li true (tcp_transport lc)); [|exact A].
  unfold jident_of, jtrans_of. rewrite (proj2 (Nat.leb_gt dial_mark li) HMk). cbn [andb]. rewrite N. reflexivity.
Qed.

(* ====================================================================== Part D: the bridge under ident_agree_g *)
(* C06_bridge.ident_agree with the judge's [tcp] flag as a parameter *)
Definition ident_agree_g (tcp : bool) (c : cfg) (lc : listen_cfg) (q : jreq) (LJ : list (bytes * (nat * bool)))
           (from : stransport) (m : message) (L : learned) : Prop :=
  match j_choose c lc tcp q with
  | HOut => True
  | _ => match model_ident c lc from m L with Some i => c06_ident c lc tcp q LJ = i | None => True end
  end.

Theorem C06_judge_bridge_tcp_partial :
  forall pc stj cid li lc cn data closed jin m rest e x x' pre,
  nth_opt (c_listens (pc_cfg pc)) li = Some lc -> e_cfg e = pc_cfg pc -> e_lc e = lc ->
  e_branch e = branch_of (js_event stj) ->
  find (fun y => Nat.eqb (fst y) cid) (js_conns stj) = Some (cid, (li, cn_peer cn, cn_peer_port cn)) ->
  (li < dial_mark)%nat ->
  cn_from cn = {| t_kind := KTcpListen; t_addr := lc_addr lc; t_port := lc_tcp lc |} ->
  j_read data = Some jin -> parse_message data = Ok (m, rest) ->
  B7.via_domain m -> B7.src_ok (cn_peer cn) -> B7.branch_ok (e_branch e) ->
  safe1 (lc_addr lc) = true -> (0 <= lc_udp lc <= 65535)%Z -> (1 <= lc_tcp lc <= 65535)%Z ->
  lrn_ok (x_learned x) ->
  (forall q, j_request jin = Some q ->
     ident_agree_g true (pc_cfg pc) lc q (j_learn stj (jin_tcp li cid (cn_peer cn) (cn_peer_port cn) data) jin)
                   (tcp_transport lc) m (learned_after (cn_peer cn) (tcp_transport lc) m x)) ->
  process_message e (cn_peer cn) (cn_peer_port cn) (cn_from cn) (cn_received_support cn) (Some (cn_id cn)) m x
    = Ok x' ->
  x_outs x' = x_outs x ++ pre ->
  forall vis, judge_C06_event pc stj (EvTcpData cid data) (map B13.labelled (filter vis pre)) closed = 0%nat.
Proof.
  intros pc stj cid li lc cn data closed jin m rest e x x' pre
         N He Hlc Hbe HC HMk HFr J P HV Hsrc Hbr Ha Hu Ht HLn IA EP EO vis.
  rewrite (judge_C06_tcp_unfold pc stj cid li _ _ data _ closed HC HMk), J, N.
  destruct (negb (j_is_response jin) && jm_has_cl jin && (negb true || single_message jin))%bool eqn:Cond;
    [|reflexivity].
  destruct (j_request jin) as [q|] eqn:Q; [|reflexivity].
  destruct (read_agree _ _ _ _ J P) as (_ & _ & _ & Bd & PS).
  destruct (B7.read_agree_all _ _ _ _ J P) as (EH & PR).
  assert (Hq : is_request m = true).
  { unfold is_request. rewrite (B7.parse_start_line_kind _ _ PS).
    apply andb_true_iff in Cond. destruct Cond as [Cond _]. apply andb_true_iff in Cond.
    destruct Cond as [Cond _]. exact Cond. }
  assert (Hst : start_ok (start_line_print (m_start m))).
  { unfold is_request in Hq. destruct (m_start m) as [meth uri ver|] eqn:Em; [|discriminate Hq].
    exact (B7.request_line_ok _ _ _ _ PS). }
  assert (G0 : B7.good m) by (apply B7.good_of_parse; assumption).
  rewrite EH. rewrite (B7.via_read (m_headers m)) by (eapply Forall_impl; [|exact G0]; intros h Gh _; exact Gh).
  rewrite (j_flat_sel is_rr RRn _ same_header_rr), c06_must_eq.
  specialize (IA q eq_refl). unfold ident_agree_g in IA.
  assert (HFr' : cn_from cn = tcp_transport lc) by exact HFr.
  rewrite HFr' in EP. clear HFr HFr'.
  set (src := cn_peer cn) in *. set (sport := cn_peer_port cn) in *. set (rs := cn_received_support cn) in *.
  set (from := tcp_transport lc) in *.
  set (L1 := learned_after src from m x) in *.
  assert (Hfa : safe1 (t_addr from) = true) by exact Ha.
  assert (Hfp : (1 <= t_port from <= 65535)%Z) by exact Ht.
  assert (Hfrom : B7.t_ok (e_branch e) from) by (apply B7.t_ok_intro; [exact Hfa|clear - Hfp; lia|exact Hbr]).
  assert (HL : B7.learned_ok (e_branch e) (x_learned x)) by (apply lrn_learned_ok; assumption).
  assert (HL1 : lrn_ok L1) by (apply lrn_ok_after; assumption).
  assert (HF2 : forall t0, first_transport lc = Some t0 ->
                  B7.t_ok (e_branch e) t0 /\ safe1 (t_addr t0) = true /\ t_port t0 <> 0%Z).
  { intros t0 E0. unfold first_transport in E0.
    destruct (Z.ltb 0 (lc_udp lc)) eqn:Lu.
    - injection E0 as <-. apply Z.ltb_lt in Lu. split; [|split; [exact Ha|cbn [t_port]; lia]].
      apply B7.t_ok_intro; [exact Ha|cbn [t_port]; lia|exact Hbr].
    - destruct (Z.ltb 0 (lc_tcp lc)) eqn:Lt; [|discriminate E0].
      injection E0 as <-. split; [|split; [exact Ha|cbn [t_port]; lia]].
      apply B7.t_ok_intro; [exact Ha|cbn [t_port]; lia|exact Hbr]. }
  assert (HF : forall t0, first_transport (e_lc e) = Some t0 -> B7.t_ok (e_branch e) t0).
  { intros t0 E0. rewrite Hlc in E0. exact (proj1 (HF2 t0 E0)). }
  destruct (C06_outputs_tcp e src sport from rs (Some (cn_id cn)) m x x' Hq G0 Hsrc Hfrom HL HF EP)
    as (extra & E1 & W).
  rewrite E1 in EO. apply app_inv_head in EO. subst extra.
  assert (MAIN : forall idj,
            match model_ident (pc_cfg pc) lc from m L1 with Some i => idj = i | None => True end ->
            first_nonzero
              (map (c06_check (branch_of (js_event stj)) idj (lc_must_rr lc)
                              (map B7.jv_of (C07.flat_view (C07.via_view (m_headers m))))
                              (B13.tview (sel RRn (m_headers m))))
                   (msgs_of (map B13.labelled (filter vis pre)))) = 0%nat).
  { intros idj MI. rewrite B13.msgs_of_labelled. apply B13.first_nonzero_zero. intros lo Ilo.
    apply in_map_iff in Ilo. destruct Ilo as (o & <- & Io).
    apply filter_In in Io. destruct Io as [Io Mo]. apply filter_In in Io. destruct Io as [Io _].
    destruct (W o Io Mo) as (mo & Bo & Po). rewrite He in Po.
    unfold post6 in Po. unfold model_ident in MI.
    assert (MU : must_of e = lc_must_rr lc) by (unfold must_of, wire_proxy; cbn [pa_must_rr]; rewrite Hlc; reflexivity).
    rewrite MU, Hbe in Po.
    destruct (effective_hop (pc_cfg pc) from m) as [host port tr| | |]; try contradiction.
    - subst idj.
      apply (c06_check_ok _ _ rs src sport m (alookup host L1) mo _ G0 Hst Bd Po).
      + rewrite labelled_snd by exact Mo. exact Bo.
      + intros t' A. destruct (HL1 _ _ A) as [A1 A2]. split; [exact A1|]. clear - A2. lia.
    - destruct Po as (t0 & F0 & Po). rewrite Hlc in F0. rewrite F0 in MI. subst idj.
      destruct (HF2 t0 F0) as (_ & A1 & A2).
      apply (c06_check_ok _ _ rs src sport m (Some t0) mo _ G0 Hst Bd Po).
      + rewrite labelled_snd by exact Mo. exact Bo.
      + intros t' A. injection A as <-. split; assumption. }
  destruct (j_choose (pc_cfg pc) lc true q); [reflexivity|exact (MAIN _ IA)|exact (MAIN _ IA)|exact (MAIN _ IA)].
Qed.

(* ====================================================================== Part E: the hop choice, any [tcp] *)
Lemma service_agree_g tcp c lc from jin m q :
  t_addr from = lc_addr lc -> t_port from = listener_port lc tcp ->
  parse_start_line (jm_start jin) = Ok (m_start m) -> j_request jin = Some q ->
  fields_go (jm_start jin) = fields (jm_start jin) ->
  (exists a, wf_addr a = true /\ jq_ruri q = rp_addr a) ->
  j_service_match c lc tcp (jq_ruri q) = is_my_message (new_my_name (c_name c)) from m.
Proof.
  intros Ha Hp PS Q G (a & Hw & Eu).
  unfold j_request, j_is_response in Q. unfold parse_start_line in PS.
  destruct (has_prefix (s2b "SIP/") (jm_start jin)); [discriminate Q|].
  unfold parse_request_line in PS. rewrite G in PS.
  destruct (fields (jm_start jin)) as [|meth [|u [|v [|x y]]]]; try discriminate Q.
  injection Q as <-. cbn [jq_ruri] in *. subst u.
  rewrite (parse_addr_spec_rp a Hw) in PS. cbn [rbind] in PS. injection PS as PS.
  unfold is_my_message. rewrite <- PS. unfold j_service_match.
  destruct a as [u|s]; cbn [rp_addr embed_addr wf_addr] in *.
  - destruct (j_uri_full u Hw) as (txt & ->). cbn [ju_sip]. rewrite (eff_port_full txt u Hw).
    cbn [ju_host ju_user embed_sipuri u_host u_user]. rewrite Ha, Hp. reflexivity.
  - destruct (wf_other_parts s Hw) as (_ & _ & E1 & E2). rewrite B13.j_uri_unfold, E1, E2. reflexivity.
Qed.

Lemma lower_agree_g tcp c lc from jin m q :
  t_addr from = lc_addr lc -> t_port from = listener_port lc tcp ->
  jm_headers jin = map (fun h => jpair (hpair h)) (m_headers m) -> Forall B7.praw (m_headers m) ->
  parse_start_line (jm_start jin) = Ok (m_start m) -> j_request jin = Some q ->
  to_domain m -> ruri_domain jin ->
  hop_rel (j_lower c lc tcp q) (host_low c q) (lower_choice c from m).
Proof.
  intros Ha Hp EH PR PS Q TD RD.
  pose proof (service_agree_g tcp c lc from jin m q Ha Hp PS Q (proj1 RD) (proj2 RD q Q)) as SV.
  unfold j_lower, j_static, host_low, lower_choice, static_hop, decoded_to.
  rewrite (j_request_to _ _ Q), EH, (j_first_get is_to (s2b "To") _ same_header_to), SV.
  set (my := is_my_message (new_my_name (c_name c)) from m).
  assert (SVC : forall host, hop_rel (if my then HBackend else HDrop) host (if my then HopBackend else HopNone))
    by (intros host; destruct my; reflexivity).
  destruct (get_header (s2b "To") (m_headers m)) as [h|] eqn:GT; cbn [option_map]; [|apply SVC].
  destruct (TD h GT) as (f & Wf & Ev).
  destruct (get_header_in _ _ _ GT) as [Ih _]. rewrite Forall_forall in PR.
  destruct (PR h Ih) as (_ & v & Hv & _ & T). rewrite Ev in Hv. injection Hv as <-.
  assert (SN : snd (jpair (hpair h)) = rp_fromto f).
  { unfold jpair, hpair. cbn [fst snd]. rewrite Ev. cbn [hval_print].
    rewrite trim_space_go_sp by reflexivity. exact T. }
  rewrite SN, Ev, (parse_fromto_rp f Wf), fromto_host_embed, (j_entry_fromto f Wf).
  pose proof (wf_fromto_addr f Wf) as Hw.
  destruct (a_ft_addr f) as [u|s]; cbn [rp_addr wf_addr] in *.
  - destruct (j_uri_full u Hw) as (txt & ->). cbn [ju_sip ju_host].
    destruct (find_route (route_table_of c) (au_host u)) as [it|]; [|apply SVC].
    exists (ri_host it), (ri_port it), (ri_proto it). split; reflexivity.
  - destruct (wf_other_parts s Hw) as (_ & _ & E1 & E2). rewrite B13.j_uri_unfold, E1, E2. cbn [ju_sip].
    apply SVC.
Qed.

(* C06_bridge.hop_agree for any flag: [from] carries the listener's address and the port the judge uses *)
Theorem hop_agree_g tcp c lc from jin m q :
  t_addr from = lc_addr lc -> t_port from = listener_port lc tcp ->
  jm_headers jin = map (fun h => jpair (hpair h)) (m_headers m) -> Forall B7.praw (m_headers m) ->
  parse_start_line (jm_start jin) = Ok (m_start m) -> j_request jin = Some q ->
  B13.route_domain_in (B13.RS m) -> to_domain m -> ruri_domain jin ->
  hop_rel (j_choose c lc tcp q) (c06_host c lc tcp q) (effective_hop c from m).
Proof.
  intros Ha Hp EH PR PS Q Dom TD RD.
  pose proof (lower_agree_g tcp c lc from jin m q Ha Hp EH PR PS Q TD RD) as LOW.
  rewrite j_choose_rem, c06_host_rem, effective_hop_spec, (B13.j_request_routes _ _ Q).
  destruct (routes_split jin m EH PR Dom) as (pre & jt & mt & W & EJ & EM & SH). rewrite EJ, EM.
  assert (TOP : forall x jr mr, wf_relem x = true ->
            hop_rel (match rp_relem x :: jr with
                     | e :: _ => if ju_sip (j_entry_uri e)
                                 then HHop (j_dest c (ju_transport (j_entry_uri e)) (ju_host (j_entry_uri e))
                                                   (ju_eff_port (j_entry_uri e)))
                                 else HOut
                     | [] => j_lower c lc tcp q end)
                    (match rp_relem x :: jr with e :: _ => Some (ju_host (j_entry_uri e)) | [] => host_low c q end)
                    (match ent_of x :: mr with
                     | EDec rp :: _ => match na_addr (r_addr rp) with
                                       | ASip u => HopAddr (u_host u) (sip_uri_get_port u) (sip_uri_transport u)
                                       | AAbs _ => lower_choice c from m
                                       end
                     | _ => lower_choice c from m
                     end)).
  { intros x jr mr Wx. unfold ent_of. cbv beta iota. pose proof (top_agree x Wx) as TA.
    destruct (na_addr (r_addr (embed_relem x))) as [u|s].
    - destruct TA as (Sip & Hh). rewrite Sip, Hh. eexists _, _, _. split; reflexivity.
    - rewrite TA. exact I. }
  destruct pre as [|a pre'].
  - destruct (SH (le_S _ _ (le_n 0))) as (-> & ->). exact LOW.
  - cbn [forallb] in W. apply andb_true_iff in W. destruct W as [Wa W'].
    cbn [map app]. unfold rem_j, drop_own.
    rewrite (B13.own_agree c lc tcp from a Ha Hp Wa). unfold ent_of at 1.
    destruct (designates c from (embed_relem a)).
    + destruct pre' as [|b pre''].
      * destruct (SH (le_n 1)) as (-> & ->). exact LOW.
      * cbn [forallb] in W'. apply andb_true_iff in W'. destruct W' as [Wb _].
        cbn [map app]. exact (TOP b (map rp_relem pre'' ++ jt) (map ent_of pre'' ++ mt) Wb).
    + exact (TOP a (map rp_relem pre' ++ jt) (map ent_of pre' ++ mt) Wa).
Qed.

Lemma ident_agree_of_g tcp c lc q LJ from m L :
  hop_rel (j_choose c lc tcp q) (c06_host c lc tcp q) (effective_hop c from m) ->
  agree_learned c LJ L -> ident_agree_g tcp c lc q LJ from m L.
Proof.
  intros HR AG. unfold ident_agree_g, model_ident, c06_ident.
  destruct (j_choose c lc tcp q); cbn [hop_rel] in HR; [exact I| | |].
  - rewrite HR. exact I.
  - destruct HR as (h & p & t & -> & ->). specialize (AG h).
    destruct (alookup h LJ) as [[li' tcp']|]; destruct (alookup h L) as [t0|]; try contradiction;
      [exact AG|reflexivity].
  - rewrite HR. pose proof (first_of_agree lc) as FA.
    destruct (first_transport lc) as [t0|]; [rewrite FA; reflexivity|exact I].
Qed.

(* ====================================================================== Part F: the bridge *)
(* REQUESTED AND PROVED.  THE BRIDGE, process_message level, for a message read on the accepted connection [cn].
   Same domain hypotheses as C06_judge_bridge_udp (with the peer of the connection in the place of the
   datagram's source and the port ranges swapped: the TCP port must be >= 1), plus H_conn and H_from. *)
Theorem C06_judge_bridge_tcp_msg :
  forall pc stj cid li lc cn data closed jin m rest e x x' pre,
  nth_opt (c_listens (pc_cfg pc)) li = Some lc -> e_cfg e = pc_cfg pc -> e_lc e = lc ->
  e_branch e = branch_of (js_event stj) ->
  find (fun y => Nat.eqb (fst y) cid) (js_conns stj) = Some (cid, (li, cn_peer cn, cn_peer_port cn)) ->
  (li < dial_mark)%nat ->
  cn_from cn = {| t_kind := KTcpListen; t_addr := lc_addr lc; t_port := lc_tcp lc |} ->
  j_read data = Some jin -> parse_message data = Ok (m, rest) ->
  agree_learned (pc_cfg pc) (js_learned stj) (x_learned x) ->
  amem (cn_peer cn) (ps_backends (x_p x)) = false ->
  B7.via_domain m -> B13.route_domain_in (B13.RS m) -> to_domain m -> ruri_domain jin ->
  B7.src_ok (cn_peer cn) -> B7.branch_ok (e_branch e) ->
  safe1 (lc_addr lc) = true -> (0 <= lc_udp lc <= 65535)%Z -> (1 <= lc_tcp lc <= 65535)%Z ->
  lrn_ok (x_learned x) ->
  process_message e (cn_peer cn) (cn_peer_port cn) (cn_from cn) (cn_received_support cn) (Some (cn_id cn)) m x
    = Ok x' ->
  x_outs x' = x_outs x ++ pre ->
  forall vis, judge_C06_event pc stj (EvTcpData cid data) (map B13.labelled (filter vis pre)) closed = 0%nat.
Proof.
  intros pc stj cid li lc cn data closed jin m rest e x x' pre
         N He Hlc Hbe HC HMk HFr J P AG NB HV Dom TD RD Hsrc Hbr Ha Hu Ht HLn EP EO vis.
  apply (C06_judge_bridge_tcp_partial pc stj cid li lc cn data closed jin m rest e x x' pre
           N He Hlc Hbe HC HMk HFr J P HV Hsrc Hbr Ha Hu Ht HLn); [|exact EP|exact EO].
  intros q Q.
  destruct (read_agree _ _ _ _ J P) as (_ & _ & _ & _ & PS).
  destruct (B7.read_agree_all _ _ _ _ J P) as (EH & PR).
  pose proof (j_request_not_response _ _ Q) as Rj.
  assert (Hq : is_request m = true).
  { unfold is_request. rewrite (B7.parse_start_line_kind _ _ PS). unfold j_is_response in Rj. rewrite Rj. reflexivity. }
  assert (G0 : B7.good m) by (apply B7.good_of_parse; assumption).
  assert (EV : opt_all (map j_via (j_flat_via (jm_headers jin))) =
               Some (map B7.jv_of (C07.flat_view (C07.via_hdrs m)))).
  { rewrite EH. apply B7.via_read. eapply Forall_impl; [|exact G0]. intros h Gh _. exact Gh. }
  apply ident_agree_of_g.
  - exact (hop_agree_g true (pc_cfg pc) lc (tcp_transport lc) jin m q eq_refl eq_refl EH PR PS Q Dom TD RD).
  - exact (j_learn_agree_tcp (pc_cfg pc) stj li cid lc (cn_peer cn) (cn_peer_port cn) data jin m x
             (C07_bridge.conn_dialled_accepted stj cid li _ _ HC HMk) HMk AG N Rj Hq NB EV).
Qed.

(* only keep-alive blanks left: the reader waits, nothing happens, whatever the fuel *)
Lemma tcp_messages_blank f e cn s x : trim_left s = [] -> tcp_messages f e cn s x = Ok x.
Proof. intros T. destruct f as [|f]; cbn [tcp_messages]; [reflexivity|]. rewrite T. reflexivity. Qed.

(* a chunk that decodes does not consist of blanks *)
Lemma parse_message_nonblank data m rest : parse_message data = Ok (m, rest) -> trim_left data <> [].
Proof.
  intros P E. unfold parse_message in P. rewrite E in P.
  cbv beta iota zeta delta [read_line] in P. discriminate P.
Qed.

(* a chunk holding exactly one message: tcp_messages = process_message of that message *)
Lemma tcp_messages_single e cn data x m rest :
  parse_message data = Ok (m, rest) -> trim_left rest = [] ->
  tcp_messages (S (List.length data)) e cn data x =
  process_message e (cn_peer cn) (cn_peer_port cn) (cn_from cn) (cn_received_support cn) (Some (cn_id cn)) m x.
Proof.
  intros P T. cbn [tcp_messages].
  destruct (trim_left data) as [|c0 r0] eqn:TD; [exfalso; exact (parse_message_nonblank _ _ _ P TD)|].
  rewrite P.
  destruct (process_message e (cn_peer cn) (cn_peer_port cn) (cn_from cn) (cn_received_support cn)
                            (Some (cn_id cn)) m x) as [x1| |]; [|reflexivity|reflexivity].
  apply tcp_messages_blank. exact T.
Qed.

(* REQUESTED AND PROVED: the same for one step of the whole proxy, as the run judges it: the branch handed to the
   step is the stand-in the judge expects; [cn] is the record the model finds for the connection (H_find); a
   closed connection yields no output (the judge accepts the empty list). *)
Theorem C06_judge_bridge_tcp_step :
  forall pc stj fx now br st st' outs cid li lc cn data closed jin m rest,
  nth_opt (c_listens (pc_cfg pc)) li = Some lc ->
  find (fun y => Nat.eqb (cn_id y) cid) (st_conns st) = Some cn ->
  find (fun y => Nat.eqb (fst y) cid) (js_conns stj) = Some (cid, (li, cn_peer cn, cn_peer_port cn)) ->
  (li < dial_mark)%nat ->
  cn_li cn = li ->
  cn_from cn = {| t_kind := KTcpListen; t_addr := lc_addr lc; t_port := lc_tcp lc |} ->
  j_read data = Some jin -> parse_message data = Ok (m, rest) -> trim_left rest = [] ->
  br = branch_of (js_event stj) ->
  agree_learned (pc_cfg pc) (js_learned stj) (st_learned st) ->
  (forall p, nth_p (st_proxies st) li = Some p -> amem (cn_peer cn) (ps_backends p) = false) ->
  B7.via_domain m -> B13.route_domain_in (B13.RS m) -> to_domain m -> ruri_domain jin ->
  B7.src_ok (cn_peer cn) -> B7.branch_ok br ->
  safe1 (lc_addr lc) = true -> (0 <= lc_udp lc <= 65535)%Z -> (1 <= lc_tcp lc <= 65535)%Z ->
  lrn_ok (st_learned st) ->
  proxy_step fx (pc_cfg pc) now br st (EvTcpData cid data) = Ok (st', outs) ->
  forall vis, judge_C06_event pc stj (EvTcpData cid data) (map B13.labelled (filter vis outs)) closed = 0%nat.
Proof.
  intros pc stj fx now br st st' outs cid li lc cn data closed jin m rest
         N HF HC HMk HLi HFr J P HT Hbe AG NB HV Dom TD RD Hsrc Hbr Ha Hu Ht HLn H vis.
  subst li. cbn [proxy_step] in H. rewrite HF in H.
  destruct (cn_open cn); [|injection H as _ <-; apply judge_C06_nil].
  cbv zeta in H. rewrite N in H. unfold run_ctx in H.
  destruct (nth_p (st_proxies st) (cn_li cn)) as [p|] eqn:NP; [|injection H as _ <-; apply judge_C06_nil].
  rewrite (tcp_messages_single _ cn data _ m rest P HT) in H.
  match type of H with context [process_message ?e ?a ?b ?f ?r ?t ?mm ?xx] =>
    destruct (process_message e a b f r t mm xx) as [x'| |] eqn:PM; try discriminate H;
    pose proof (C06_judge_bridge_tcp_msg pc stj cid (cn_li cn) lc cn data closed jin m rest e xx x' (x_outs x')
                  N eq_refl eq_refl Hbe HC HMk HFr J P AG (NB p eq_refl) HV Dom TD RD Hsrc Hbr Ha Hu Ht HLn PM eq_refl) as K end.
  injection H as _ <-. apply K.
Qed.

(* THE AGREEMENT IS KEPT by a TCP chunk: the judge's bookkeeping after the event (js_step_c: j_learn with
   (li, true)) against the model's learned table after the step (learn with the KTcpListen transport). *)
Lemma js_learned_tcp_step stj cid data outs closed li ip port jin :
  find (fun y => Nat.eqb (fst y) cid) (js_conns stj) = Some (cid, (li, ip, port)) -> (li < dial_mark)%nat ->
  j_read data = Some jin ->
  js_learned (js_step_c stj (EvTcpData cid data) outs closed) = j_learn stj (jin_tcp li cid ip port data) jin.
Proof.
  intros H HMk J. unfold js_step_c, js_step. rewrite (C07_bridge.j_input_accepted stj cid li ip port data H HMk).
  cbv beta iota zeta delta [js_learned ji_data]. rewrite J. reflexivity.
Qed.

Theorem C06_agree_tcp_step :
  forall pc stj fx now br st st' outs cid li lc cn data jin m rest outs' closed,
  nth_opt (c_listens (pc_cfg pc)) li = Some lc ->
  find (fun y => Nat.eqb (cn_id y) cid) (st_conns st) = Some cn ->
  find (fun y => Nat.eqb (fst y) cid) (js_conns stj) = Some (cid, (li, cn_peer cn, cn_peer_port cn)) ->
  (li < dial_mark)%nat ->
  cn_li cn = li -> cn_open cn = true ->
  cn_from cn = {| t_kind := KTcpListen; t_addr := lc_addr lc; t_port := lc_tcp lc |} ->
  j_read data = Some jin -> parse_message data = Ok (m, rest) -> trim_left rest = [] ->
  agree_learned (pc_cfg pc) (js_learned stj) (st_learned st) ->
  (exists p, nth_p (st_proxies st) li = Some p /\ amem (cn_peer cn) (ps_backends p) = false) ->
  B7.via_domain m ->
  proxy_step fx (pc_cfg pc) now br st (EvTcpData cid data) = Ok (st', outs) ->
  agree_learned (pc_cfg pc) (js_learned (js_step_c stj (EvTcpData cid data) outs' closed)) (st_learned st').
Proof.
  intros pc stj fx now br st st' outs cid li lc cn data jin m rest outs' closed
         N HF HC HMk HLi HO HFr J P HT AG (p & NP & NB) HV H.
  rewrite (js_learned_tcp_step stj cid data outs' closed li _ _ jin HC HMk J).
  pose proof (C07_bridge.conn_dialled_accepted stj cid li _ _ HC HMk) as CD.
  subst li. cbn [proxy_step] in H. rewrite HF, HO in H.
  cbv zeta in H. rewrite N in H. unfold run_ctx in H. rewrite NP in H.
  rewrite (tcp_messages_single _ cn data _ m rest P HT) in H.
  match type of H with context [process_message ?e ?a ?b ?f ?r ?t ?mm ?xx] =>
    destruct (process_message e a b f r t mm xx) as [x'| |] eqn:PM; try discriminate H;
    pose proof (C06_learning e a b f r t mm xx x' PM) as LE end.
  injection H as <- _. cbn [st_learned]. rewrite LE. cbn [x_p x_learned].
  assert (HFr' : cn_from cn = tcp_transport lc) by exact HFr. rewrite HFr'.
  destruct (read_agree _ _ _ _ J P) as (_ & _ & _ & _ & PS).
  destruct (B7.read_agree_all _ _ _ _ J P) as (EH & PR).
  assert (Hq : is_request m = negb (j_is_response jin)).
  { unfold is_request. rewrite (B7.parse_start_line_kind _ _ PS). reflexivity. }
  destruct (j_is_response jin) eqn:Rj.
  - rewrite Hq. cbn [negb andb]. unfold j_learn. rewrite Rj. exact AG.
  - cbn [negb] in Hq.
    assert (G0 : B7.good m) by (apply B7.good_of_parse; assumption).
    assert (EV : opt_all (map j_via (j_flat_via (jm_headers jin))) =
                 Some (map B7.jv_of (C07.flat_view (C07.via_hdrs m)))).
    { rewrite EH. apply B7.via_read. eapply Forall_impl; [|exact G0]. intros h Gh _. exact Gh. }
    pose proof (j_learn_agree_tcp (pc_cfg pc) stj (cn_li cn) cid lc (cn_peer cn) (cn_peer_port cn) data jin m
                  {| x_learned := st_learned st; x_p := p; x_conns := st_conns st; x_world := st_world st; x_outs := [] |}
                  CD HMk AG N Rj Hq NB EV) as K.
    unfold learned_after in K. cbn [x_p x_learned] in K. exact K.
Qed.

(* the readability invariant of the learned table is kept as well (any chunk: whatever it holds, everything
   learned from it is learned with cn_from) *)
Lemma lrn_ok_tcp_messages e cn : safe1 (t_addr (cn_from cn)) = true -> (1 <= t_port (cn_from cn) <= 65535)%Z ->
  forall f s x x', lrn_ok (x_learned x) -> tcp_messages f e cn s x = Ok x' -> lrn_ok (x_learned x').
Proof.
  intros Ha Hp. induction f as [|f IH]; intros s x x' HL H; cbn [tcp_messages] in H.
  - injection H as <-. exact HL.
  - destruct (trim_left s); [injection H as <-; exact HL|].
    destruct (parse_message s) as [[m rest]| |].
    + destruct (process_message e (cn_peer cn) (cn_peer_port cn) (cn_from cn) (cn_received_support cn)
                                (Some (cn_id cn)) m x) as [x1| |] eqn:PM; try discriminate H.
      apply (IH rest x1 x'); [|exact H].
      rewrite (C06_learning _ _ _ _ _ _ _ _ _ PM).
      exact (lrn_ok_after (cn_peer cn) (cn_from cn) m x Ha Hp HL).
    + injection H as <-. exact HL.   (* a decode error closes the connection, the table is untouched *)
    + injection H as <-. exact HL.
Qed.

Theorem C06_lrn_ok_tcp_step :
  forall fx c now br st st' outs cid lc cn data,
  find (fun y => Nat.eqb (cn_id y) cid) (st_conns st) = Some cn ->
  cn_from cn = {| t_kind := KTcpListen; t_addr := lc_addr lc; t_port := lc_tcp lc |} ->
  safe1 (lc_addr lc) = true -> (1 <= lc_tcp lc <= 65535)%Z ->
  lrn_ok (st_learned st) ->
  proxy_step fx c now br st (EvTcpData cid data) = Ok (st', outs) -> lrn_ok (st_learned st').
Proof.
  intros fx c now br st st' outs cid lc cn data HF HFr Ha Ht HL H.
  assert (Ha' : safe1 (t_addr (cn_from cn)) = true) by (rewrite HFr; exact Ha).
  assert (Ht' : (1 <= t_port (cn_from cn) <= 65535)%Z) by (rewrite HFr; exact Ht).
  cbn [proxy_step] in H. rewrite HF in H.
  destruct (cn_open cn); [|injection H as <- _; exact HL].
  cbv zeta in H. destruct (nth_opt (c_listens c) (cn_li cn)) as [lc'|]; [|injection H as <- _; exact HL].
  unfold run_ctx in H. destruct (nth_p (st_proxies st) (cn_li cn)) as [p|]; [|injection H as <- _; exact HL].
  match type of H with context [tcp_messages ?f ?e ?cc ?s ?xx] =>
    destruct (tcp_messages f e cc s xx) as [x'| |] eqn:TM; try discriminate H;
    pose proof (lrn_ok_tcp_messages e cn Ha' Ht' f s xx x' HL TM) as K2 end.
  injection H as <- _. exact K2.
Qed.

(* what EvTcpAccept records in the model state: the connection record the hypotheses H_from / H_find / H_li
   talk about (nothing is learned, nothing is emitted); the judge's bookkeeping [js_step] files
   (js_next_conn, (li, src, sport)) for the same event *)
Definition accepted_conn (fx : fixes) (st : state) (li : nat) (lc : listen_cfg) (src : bytes) (sport : Z) : conn :=
  {| cn_id := w_next_conn (st_world st); cn_li := li; cn_open := true; cn_peer := src; cn_peer_port := sport;
     cn_from := {| t_kind := KTcpListen; t_addr := lc_addr lc; t_port := lc_tcp lc |};
     cn_received_support := item_rs_of (fx_wiring fx) lc |}.

Lemma C06_tcp_accept_records fx c now br st li src sport lc p :
  nth_opt (c_listens c) li = Some lc -> nth_p (st_proxies st) li = Some p ->
  exists st', proxy_step fx c now br st (EvTcpAccept li src sport) = Ok (st', []) /\
              st_learned st' = st_learned st /\
              st_conns st' = st_conns st ++ [accepted_conn fx st li lc src sport].
Proof.
  intros EL EP. cbn [proxy_step]. rewrite EL, EP. cbv zeta.
  destruct (get_transport _ _ _ _ _ _) as [p1 rk].
  eexists. split; [reflexivity|]. cbn [st_learned st_conns]. split; reflexivity.
Qed.

Lemma js_step_accept_records stj li src sport outs :
  js_conns (js_step stj (EvTcpAccept li src sport) outs) =
  (js_conns stj ++ [(js_next_conn stj, (li, src, sport))]) ++ dialled O outs /\
  js_learned (js_step stj (EvTcpAccept li src sport) outs) = js_learned stj.
Proof. split; reflexivity. Qed.

(* ====================================================================== Part G: example *)
(* The configuration of the example of C06_bridge.v (C01.ex_cfg) with a listener whose TCP port (5062) differs
   from its UDP port (5060) and must-record-route OFF.  A peer 10.0.0.9 connects (EvTcpAccept), then sends on
   the connection a request with two Via entries, one Record-Route entry and a Route set whose first entry
   names the listener's address and its TCP port (own: popped) and whose second entry is 10.0.0.9:5070: the
   next hop is the sender itself, LEARNED FROM THIS VERY REQUEST THROUGH THE TCP LISTENER.  The proxy puts
   "SIP/2.0/TCP 10.0.0.1:5062" on top and "<sip:10.0.0.1:5062;lr>" in front of the received Record-Route. *)
Module C06_bridge_tcp_example.
Import C06_bridge_example.

Definition t6_lc : listen_cfg :=
  {| lc_addr := s2b "10.0.0.1"; lc_udp := 5060; lc_tcp := 5062; lc_backends := [s2b "10.0.0.2:5080"];
     lc_dynamic := false; lc_no_received := false; lc_def_route := false; lc_must_rr := false |}.
Definition t6_cfg : cfg :=
  {| c_name := c_name C01.ex_cfg; c_keep_next_hop := false; c_dialog_timeout := 3600;
     c_routes := c_routes C01.ex_cfg; c_hosts := []; c_listens := [t6_lc] |}.
Definition t6_pc : proxy_case :=
  {| pc_cfg := t6_cfg; pc_tcp_listeners := [(s2b "10.0.0.7", 5080%Z)];
     pc_udp_endpoints := [(s2b "10.0.0.9", 5070%Z)]; pc_events := []; pc_waits := [] |}.
Definition t6_st0 : state := init_state t6_cfg 0 [(s2b "10.0.0.7", 5080%Z)].
Definition t6_accept : event := EvTcpAccept 0 (s2b "10.0.0.9") 40000%Z.
(* model state and judge bookkeeping after the accept *)
Definition t6_st1 : state :=
  match proxy_step all_fixed t6_cfg 500 (branch_of 0) t6_st0 t6_accept with Ok (s, _) => s | _ => t6_st0 end.
Definition t6_js1 : jstate := js_step_c (js_init t6_cfg) t6_accept [] [].
Definition t6_routes : list a_relem :=
  [B13.b13_elem "" "10.0.0.1" (Some 5062%Z); B13.b13_elem "" "10.0.0.9" (Some 5070%Z)].
Definition t6_req : bytes :=
  s2b "INVITE sip:bob@elsewhere.example SIP/2.0" ++ crlf ++
  s2b "Route: <sip:10.0.0.1:5062;lr>,<sip:10.0.0.9:5070;lr>" ++ crlf ++
  s2b "Via: SIP/2.0/TCP 10.0.0.9:5070;branch=z9hG4bKabc;rport" ++ crlf ++
  s2b "Via: SIP/2.0/UDP 10.0.0.8:5071;branch=z9hG4bK0" ++ crlf ++
  s2b "Record-Route: <sip:10.0.0.8:5071;lr>" ++ crlf ++
  s2b "From: <sip:alice@a.example.com>;tag=1" ++ crlf ++
  s2b "To: <sip:svc@example.com>" ++ crlf ++
  s2b "Call-ID: call-1@host" ++ crlf ++
  s2b "CSeq: 7 INVITE" ++ crlf ++
  s2b "Content-Length: 3" ++ crlf ++ crlf ++ s2b "abc" ++ crlf.
Definition t6_ev : event := EvTcpData 0 t6_req.
Definition t6_run : res (state * list output) :=
  proxy_step all_fixed (pc_cfg t6_pc) 1000 (branch_of 1) t6_st1 t6_ev.
Definition t6_st2 : state := match t6_run with Ok (s, _) => s | _ => t6_st1 end.
Definition t6_outs : list output := match t6_run with Ok (_, o) => o | _ => [] end.
Definition t6_jin : jmsg :=
  match j_read t6_req with Some j => j | None => Build_jmsg [] [] [] [] false 0 None end.
(* the model's record of the connection: the one Part F describes *)
Definition t6_cn : conn := accepted_conn all_fixed t6_st0 0 t6_lc (s2b "10.0.0.9") 40000%Z.
Definition t6_p : pstate :=
  match nth_p (st_proxies t6_st1) 0 with Some p => p | None => init_pstate t6_cfg 0 t6_lc end.

Example t6_accept_ok : proxy_step all_fixed t6_cfg 500 (branch_of 0) t6_st0 t6_accept = Ok (t6_st1, []).
Proof. vm_compute. reflexivity. Qed.
Example t6_accept_records : st_conns t6_st1 = st_conns t6_st0 ++ [t6_cn].
Proof. vm_compute. reflexivity. Qed.
Example t6_run_ok : t6_run = Ok (t6_st2, t6_outs).
Proof. vm_compute. reflexivity. Qed.

(* the hypotheses of C06_judge_bridge_tcp_step hold *)
Example t6_hyp_listener : nth_opt (c_listens (pc_cfg t6_pc)) 0 = Some t6_lc.
Proof. reflexivity. Qed.
Example t6_hyp_model_conn : find (fun y => Nat.eqb (cn_id y) 0) (st_conns t6_st1) = Some t6_cn.
Proof. vm_compute. reflexivity. Qed.
Example t6_hyp_judge_conn :
  find (fun y => Nat.eqb (fst y) 0) (js_conns t6_js1) = Some (0%nat, (0%nat, cn_peer t6_cn, cn_peer_port t6_cn)).
Proof. vm_compute. reflexivity. Qed.
Example t6_hyp_read : j_read t6_req = Some t6_jin.
Proof. vm_compute. reflexivity. Qed.
Example t6_hyp_single : (jm_has_cl t6_jin, single_message t6_jin, j_is_response t6_jin) = (true, true, false).
Proof. vm_compute. reflexivity. Qed.
Example t6_hyp_parse : parse_message t6_req = Ok (parsed t6_req, crlf).
Proof. vm_compute. reflexivity. Qed.
Example t6_hyp_rest : trim_left crlf = [].
Proof. vm_compute. reflexivity. Qed.
Example t6_hyp_two_vias_one_rr :
  (List.length (filter (fun h => is_via (h_name h)) (m_headers (parsed t6_req))),
   List.length (sel (s2b "Record-Route") (m_headers (parsed t6_req)))) = (2%nat, 1%nat).
Proof. vm_compute. reflexivity. Qed.
Example t6_learned_before : js_learned t6_js1 = [] /\ st_learned t6_st1 = [].
Proof. split; vm_compute; reflexivity. Qed.
Example t6_hyp_agree : agree_learned (pc_cfg t6_pc) (js_learned t6_js1) (st_learned t6_st1).
Proof. destruct t6_learned_before as [E1 E2]. unfold agree_learned. intros h. rewrite E1, E2. exact I. Qed.
Example t6_p_eq : nth_p (st_proxies t6_st1) 0 = Some t6_p.
Proof. vm_compute. reflexivity. Qed.
Example t6_p_nb : amem (cn_peer t6_cn) (ps_backends t6_p) = false.
Proof. vm_compute. reflexivity. Qed.
Example t6_hyp_nb : forall p, nth_p (st_proxies t6_st1) 0 = Some p -> amem (cn_peer t6_cn) (ps_backends p) = false.
Proof. intros p NP. rewrite t6_p_eq in NP. injection NP as <-. exact t6_p_nb. Qed.
Example t6_hyp_via : B7.via_domain (parsed t6_req).
Proof. apply B7.via_domain_b_sound. vm_compute. reflexivity. Qed.
Example t6_hyp_routes : B13.route_domain_in (B13.RS (parsed t6_req)).
Proof.
  assert (E : B13.RS (parsed t6_req) = [{| h_name := s2b "Route"; h_val := HRaw (rp_route t6_routes) |}])
    by (vm_compute; reflexivity).
  rewrite E. cbn [B13.route_domain_in]. split; [|exact I]. exists t6_routes.
  split; [discriminate|]. split; [vm_compute; reflexivity|]. split; [vm_compute; reflexivity|reflexivity].
Qed.
Example t6_hyp_to : to_domain (parsed t6_req).
Proof.
  intros h GT. vm_compute in GT. injection GT as <-. exists ex_to. split; vm_compute; reflexivity.
Qed.
Example t6_hyp_ruri : ruri_domain t6_jin.
Proof.
  split; [vm_compute; reflexivity|].
  intros q Q. vm_compute in Q. injection Q as <-. exists ex_ruri. split; vm_compute; reflexivity.
Qed.
Example t6_hyp_lrn : lrn_ok (st_learned t6_st1).
Proof. destruct t6_learned_before as [_ E2]. rewrite E2. intros h t A. discriminate A. Qed.

(* every hypothesis of the step theorem holds of the run: the judge accepts, by the theorem *)
Example C06_bridge_tcp_ex :
  forall vis, judge_C06_event t6_pc t6_js1 t6_ev (map B13.labelled (filter vis t6_outs)) [] = 0%nat.
Proof.
  refine (C06_judge_bridge_tcp_step t6_pc t6_js1 all_fixed 1000%Z (branch_of 1) t6_st1 t6_st2 t6_outs
            0%nat 0%nat t6_lc t6_cn t6_req [] t6_jin (parsed t6_req) crlf
            t6_hyp_listener t6_hyp_model_conn t6_hyp_judge_conn C07_bridge.zero_below_mark eq_refl eq_refl t6_hyp_read t6_hyp_parse t6_hyp_rest
            _ t6_hyp_agree t6_hyp_nb t6_hyp_via t6_hyp_routes t6_hyp_to t6_hyp_ruri _ _ _ _ _ t6_hyp_lrn t6_run_ok).
  - vm_compute. reflexivity.
  - split; vm_compute; reflexivity.
  - split; vm_compute; reflexivity.
  - vm_compute. reflexivity.
  - unfold t6_lc. cbn [lc_udp]. lia.
  - unfold t6_lc. cbn [lc_tcp]. lia.
Qed.
(* ... and the verdict computed directly *)
Example C06_bridge_tcp_ex_computed : judge_C06_event t6_pc t6_js1 t6_ev (map B13.labelled t6_outs) [] = 0%nat.
Proof. vm_compute. reflexivity. Qed.

(* what leaves the proxy: one datagram to the learned next hop; own Via of the TCP listener on top of the two
   received entries; own Record-Route (TCP port) ahead of the received one; only the own Route entry and the
   next hop were consumed *)
Example t6_out_labels : map (fun o => fst (B13.labelled o)) t6_outs = [s2b "udp:10.0.0.9:5070"].
Proof. vm_compute. reflexivity. Qed.
Example t6_out_via :
  map (fun o => option_map (fun om => map (fun e => option_map (fun v => (jv_transport v, jv_host v, jv_port v)) (j_via e))
                                          (j_flat_via (jm_headers om)))
                           (j_read (snd o))) t6_outs
  = [Some [Some (s2b "TCP", s2b "10.0.0.1", Some 5062%Z); Some (s2b "TCP", s2b "10.0.0.9", Some 5070%Z);
           Some (s2b "UDP", s2b "10.0.0.8", Some 5071%Z)]].
Proof. vm_compute. reflexivity. Qed.
Example t6_out_rr :
  map (fun o => option_map (fun om => j_flat is_rr (jm_headers om)) (j_read (snd o))) t6_outs
  = [Some [s2b "<sip:10.0.0.1:5062;lr>"; s2b "<sip:10.0.0.8:5071;lr>"]].
Proof. vm_compute. reflexivity. Qed.

(* the message-level theorem on the same instance *)
Definition t6_e : env := mk_env all_fixed t6_cfg (item_rs_of true) 0 t6_lc 1000 (branch_of 1).
Definition t6_x : ctx :=
  {| x_learned := st_learned t6_st1; x_p := t6_p; x_conns := st_conns t6_st1; x_world := st_world t6_st1;
     x_outs := [] |}.
Definition t6_x' : ctx :=
  match process_message t6_e (cn_peer t6_cn) (cn_peer_port t6_cn) (cn_from t6_cn) (cn_received_support t6_cn)
                        (Some (cn_id t6_cn)) (parsed t6_req) t6_x
  with Ok y => y | _ => t6_x end.
Example t6_msg_ok :
  process_message t6_e (cn_peer t6_cn) (cn_peer_port t6_cn) (cn_from t6_cn) (cn_received_support t6_cn)
                  (Some (cn_id t6_cn)) (parsed t6_req) t6_x = Ok t6_x' /\ x_outs t6_x' = t6_outs.
Proof. split; vm_compute; reflexivity. Qed.
Example C06_bridge_tcp_msg_ex :
  forall vis, judge_C06_event t6_pc t6_js1 t6_ev (map B13.labelled (filter vis (x_outs t6_x'))) [] = 0%nat.
Proof.
  refine (C06_judge_bridge_tcp_msg t6_pc t6_js1 0%nat 0%nat t6_lc t6_cn t6_req [] t6_jin (parsed t6_req) crlf
            t6_e t6_x t6_x' (x_outs t6_x')
            t6_hyp_listener eq_refl eq_refl _ t6_hyp_judge_conn C07_bridge.zero_below_mark eq_refl t6_hyp_read t6_hyp_parse
            t6_hyp_agree t6_p_nb t6_hyp_via t6_hyp_routes t6_hyp_to t6_hyp_ruri _ _ _ _ _ t6_hyp_lrn
            (proj1 t6_msg_ok) eq_refl).
  - vm_compute. reflexivity.
  - split; vm_compute; reflexivity.
  - split; vm_compute; reflexivity.
  - vm_compute. reflexivity.
  - unfold t6_lc. cbn [lc_udp]. lia.
  - unfold t6_lc. cbn [lc_tcp]. lia.
Qed.

(* the agreement of the learned tables after the event, by the theorem; the sender was learned with the TCP
   listener on both sides *)
Example C06_agree_tcp_ex :
  agree_learned (pc_cfg t6_pc) (js_learned (js_step_c t6_js1 t6_ev [] [])) (st_learned t6_st2) /\
  alookup (s2b "10.0.0.9") (st_learned t6_st2) = Some (tcp_transport t6_lc) /\
  alookup (s2b "10.0.0.9") (js_learned (js_step_c t6_js1 t6_ev [] [])) = Some (0%nat, true) /\
  lrn_ok (st_learned t6_st2).
Proof.
  split; [|split; [vm_compute; reflexivity|split; [vm_compute; reflexivity|]]].
  - exact (C06_agree_tcp_step t6_pc t6_js1 all_fixed 1000%Z (branch_of 1) t6_st1 t6_st2 t6_outs 0%nat 0%nat
             t6_lc t6_cn t6_req t6_jin (parsed t6_req) crlf [] []
             t6_hyp_listener t6_hyp_model_conn t6_hyp_judge_conn C07_bridge.zero_below_mark eq_refl eq_refl eq_refl t6_hyp_read t6_hyp_parse
             t6_hyp_rest t6_hyp_agree (ex_intro _ t6_p (conj t6_p_eq t6_p_nb)) t6_hyp_via t6_run_ok).
  - refine (C06_lrn_ok_tcp_step all_fixed (pc_cfg t6_pc) 1000%Z (branch_of 1) t6_st1 t6_st2 t6_outs 0%nat t6_lc
              t6_cn t6_req t6_hyp_model_conn eq_refl _ _ t6_hyp_lrn t6_run_ok).
    + vm_compute. reflexivity.
    + unfold t6_lc. cbn [lc_tcp]. lia.
Qed.

(* SENSITIVITY.  The judge does look: the same request relayed as it came (no own Via) is rejected: reason 1 *)
Example C06_bridge_tcp_ex_sensitive :
  judge_C06_event t6_pc t6_js1 t6_ev [(s2b "udp:10.0.0.9:5070", t6_req)] [] = 1%nat.
Proof. vm_compute. reflexivity. Qed.
(* the identity the judge expects is the one of the TCP listener: the model's (correct) output judged as if the
   request had come in a datagram (own entry = UDP port, nothing learned for the then next hop) is rejected *)
Example C06_bridge_tcp_ex_sensitive_udp :
  judge_C06_event t6_pc t6_js1 (EvUdp 0 (s2b "10.0.0.9") 40000%Z t6_req) (map B13.labelled t6_outs) [] = 1%nat.
Proof. vm_compute. reflexivity. Qed.
(* ... and what the model emits for that datagram (another hop: the first Route entry is not own over UDP)
   is rejected by the judge of the TCP event *)
Definition t6u_outs : list output :=
  match proxy_step all_fixed (pc_cfg t6_pc) 1000 (branch_of 1) t6_st1 (EvUdp 0 (s2b "10.0.0.9") 40000%Z t6_req)
  with Ok (_, o) => o | _ => [] end.
Example C06_bridge_tcp_ex_sensitive_model_udp :
  (List.length t6u_outs = 1)%nat /\
  judge_C06_event t6_pc t6_js1 (EvUdp 0 (s2b "10.0.0.9") 40000%Z t6_req) (map B13.labelled t6u_outs) [] = 0%nat /\
  judge_C06_event t6_pc t6_js1 t6_ev (map B13.labelled t6u_outs) [] <> 0%nat.
Proof. split; [vm_compute; reflexivity|split; [vm_compute; reflexivity|vm_compute; discriminate]]. Qed.
(* without the judge's record of the connection there is no verdict (the hypothesis H_conn is not idle) *)
Example C06_bridge_tcp_ex_unknown_conn :
  judge_C06_event t6_pc (js_init t6_cfg) t6_ev [(s2b "udp:10.0.0.9:5070", t6_req)] [] = 0%nat.
Proof. vm_compute. reflexivity. Qed.
End C06_bridge_tcp_example.

(* ====================================================================== Part H: a DIALLED connection *)
(* The case a 20 000-scenario run reported as a false alarm (reason 1) of the judge as it was before it told
   dialled from accepted connections (that the former judge answered non-zero here is not re-proved: it no longer
   exists).  Listener 10.0.0.1 (UDP 5060, TCP 5062) of Part G; the peer 10.0.0.7:5090 accepts connections.
     event 0  a datagram from 10.0.0.9:5070, Route: <sip:10.0.0.7:5090;transport=tcp;lr>: the proxy DIALS
              10.0.0.7:5090 (connection 0) and writes the request on it (10.0.0.7 not learned: no own Via);
     event 1  the peer sends a request of its own ON THAT CONNECTION (Route: 10.0.0.9:5070): its address
              10.0.0.7 is learned with the connection's own transport (KTcpConn, listener address, port 0);
              the request is relayed to 10.0.0.9:5070 with the UDP listener on top (10.0.0.9: learned at event 0);
     event 2  a second datagram routed to 10.0.0.7:5090;transport=tcp: written on connection 0 with the own Via
              "SIP/2.0/TCP 10.0.0.1" and the own Record-Route "<sip:10.0.0.1;lr>", both WITHOUT a port.
   The judge (its bookkeeping stepped by js_step_c through the events, fed with what the run shows) answers 0
   on the three events; it answers 1 when the own Via of event 2 carries the listener's TCP port or another
   address, and 2 when the own Record-Route carries the TCP port. *)
Module C06_dialled_example.
Import C06_bridge_example C06_bridge_tcp_example.

Definition d6_peers : list (bytes * Z) := [(s2b "10.0.0.7", 5090%Z)].
Definition d6_pc : proxy_case :=
  {| pc_cfg := t6_cfg; pc_tcp_listeners := d6_peers;
     pc_udp_endpoints := [(s2b "10.0.0.9", 5070%Z)]; pc_events := []; pc_waits := [] |}.
Definition d6_st0 : state := init_state t6_cfg 0 d6_peers.
Definition d6_req (branch callid : string) : bytes :=
  s2b "INVITE sip:bob@elsewhere.example SIP/2.0" ++ crlf ++
  s2b "Route: <sip:10.0.0.7:5090;transport=tcp;lr>" ++ crlf ++
  s2b "Via: SIP/2.0/UDP 10.0.0.9:5070;branch=" ++ s2b branch ++ crlf ++
  s2b "Record-Route: <sip:10.0.0.8:5071;lr>" ++ crlf ++
  s2b "From: <sip:alice@a.example.com>;tag=1" ++ crlf ++
  s2b "To: <sip:svc@example.com>" ++ crlf ++
  s2b "Call-ID: " ++ s2b callid ++ crlf ++
  s2b "CSeq: 7 INVITE" ++ crlf ++
  s2b "Content-Length: 3" ++ crlf ++ crlf ++ s2b "abc".
(* what the peer sends back on the connection the proxy opened *)
Definition d6_back : bytes :=
  s2b "OPTIONS sip:alice@a.example.com SIP/2.0" ++ crlf ++
  s2b "Route: <sip:10.0.0.9:5070;lr>" ++ crlf ++
  s2b "Via: SIP/2.0/TCP 10.0.0.7:5090;branch=z9hG4bKpeer" ++ crlf ++
  s2b "From: <sip:peer@b.example.com>;tag=9" ++ crlf ++
  s2b "To: <sip:alice@a.example.com>" ++ crlf ++
  s2b "Call-ID: call-back@peer" ++ crlf ++
  s2b "CSeq: 1 OPTIONS" ++ crlf ++
  s2b "Content-Length: 0" ++ crlf ++ crlf.
Definition d6_ev0 : event := EvUdp 0 (s2b "10.0.0.9") 5070%Z (d6_req "z9hG4bKone" "call-1@host").
Definition d6_ev1 : event := EvTcpData 0 d6_back.
Definition d6_ev2 : event := EvUdp 0 (s2b "10.0.0.9") 5070%Z (d6_req "z9hG4bKtwo" "call-2@host").
(* the model, event after event (the branch handed to the step is the one the judge expects) *)
Definition d6_run (st : state) (n : nat) (ev : event) : state * list output :=
  match proxy_step all_fixed t6_cfg 1000 (branch_of n) st ev with Ok r => r | _ => (st, []) end.
Definition d6_st1 : state := fst (d6_run d6_st0 0 d6_ev0).
Definition d6_outs0 : list output := snd (d6_run d6_st0 0 d6_ev0).
Definition d6_st2 : state := fst (d6_run d6_st1 1 d6_ev1).
Definition d6_outs1 : list output := snd (d6_run d6_st1 1 d6_ev1).
Definition d6_st3 : state := fst (d6_run d6_st2 2 d6_ev2).
Definition d6_outs2 : list output := snd (d6_run d6_st2 2 d6_ev2).
(* the judge's bookkeeping, from the events and what the run shows (nothing closed) *)
Definition d6_js0 : jstate := js_init t6_cfg.
Definition d6_js1 : jstate := js_step_c d6_js0 d6_ev0 (map B13.labelled d6_outs0) [].
Definition d6_js2 : jstate := js_step_c d6_js1 d6_ev1 (map B13.labelled d6_outs1) [].

Example d6_steps_ok :
  proxy_step all_fixed t6_cfg 1000 (branch_of 0) d6_st0 d6_ev0 = Ok (d6_st1, d6_outs0) /\
  proxy_step all_fixed t6_cfg 1000 (branch_of 1) d6_st1 d6_ev1 = Ok (d6_st2, d6_outs1) /\
  proxy_step all_fixed t6_cfg 1000 (branch_of 2) d6_st2 d6_ev2 = Ok (d6_st3, d6_outs2).
Proof. split; [|split]; vm_compute; reflexivity. Qed.
(* event 0 dials and writes; event 1 relays to the datagram peer; event 2 writes on the open connection *)
Example d6_labels :
  map (fun o => fst (B13.labelled o)) d6_outs0 = [s2b "dial:10.0.0.7:5090"; s2b "conn:0"] /\
  map (fun o => fst (B13.labelled o)) d6_outs1 = [s2b "udp:10.0.0.9:5070"] /\
  map (fun o => fst (B13.labelled o)) d6_outs2 = [s2b "conn:0"].
Proof. split; [|split]; vm_compute; reflexivity. Qed.
(* the model's record of connection 0 is a dialled one and 10.0.0.7 is learned with ITS transport (port 0);
   the judge's bookkeeping says the same with the mark *)
Example d6_learned :
  alookup (s2b "10.0.0.7") (st_learned d6_st2) = Some {| t_kind := KTcpConn; t_addr := s2b "10.0.0.1"; t_port := 0 |} /\
  conn_dialled d6_js1 0 = true /\
  alookup (s2b "10.0.0.7") (js_learned d6_js2) = Some (dial_mark, true) /\
  jident_of t6_cfg dial_mark true = Some (s2b "TCP", s2b "10.0.0.1", 0%Z) /\
  agree_learned t6_cfg (js_learned d6_js2) (st_learned d6_st2).
Proof.
  split; [vm_compute; reflexivity|]. split; [vm_compute; reflexivity|]. split; [vm_compute; reflexivity|].
  split; [vm_compute; reflexivity|].
  assert (EJ : js_learned d6_js2 = [(s2b "10.0.0.9", (0%nat, false)); (s2b "10.0.0.7", (dial_mark, true))])
    by (vm_compute; reflexivity).
  assert (EM : st_learned d6_st2 = [(s2b "10.0.0.9", B13.udp_transport t6_lc);
                                    (s2b "10.0.0.7", {| t_kind := KTcpConn; t_addr := s2b "10.0.0.1"; t_port := 0 |})])
    by (vm_compute; reflexivity).
  intros h. rewrite EJ, EM. cbn [alookup].
  destruct (beq h (s2b "10.0.0.9")); [vm_compute; reflexivity|].
  destruct (beq h (s2b "10.0.0.7")); [vm_compute; reflexivity|exact I].
Qed.
(* what is written at event 2: the own Via and the own Record-Route entry carry NO port *)
Example d6_out_via :
  map (fun o => option_map (fun om => map (fun e => option_map (fun v => (jv_transport v, jv_host v, jv_port v)) (j_via e))
                                          (j_flat_via (jm_headers om)))
                           (j_read (snd o))) d6_outs2
  = [Some [Some (s2b "TCP", s2b "10.0.0.1", None); Some (s2b "UDP", s2b "10.0.0.9", Some 5070%Z)]].
Proof. vm_compute. reflexivity. Qed.
Example d6_out_rr :
  map (fun o => option_map (fun om => j_flat is_rr (jm_headers om)) (j_read (snd o))) d6_outs2
  = [Some [s2b "<sip:10.0.0.1;lr>"; s2b "<sip:10.0.0.8:5071;lr>"]].
Proof. vm_compute. reflexivity. Qed.

(* THE JUDGE ACCEPTS the three events (reason code 1 was the false alarm at event 2) *)
Example C06_dialled_ex :
  judge_C06_event d6_pc d6_js0 d6_ev0 (map B13.labelled d6_outs0) [] = 0%nat /\
  judge_C06_event d6_pc d6_js1 d6_ev1 (map B13.labelled d6_outs1) [] = 0%nat /\
  judge_C06_event d6_pc d6_js2 d6_ev2 (map B13.labelled d6_outs2) [] = 0%nat /\
  j_run judge_C06_event d6_pc d6_js0 [d6_ev0; d6_ev1; d6_ev2]
        [(map B13.labelled d6_outs0, []); (map B13.labelled d6_outs1, []); (map B13.labelled d6_outs2, [])] = None.
Proof. repeat match goal with |- _ /\ _ => split end; vm_compute; reflexivity. Qed.

(* SENSITIVITY: the first occurrence of [pat] in [s] replaced by [rep] *)
Fixpoint d6_subst (pat rep s : bytes) : bytes :=
  match s with
  | [] => []
  | c :: r => if has_prefix pat s then rep ++ skipn (List.length pat) s else c :: d6_subst pat rep r
  end.
Definition d6_edit (pat rep : string) : list (bytes * bytes) :=
  map (fun o => (fst (B13.labelled o), d6_subst (s2b pat) (s2b rep) (snd (B13.labelled o)))) d6_outs2.
(* the edits do change the bytes: the own Via / Record-Route texts are where the examples above show them *)
Example d6_edits_differ :
  map (fun p => forallb (fun '(a, b) => beq (snd a) (snd b)) (combine (d6_edit (fst p) (snd p)) (map B13.labelled d6_outs2)))
      [("SIP/2.0/TCP 10.0.0.1;", "SIP/2.0/TCP 10.0.0.1:5062;"); ("SIP/2.0/TCP 10.0.0.1;", "SIP/2.0/TCP 10.0.0.2;");
       ("<sip:10.0.0.1;lr>", "<sip:10.0.0.1:5062;lr>")]%string
  = [false; false; false].
Proof. vm_compute. reflexivity. Qed.
(* own Via with the listener's TCP port (what the former judge demanded): rejected, reason 1; own Via with
   another address: reason 1; own Record-Route with the TCP port: reason 2 *)
Example C06_dialled_ex_sensitive :
  judge_C06_event d6_pc d6_js2 d6_ev2 (d6_edit "SIP/2.0/TCP 10.0.0.1;" "SIP/2.0/TCP 10.0.0.1:5062;") [] = 1%nat /\
  judge_C06_event d6_pc d6_js2 d6_ev2 (d6_edit "SIP/2.0/TCP 10.0.0.1;" "SIP/2.0/TCP 10.0.0.2;") [] = 1%nat /\
  judge_C06_event d6_pc d6_js2 d6_ev2 (d6_edit "<sip:10.0.0.1;lr>" "<sip:10.0.0.1:5062;lr>") [] = 2%nat.
Proof. repeat match goal with |- _ /\ _ => split end; vm_compute; reflexivity. Qed.
(* ... and the port-less form is accepted for hosts learned over a DIALLED connection only: the same output
   judged with a bookkeeping in which connection 0 is an accepted one (10.0.0.7 learned through the TCP
   listener: identity 10.0.0.1:5062) is rejected *)
Definition d6_js1_acc : jstate := js_step_c d6_js0 (EvTcpAccept 0 (s2b "10.0.0.7") 5090%Z) [] [].
Definition d6_js2_acc : jstate := js_step_c d6_js1_acc d6_ev1 (map B13.labelled d6_outs1) [].
Example C06_dialled_ex_only_dialled :
  conn_dialled d6_js1_acc 0 = false /\
  alookup (s2b "10.0.0.7") (js_learned d6_js2_acc) = Some (0%nat, true) /\
  judge_C06_event d6_pc d6_js2_acc d6_ev2 (map B13.labelled d6_outs2) [] = 1%nat.
Proof. repeat match goal with |- _ /\ _ => split end; vm_compute; reflexivity. Qed.
End C06_dialled_example.

Print Assumptions C06_outputs_tcp.
Print Assumptions hop_agree_g.
Print Assumptions j_learn_agree_tcp.
Print Assumptions tcp_messages_single.
Print Assumptions C06_judge_bridge_tcp_partial.
Print Assumptions C06_judge_bridge_tcp_msg.
Print Assumptions C06_judge_bridge_tcp_step.
Print Assumptions C06_agree_tcp_step.
Print Assumptions C06_lrn_ok_tcp_step.
Print Assumptions C06_tcp_accept_records.
Print Assumptions C06_bridge_tcp_example.C06_bridge_tcp_ex.
Print Assumptions C06_bridge_tcp_example.C06_bridge_tcp_msg_ex.
Print Assumptions C06_bridge_tcp_example.C06_agree_tcp_ex.
Print Assumptions C06_dialled_example.C06_dialled_ex.
Print Assumptions C06_dialled_example.C06_dialled_ex_sensitive.
