(* C13.v — Route handling (property C13): tryRemoveTopRoute consumes the first Route entry iff
   it designates the receiving transport, getNextRequestHopByRoute strips the next-hop entry
   iff keep-next-hop-route is off, every further entry is relayed as it is and in order.

   Main statements: try_remove_top_route_pops_iff_own, next_hop_by_route_pops_iff_not_keep,
   next_request_hop_route, C13_route, C13_route_decoded, route_view_grammar, route_header_text. *)
From Coq Require Import List Ascii String ZArith Bool Arith Lia.
From Model Require Import Bytes BytesLemmas Uri Hdr Message Msg Rx Glob StaticRoute RoundRobin Pins Proxy RunProxy SpecC14.
From Model.proofs Require Import C06.
From Model.proofs Require C14_hdr.
Import ListNotations.
Open Scope Z_scope.

(* ------------------------------------------------------------------ the Route set of a message *)
(* One element per Route ENTRY, flattened over all Route headers in order.  A header that is
   decoded, or raw and decodable, contributes its entries as route_param values (that is what
   the proxy re-encodes with route_print once it has looked at the header); a header that does
   not decode is one opaque element.  The view does not change when a header is decoded in place. *)
Inductive rentry := EDec (r : route_param) | EOpaque (v : hval).

Definition dec_route (v : hval) : option (list route_param) :=
  match v with
  | HRoute l => Some l
  | HRaw s => match parse_route s with Ok l => Some l | _ => None end
  | _ => None
  end.
Definition hval_entries (v : hval) : list rentry :=
  match dec_route v with Some (r :: l) => map EDec (r :: l) | _ => [EOpaque v] end.
Definition entries_of (hs : list header) : list rentry := flat_map (fun h => hval_entries (h_val h)) hs.
Definition route_view (m : message) : list rentry := entries_of (sel (s2b "Route") (m_headers m)).

(* the entry designates the receiving transport: SIP URI, same (default) port, host equal to the
   transport address or resolving to the same IP through the host table *)
Definition designates (c : cfg) (from : stransport) (rp : route_param) : bool :=
  match na_addr (r_addr rp) with
  | ASip u => Z.eqb (sip_uri_get_port u) (t_port from) && is_same_address c (u_host u) (t_addr from)
  | AAbs _ => false
  end.

Lemma route_view_frame m m' : frame (s2b "Route") m m' -> route_view m' = route_view m.
Proof. intros (S & _). unfold route_view. rewrite S. reflexivity. Qed.

Lemma parse_all_nonempty {A} (f : bytes -> res A) l r : l <> [] -> parse_all f l = Ok r -> r <> [].
Proof.
  destruct l as [|s t]; [contradiction|]. intros _. cbn [parse_all]. destruct (f s); cbn [rbind]; try discriminate.
  destruct (parse_all f t); cbn [rbind]; try discriminate. intros H. injection H as <-. discriminate.
Qed.
Lemma parse_route_nonempty s l : parse_route s = Ok l -> l <> [].
Proof. apply parse_all_nonempty. apply split_byte_nonempty. Qed.

(* ------------------------------------------------------------------ GetRoute / PopRoute on the view *)
Lemma s_get_route_norm m :
  route_view (fst (s_get_route m)) = route_view m /\
  match snd (s_get_route m) with
  | Ok l => exists n rest, sel (s2b "Route") (m_headers (fst (s_get_route m)))
                           = {| h_name := n; h_val := HRoute l |} :: rest
  | _ => fst (s_get_route m) = m /\ match route_view m with EDec _ :: _ => False | _ => True end
  end.
Proof.
  unfold s_get_route, typed_get, route_view. rewrite get_header_sel.
  destruct (sel (s2b "Route") (m_headers m)) as [|h rest] eqn:S; cbn [hd_error fst snd].
  { rewrite S. cbn. auto. }
  destruct (h_val h) eqn:V; cbn [fst snd]; rewrite ?S; cbn [entries_of flat_map];
    try (rewrite V; cbn; auto; fail).
  - (* raw *)
    destruct (parse_route s) as [l| |] eqn:P; cbn [fst snd]; rewrite ?S; cbn [entries_of flat_map];
      try (rewrite V; unfold hval_entries; cbn [dec_route]; rewrite P; cbn; auto; fail).
    cbn [set_val with_headers m_headers]. rewrite sel_update_same, S. split.
    + cbn [flat_map h_val]. rewrite V. unfold hval_entries. cbn [dec_route]. rewrite P.
      destruct l as [|r l]; [|reflexivity]. exfalso. exact (parse_route_nonempty _ _ P eq_refl).
    + eexists _, _. reflexivity.
  - (* already decoded *)
    split; [reflexivity|]. exists (h_name h), rest. destruct h as [n v]. cbn in *. subst v. reflexivity.
Qed.

Lemma entries_norm n l rest :
  entries_of ({| h_name := n; h_val := HRoute l |} :: rest) =
  match l with [] => [EOpaque (HRoute [])] | _ => map EDec l end ++ entries_of rest.
Proof. destruct l; reflexivity. Qed.

Lemma s_pop_route_norm m n a l rest :
  sel (s2b "Route") (m_headers m) = {| h_name := n; h_val := HRoute (a :: l) |} :: rest ->
  snd (s_pop_route m) = Ok tt /\ route_view (fst (s_pop_route m)) = map EDec l ++ entries_of rest.
Proof.
  intros S. unfold s_pop_route, mbind, s_get_route, typed_get. rewrite get_header_sel, S. cbn [hd_error h_val].
  destruct l as [|b l]; cbn [mmodify fst snd]; (split; [reflexivity|]); unfold route_view;
    cbn [set_val with_headers m_headers].
  - rewrite sel_remove_same, S. reflexivity.
  - rewrite sel_update_same, S. reflexivity.
Qed.

(* ------------------------------------------------------------------ building block 1 *)
(* tryRemoveTopRoute pops exactly the first entry, and does so iff that entry is decodable and
   designates the receiving transport (near misses — right host wrong port, right port foreign
   host — are the [designates = false] branch) *)
Theorem try_remove_top_route_pops_iff_own : forall c from m,
  route_view (fst (mtry (try_remove_top_route c from) m)) =
  match route_view m with
  | EDec e1 :: rest => if designates c from e1 then rest else route_view m
  | _ => route_view m
  end.
Proof.
  intros c from m. unfold mtry, try_remove_top_route, mbind.
  destruct (s_get_route_norm m) as (V & N). destruct (s_get_route m) as [m1 r1]. cbn [fst snd] in V, N.
  rewrite <- V. destruct r1 as [l| |]; cbn [fst].
  2,3: destruct N as (-> & N); destruct (route_view m) as [|[e1|v] r]; try reflexivity; contradiction.
  destruct N as (n & rest & S). unfold route_view at 2 3. rewrite S, entries_norm.
  destruct l as [|a l]; cbn [app]; [reflexivity|]. cbn [map app]. unfold designates.
  destruct (na_addr (r_addr a)) as [u|s]; unfold mret; cbn [fst].
  - destruct (Z.eqb (sip_uri_get_port u) (t_port from) && is_same_address c (u_host u) (t_addr from))%bool.
    + destruct (s_pop_route_norm m1 n a l rest S) as (_ & P). destruct (s_pop_route m1) as [m2 [| |]]; exact P.
    + unfold route_view. cbn [fst]. rewrite S. reflexivity.
  - unfold route_view. cbn [fst]. rewrite S. reflexivity.
Qed.

(* ------------------------------------------------------------------ building block 2 *)
(* getNextRequestHopByRoute: when the first entry is decodable it is the next hop; it is popped
   iff keep-next-hop-route is off — also when it is not a SIP URI, in which case no hop results *)
Theorem next_hop_by_route_pops_iff_not_keep : forall keep m,
  match route_view m with
  | EDec rp :: rest =>
      route_view (fst (next_hop_by_route keep m)) = (if keep then EDec rp :: rest else rest) /\
      snd (next_hop_by_route keep m) =
        match na_addr (r_addr rp) with
        | ASip u => Ok (u_host u, sip_uri_get_port u, sip_uri_transport u)
        | AAbs _ => Err
        end
  | _ => route_view (fst (next_hop_by_route keep m)) = route_view m /\ is_ok (snd (next_hop_by_route keep m)) = false
  end.
Proof.
  intros keep m. unfold next_hop_by_route, mbind.
  destruct (s_get_route_norm m) as (V & N). destruct (s_get_route m) as [m1 r1]. cbn [fst snd] in V, N.
  rewrite <- V. destruct r1 as [l| |]; cbn [fst snd].
  2,3: destruct N as (-> & N); destruct (route_view m) as [|[e1|v] r]; try (split; reflexivity); contradiction.
  destruct N as (n & rest & S). unfold route_view at 1. rewrite S, entries_norm.
  destruct l as [|a l]; unfold merr, mret, mtry; cbn [app map fst snd].
  { unfold route_view. rewrite S. split; reflexivity. }
  destruct keep.
  - destruct (na_addr (r_addr a)); cbn [fst snd]; (split; [|reflexivity]);
      unfold route_view; rewrite S; reflexivity.
  - destruct (s_pop_route_norm m1 n a l rest S) as (R & P). destruct (s_pop_route m1) as [m2 r2].
    cbn [fst snd] in R, P. subst r2. destruct (na_addr (r_addr a)); cbn [fst snd]; (split; [exact P|reflexivity]).
Qed.

Lemma mframe_next_hop_by_route nm keep : disjoint_names nm (s2b "Route") -> mframe nm (next_hop_by_route keep).
Proof.
  intros D. apply mframe_bind; [exact (mframe_get_route nm D)|]. intros [|rp l]; [apply mframe_err|].
  apply mframe_bind.
  - destruct keep; [apply mframe_ret|apply mframe_try, (mframe_pop_route nm D)].
  - intros _. destruct (na_addr (r_addr rp)); [apply mframe_ret|apply mframe_err].
Qed.
Lemma mframe_next_hop_by_config nm rt : disjoint_names nm (s2b "To") -> mframe nm (next_hop_by_config rt).
Proof.
  intros D. apply mframe_bind; [apply mframe_typed_get; exact D|]. intros t.
  destruct (fromto_host t); [|apply mframe_err]. destruct (find_route rt b); [apply mframe_ret|apply mframe_err].
Qed.
Lemma frame_next_request_hop nm keep rt m :
  disjoint_names nm (s2b "Route") -> disjoint_names nm (s2b "To") -> frame nm m (fst (next_request_hop keep rt m)).
Proof.
  intros DR DT. unfold next_request_hop. pose proof (mframe_next_hop_by_route nm keep DR m) as F1.
  destruct (next_hop_by_route keep m) as [m1 r]. cbn [fst] in F1. destruct r; try exact F1.
  eapply frame_trans; [exact F1|apply (mframe_next_hop_by_config nm rt DT)].
Qed.

(* getNextRequestHop on the Route set: the static-route look-up never touches it *)
Theorem next_request_hop_route : forall keep rt m,
  route_view (fst (next_request_hop keep rt m)) =
  match route_view m with
  | EDec rp :: rest => if keep then route_view m else rest
  | _ => route_view m
  end.
Proof.
  intros keep rt m. unfold next_request_hop.
  pose proof (next_hop_by_route_pops_iff_not_keep keep m) as H.
  destruct (next_hop_by_route keep m) as [m1 r]. cbn [fst snd] in H.
  assert (E : route_view m1 = match route_view m with
                              | EDec rp :: rest => if keep then route_view m else rest
                              | _ => route_view m end).
  { destruct (route_view m) as [|[rp|v] rest]; destruct H as (H & _); exact H. }
  destruct r; cbn [fst]; try exact E. rewrite <- E.
  apply route_view_frame, (mframe_next_hop_by_config _ rt dj_Route_To).
Qed.

(* ------------------------------------------------------------------ the request pipeline *)
(* A received request, as far as routing is concerned: [m4] enters HandleMessage with the start
   line, body and all headers other than Via / CSeq / Route of [m0]; its Route set is that of
   [m0] without the own entry; the hop is looked up; the result goes to sendMessage (decorated
   when the hop host is learned), to sendToBackend, or nowhere. *)
Lemma request_pipeline e peer peer_port from rs tcp m0 x x' :
  is_request m0 = true ->
  process_message e peer peer_port from rs tcp m0 x = Ok x' ->
  exists m4 p1,
    let x1 := {| x_learned := learned_after peer from m0 x; x_p := p1; x_conns := x_conns x;
                 x_world := x_world x; x_outs := x_outs x |} in
    let '(m1, r) := next_request_hop (c_keep_next_hop (e_cfg e)) (route_table_of (e_cfg e)) m4 in
    (forall nm, disjoint_names nm (s2b "Via") -> disjoint_names nm (s2b "CSeq") ->
                disjoint_names nm (s2b "Route") -> frame nm m0 m4) /\
    via_rel m0 m4 /\
    route_view m4 = match route_view m0 with
                    | EDec e1 :: rest => if designates (e_cfg e) from e1 then rest else route_view m0
                    | _ => route_view m0
                    end /\
    same_rr (x_p x) p1 /\
    x' = fst match r with
             | Ok (host, port, transport) =>
                 send_message e host port transport (decorate e (x_learned x1) host m1) x1
             | _ => if is_my_message (new_my_name (c_name (e_cfg e))) from m1 then send_to_backend e m1 x1
                    else (x1, m1)
             end.
Proof.
  intros R H. destruct (process_message_request _ _ _ _ _ _ _ _ _ R H) as (m3 & p1 & F & VR & SR & ->).
  set (m4 := fst (mtry (try_remove_top_route (e_cfg e) from) m3)).
  exists m4, p1. cbv zeta.
  assert (F4 : forall nm, disjoint_names nm (s2b "Route") -> frame nm m3 m4).
  { intros nm D. apply (mframe_try _ _ (mframe_try_remove_top_route nm (e_cfg e) from D)). }
  assert (R4 : is_request m4 = true).
  { rewrite (frame_request (s2b "To") m3 m4 (F4 _ dj_To_Route)).
    rewrite (frame_request (s2b "To") m0 m3 (F _ dj_To_Via dj_To_CSeq)). exact R. }
  rewrite (handle_message_request e from m4 _ R4). cbn [x_learned].
  destruct (next_request_hop _ _ m4) as [m1 r].
  split; [intros nm D1 D2 D3; eapply frame_trans; [apply F; assumption|apply F4; assumption]|].
  split; [exact (via_rel_trans _ _ _ VR (via_rel_frame _ _ (F4 _ dj_Via_Route)))|].
  split; [|split; [exact SR|reflexivity]].
  subst m4. rewrite try_remove_top_route_pops_iff_own.
  rewrite (route_view_frame m0 m3 (F _ dj_Route_Via dj_Route_CSeq)). reflexivity.
Qed.

(* ------------------------------------------------------------------ C13 *)
(* how many leading entries of the Route set are consumed *)
Definition route_consumed (c : cfg) (from : stransport) (keep : bool) (v : list rentry) : nat :=
  let k1 := match v with EDec e1 :: _ => if designates c from e1 then 1%nat else 0%nat | _ => 0%nat end in
  let k2 := match skipn k1 v with EDec _ :: _ => if keep then 0%nat else 1%nat | _ => 0%nat end in
  (k1 + k2)%nat.

Definition drop_own (c : cfg) (from : stransport) (v : list rentry) : list rentry :=
  match v with EDec e1 :: rest => if designates c from e1 then rest else v | _ => v end.
Definition drop_next (keep : bool) (v : list rentry) : list rentry :=
  match v with EDec _ :: rest => if keep then v else rest | _ => v end.
Lemma route_consumed_skipn c from keep v :
  drop_next keep (drop_own c from v) = skipn (route_consumed c from keep v) v.
Proof.
  unfold route_consumed, drop_next, drop_own. destruct v as [|[e1|o] rest]; try reflexivity.
  destruct (designates c from e1).
  - cbn [skipn]. destruct rest as [|[e2|o] rest']; try reflexivity. destruct keep; reflexivity.
  - cbn [skipn Nat.add]. destruct keep; reflexivity.
Qed.

Lemma route_view_decorate e l host m : route_view (decorate e l host m) = route_view m.
Proof.
  unfold decorate. destruct (alookup host l) as [t|] eqn:A; [|reflexivity].
  destruct (C06_decorate_learned e l host t m A) as (_ & _ & _ & _ & F). unfold decorate in F. rewrite A in F.
  apply route_view_frame, F; reflexivity.
Qed.

(* For EVERY request, layout of the Route set, transport, host table, flag and state: each
   byte-carrying output of the event is the serialisation of a message whose Route set is the
   received one minus its first [route_consumed] entries: one on the "own" ground iff the first
   entry designates the receiving transport, then one more iff a decodable entry remains and
   keep-next-hop-route is off; all further entries are the same route_param values (or the same
   undecoded header values), in order.  There is at most one such output. *)
Theorem C13_route : forall e peer peer_port from rs tcp m0 x x',
  is_request m0 = true ->
  process_message e peer peer_port from rs tcp m0 x = Ok x' ->
  exists extra, x_outs x' = x_outs x ++ extra /\ (msg_count extra <= 1)%nat /\
    forall o, In o extra -> is_msg o = true ->
      exists mo, snd o = write_message mo /\
                 route_view mo = skipn (route_consumed (e_cfg e) from (c_keep_next_hop (e_cfg e)) (route_view m0))
                                       (route_view m0).
Proof.
  intros e peer pp from rs tcp m0 x x' R H.
  destruct (request_pipeline _ _ _ _ _ _ _ _ _ R H) as (m4 & p1 & P). cbv zeta in P.
  pose proof (next_request_hop_route (c_keep_next_hop (e_cfg e)) (route_table_of (e_cfg e)) m4) as NR.
  destruct (next_request_hop _ _ m4) as [m1 r]. cbn [fst] in NR. destruct P as (_ & _ & V4 & _ & ->).
  set (x1 := {| x_learned := learned_after peer from m0 x; x_p := p1; x_conns := x_conns x;
                x_world := x_world x; x_outs := x_outs x |}).
  assert (V1 : route_view m1 = skipn (route_consumed (e_cfg e) from (c_keep_next_hop (e_cfg e)) (route_view m0))
                                     (route_view m0)).
  { rewrite NR, V4. apply (route_consumed_skipn (e_cfg e) from (c_keep_next_hop (e_cfg e)) (route_view m0)). }
  assert (SB : let r := (if is_my_message (new_my_name (c_name (e_cfg e))) from m1 then send_to_backend e m1 x1
                         else (x1, m1)) in
               exists extra, x_outs (fst r) = x_outs x ++ extra /\ (msg_count extra <= 1)%nat /\
                 forall o, In o extra -> is_msg o = true ->
                   exists mo, snd o = write_message mo /\ route_view mo = route_view m1).
  { cbv zeta. destruct (is_my_message _ from m1).
    2:{ exists []. rewrite app_nil_r. split; [reflexivity|]. split; [apply Nat.le_0_l|]. intros o []. }
    destruct (send_to_backend_shape e m1 x1) as (_ & extra & O & D). exists extra. split; [exact O|].
    destruct D as [->|(t0 & a & d & _ & _ & -> & _)].
    - split; [apply Nat.le_0_l|]. intros o [].
    - split; [unfold msg_count; cbn [filter]; destruct (is_msg _); cbn [List.length]; lia|].
      intros o [<-|[]] _. eexists. split; [reflexivity|]. unfold backend_message.
      change (px_add_record_route (pa_must_rr (wire_proxy (e_lc e))) t0
                (px_add_via e t0 (fst (find_backend_by_dialog e (x_p x1) m1))))
        with (decorate e [(s2b "h", t0)] (s2b "h") (fst (find_backend_by_dialog e (x_p x1) m1))).
      rewrite route_view_decorate. apply route_view_frame.
      apply (mframe_find_backend_by_dialog _ dj_Route_CSeq dj_Route_From dj_Route_To). }
  rewrite <- V1. destruct r as [[[host port] transport]| |]; try exact SB.
  destruct (send_message_shape e host port transport (decorate e (x_learned x1) host m1) x1)
    as (Sm & _ & extra & O & (C & Fo) & _).
  exists extra. split; [exact O|]. split; [exact C|]. intros o Io Mo.
  rewrite Forall_forall in Fo. exists (snd (send_message e host port transport (decorate e (x_learned x1) host m1) x1)).
  split; [exact (Fo o Io Mo)|]. rewrite Sm.
  rewrite (route_view_frame _ _ (mframe_try _ _ (mframe_client_transaction _ dj_Route_Via dj_Route_CSeq) _)).
  apply route_view_decorate.
Qed.

(* the statement in the form of the property text, for a Route set all of whose headers decode:
   entries e1 :: ... as route_param values *)
Definition own_of (c : cfg) (from : stransport) (entries : list route_param) : bool :=
  match entries with e1 :: _ => designates c from e1 | [] => false end.

Corollary C13_route_decoded : forall e peer peer_port from rs tcp m0 x x' entries,
  is_request m0 = true ->
  route_view m0 = map EDec entries ->
  process_message e peer peer_port from rs tcp m0 x = Ok x' ->
  let own := own_of (e_cfg e) from entries in
  let remaining := if own then tl entries else entries in
  let k := ((if own then 1 else 0) +
            (match remaining with _ :: _ => if c_keep_next_hop (e_cfg e) then 0 else 1 | [] => 0 end))%nat in
  exists extra, x_outs x' = x_outs x ++ extra /\ (msg_count extra <= 1)%nat /\
    forall o, In o extra -> is_msg o = true ->
      exists mo, snd o = write_message mo /\ route_view mo = map EDec (skipn k entries).
Proof.
  intros e peer pp from rs tcp m0 x x' entries R V H own remaining k.
  destruct (C13_route _ _ _ _ _ _ _ _ _ R H) as (extra & O & C & W). exists extra. split; [exact O|]. split; [exact C|].
  intros o Io Mo. destruct (W o Io Mo) as (mo & B & VO). exists mo. split; [exact B|]. rewrite VO, V.
  replace (route_consumed (e_cfg e) from (c_keep_next_hop (e_cfg e)) (map EDec entries)) with k.
  - clear. revert k. generalize entries. intros l k. revert l. induction k as [|k IH]; intros [|a l]; cbn; try reflexivity.
    apply IH.
  - subst k remaining own. unfold route_consumed, own_of. destruct entries as [|e1 rest]; [reflexivity|].
    cbn [map]. destruct (designates (e_cfg e) from e1); cbn [tl skipn Nat.add map].
    + destruct rest; reflexivity.
    + reflexivity.
Qed.

(* ------------------------------------------------------------------ bytes *)
(* For entries in the grammar domain of C14 (SpecC14.wf_relem), a raw Route header holding their
   reference text decodes to their embedding, and a decoded header prints as the reference
   text of what it holds: the relayed entries are byte-identical to the received ones. *)
Theorem route_view_grammar : forall l, l <> [] -> forallb wf_relem l = true ->
  hval_entries (HRaw (rp_route l)) = map EDec (map C14_hdr.embed_relem l).
Proof.
  intros l N W. unfold hval_entries. cbn [dec_route]. rewrite (C14_hdr.parse_route_rp l N W).
  destruct l as [|a l]; [contradiction|reflexivity].
Qed.
Theorem route_header_text : forall l, forallb wf_relem l = true ->
  hval_print (HRoute (map C14_hdr.embed_relem l)) = rp_route l.
Proof. intros l W. cbn [hval_print]. apply C14_hdr.route_print_embed. exact W. Qed.

(* ================================================================== concrete instances *)
Definition ex_routes (routes : list string) : message :=
  msg_of (req "sip:bob@elsewhere.example" [] routes "<sip:bob@elsewhere.example>" []).
Definition consumed (keep : bool) (routes : list string) : nat :=
  route_consumed (ex_cfg keep true false) ex_from keep (route_view (ex_routes routes)).
(* the Route entries of the (only) message sent for a datagram carrying these Route headers *)
Definition relayed_routes (keep : bool) (routes : list string) : list (list string) :=
  map (fun o => match parse_message (list_ascii_of_string (snd o)) with
                | Ok (m, _) => map (fun en => match en with
                                              | EDec r => string_of_list_ascii (route_param_print r)
                                              | EOpaque _ => "?"%string end) (route_view m)
                | _ => ["unreadable"%string] end)
      (run1 all_fixed (ex_cfg keep true false) [] (req "sip:bob@elsewhere.example" [] routes "<sip:bob@elsewhere.example>" [])).

(* own entry by configured alias with the default port, one comma list: own + next consumed *)
Example ex_c13_alias_default_port :
  consumed false ["Route: <sip:proxy.example.com;lr>,<sip:10.0.0.9:5070;lr>,<sip:far.example.com;lr;x=1>;hp=2"%string] = 2%nat /\
  relayed_routes false ["Route: <sip:proxy.example.com;lr>,<sip:10.0.0.9:5070;lr>,<sip:far.example.com;lr;x=1>;hp=2"%string]
  = [["<sip:far.example.com;lr;x=1>;hp=2"%string]].
Proof. vm_compute. split; reflexivity. Qed.
(* keep-next-hop-route on: only the own entry goes *)
Example ex_c13_keep :
  consumed true ["Route: <sip:proxy.example.com;lr>,<sip:10.0.0.9:5070;lr>,<sip:far.example.com;lr>"%string] = 1%nat /\
  relayed_routes true ["Route: <sip:proxy.example.com;lr>,<sip:10.0.0.9:5070;lr>,<sip:far.example.com;lr>"%string]
  = [["<sip:10.0.0.9:5070;lr>"; "<sip:far.example.com;lr>"]%string].
Proof. vm_compute. split; reflexivity. Qed.
(* own entry by address and explicit port, alone in its header: the header disappears and the
   next Route header supplies the next hop *)
Example ex_c13_two_headers :
  consumed false ["Route: <sip:10.0.0.1:5060;lr>"; "Route: <sip:10.0.0.9:5070;lr>"; "Route: ""Far"" <sip:far.example.com;lr>"]%string = 2%nat /\
  relayed_routes false ["Route: <sip:10.0.0.1:5060;lr>"; "Route: <sip:10.0.0.9:5070;lr>"; "Route: ""Far"" <sip:far.example.com;lr>"]%string
  = [["""Far"" <sip:far.example.com;lr>"%string]].
Proof. vm_compute. split; reflexivity. Qed.
(* near misses: right host wrong port; right port foreign host; nothing is consumed on the "own"
   ground, the first entry is the next hop *)
Example ex_c13_wrong_port :
  consumed true ["Route: <sip:10.0.0.1:5061;lr>,<sip:10.0.0.9:5070;lr>"%string] = 0%nat /\
  consumed false ["Route: <sip:10.0.0.1:5061;lr>,<sip:10.0.0.9:5070;lr>"%string] = 1%nat /\
  relayed_routes false ["Route: <sip:10.0.0.1:5061;lr>,<sip:10.0.0.9:5070;lr>"%string] = [["<sip:10.0.0.9:5070;lr>"%string]].
Proof. vm_compute. repeat split. Qed.
Example ex_c13_foreign_host :
  consumed true ["Route: <sip:10.0.0.77:5060;lr>,<sip:10.0.0.9:5070;lr>"%string] = 0%nat /\
  consumed false ["Route: <sip:10.0.0.77;lr>,<sip:10.0.0.9:5070;lr>"%string] = 1%nat /\
  relayed_routes true ["Route: <sip:10.0.0.77:5060;lr>,<sip:10.0.0.9:5070;lr>"%string]
  = [["<sip:10.0.0.77:5060;lr>"; "<sip:10.0.0.9:5070;lr>"]%string].
Proof. vm_compute. repeat split. Qed.
(* the hypotheses of C13_route / C13_route_decoded hold for such a request *)
Example ex_c13_hypotheses :
  let m0 := ex_routes ["Route: <sip:proxy.example.com;lr>,<sip:10.0.0.9:5070;lr>"%string] in
  is_request m0 = true /\ exists entries, route_view m0 = map EDec entries /\ List.length entries = 2%nat.
Proof.
  intros m0. split; [vm_compute; reflexivity|].
  exists (flat_map (fun en => match en with EDec r => [r] | EOpaque _ => [] end) (route_view m0)).
  vm_compute. split; reflexivity.
Qed.

(* ---- where "the service's keep-next-hop-route setting" comes from (main.go toKeepNextHopRoute): the service's own
        text decides whenever it is not empty, whatever the environment says; only an empty text falls back to the
        environment variable ---- *)
Theorem C13_keep_setting_decides : forall setting env, setting <> [] ->
  to_keep_next_hop_route setting env = truthy setting.
Proof. intros setting env N. unfold to_keep_next_hop_route. destruct setting; [contradiction|reflexivity]. Qed.
Theorem C13_keep_env_default : forall env, to_keep_next_hop_route [] env = truthy env.
Proof. reflexivity. Qed.
Example ex_keep_setting :
  to_keep_next_hop_route (s2b "false") (s2b "true") = false /\ to_keep_next_hop_route (s2b "Yes") (s2b "0") = true /\
  to_keep_next_hop_route [] (s2b "ON") = true /\ to_keep_next_hop_route [] [] = false /\ to_keep_next_hop_route (s2b "maybe") (s2b "1") = false.
Proof. vm_compute. repeat split; reflexivity. Qed.

Print Assumptions C13_keep_setting_decides.
Print Assumptions try_remove_top_route_pops_iff_own.
Print Assumptions next_hop_by_route_pops_iff_not_keep.
Print Assumptions next_request_hop_route.
Print Assumptions request_pipeline.
Print Assumptions C13_route.
Print Assumptions C13_route_decoded.
Print Assumptions route_view_grammar.
Print Assumptions route_header_text.
