(* C06.v — "one fresh top Via, Record-Route by policy" (property C06), and the general facts
   about header look-up / update / insertion and about the per-message pipeline that C13.v and
   C03.v reuse (sel, frame, send_message_shape, send_to_backend_shape, process_message_request).

   Main statements: C06_via_pushed, C06_via_position, C06_branch, C06_rr_policy, C06_rr_position,
   C06_rr_flat, own_record_route_text (+ _noport), C06_decorate_learned, C06_not_learned_untouched,
   C06_backend_decorates, handle_message_request (where [decorate] is applied), branch_of_inj,
   branch_of_cookie, C06_branches_distinct, run_events_branch, learn_lookup, learn_keeps_iff,
   C06_learning, C06_learning_response.  The end-to-end statement C06_relayed_request (needs the
   hop choice) is in C03.v. *)
From Coq Require Import List Ascii String ZArith Bool Arith Lia.
From Model Require Import Bytes BytesLemmas Uri Hdr Message Msg Rx Glob StaticRoute RoundRobin Pins Proxy RunProxy.
From Model.proofs Require C05.
Import ListNotations.
Open Scope Z_scope.

(* ------------------------------------------------------------------ header names *)
Lemma same_header_char n N : same_header n N = true ->
  to_lower n = to_lower N \/ exists c, get_compact N = Some c /\ to_lower n = to_lower c.
Proof.
  unfold same_header, equal_fold. intros H. apply orb_true_iff in H. destruct H as [H|H].
  - left. apply beq_eq. exact H.
  - right. destruct (get_compact N) as [c|]; [|discriminate]. exists c. split; [reflexivity|].
    apply beq_eq. exact H.
Qed.

(* no header name belongs to both classes *)
Definition disjoint_names (N1 N2 : bytes) : Prop := forall n, same_header n N1 = true -> same_header n N2 = false.

Ltac solve_disj :=
  let n := fresh "n" in let H := fresh "H" in let c := fresh "c" in let Hc := fresh "Hc" in
  intros n H; apply same_header_char in H; destruct H as [H | (c & Hc & H)];
  [ | vm_compute in Hc; first [discriminate Hc | injection Hc as <-] ];
  unfold same_header, equal_fold; rewrite H; vm_compute; reflexivity.

Lemma disjoint_sym N1 N2 : disjoint_names N1 N2 -> disjoint_names N2 N1.
Proof.
  intros D n H. destruct (same_header n N1) eqn:E; [|reflexivity].
  rewrite (D n E) in H. discriminate.
Qed.

Lemma dj_Route_Via : disjoint_names (s2b "Route") (s2b "Via"). Proof. solve_disj. Qed.
Lemma dj_Route_CSeq : disjoint_names (s2b "Route") (s2b "CSeq"). Proof. solve_disj. Qed.
Lemma dj_Route_From : disjoint_names (s2b "Route") (s2b "From"). Proof. solve_disj. Qed.
Lemma dj_Route_To : disjoint_names (s2b "Route") (s2b "To"). Proof. solve_disj. Qed.
Lemma dj_Route_RR : disjoint_names (s2b "Route") (s2b "Record-Route"). Proof. solve_disj. Qed.
Lemma dj_To_Via : disjoint_names (s2b "To") (s2b "Via"). Proof. solve_disj. Qed.
Lemma dj_To_CSeq : disjoint_names (s2b "To") (s2b "CSeq"). Proof. solve_disj. Qed.
Lemma dj_To_Route : disjoint_names (s2b "To") (s2b "Route"). Proof. solve_disj. Qed.
Lemma dj_To_From : disjoint_names (s2b "To") (s2b "From"). Proof. solve_disj. Qed.
Lemma dj_To_RR : disjoint_names (s2b "To") (s2b "Record-Route"). Proof. solve_disj. Qed.
Lemma dj_Via_CSeq : disjoint_names (s2b "Via") (s2b "CSeq"). Proof. solve_disj. Qed.
Lemma dj_Via_Route : disjoint_names (s2b "Via") (s2b "Route"). Proof. solve_disj. Qed.
Lemma dj_Via_From : disjoint_names (s2b "Via") (s2b "From"). Proof. solve_disj. Qed.
Lemma dj_Via_To : disjoint_names (s2b "Via") (s2b "To"). Proof. solve_disj. Qed.
Lemma dj_Via_RR : disjoint_names (s2b "Via") (s2b "Record-Route"). Proof. solve_disj. Qed.
Lemma dj_RR_Via : disjoint_names (s2b "Record-Route") (s2b "Via"). Proof. solve_disj. Qed.
Lemma dj_RR_CSeq : disjoint_names (s2b "Record-Route") (s2b "CSeq"). Proof. solve_disj. Qed.
Lemma dj_RR_Route : disjoint_names (s2b "Record-Route") (s2b "Route"). Proof. solve_disj. Qed.
Lemma dj_RR_From : disjoint_names (s2b "Record-Route") (s2b "From"). Proof. solve_disj. Qed.
Lemma dj_RR_To : disjoint_names (s2b "Record-Route") (s2b "To"). Proof. solve_disj. Qed.

Lemma sh_Via_Via : same_header (s2b "Via") (s2b "Via") = true. Proof. reflexivity. Qed.
Lemma sh_RR_RR : same_header (s2b "Record-Route") (s2b "Record-Route") = true. Proof. reflexivity. Qed.

Lemma disjoint_concrete nm N : disjoint_names nm N -> same_header N N = true -> same_header N nm = false.
Proof. intros D H. exact (disjoint_sym _ _ D N H). Qed.

(* ------------------------------------------------------------------ the headers of one name *)
Definition sel (nm : bytes) (hs : list header) : list header :=
  filter (fun h => same_header (h_name h) nm) hs.

Lemma get_header_sel nm hs : get_header nm hs = hd_error (sel nm hs).
Proof.
  induction hs as [|h r IH]; [reflexivity|]. cbn [get_header sel filter].
  destruct (same_header (h_name h) nm); [reflexivity|exact IH].
Qed.

Lemma sel_update_same nm f hs :
  sel nm (update_header nm f hs) =
  match sel nm hs with [] => [] | h :: r => {| h_name := h_name h; h_val := f (h_val h) |} :: r end.
Proof.
  induction hs as [|h r IH]; [reflexivity|]. cbn [update_header sel filter].
  destruct (same_header (h_name h) nm) eqn:E.
  - cbn [filter h_name]. rewrite E. reflexivity.
  - cbn [filter]. rewrite E. exact IH.
Qed.

Lemma sel_update_other nm nm' f hs : disjoint_names nm nm' ->
  sel nm (update_header nm' f hs) = sel nm hs.
Proof.
  intros D. induction hs as [|h r IH]; [reflexivity|]. cbn [update_header sel filter].
  destruct (same_header (h_name h) nm') eqn:E.
  - cbn [filter h_name]. destruct (same_header (h_name h) nm) eqn:E2; [|reflexivity].
    rewrite (D _ E2) in E. discriminate.
  - cbn [filter]. destruct (same_header (h_name h) nm); [f_equal|]; exact IH.
Qed.

Lemma sel_remove_same nm hs : sel nm (remove_header nm hs) = tl (sel nm hs).
Proof.
  induction hs as [|h r IH]; [reflexivity|]. cbn [remove_header sel filter].
  destruct (same_header (h_name h) nm) eqn:E; [reflexivity|].
  cbn [filter]. rewrite E. exact IH.
Qed.

Lemma sel_remove_other nm nm' hs : disjoint_names nm nm' ->
  sel nm (remove_header nm' hs) = sel nm hs.
Proof.
  intros D. induction hs as [|h r IH]; [reflexivity|]. cbn [remove_header sel filter].
  destruct (same_header (h_name h) nm') eqn:E.
  - destruct (same_header (h_name h) nm) eqn:E2; [|reflexivity].
    rewrite (D _ E2) in E. discriminate.
  - cbn [filter]. destruct (same_header (h_name h) nm); [f_equal|]; exact IH.
Qed.

Lemma sel_insert_other nm n h hs : same_header (h_name h) nm = false ->
  sel nm (insert_at n h hs) = sel nm hs.
Proof.
  intros E. unfold insert_at, sel. rewrite filter_app. cbn [filter]. rewrite E.
  rewrite <- filter_app, firstn_skipn. reflexivity.
Qed.

(* position of the first header of a name *)
Lemma find_header_pos_from_spec nm hs : forall i,
  match find_header_pos_from nm hs i with
  | Some j => exists k h r, j = (i + k)%nat /\ sel nm (firstn k hs) = [] /\ skipn k hs = h :: r /\
                            same_header (h_name h) nm = true
  | None => sel nm hs = []
  end.
Proof.
  induction hs as [|h r IH]; intros i; [reflexivity|]. cbn [find_header_pos_from].
  destruct (same_header (h_name h) nm) eqn:E.
  - exists O, h, r. repeat split; [lia|exact E].
  - specialize (IH (S i)). destruct (find_header_pos_from nm r (S i)) as [j|].
    + destruct IH as (k & h' & r' & -> & F & S' & E'). exists (S k), h', r'.
      repeat split; [lia| |exact S'|exact E']. cbn [firstn sel filter]. rewrite E. exact F.
    + cbn [sel filter]. rewrite E. exact IH.
Qed.

Lemma find_header_pos_spec nm hs :
  match find_header_pos nm hs with
  | Some k => exists h r, sel nm (firstn k hs) = [] /\ skipn k hs = h :: r /\ same_header (h_name h) nm = true
  | None => sel nm hs = []
  end.
Proof.
  unfold find_header_pos. pose proof (find_header_pos_from_spec nm hs 0%nat) as H.
  destruct (find_header_pos_from nm hs 0) as [j|]; [|exact H].
  destruct H as (k & h & r & -> & A & B & C). exists h, r. auto.
Qed.

(* inserting a header of name [nm] before the first header of that name (or anywhere when
   there is none) puts it in front of the headers of that name *)
Lemma sel_insert_first nm h hs k : same_header (h_name h) nm = true ->
  sel nm (firstn k hs) = [] -> sel nm (insert_at k h hs) = h :: sel nm hs.
Proof.
  intros E F. unfold insert_at, sel in *. rewrite filter_app, F. cbn [filter app]. rewrite E. f_equal.
  rewrite <- (firstn_skipn k hs) at 2. rewrite filter_app, F. reflexivity.
Qed.

(* around the inserted element the list is the original one: "all other headers in order" *)
Lemma insert_at_firstn {A} (k : nat) (x : A) (l : list A) : (k <= List.length l)%nat ->
  firstn k (insert_at k x l) = firstn k l.
Proof.
  intros L. unfold insert_at.
  assert (Hl : List.length (firstn k l) = k) by (apply firstn_length_le; exact L).
  rewrite firstn_app, Hl, Nat.sub_diag. cbn [firstn]. rewrite app_nil_r. apply firstn_all2.
  rewrite Hl. apply Nat.le_refl.
Qed.
Lemma insert_at_skipn {A} (k : nat) (x : A) (l : list A) : (k <= List.length l)%nat ->
  skipn (S k) (insert_at k x l) = skipn k l.
Proof.
  intros L. unfold insert_at.
  assert (Hl : List.length (firstn k l) = k) by (apply firstn_length_le; exact L).
  rewrite skipn_app, Hl. replace (S k - k)%nat with 1%nat by lia.
  rewrite skipn_all2 by (rewrite Hl; lia). reflexivity.
Qed.
Lemma insert_at_nth {A} (k : nat) (x : A) (l : list A) : (k <= List.length l)%nat ->
  nth_error (insert_at k x l) k = Some x.
Proof.
  intros L. unfold insert_at.
  assert (Hl : List.length (firstn k l) = k) by (apply firstn_length_le; exact L).
  rewrite nth_error_app2 by (rewrite Hl; apply Nat.le_refl). rewrite Hl, Nat.sub_diag. reflexivity.
Qed.

(* ------------------------------------------------------------------ frames *)
(* [m'] has the same start line, body and headers of name [nm] as [m] *)
Definition frame (nm : bytes) (m m' : message) : Prop :=
  sel nm (m_headers m') = sel nm (m_headers m) /\ m_start m' = m_start m /\ m_body m' = m_body m.

Lemma frame_refl nm m : frame nm m m.
Proof. repeat split. Qed.
Lemma frame_trans nm m1 m2 m3 : frame nm m1 m2 -> frame nm m2 m3 -> frame nm m1 m3.
Proof. intros (A & B & C) (A' & B' & C'). repeat split; congruence. Qed.

Lemma frame_request nm m m' : frame nm m m' -> is_request m' = is_request m.
Proof. intros (_ & B & _). unfold is_request. rewrite B. reflexivity. Qed.

Lemma frame_set_val nm name v m : disjoint_names nm name -> frame nm m (set_val name v m).
Proof. intros D. repeat split. cbn. apply sel_update_other. exact D. Qed.
Lemma frame_remove nm name m : disjoint_names nm name ->
  frame nm m (with_headers m (remove_header name (m_headers m))).
Proof. intros D. repeat split. cbn. apply sel_remove_other. exact D. Qed.
Lemma frame_insert nm k h m : same_header (h_name h) nm = false ->
  frame nm m (with_headers m (insert_at k h (m_headers m))).
Proof. intros D. repeat split. cbn. apply sel_insert_other. exact D. Qed.

Definition mframe {A} (nm : bytes) (x : M A) : Prop := forall m, frame nm m (fst (x m)).

Lemma mframe_ret {A} nm (a : A) : mframe nm (mret a). Proof. intros m. apply frame_refl. Qed.
Lemma mframe_err {A} nm : mframe nm (@merr A). Proof. intros m. apply frame_refl. Qed.
Lemma mframe_lift {A} nm (r : res A) : mframe nm (mlift r). Proof. intros m. apply frame_refl. Qed.
Lemma mframe_bind {A B} nm (x : M A) (f : A -> M B) :
  mframe nm x -> (forall a, mframe nm (f a)) -> mframe nm (mbind x f).
Proof.
  intros Hx Hf m. unfold mbind. specialize (Hx m). destruct (x m) as [m1 r]. cbn [fst] in Hx.
  destruct r as [a| |]; [|exact Hx|exact Hx]. eapply frame_trans; [exact Hx|apply Hf].
Qed.
Lemma mframe_try {A} nm (x : M A) : mframe nm x -> mframe nm (mtry x).
Proof.
  intros Hx m. unfold mtry. specialize (Hx m). destruct (x m) as [m1 r]. cbn [fst] in Hx.
  destruct r; exact Hx.
Qed.
Lemma mframe_modify nm (f : message -> message) : (forall m, frame nm m (f m)) -> mframe nm (mmodify f).
Proof. intros H m. apply H. Qed.

Lemma typed_get_fst {A} name proj parse (inj : A -> hval) m :
  fst (typed_get name proj parse inj m) = m \/ exists v, fst (typed_get name proj parse inj m) = set_val name v m.
Proof.
  unfold typed_get. destruct (get_header name (m_headers m)) as [h|]; [|left; reflexivity].
  destruct (proj (h_val h)); [left; reflexivity|].
  destruct (h_val h); try (left; reflexivity).
  destruct (parse s) as [a| |]; [right; eexists; reflexivity|left; reflexivity|left; reflexivity].
Qed.
Lemma mframe_typed_get {A} nm name proj parse (inj : A -> hval) :
  disjoint_names nm name -> mframe nm (typed_get name proj parse inj).
Proof.
  intros D m. destruct (typed_get_fst name proj parse inj m) as [E|(v & E)]; rewrite E.
  - apply frame_refl.
  - apply frame_set_val. exact D.
Qed.

Section Frames.
  Variable nm : bytes.
  Hypothesis DVia : disjoint_names nm (s2b "Via").
  Hypothesis DCSeq : disjoint_names nm (s2b "CSeq").

  Lemma mframe_get_via : mframe nm s_get_via. Proof. apply mframe_typed_get. exact DVia. Qed.
  Lemma mframe_get_cseq : mframe nm s_get_cseq. Proof. apply mframe_typed_get. exact DCSeq. Qed.
  Lemma mframe_top_via : mframe nm s_top_via.
  Proof. apply mframe_bind; [exact mframe_get_via|]. intros [|v l]; [apply mframe_err|apply mframe_ret]. Qed.
  Lemma mframe_client_transaction : mframe nm s_client_transaction.
  Proof.
    unfold s_client_transaction. apply mframe_bind; [exact mframe_get_cseq|]. intros c.
    apply mframe_bind; [exact mframe_top_via|]. intros v.
    apply mframe_bind; [apply mframe_lift|]. intros b. apply mframe_ret.
  Qed.
  Lemma mframe_pop_via : mframe nm s_pop_via.
  Proof.
    apply mframe_bind; [exact mframe_get_via|]. intros [|v [|v' l]]; apply mframe_modify; intros m;
      first [apply frame_remove; exact DVia | apply frame_set_val; exact DVia].
  Qed.
  Lemma mframe_set_received peer port : mframe nm (s_set_received peer port).
  Proof.
    apply mframe_bind; [exact mframe_get_via|]. intros [|v l]; [apply mframe_err|].
    apply mframe_modify. intros m. apply frame_set_val. exact DVia.
  Qed.
  Lemma mframe_next_response_hop : mframe nm next_response_hop.
  Proof.
    apply mframe_bind; [exact mframe_top_via|]. intros v. destruct (via_get_received v); apply mframe_ret.
  Qed.
  Lemma mframe_get_method : mframe nm s_get_method.
  Proof.
    intros m. unfold s_get_method. destruct (m_start m); [apply frame_refl|].
    apply (mframe_bind nm s_get_cseq); [exact mframe_get_cseq|]. intros c. apply mframe_ret.
  Qed.
  Lemma decode_all_vias_sel hs : sel nm (fst (decode_all_vias hs)) = sel nm hs.
  Proof.
    induction hs as [|h r IH]; [reflexivity|]. cbn [decode_all_vias].
    destruct (decode_all_vias r) as [r' vs]. cbn [fst] in IH.
    assert (K : forall v, same_header (h_name h) (s2b "Via") = true ->
                sel nm ({| h_name := h_name h; h_val := v |} :: r') = sel nm (h :: r)).
    { intros v E. cbn [sel filter h_name]. destruct (same_header (h_name h) nm) eqn:E2.
      - rewrite (DVia _ E2) in E. discriminate.
      - exact IH. }
    assert (K0 : sel nm (h :: r') = sel nm (h :: r)).
    { cbn [sel filter]. destruct (same_header (h_name h) nm); [f_equal|]; exact IH. }
    destruct (same_header (h_name h) (s2b "Via")) eqn:E; [|exact K0].
    destruct (h_val h); try exact K0. destruct (parse_via s); try exact K0.
    cbn [fst]. apply K. reflexivity.
  Qed.
  Lemma mframe_all_via_params : mframe nm s_all_via_params.
  Proof.
    intros m. unfold s_all_via_params. pose proof (decode_all_vias_sel (m_headers m)) as H.
    destruct (decode_all_vias (m_headers m)) as [hs vs]. cbn [fst] in *. repeat split. exact H.
  Qed.

  Hypothesis DFrom : disjoint_names nm (s2b "From").
  Hypothesis DTo : disjoint_names nm (s2b "To").
  Lemma mframe_get_dialog : mframe nm s_get_dialog.
  Proof.
    unfold s_get_dialog. apply mframe_bind; [intros m; apply frame_refl|]. intros cid.
    apply mframe_bind; [apply mframe_typed_get; exact DFrom|]. intros f.
    apply mframe_bind; [apply mframe_lift|]. intros ft.
    apply mframe_bind; [apply mframe_typed_get; exact DTo|]. intros t.
    apply mframe_bind; [apply mframe_lift|]. intros tt. apply mframe_ret.
  Qed.
  Lemma mframe_find_backend_by_dialog e p : mframe nm (find_backend_by_dialog e p).
  Proof.
    unfold find_backend_by_dialog. apply mframe_bind; [exact mframe_get_method|]. intros meth.
    destruct (_ && _)%bool; [apply mframe_ret|].
    apply mframe_bind; [apply mframe_try; exact mframe_get_dialog|]. intros [d|]; [|apply mframe_ret].
    destruct (pins_get (e_now e) d (ps_pins p)) as [pins1 ob]. cbv zeta.
    destruct (_ && _)%bool; [apply mframe_ret|].
    apply mframe_bind; [apply mframe_try; intros m; apply frame_refl|]. intros ss. apply mframe_ret.
  Qed.
End Frames.

(* ------------------------------------------------------------------ flattened Via / Record-Route lists *)
Definition dec_via (v : hval) : option (list via_param) :=
  match v with
  | HVia l => Some l
  | HRaw s => match parse_via s with Ok l => Some l | _ => None end
  | _ => None
  end.
(* every via-param of every Via header that decodes, in order *)
Definition all_vias (hs : list header) : list via_param :=
  flat_map (fun h => match dec_via (h_val h) with Some l => l | None => [] end) (sel (s2b "Via") hs).

Lemma decode_all_vias_snd hs : snd (decode_all_vias hs) = all_vias hs.
Proof.
  unfold all_vias. induction hs as [|h r IH]; [reflexivity|]. cbn [decode_all_vias sel filter].
  destruct (decode_all_vias r) as [r' vs]. cbn [snd] in IH. fold (sel (s2b "Via") r).
  destruct (same_header (h_name h) (s2b "Via")); [|exact IH].
  cbn [flat_map]. unfold dec_via. destruct (h_val h); cbn [snd app]; try exact IH; try (f_equal; exact IH).
  destruct (parse_via s); cbn [snd app]; try exact IH. f_equal. exact IH.
Qed.

Definition dec_rr (v : hval) : option (list route_param) :=
  match v with
  | HRecRoute l => Some l
  | HRaw s => match parse_record_route s with Ok l => Some l | _ => None end
  | _ => None
  end.
Definition all_rr (hs : list header) : list route_param :=
  flat_map (fun h => match dec_rr (h_val h) with Some l => l | None => [] end) (sel (s2b "Record-Route") hs).

Lemma sel_nil_firstn nm k hs : sel nm hs = [] -> sel nm (firstn k hs) = [].
Proof.
  intros H. unfold sel in *. rewrite <- (firstn_skipn k hs), filter_app in H.
  apply app_eq_nil in H. exact (proj1 H).
Qed.

Lemma find_header_pos_le nm hs k : find_header_pos nm hs = Some k -> (k < List.length hs)%nat.
Proof.
  intros E. pose proof (find_header_pos_spec nm hs) as H. rewrite E in H.
  destruct H as (h & r & _ & S' & _).
  destruct (Nat.lt_ge_cases k (List.length hs)) as [L|L]; [exact L|].
  rewrite skipn_all2 in S' by exact L. discriminate.
Qed.

(* ------------------------------------------------------------------ f. the pushed Via *)
Definition pushed_via (e : env) (t : stransport) : via_param :=
  {| v_name := s2b "SIP"; v_version := s2b "2.0"; v_transport := t_proto t; v_host := t_addr t;
     v_port := t_port t; v_params := [{| k_key := s2b "branch"; k_val := e_branch e |}] |}.
Definition pushed_via_header (e : env) (t : stransport) : header :=
  {| h_name := s2b "Via"; h_val := HVia [pushed_via e t] |}.
(* where AddVia puts it: the position of the first Via header, 0 when there is none *)
Definition via_pos (m : message) : nat :=
  match find_header_pos (s2b "Via") (m_headers m) with Some i => i | None => O end.

Lemma pushed_via_is e t :
  via_set_param (s2b "branch") (e_branch e) (create_via_param (t_proto t) (t_addr t) (t_port t)) = pushed_via e t.
Proof. reflexivity. Qed.

Lemma via_pos_spec m :
  (via_pos m <= List.length (m_headers m))%nat /\ sel (s2b "Via") (firstn (via_pos m) (m_headers m)) = [] /\
  match find_header_pos (s2b "Via") (m_headers m) with
  | Some _ => exists h r, skipn (via_pos m) (m_headers m) = h :: r /\ same_header (h_name h) (s2b "Via") = true
  | None => via_pos m = O /\ sel (s2b "Via") (m_headers m) = []
  end.
Proof.
  unfold via_pos. pose proof (find_header_pos_spec (s2b "Via") (m_headers m)) as H.
  destruct (find_header_pos (s2b "Via") (m_headers m)) as [k|] eqn:E.
  - destruct H as (h & r & A & B & C). split; [apply Nat.lt_le_incl, (find_header_pos_le _ _ _ E)|].
    split; [exact A|]. exists h, r. auto.
  - split; [apply Nat.le_0_l|]. split; [reflexivity|]. auto.
Qed.

(* px_add_via inserts exactly one header, named "Via", holding the single entry
   SIP/2.0/<proto of t> <addr of t>:<port of t>;branch=<e_branch e>, immediately before the first
   Via header (position 0 when the message has none); all other headers keep their order; the
   flattened Via list is that entry followed by the old list *)
Theorem C06_via_pushed : forall e t m,
  let k := via_pos m in
  m_headers (px_add_via e t m) = firstn k (m_headers m) ++ pushed_via_header e t :: skipn k (m_headers m) /\
  m_start (px_add_via e t m) = m_start m /\ m_body (px_add_via e t m) = m_body m /\
  sel (s2b "Via") (m_headers (px_add_via e t m)) = pushed_via_header e t :: sel (s2b "Via") (m_headers m) /\
  all_vias (m_headers (px_add_via e t m)) = pushed_via e t :: all_vias (m_headers m) /\
  (forall nm, same_header (s2b "Via") nm = false -> frame nm m (px_add_via e t m)).
Proof.
  intros e t m k. destruct (via_pos_spec m) as (L & F & _). fold k in L, F.
  assert (E : px_add_via e t m = with_headers m (insert_at k (pushed_via_header e t) (m_headers m))) by reflexivity.
  rewrite E. cbn [with_headers m_headers m_start m_body].
  assert (S1 : sel (s2b "Via") (insert_at k (pushed_via_header e t) (m_headers m))
               = pushed_via_header e t :: sel (s2b "Via") (m_headers m)).
  { apply sel_insert_first; [reflexivity|exact F]. }
  repeat split; try exact S1.
  - unfold all_vias. rewrite S1. reflexivity.
  - cbn. apply sel_insert_other. exact H.
Qed.

(* the position: nothing named Via before it, and the header that follows it is the old first
   Via header (when there is one) *)
Theorem C06_via_position : forall e t m,
  let k := via_pos m in
  (k <= List.length (m_headers m))%nat /\
  nth_error (m_headers (px_add_via e t m)) k = Some (pushed_via_header e t) /\
  firstn k (m_headers (px_add_via e t m)) = firstn k (m_headers m) /\
  skipn (S k) (m_headers (px_add_via e t m)) = skipn k (m_headers m) /\
  sel (s2b "Via") (firstn k (m_headers m)) = [] /\
  (sel (s2b "Via") (m_headers m) = [] -> k = O) /\
  (sel (s2b "Via") (m_headers m) <> [] ->
     exists h r, skipn k (m_headers m) = h :: r /\ same_header (h_name h) (s2b "Via") = true).
Proof.
  intros e t m k. destruct (via_pos_spec m) as (L & F & P). fold k in L, F, P.
  change (m_headers (px_add_via e t m)) with (insert_at k (pushed_via_header e t) (m_headers m)).
  split; [exact L|]. split; [apply insert_at_nth; exact L|]. split; [apply insert_at_firstn; exact L|].
  split; [apply insert_at_skipn; exact L|]. split; [exact F|].
  pose proof (find_header_pos_spec (s2b "Via") (m_headers m)) as Q.
  destruct (find_header_pos (s2b "Via") (m_headers m)) as [i|].
  - destruct P as (h & r & S' & Eh). split.
    + intros N. exfalso. rewrite <- (firstn_skipn k (m_headers m)) in N. unfold sel in N.
      rewrite filter_app, S' in N. cbn [filter] in N. rewrite Eh in N.
      apply app_eq_nil in N. destruct N as [_ N]. discriminate.
    + intros _. exists h, r. auto.
  - destruct P as (K0 & N). split; [intros _; exact K0|]. intros NN. contradiction.
Qed.

(* h. the branch parameter of the pushed entry is the branch of the environment *)
Theorem C06_branch : forall e t, via_get_branch (pushed_via e t) = Some (e_branch e).
Proof. reflexivity. Qed.

(* ------------------------------------------------------------------ g. Record-Route by policy *)
Definition own_rr_header (t : stransport) : header :=
  {| h_name := s2b "Record-Route"; h_val := HRecRoute [own_record_route t] |}.

Lemma has_header_sel nm m : has_header nm m = match sel nm (m_headers m) with [] => false | _ => true end.
Proof. unfold has_header. rewrite get_header_sel. destruct (sel nm (m_headers m)); reflexivity. Qed.

Lemma find_record_route_pos_spec hs :
  (find_record_route_pos hs <= List.length hs)%nat /\
  sel (s2b "Record-Route") (firstn (find_record_route_pos hs) hs) = [] /\
  (sel (s2b "Record-Route") hs <> [] ->
   exists h r, skipn (find_record_route_pos hs) hs = h :: r /\ same_header (h_name h) (s2b "Record-Route") = true).
Proof.
  unfold find_record_route_pos.
  pose proof (find_header_pos_spec (s2b "Record-Route") hs) as H.
  destruct (find_header_pos (s2b "Record-Route") hs) as [k|] eqn:E.
  - destruct H as (h & r & A & B & C). split; [apply Nat.lt_le_incl, (find_header_pos_le _ _ _ E)|].
    split; [exact A|]. intros _. exists h, r. auto.
  - assert (L : (match find_header_pos (s2b "From") hs, find_header_pos (s2b "Max-Forwards") hs with
                 | Some p1, Some p2 => Nat.min p1 p2 | Some p1, None => p1 | None, Some p2 => p2
                 | None, None => O end <= List.length hs)%nat).
    { destruct (find_header_pos (s2b "From") hs) as [p1|] eqn:E1;
      destruct (find_header_pos (s2b "Max-Forwards") hs) as [p2|] eqn:E2;
      try apply find_header_pos_le in E1; try apply find_header_pos_le in E2; lia. }
    split; [exact L|]. split; [apply sel_nil_firstn; exact H|]. intros N. contradiction.
Qed.

(* px_add_record_route adds the entry <sip:addr:port;lr> of [t] as a NEW header, before the first
   Record-Route header when there is one and at findRecordRoutePos otherwise, exactly when the
   message carries a Record-Route header or [must] is set; otherwise the message is unchanged *)
Theorem C06_rr_policy : forall must t m,
  if (has_header (s2b "Record-Route") m || must)%bool then
    let k := find_record_route_pos (m_headers m) in
    m_headers (px_add_record_route must t m)
      = firstn k (m_headers m) ++ own_rr_header t :: skipn k (m_headers m) /\
    m_start (px_add_record_route must t m) = m_start m /\ m_body (px_add_record_route must t m) = m_body m /\
    sel (s2b "Record-Route") (m_headers (px_add_record_route must t m))
      = own_rr_header t :: sel (s2b "Record-Route") (m_headers m) /\
    all_rr (m_headers (px_add_record_route must t m)) = own_record_route t :: all_rr (m_headers m) /\
    (forall nm, same_header (s2b "Record-Route") nm = false -> frame nm m (px_add_record_route must t m))
  else px_add_record_route must t m = m.
Proof.
  intros must t m. unfold px_add_record_route.
  destruct (has_header (s2b "Record-Route") m) eqn:Hh; destruct must; cbn [negb andb orb]; try reflexivity.
  all: set (k := find_record_route_pos (m_headers m)); destruct (find_record_route_pos_spec (m_headers m)) as (L & F & _); fold k in L, F;
    assert (S1 : sel (s2b "Record-Route") (insert_at k (own_rr_header t) (m_headers m))
                 = own_rr_header t :: sel (s2b "Record-Route") (m_headers m))
      by (apply sel_insert_first; [reflexivity|exact F]);
    change (m_headers (add_record_route (own_record_route t) m)) with (insert_at k (own_rr_header t) (m_headers m));
    repeat split; try exact S1;
    [ unfold all_rr; rewrite S1; reflexivity
    | cbn; apply sel_insert_other; assumption ].
Qed.

Theorem C06_rr_position : forall must t m,
  (has_header (s2b "Record-Route") m || must)%bool = true ->
  let k := find_record_route_pos (m_headers m) in
  (k <= List.length (m_headers m))%nat /\
  nth_error (m_headers (px_add_record_route must t m)) k = Some (own_rr_header t) /\
  firstn k (m_headers (px_add_record_route must t m)) = firstn k (m_headers m) /\
  skipn (S k) (m_headers (px_add_record_route must t m)) = skipn k (m_headers m) /\
  sel (s2b "Record-Route") (firstn k (m_headers m)) = [] /\
  (has_header (s2b "Record-Route") m = true ->
     exists h r, skipn k (m_headers m) = h :: r /\ same_header (h_name h) (s2b "Record-Route") = true).
Proof.
  intros must t m Hc k. destruct (find_record_route_pos_spec (m_headers m)) as (L & F & P). fold k in L, F, P.
  assert (E : m_headers (px_add_record_route must t m) = insert_at k (own_rr_header t) (m_headers m)).
  { unfold px_add_record_route. destruct (has_header (s2b "Record-Route") m); destruct must; try discriminate; reflexivity. }
  rewrite E. split; [exact L|]. split; [apply insert_at_nth; exact L|]. split; [apply insert_at_firstn; exact L|].
  split; [apply insert_at_skipn; exact L|]. split; [exact F|].
  intros Hh. apply P. rewrite has_header_sel in Hh. destruct (sel (s2b "Record-Route") (m_headers m)); [discriminate|discriminate].
Qed.

(* flattened Record-Route of the result = own :: old, or = old *)
Corollary C06_rr_flat : forall must t m,
  all_rr (m_headers (px_add_record_route must t m)) =
  if (has_header (s2b "Record-Route") m || must)%bool then own_record_route t :: all_rr (m_headers m)
  else all_rr (m_headers m).
Proof.
  intros must t m. pose proof (C06_rr_policy must t m) as H.
  destruct (has_header (s2b "Record-Route") m || must)%bool.
  - exact (proj1 (proj2 (proj2 (proj2 (proj2 H))))).
  - rewrite H. reflexivity.
Qed.

(* the text of the entry *)
Theorem own_record_route_text : forall t, t_port t <> 0 ->
  route_print [own_record_route t] = s2b "<sip:" ++ t_addr t ++ ":"%char :: itoa (t_port t) ++ s2b ";lr>".
Proof.
  intros t P. unfold route_print, route_param_print, name_addr_print, own_record_route.
  cbn [map join_byte r_addr r_params na_display na_addr addr_spec_print print_params flat_map app].
  unfold sip_uri_print, sip_uri_print_with.
  cbn [u_scheme u_user u_password u_host u_port u_params u_headers print_params flat_map kv_print k_key k_val app].
  destruct (Z.eqb_spec (t_port t) 0) as [E|_]; [contradiction|].
  rewrite !app_nil_r. cbn [s2b list_ascii_of_string app].
  repeat (rewrite <- app_assoc; cbn [app]). reflexivity.
Qed.
(* a transport without a port (a connection the proxy dialled itself) prints without one *)
Theorem own_record_route_text_noport : forall t, t_port t = 0 ->
  route_print [own_record_route t] = s2b "<sip:" ++ t_addr t ++ s2b ";lr>".
Proof.
  intros t P. unfold route_print, route_param_print, name_addr_print, own_record_route.
  cbn [map join_byte r_addr r_params na_display na_addr addr_spec_print print_params flat_map app].
  unfold sip_uri_print, sip_uri_print_with.
  cbn [u_scheme u_user u_password u_host u_port u_params u_headers print_params flat_map kv_print k_key k_val app].
  rewrite P. cbn [Z.eqb]. rewrite !app_nil_r. cbn [s2b list_ascii_of_string app].
  repeat (rewrite <- app_assoc; cbn [app]). reflexivity.
Qed.

(* ------------------------------------------------------------------ what a send appends to the outputs *)
(* an output that carries bytes (a datagram or bytes on a connection); DDial records a dial *)
Definition is_msg (o : output) : bool := match fst o with DDial _ _ _ => false | _ => true end.
Definition msg_count (l : list output) : nat := List.length (filter is_msg l).

Lemma msg_count_app a b : msg_count (a ++ b) = (msg_count a + msg_count b)%nat.
Proof. unfold msg_count. rewrite filter_app, app_length. reflexivity. Qed.

(* the pool side of a proxy object is untouched *)
Definition same_rr (p p' : pstate) : Prop :=
  ps_rr p' = ps_rr p /\ ps_backends p' = ps_backends p /\ ps_has_rr p' = ps_has_rr p.
Lemma same_rr_refl p : same_rr p p. Proof. repeat split. Qed.
Lemma same_rr_trans p1 p2 p3 : same_rr p1 p2 -> same_rr p2 p3 -> same_rr p1 p3.
Proof. intros (A & B & C) (A' & B' & C'). repeat split; congruence. Qed.

Lemma same_rr_get_transport now proto host port tid p :
  same_rr p (fst (get_transport now proto host port tid p)).
Proof.
  unfold get_transport, clean_expired, with_table, with_clients.
  repeat match goal with
         | |- context [if ?c then _ else _] => destruct c
         | |- context [match alookup ?k ?t with _ => _ end] => destruct (alookup k t)
         end; repeat split.
Qed.
Lemma same_rr_set_primary key pr p : same_rr p (set_primary key pr p).
Proof. unfold set_primary. destruct (alookup key (ps_table p)); repeat split. Qed.

(* every byte-carrying output of [extra] carries [b], and there is at most one *)
Definition one_msg (b : bytes) (extra : list output) : Prop :=
  (msg_count extra <= 1)%nat /\ Forall (fun o => is_msg o = true -> snd o = b) extra.
Lemma one_msg_nil b : one_msg b []. Proof. split; [apply Nat.le_0_l|constructor]. Qed.
Lemma one_msg_dial b ip port c extra : one_msg b extra -> one_msg b ((DDial ip port c, []) :: extra).
Proof. intros (A & B). split; [exact A|]. constructor; [intros H; discriminate|exact B]. Qed.
Lemma one_msg_single b d : is_msg (d, b) = true -> one_msg b [(d, b)].
Proof.
  intros H. split.
  - unfold msg_count. cbn [filter]. rewrite H. apply Nat.le_refl.
  - constructor; [reflexivity|constructor].
Qed.

Lemma tcp_client_send_outs n : forall li local rs id b p cs w outs p' cs' w' outs' ok,
  tcp_client_send n li local rs id b p cs w outs = (p', cs', w', outs', ok) ->
  exists extra, outs' = outs ++ extra /\ one_msg b extra.
Proof.
  induction n as [|n IH]; intros li local rs id b p cs w outs p' cs' w' outs' ok H; cbn [tcp_client_send] in H.
  - injection H as <- <- <- <- <-. exists []. rewrite app_nil_r. split; [reflexivity|apply one_msg_nil].
  - destruct (find_client id (ps_clients p)) as [cl|].
    2:{ injection H as <- <- <- <- <-. exists []. rewrite app_nil_r. split; [reflexivity|apply one_msg_nil]. }
    destruct (tc_cached cl) as [c|].
    + destruct (conn_open cs c).
      * injection H as <- <- <- <- <-. exists [(DConn c, b)]. split; [reflexivity|]. apply one_msg_single. reflexivity.
      * exact (IH _ _ _ _ _ _ _ _ _ _ _ _ _ _ H).
    + destruct (existsb _ (w_tcp_listeners w)).
      * (* the round that dials also writes, on the connection it has just opened *)
        injection H as <- <- <- <- <-.
        eexists. split; [reflexivity|]. apply one_msg_dial. apply one_msg_single. reflexivity.
      * injection H as <- <- <- <- <-. exists []. rewrite app_nil_r. split; [reflexivity|apply one_msg_nil].
Qed.

Lemma failover_send_outs li local rs f b p cs w p' cs' w' outs ok f' :
  failover_send li local rs f b p cs w = (p', cs', w', outs, ok, f') -> one_msg b outs.
Proof.
  unfold failover_send.
  assert (T : forall f1 p' cs' w' outs ok f',
             match fo_sec f1 with
             | Some id => let '(p2, cs2, w2, outs2, ok) := tcp_client_send 2 li local rs id b p cs w [] in
                          (p2, cs2, w2, outs2, ok, f1)
             | None => (p, cs, w, [], false, f1)
             end = (p', cs', w', outs, ok, f') -> one_msg b outs).
  { intros f1 p1 cs1 w1 o1 ok1 f1' H. destruct (fo_sec f1) as [id|].
    - destruct (tcp_client_send 2 li local rs id b p cs w []) as [[[[p2 cs2] w2] outs2] ok2] eqn:E.
      injection H as <- <- <- <- <- <-. apply tcp_client_send_outs in E. destruct E as (extra & -> & O). exact O.
    - injection H as <- <- <- <- <- <-. apply one_msg_nil. }
  intros H. destruct (fo_pri f) as [[ip port|ip port|c ex]|].
  - destruct (fits_datagram b); [|exact (T _ _ _ _ _ _ _ H)].
    injection H as <- <- <- <- <- <-. apply one_msg_single. reflexivity.
  - destruct (fits_datagram b); [|exact (T _ _ _ _ _ _ _ H)].
    injection H as <- <- <- <- <- <-. apply one_msg_single. reflexivity.
  - destruct (conn_open cs c); [|exact (T _ _ _ _ _ _ _ H)].
    injection H as <- <- <- <- <- <-. apply one_msg_single. reflexivity.
  - exact (T _ _ _ _ _ _ _ H).
Qed.

(* sendMessage: the message that leaves is the argument after GetClientTransaction has decoded
   CSeq and the top Via in place; the learned table is not touched; a transport other than
   udp / tcp (any case) sends nothing *)
Lemma send_message_shape e host port transport m x :
  let r := send_message e host port transport m x in
  snd r = fst (mtry s_client_transaction m) /\
  x_learned (fst r) = x_learned x /\
  exists extra, x_outs (fst r) = x_outs x ++ extra /\ one_msg (write_message (snd r)) extra /\
                (supported_proto (to_lower transport) = false -> extra = []).
Proof.
  unfold send_message. destruct (mtry s_client_transaction m) as [m1 tid]. cbn [fst].
  destruct (get_transport (now_s e) transport _ port _ (x_p x)) as [p1 rkey] eqn:G.
  assert (U : supported_proto (to_lower transport) = false -> is_ok rkey = false).
  { intros S. unfold get_transport in G. rewrite S in G. cbn [negb] in G. injection G as _ <-. reflexivity. }
  destruct rkey as [key| |].
  2,3: cbn [fst snd x_learned x_outs]; repeat split; exists []; rewrite app_nil_r;
       repeat split; [apply Nat.le_0_l|constructor].
  cbv zeta.
  set (p2 := match alookup key (ps_table p1) with Some _ => _ | None => _ end).
  destruct (alookup key (ps_table p2)) as [f|].
  2:{ cbn [fst snd x_learned x_outs]. repeat split. exists []. rewrite app_nil_r.
      repeat split; [apply Nat.le_0_l|constructor]. }
  destruct (failover_send _ _ _ f (write_message m1) _ (x_conns x) (x_world x)) as [[[[[p4 cs] w] outs] ok] f'] eqn:F.
  cbn [fst snd x_learned x_outs]. repeat split. exists outs. split; [reflexivity|].
  split; [exact (failover_send_outs _ _ _ _ _ _ _ _ _ _ _ _ _ _ F)|].
  intros S. apply U in S. discriminate.
Qed.

(* ------------------------------------------------------------------ sendToBackend *)
Definition mpost {A} (Q : A -> Prop) (x : M A) : Prop := forall m m' a, x m = (m', Ok a) -> Q a.
Lemma mpost_ret {A} (Q : A -> Prop) a : Q a -> mpost Q (mret a).
Proof. intros H m m' a' E. injection E as _ <-. exact H. Qed.
Lemma mpost_bind {A B} (Q : B -> Prop) (x : M A) (f : A -> M B) :
  (forall a, mpost Q (f a)) -> mpost Q (mbind x f).
Proof.
  intros Hf m m' b E. unfold mbind in E. destruct (x m) as [m1 r]. destruct r as [a| |]; try discriminate.
  exact (Hf a m1 m' b E).
Qed.

Lemma find_backend_by_dialog_same_rr e p : mpost (fun r => same_rr p (fst r)) (find_backend_by_dialog e p).
Proof.
  unfold find_backend_by_dialog. apply mpost_bind. intros meth.
  destruct (_ && _)%bool; [apply mpost_ret, same_rr_refl|].
  apply mpost_bind. intros [d|]; [|apply mpost_ret, same_rr_refl].
  destruct (pins_get (e_now e) d (ps_pins p)) as [pins1 ob]. cbv zeta.
  destruct (_ && _)%bool; [apply mpost_ret; cbn [fst]; repeat split|].
  apply mpost_bind. intros ss. apply mpost_ret. cbn [fst].
  destruct (_ && _)%bool; repeat split.
Qed.

(* where a backend address "ip:port" is sent to *)
Definition backend_dest (a : bytes) : option dest :=
  match last_index_byte ":"%char a with
  | Some pos => Some (DUdp (firstn pos a) (atoi_val (skipn (S pos) a)))
  | None => None
  end.
(* the backend object the dialog of the request is pinned to, if any *)
Definition pinned_backend (e : env) (p : pstate) (m : message) : option bref :=
  match snd (find_backend_by_dialog e p m) with Ok (_, ob) => ob | _ => None end.
(* the message handed to the backend: Via then Record-Route of the listener's first transport *)
Definition backend_message (e : env) (t0 : stransport) (p : pstate) (m : message) : message :=
  px_add_record_route (pa_must_rr (wire_proxy (e_lc e))) t0 (px_add_via e t0 (fst (find_backend_by_dialog e p m))).

Definition backend_alive (a : bytes) (g : nat) (p : pstate) : bool :=
  existsb (fun '(a', g') => beq a a' && Nat.eqb g g') (ps_backends p).

Lemma backend_send_outs b bs p p2 outs ok : backend_send b bs p = (p2, outs, ok) ->
  (ok = false -> outs = []) /\
  (outs = [] \/
   exists a d, backend_dest a = Some d /\ outs = [(d, bs)] /\
               match b with
               | BObj a' g => a = a' /\ backend_alive a g p = true
               | BRR => In a (rr_backends (ps_rr p))
               end).
Proof.
  unfold backend_send, backend_dest. destruct b as [a g|].
  - fold (backend_alive a g p). destruct (backend_alive a g p && fits_datagram bs)%bool eqn:E.
    + intros H. injection H as <- <- <-. split; [discriminate|].
      apply andb_true_iff in E. destruct E as [E _].
      destruct (last_index_byte ":"%char a) as [pos|] eqn:LI; [right|left; reflexivity].
      exists a. eexists. rewrite LI. split; [reflexivity|]. split; [reflexivity|]. split; [reflexivity|exact E].
    + intros H. injection H as <- <- <-. split; [reflexivity|left; reflexivity].
  - destruct (rr_dispatch (ps_rr p)) as [r' o] eqn:D.
    assert (M : forall a, o = Some a -> In a (rr_backends (ps_rr p))).
    { intros a ->. destruct (Nat.eq_dec (List.length (rr_backends (ps_rr p))) 0) as [Z|NZ].
      - rewrite (C05.rr_member_empty _ Z) in D. discriminate.
      - destruct (C05.rr_member _ NZ) as (b & E1 & E2 & _). rewrite D in E1. cbn [snd] in E1.
        injection E1 as <-. exact E2. }
    destruct o as [a|].
    + destruct (fits_datagram bs).
      * intros H. injection H as <- <- <-. split; [discriminate|].
        destruct (last_index_byte ":"%char a) as [pos|] eqn:LI; [right|left; reflexivity].
        exists a. eexists. rewrite LI. split; [reflexivity|]. split; [reflexivity|]. apply M. reflexivity.
      * intros H. injection H as <- <- <-. split; [reflexivity|left; reflexivity].
    + intros H. injection H as <- <- <-. split; [reflexivity|left; reflexivity].
Qed.

Lemma send_to_backend_shape e m x :
  let r := send_to_backend e m x in
  x_learned (fst r) = x_learned x /\
  exists extra, x_outs (fst r) = x_outs x ++ extra /\
    (extra = [] \/
     exists t0 a d, first_transport (e_lc e) = Some t0 /\ ps_has_rr (x_p x) = true /\
        extra = [(d, write_message (backend_message e t0 (x_p x) m))] /\ backend_dest a = Some d /\
        match pinned_backend e (x_p x) m with
        | Some (BObj a' g) => a = a' /\ backend_alive a g (x_p x) = true
        | _ => In a (rr_backends (ps_rr (x_p x)))
        end).
Proof.
  unfold send_to_backend.
  destruct (ps_has_rr (x_p x)) eqn:HR; cbn [negb].
  2:{ cbn [fst]. split; [reflexivity|]. exists []. rewrite app_nil_r. auto. }
  destruct (first_transport (e_lc e)) as [t0|] eqn:FT.
  2:{ cbn [fst]. split; [reflexivity|]. exists []. rewrite app_nil_r. auto. }
  unfold pinned_backend, backend_message.
  pose proof (find_backend_by_dialog_same_rr e (x_p x) m) as SR.
  destruct (find_backend_by_dialog e (x_p x) m) as [m1 r] eqn:FB. cbn [fst snd].
  set (pr := match r with Ok v => v | _ => (x_p x, None) end).
  assert (SR' : same_rr (x_p x) (fst pr)).
  { subst pr. destruct r as [v| |]; [exact (SR _ _ eq_refl)|apply same_rr_refl|apply same_rr_refl]. }
  assert (OB : snd pr = match r with Ok (_, ob) => ob | _ => None end).
  { subst pr. destruct r as [[p' ob]| |]; reflexivity. }
  destruct pr as [p1 ob]. cbn [fst snd] in SR', OB. rewrite <- OB. clear OB.
  set (b := match ob with Some b => b | None => BRR end).
  set (m2 := px_add_record_route _ t0 (px_add_via e t0 m1)).
  destruct (backend_send b (write_message m2) p1) as [[p2 outs] ok] eqn:BS.
  apply backend_send_outs in BS. destruct BS as (NK & BS).
  destruct ok.
  - destruct (mtry s_client_transaction m2) as [m3 tid]. cbn [fst x_learned x_outs].
    split; [reflexivity|]. exists outs. split; [reflexivity|].
    destruct BS as [->|(a & d & BD & -> & Hb)]; [left; reflexivity|right].
    exists t0, a, d. repeat split; try assumption.
    destruct SR' as (R1 & R2 & R3). subst b. destruct ob as [[a' g|]|].
    + destruct Hb as [-> Hb]. split; [reflexivity|]. unfold backend_alive in *. rewrite <- R2. exact Hb.
    + rewrite <- R1. exact Hb.
    + rewrite <- R1. exact Hb.
  - cbn [fst x_learned x_outs]. split; [reflexivity|]. exists []. rewrite app_nil_r. auto.
Qed.

(* ------------------------------------------------------------------ HandleMessage *)
(* what the request branch does with the hop found: Via + Record-Route of the transport through
   which the next-hop host was learned, nothing when the host is not in the learned table *)
Definition decorate (e : env) (l : learned) (host : bytes) (m : message) : message :=
  match alookup host l with
  | Some t => px_add_record_route (pa_must_rr (wire_proxy (e_lc e))) t (px_add_via e t m)
  | None => m
  end.

Lemma handle_message_request e from m x : is_request m = true ->
  handle_message e from m x =
  let '(m1, r) := next_request_hop (c_keep_next_hop (e_cfg e)) (route_table_of (e_cfg e)) m in
  match r with
  | Ok (host, port, transport) => send_message e host port transport (decorate e (x_learned x) host m1) x
  | _ => if is_my_message (new_my_name (c_name (e_cfg e))) from m1 then send_to_backend e m1 x else (x, m1)
  end.
Proof. intros R. unfold handle_message, decorate. rewrite R. reflexivity. Qed.

Lemma handle_message_shape e from m x :
  x_learned (fst (handle_message e from m x)) = x_learned x /\
  exists extra, x_outs (fst (handle_message e from m x)) = x_outs x ++ extra /\ (msg_count extra <= 1)%nat.
Proof.
  assert (SM : forall host port transport m x,
             x_learned (fst (send_message e host port transport m x)) = x_learned x /\
             exists extra, x_outs (fst (send_message e host port transport m x)) = x_outs x ++ extra /\
                           (msg_count extra <= 1)%nat).
  { intros host port transport m' x'.
    destruct (send_message_shape e host port transport m' x') as (_ & L & extra & O & (C & _) & _).
    split; [exact L|]. exists extra. auto. }
  assert (NO : forall (x : ctx), x_learned x = x_learned x /\
                                 exists extra, x_outs x = x_outs x ++ extra /\ (msg_count extra <= 1)%nat).
  { intros x'. split; [reflexivity|]. exists []. rewrite app_nil_r. split; [reflexivity|apply Nat.le_0_l]. }
  destruct (is_request m) eqn:R.
  - rewrite (handle_message_request e from m x R).
    destruct (next_request_hop _ _ m) as [m1 r].
    assert (B : x_learned (fst (if is_my_message (new_my_name (c_name (e_cfg e))) from m1
                                then send_to_backend e m1 x else (x, m1))) = x_learned x /\
                exists extra, x_outs (fst (if is_my_message (new_my_name (c_name (e_cfg e))) from m1
                                then send_to_backend e m1 x else (x, m1))) = x_outs x ++ extra /\
                              (msg_count extra <= 1)%nat).
    { destruct (is_my_message _ from m1); [|apply NO].
      destruct (send_to_backend_shape e m1 x) as (L & extra & O & D). split; [exact L|]. exists extra.
      split; [exact O|]. destruct D as [->|(t0 & a & d & _ & _ & -> & _)]; [apply Nat.le_0_l|].
      unfold msg_count. cbn [filter]. destruct (is_msg _); cbn [List.length]; lia. }
    destruct r as [[[host port] transport]| |]; [apply SM|exact B|exact B].
  - unfold handle_message. rewrite R.
    destruct (mtry s_pop_via m) as [m1 r1]. destruct (mtry next_response_hop m1) as [m2 hop].
    destruct (mtry s_get_method m2) as [m3 ometh].
    match goal with |- context [let '(m4, p1) := ?X in _] => destruct X as [m4 p1] end.
    destruct hop as [[[[host port] transport]|]| |]; try apply (NO (Build_ctx _ _ _ _ _)).
    apply (SM host port transport m4 (Build_ctx _ _ _ _ _)).
Qed.

(* ------------------------------------------------------------------ handleRawMessage, staged *)
Definition pm_learn (peer : bytes) (from : stransport) (m0 : message) (x : ctx) : message * learned :=
  if (is_request m0 && negb (amem peer (ps_backends (x_p x))))%bool then
    let '(m', vs) := s_all_via_params m0 in
    (m', fold_left (fun l v => learn (v_host v) from l)
                   (match vs with Ok l => l | _ => [] end) (learn peer from (x_learned x)))
  else (m0, x_learned x).

Definition pm_conn (e : env) (tcp : option nat) (m2 : message) (x : ctx) : message * res pstate :=
    match tcp with
    | Some c =>
        if is_request m2 then
          let '(m', hop) := mtry next_response_hop m2 in
          match hop with
          | Ok oh =>
              let host0 := match oh with Some (h, _, _) => h | None => [] end in
              let port := match oh with Some (_, p, _) => p | None => 0 end in
              match (if has_prefix (s2b "[") host0
                     then (if (fx_bracket_host (e_fx e) && negb (has_suffix (s2b "]") host0 && Nat.leb 2 (List.length host0)))%bool
                           then Ok host0 else slice_chk host0 1 (List.length host0 - 1))
                     else Ok host0) with
              | Panic => (m', Panic)
              | Err => (m', Err)
              | Ok host =>
                  match oh with
                  | None => (m', Ok (x_p x))
                  | Some _ =>
                      let '(m'', tid) := mtry s_client_transaction m' in
                      match tid with
                      | Ok (Some t) =>
                          let host_r := if fx_resolved_key (e_fx e)
                                        then match get_ip (e_cfg e) host with Some i => i | None => host end else host in
                          let '(p1, rk) := get_transport (now_s e) (s2b "tcp") host_r port t (x_p x) in
                          match rk with
                          | Ok key => (m'', Ok (set_primary key (PConn c (now_s e + 3600)) p1))
                          | _ => (m'', Ok p1)
                          end
                      | _ => (m'', Ok (x_p x))
                      end
                  end
              end
          | _ => (m', Ok (x_p x))
          end
        else (m2, Ok (x_p x))
    | None => (m2, Ok (x_p x))
    end.

Definition pm_tail (e : env) (peer : bytes) (peer_port : Z) (from : stransport)
           (m3 : message) (p1 : pstate) (l1 : learned) (x : ctx) : res ctx :=
  let m4 := fst (mtry (try_remove_top_route (e_cfg e) from) m3) in
  let '(m5, p2) :=
    if is_response m4 then
      let '(m', r) := handle_dialog e peer peer_port p1 m4 in
      (m', match r with Ok p' => p' | _ => p1 end)
    else (m4, p1) in
  let x1 := {| x_learned := l1; x_p := p2; x_conns := x_conns x; x_world := x_world x; x_outs := x_outs x |} in
  Ok (fst (handle_message e from m5 x1)).

Lemma process_message_unfold e peer peer_port from rs tcp m0 x :
  process_message e peer peer_port from rs tcp m0 x =
  let '(m1, l1) := pm_learn peer from m0 x in
  let m2 := if (is_request m1 && rs)%bool then fst (s_set_received peer peer_port m1) else m1 in
  let '(m3, rp) := pm_conn e tcp m2 x in
  match rp with
  | Panic => Panic
  | Err => Err
  | Ok p1 => pm_tail e peer peer_port from m3 p1 l1 x
  end.
Proof.
  unfold process_message. fold (pm_learn peer from m0 x). destruct (pm_learn peer from m0 x) as [m1 l1].
  cbv zeta.
  set (m2 := if (is_request m1 && rs)%bool then fst (s_set_received peer peer_port m1) else m1).
  fold (pm_conn e tcp m2 x). destruct (pm_conn e tcp m2 x) as [m3 [p1| |]]; reflexivity.
Qed.

(* the learned table after the message has been looked at *)
Definition learned_after (peer : bytes) (from : stransport) (m0 : message) (x : ctx) : learned :=
  if (is_request m0 && negb (amem peer (ps_backends (x_p x))))%bool
  then fold_left (fun l h => learn h from l) (peer :: map v_host (all_vias (m_headers m0))) (x_learned x)
  else x_learned x.

Lemma fold_left_map_learn from vs : forall acc,
  fold_left (fun l v => learn (v_host v) from l) vs acc = fold_left (fun l h => learn h from l) (map v_host vs) acc.
Proof. induction vs as [|v r IH]; intros acc; [reflexivity|]. cbn [fold_left map]. apply IH. Qed.

Lemma pm_learn_spec peer from m0 x :
  snd (pm_learn peer from m0 x) = learned_after peer from m0 x /\
  forall nm, disjoint_names nm (s2b "Via") -> frame nm m0 (fst (pm_learn peer from m0 x)).
Proof.
  unfold pm_learn, learned_after. destruct (is_request m0 && negb (amem peer (ps_backends (x_p x))))%bool.
  2:{ split; [reflexivity|]. intros nm _. apply frame_refl. }
  unfold s_all_via_params. pose proof (decode_all_vias_snd (m_headers m0)) as S.
  destruct (decode_all_vias (m_headers m0)) as [hs vs] eqn:D. cbn [fst snd] in *. subst vs. split.
  - cbn [fold_left]. apply fold_left_map_learn.
  - intros nm DV. pose proof (decode_all_vias_sel nm DV (m_headers m0)) as H. rewrite D in H. repeat split. exact H.
Qed.

Lemma pm_conn_frame e tcp m2 x nm :
  disjoint_names nm (s2b "Via") -> disjoint_names nm (s2b "CSeq") -> frame nm m2 (fst (pm_conn e tcp m2 x)).
Proof.
  intros DV DC. unfold pm_conn. destruct tcp as [c|]; [|apply frame_refl].
  destruct (is_request m2); [|apply frame_refl].
  pose proof (mframe_try nm _ (mframe_next_response_hop nm DV) m2) as F1.
  destruct (mtry next_response_hop m2) as [m' hop]. cbn [fst] in F1.
  destruct hop as [oh| |]; try exact F1.
  match goal with |- context [match ?X with Ok _ => _ | Err => _ | Panic => _ end] => destruct X as [host| |] end;
    try exact F1.
  destruct oh as [hp|]; [|exact F1].
  pose proof (mframe_try nm _ (mframe_client_transaction nm DV DC) m') as F2.
  destruct (mtry s_client_transaction m') as [m'' tid]. cbn [fst] in F2.
  assert (F : frame nm m2 m'') by (eapply frame_trans; eassumption).
  destruct tid as [[t|]| |]; try exact F.
  destruct (get_transport _ _ _ _ _ _) as [p1 rk]. destruct rk; exact F.
Qed.

Lemma pm_conn_same_rr e tcp m2 x p1 : snd (pm_conn e tcp m2 x) = Ok p1 -> same_rr (x_p x) p1.
Proof.
  unfold pm_conn. destruct tcp as [c|]; [|intros H; injection H as <-; apply same_rr_refl].
  destruct (is_request m2); [|intros H; injection H as <-; apply same_rr_refl].
  destruct (mtry next_response_hop m2) as [m' hop].
  destruct hop as [oh| |]; try (intros H; injection H as <-; apply same_rr_refl).
  match goal with |- context [match ?X with Ok _ => _ | Err => _ | Panic => _ end] => destruct X as [host| |] end;
    try discriminate.
  destruct oh as [hp|]; [|intros H; injection H as <-; apply same_rr_refl].
  destruct (mtry s_client_transaction m') as [m'' tid].
  destruct tid as [[t|]| |]; try (intros H; injection H as <-; apply same_rr_refl).
  match goal with |- context [get_transport ?a ?b ?c ?d ?f ?g] =>
    pose proof (same_rr_get_transport a b c d f g) as G; destruct (get_transport a b c d f g) as [p' rk] end.
  cbn [fst] in G. destruct rk; intros H; injection H as <-; try exact G.
  eapply same_rr_trans; [exact G|apply same_rr_set_primary].
Qed.

Lemma all_vias_sel hs hs' : sel (s2b "Via") hs' = sel (s2b "Via") hs -> all_vias hs' = all_vias hs.
Proof. unfold all_vias. intros ->. reflexivity. Qed.
Lemma all_rr_sel hs hs' : sel (s2b "Record-Route") hs' = sel (s2b "Record-Route") hs -> all_rr hs' = all_rr hs.
Proof. unfold all_rr. intros ->. reflexivity. Qed.

(* decoding the first Via header in place does not change the flattened list *)
Lemma all_vias_get_via m : all_vias (m_headers (fst (s_get_via m))) = all_vias (m_headers m).
Proof.
  unfold s_get_via, typed_get. rewrite get_header_sel.
  destruct (sel (s2b "Via") (m_headers m)) as [|h r] eqn:S; [reflexivity|]. cbn [hd_error].
  destruct (h_val h) eqn:V; try reflexivity.
  destruct (parse_via s) as [l| |] eqn:P; try reflexivity.
  cbn [fst set_val with_headers m_headers]. unfold all_vias. rewrite sel_update_same, S.
  cbn [flat_map h_val dec_via]. rewrite V. cbn [dec_via]. rewrite P. reflexivity.
Qed.

Lemma all_vias_client_transaction m :
  all_vias (m_headers (fst (mtry s_client_transaction m))) = all_vias (m_headers m).
Proof.
  unfold mtry, s_client_transaction, mbind.
  pose proof (mframe_get_cseq _ dj_Via_CSeq m) as F.
  destruct (s_get_cseq m) as [m1 r1]. cbn [fst] in F.
  assert (E1 : all_vias (m_headers m1) = all_vias (m_headers m)) by (apply all_vias_sel, F).
  destruct r1 as [c| |]; try exact E1.
  unfold s_top_via, mbind. pose proof (all_vias_get_via m1) as E2.
  destruct (s_get_via m1) as [m2 r2]. cbn [fst] in E2. rewrite <- E1, <- E2.
  destruct r2 as [[|v l]| |]; try reflexivity. cbn. destruct (via_get_branch v); reflexivity.
Qed.


(* ---- what happens to the Via stack before routing: every entry beneath the top one is
   untouched; the top one keeps its sent-by (only received / rport parameters may be set) ---- *)
Definition sent_by (v : via_param) : bytes * bytes * bytes * bytes * Z :=
  (v_name v, v_version v, v_transport v, v_host v, v_port v).
Definition via_rel (m m' : message) : Prop :=
  tl (all_vias (m_headers m')) = tl (all_vias (m_headers m)) /\
  option_map sent_by (hd_error (all_vias (m_headers m'))) = option_map sent_by (hd_error (all_vias (m_headers m))).
Lemma via_rel_refl m : via_rel m m. Proof. split; reflexivity. Qed.
Lemma via_rel_trans m1 m2 m3 : via_rel m1 m2 -> via_rel m2 m3 -> via_rel m1 m3.
Proof. intros (A & B) (A' & B'). split; congruence. Qed.
Lemma via_rel_eq m m' : all_vias (m_headers m') = all_vias (m_headers m) -> via_rel m m'.
Proof. intros E. unfold via_rel. rewrite E. split; reflexivity. Qed.
Lemma via_rel_frame m m' : frame (s2b "Via") m m' -> via_rel m m'.
Proof. intros (S & _). apply via_rel_eq, all_vias_sel, S. Qed.

Lemma decode_all_vias_all_vias hs : all_vias (fst (decode_all_vias hs)) = all_vias hs.
Proof.
  unfold all_vias. induction hs as [|h r IH]; [reflexivity|]. cbn [decode_all_vias].
  destruct (decode_all_vias r) as [r' vs]. cbn [fst] in IH.
  destruct (same_header (h_name h) (s2b "Via")) eqn:E.
  - set (VF := fun h : header => match dec_via (h_val h) with Some l => l | None => [] end) in *.
    assert (K0 : flat_map VF (sel (s2b "Via") (h :: r')) = flat_map VF (sel (s2b "Via") (h :: r))).
    { cbn [sel filter]. rewrite E. cbn [flat_map]. f_equal. exact IH. }
    destruct (h_val h) eqn:V; try exact K0. destruct (parse_via s) as [l| |] eqn:P; try exact K0.
    cbn [fst sel filter h_name]. rewrite E. cbn [flat_map]. unfold VF at 1 3. cbn [h_val dec_via]. rewrite V.
    cbn [dec_via]. rewrite P. f_equal. exact IH.
  - cbn [fst sel filter]. rewrite E. exact IH.
Qed.

Lemma s_get_via_norm m :
  match snd (s_get_via m) with
  | Ok l => exists n rest, sel (s2b "Via") (m_headers (fst (s_get_via m))) = {| h_name := n; h_val := HVia l |} :: rest
  | _ => fst (s_get_via m) = m
  end.
Proof.
  unfold s_get_via, typed_get. rewrite get_header_sel.
  destruct (sel (s2b "Via") (m_headers m)) as [|h r] eqn:S; [reflexivity|]. cbn [hd_error].
  destruct (h_val h) eqn:V; try reflexivity.
  - destruct (parse_via s) as [l| |] eqn:P; try reflexivity. cbn [fst snd set_val with_headers m_headers].
    rewrite sel_update_same, S. eexists _, _. reflexivity.
  - cbn [fst snd]. exists (h_name h), r. rewrite S. destruct h as [n v]. cbn in *. subst v. reflexivity.
Qed.

Lemma via_rel_set_received peer port m : via_rel m (fst (s_set_received peer port m)).
Proof.
  unfold s_set_received, mbind. pose proof (s_get_via_norm m) as N. pose proof (all_vias_get_via m) as A.
  destruct (s_get_via m) as [m1 r]. cbn [fst snd] in N, A. destruct r as [l| |]; cbn [fst]; try (apply via_rel_eq; exact A).
  destruct l as [|v rest]; [apply via_rel_eq; exact A|]. destruct N as (n & hs & S).
  unfold mmodify. cbn [fst]. unfold via_rel. rewrite <- A. unfold all_vias at 1 3.
  cbn [set_val with_headers m_headers]. rewrite sel_update_same. unfold all_vias. rewrite S.
  cbn [flat_map h_val dec_via app tl hd_error option_map]. split; [reflexivity|].
  destruct (kv_has _ _); reflexivity.
Qed.

Lemma via_rel_top_via m : via_rel m (fst (s_top_via m)).
Proof.
  unfold s_top_via, mbind. pose proof (all_vias_get_via m) as A. destruct (s_get_via m) as [m1 r]. cbn [fst] in A.
  destruct r as [[|v l]| |]; apply via_rel_eq; exact A.
Qed.
Lemma via_rel_next_response_hop m : via_rel m (fst (mtry next_response_hop m)).
Proof.
  unfold mtry, next_response_hop, mbind. pose proof (via_rel_top_via m) as A. destruct (s_top_via m) as [m1 r]. cbn [fst] in A.
  destruct r as [v| |]; try exact A. destruct (via_get_received v); exact A.
Qed.

Lemma mframe_get_route nm : disjoint_names nm (s2b "Route") -> mframe nm s_get_route.
Proof. intros D. apply mframe_typed_get. exact D. Qed.
Lemma mframe_pop_route nm : disjoint_names nm (s2b "Route") -> mframe nm s_pop_route.
Proof.
  intros D. apply mframe_bind; [exact (mframe_get_route nm D)|]. intros [|v [|v' l]]; apply mframe_modify; intros m;
    first [apply frame_remove; exact D | apply frame_set_val; exact D].
Qed.
Lemma mframe_try_remove_top_route nm c from : disjoint_names nm (s2b "Route") ->
  mframe nm (try_remove_top_route c from).
Proof.
  intros D. apply mframe_bind; [exact (mframe_get_route nm D)|]. intros [|rp l]; [apply mframe_ret|].
  destruct (na_addr (r_addr rp)); [|apply mframe_ret].
  destruct (_ && _)%bool; [exact (mframe_pop_route nm D)|apply mframe_ret].
Qed.

Lemma pm_learn_via peer from m0 x : via_rel m0 (fst (pm_learn peer from m0 x)).
Proof.
  unfold pm_learn. destruct (is_request m0 && negb (amem peer (ps_backends (x_p x))))%bool; [|apply via_rel_refl].
  unfold s_all_via_params. pose proof (decode_all_vias_all_vias (m_headers m0)) as A.
  destruct (decode_all_vias (m_headers m0)) as [hs vs]. cbn [fst] in *. apply via_rel_eq. exact A.
Qed.
Lemma pm_conn_via e tcp m2 x : via_rel m2 (fst (pm_conn e tcp m2 x)).
Proof.
  unfold pm_conn. destruct tcp as [c|]; [|apply via_rel_refl].
  destruct (is_request m2); [|apply via_rel_refl].
  pose proof (via_rel_next_response_hop m2) as F1.
  destruct (mtry next_response_hop m2) as [m' hop]. cbn [fst] in F1.
  destruct hop as [oh| |]; try exact F1.
  match goal with |- context [match ?X with Ok _ => _ | Err => _ | Panic => _ end] => destruct X as [host| |] end;
    try exact F1.
  destruct oh as [hp|]; [|exact F1].
  pose proof (all_vias_client_transaction m') as F2.
  destruct (mtry s_client_transaction m') as [m'' tid]. cbn [fst] in F2.
  assert (F : via_rel m2 m'') by (eapply via_rel_trans; [exact F1|apply via_rel_eq; exact F2]).
  destruct tid as [[t|]| |]; try exact F.
  destruct (get_transport _ _ _ _ _ _) as [p1 rk]. destruct rk; exact F.
Qed.

(* every message: the tail is one HandleMessage on a context that has the new learned table and
   the old outputs *)
Lemma process_message_shape e peer peer_port from rs tcp m0 x x' :
  process_message e peer peer_port from rs tcp m0 x = Ok x' ->
  exists m5 p2, x' = fst (handle_message e from m5
                            {| x_learned := learned_after peer from m0 x; x_p := p2; x_conns := x_conns x;
                               x_world := x_world x; x_outs := x_outs x |}).
Proof.
  rewrite process_message_unfold. destruct (pm_learn_spec peer from m0 x) as (L & _).
  destruct (pm_learn peer from m0 x) as [m1 l1]. cbn [snd] in L. subst l1. cbv zeta.
  destruct (pm_conn e tcp _ x) as [m3 rp]. destruct rp as [p1| |]; try discriminate.
  unfold pm_tail. cbv zeta.
  match goal with |- context [let '(m5, p2) := ?X in _] => destruct X as [m5 p2] end.
  intros H. injection H as <-. exists m5, p2. reflexivity.
Qed.

(* a request: nothing but Via and CSeq headers has been touched (decoded in place, received /
   rport stamped) before tryRemoveTopRoute runs; the pool is as it was *)
Lemma process_message_request e peer peer_port from rs tcp m0 x x' :
  is_request m0 = true ->
  process_message e peer peer_port from rs tcp m0 x = Ok x' ->
  exists m3 p1,
    (forall nm, disjoint_names nm (s2b "Via") -> disjoint_names nm (s2b "CSeq") -> frame nm m0 m3) /\
    via_rel m0 m3 /\
    same_rr (x_p x) p1 /\
    x' = fst (handle_message e from (fst (mtry (try_remove_top_route (e_cfg e) from) m3))
                {| x_learned := learned_after peer from m0 x; x_p := p1; x_conns := x_conns x;
                   x_world := x_world x; x_outs := x_outs x |}).
Proof.
  intros R. rewrite process_message_unfold. destruct (pm_learn_spec peer from m0 x) as (L & F1).
  pose proof (pm_learn_via peer from m0 x) as V1.
  destruct (pm_learn peer from m0 x) as [m1 l1]. cbn [fst snd] in L, F1, V1. subst l1. cbv zeta.
  set (m2 := if (is_request m1 && rs)%bool then fst (s_set_received peer peer_port m1) else m1).
  assert (F2 : forall nm, disjoint_names nm (s2b "Via") -> frame nm m1 m2).
  { intros nm DV. subst m2. destruct (is_request m1 && rs)%bool; [|apply frame_refl].
    apply (mframe_set_received nm DV). }
  assert (V2 : via_rel m1 m2).
  { subst m2. destruct (is_request m1 && rs)%bool; [apply via_rel_set_received|apply via_rel_refl]. }
  pose proof (pm_conn_frame e tcp m2 x) as F3. pose proof (pm_conn_same_rr e tcp m2 x) as SR.
  pose proof (pm_conn_via e tcp m2 x) as V3.
  destruct (pm_conn e tcp m2 x) as [m3 rp]. cbn [fst snd] in F3, SR, V3.
  destruct rp as [p1| |]; try discriminate.
  intros H. exists m3, p1.
  assert (F : forall nm, disjoint_names nm (s2b "Via") -> disjoint_names nm (s2b "CSeq") -> frame nm m0 m3).
  { intros nm DV DC. eapply frame_trans; [apply F1; exact DV|]. eapply frame_trans; [apply F2; exact DV|].
    apply F3; assumption. }
  split; [exact F|]. split; [exact (via_rel_trans _ _ _ V1 (via_rel_trans _ _ _ V2 V3))|]. split; [apply SR; reflexivity|].
  unfold pm_tail in H. cbv zeta in H.
  set (m4 := fst (mtry (try_remove_top_route (e_cfg e) from) m3)) in *.
  assert (R4 : is_response m4 = false).
  { unfold is_response. replace (is_request m4) with true; [reflexivity|]. symmetry.
    rewrite (frame_request (s2b "To") m3 m4).
    - rewrite (frame_request (s2b "To") m0 m3); [exact R|]. apply F; [exact dj_To_Via|exact dj_To_CSeq].
    - apply (mframe_try _ _ (mframe_try_remove_top_route _ _ _ dj_To_Route)). }
  rewrite R4 in H. injection H as <-. reflexivity.
Qed.

(* ------------------------------------------------------------------ f (cont.) where the Via / Record-Route come from *)
Lemma has_header_frame nm m m' : frame nm m m' -> has_header nm m' = has_header nm m.
Proof. intros (S & _). rewrite !has_header_sel, S. reflexivity. Qed.

(* a next hop learned through transport [t]: exactly one Via of [t] on top, Record-Route of [t]
   by policy, nothing else touched *)
Theorem C06_decorate_learned : forall e l host t m,
  alookup host l = Some t ->
  all_vias (m_headers (decorate e l host m)) = pushed_via e t :: all_vias (m_headers m) /\
  all_rr (m_headers (decorate e l host m)) =
    (if (has_header (s2b "Record-Route") m || pa_must_rr (wire_proxy (e_lc e)))%bool
     then own_record_route t :: all_rr (m_headers m) else all_rr (m_headers m)) /\
  m_start (decorate e l host m) = m_start m /\ m_body (decorate e l host m) = m_body m /\
  (forall nm, same_header (s2b "Via") nm = false -> same_header (s2b "Record-Route") nm = false ->
              frame nm m (decorate e l host m)).
Proof.
  intros e l host t m A. unfold decorate. rewrite A.
  destruct (C06_via_pushed e t m) as (_ & St & Bo & _ & AV & Fr).
  set (m1 := px_add_via e t m) in *. set (must := pa_must_rr (wire_proxy (e_lc e))).
  assert (HH : has_header (s2b "Record-Route") m1 = has_header (s2b "Record-Route") m).
  { apply has_header_frame, Fr. reflexivity. }
  pose proof (C06_rr_policy must t m1) as P. rewrite C06_rr_flat, HH. rewrite HH in P.
  assert (ARR : all_rr (m_headers m1) = all_rr (m_headers m)) by (apply all_rr_sel, Fr; reflexivity).
  destruct (has_header (s2b "Record-Route") m || must)%bool.
  - destruct P as (_ & St' & Bo' & _ & _ & Fr'). rewrite ARR. split.
    + rewrite <- AV. apply all_vias_sel, Fr'. reflexivity.
    + split; [reflexivity|]. split; [congruence|]. split; [congruence|].
      intros nm N1 N2. eapply frame_trans; [apply Fr; exact N1|apply Fr'; exact N2].
  - rewrite P, ARR. split; [exact AV|]. split; [reflexivity|]. split; [exact St|]. split; [exact Bo|].
    intros nm N1 _. apply Fr. exact N1.
Qed.

(* the next-hop host is not in the learned table: neither a Via nor a Record-Route is added *)
Theorem C06_not_learned_untouched : forall e l host m, alookup host l = None -> decorate e l host m = m.
Proof. intros e l host m A. unfold decorate. rewrite A. reflexivity. Qed.

(* sendToBackend: Via and Record-Route name the FIRST transport of the listener *)
Theorem C06_backend_decorates : forall e t0 p m,
  all_vias (m_headers (backend_message e t0 p m)) = pushed_via e t0 :: all_vias (m_headers m) /\
  all_rr (m_headers (backend_message e t0 p m)) =
    (if (has_header (s2b "Record-Route") m || pa_must_rr (wire_proxy (e_lc e)))%bool
     then own_record_route t0 :: all_rr (m_headers m) else all_rr (m_headers m)).
Proof.
  intros e t0 p m. unfold backend_message.
  pose proof (mframe_find_backend_by_dialog _ dj_Via_CSeq dj_Via_From dj_Via_To e p m) as FV.
  pose proof (mframe_find_backend_by_dialog _ dj_RR_CSeq dj_RR_From dj_RR_To e p m) as FR.
  set (m1 := fst (find_backend_by_dialog e p m)) in *.
  destruct (C06_decorate_learned e [(s2b "h", t0)] (s2b "h") t0 m1 eq_refl) as (AV & AR & _).
  change (decorate e [(s2b "h", t0)] (s2b "h") m1)
    with (px_add_record_route (pa_must_rr (wire_proxy (e_lc e))) t0 (px_add_via e t0 m1)) in AV, AR.
  rewrite AV, AR, (has_header_frame _ _ _ FR), (all_vias_sel _ _ (proj1 FV)), (all_rr_sel _ _ (proj1 FR)).
  split; reflexivity.
Qed.

(* ------------------------------------------------------------------ h. branches *)
Lemma digits_val_zeros k s : digits_val (repeat "0"%char k ++ s) 0 = digits_val s 0.
Proof. induction k as [|k IH]; [reflexivity|]. cbn [repeat app digits_val]. exact IH. Qed.

Lemma branch_of_decode n : digits_val (skipn 13 (branch_of n)) 0 = Some (Z.of_nat n).
Proof.
  unfold branch_of, pad_left. cbn [s2b list_ascii_of_string app skipn].
  rewrite digits_val_zeros. unfold itoa.
  destruct (Z.ltb_spec (Z.of_nat n) 0) as [L|_]; [lia|].
  rewrite digits_val_utoa, Z2N.id by lia. reflexivity.
Qed.

Theorem branch_of_inj : forall a b, branch_of a = branch_of b -> a = b.
Proof.
  intros a b H. pose proof (branch_of_decode a) as Ha. rewrite H, branch_of_decode in Ha.
  injection Ha as Ha. lia.
Qed.

Theorem branch_of_cookie : forall n, has_prefix (s2b "z9hG4bK") (branch_of n) = true.
Proof. intros n. reflexivity. Qed.

(* along any event list the branches handed to the steps are pairwise distinct.  The real code
   draws 48 random bits per branch (uuid.NewRandom): freshness of the REAL branches is a
   probabilistic fact about the entropy source, measured by the harness (20 000 relayed requests,
   no collision), not proved here. *)
Theorem C06_branches_distinct : forall e0 n, NoDup (map branch_of (seq e0 n)).
Proof.
  intros e0 n. apply FinFun.Injective_map_NoDup; [exact branch_of_inj|apply seq_NoDup].
Qed.

(* run_events hands branch_of (event index) to the step of that event *)
Theorem run_events_branch : forall c ue ws e st ev r,
  run_events c ue ws e st (ev :: r) =
  match proxy_step current_fixes c (time_of ws e) (branch_of e) st ev with
  | Ok (st', outs) =>
      Wire.e_list e_output (filter (visible ue) outs)
      ++ Wire.e_list (fun n => [Wire.e_nat n]) (closed_by_proxy ev (st_conns st) (st_conns st'))
      ++ run_events c ue ws (S e) st' r
  | Err => [s2b "err"]
  | Panic => [s2b "panic"]
  end.
Proof. reflexivity. Qed.

(* ------------------------------------------------------------------ i. learning *)
Lemma same_transport_refl t : same_transport t t = true.
Proof. unfold same_transport. rewrite !beq_refl, Z.eqb_refl. reflexivity. Qed.

(* look-up after learn: the entry of [ip] is the old one when it names the same transport
   (protocol, address, port), the new transport otherwise; other hosts are not affected *)
Theorem learn_lookup : forall k ip t l,
  alookup k (learn ip t l) =
  if beq k ip
  then Some (match alookup ip l with
             | Some old => if same_transport old t then old else t
             | None => t
             end)
  else alookup k l.
Proof.
  intros k ip t l. unfold learn. destruct (beq k ip) eqn:E.
  - apply beq_eq in E. subst k. destruct (alookup ip l) as [old|] eqn:A.
    + destruct (same_transport old t); [exact A|apply alookup_aset_same].
    + apply alookup_aset_same.
  - apply beq_neq in E. destruct (alookup ip l) as [old|].
    + destruct (same_transport old t); [reflexivity|apply alookup_aset_other; exact E].
    + apply alookup_aset_other. exact E.
Qed.

(* learn leaves the table as it is iff the host already maps to the same transport *)
Theorem learn_keeps_iff : forall ip t l,
  learn ip t l = l <-> exists old, alookup ip l = Some old /\ same_transport old t = true.
Proof.
  intros ip t l. split.
  - intros H. pose proof (learn_lookup ip ip t l) as L. rewrite H, beq_refl in L.
    destruct (alookup ip l) as [old|]; [|discriminate]. exists old. split; [reflexivity|].
    destruct (same_transport old t) eqn:S; [reflexivity|]. injection L as ->. rewrite same_transport_refl in S. discriminate.
  - intros (old & A & S). unfold learn. rewrite A, S. reflexivity.
Qed.

(* the learned table after ANY message: requests from a peer that is not a key of the backend
   table teach the peer address and every host of every Via header that decodes, in this order;
   everything else (responses, requests from a backend key) leaves the table alone.
   NOTE: the keys of Proxy.backends are "ip:port" strings while [peer] is the bare IP of the
   sender (rawMessage.PeerAddr), so the exclusion of backends can only apply to a backend
   configured without port separator; requests coming from a backend DO teach. *)
Theorem C06_learning : forall e peer peer_port from rs tcp m0 x x',
  process_message e peer peer_port from rs tcp m0 x = Ok x' ->
  x_learned x' =
  if (is_request m0 && negb (amem peer (ps_backends (x_p x))))%bool
  then fold_left (fun l h => learn h from l) (peer :: map v_host (all_vias (m_headers m0))) (x_learned x)
  else x_learned x.
Proof.
  intros e peer pp from rs tcp m0 x x' H. apply process_message_shape in H.
  destruct H as (m5 & p2 & ->). rewrite (proj1 (handle_message_shape e from m5 _)). reflexivity.
Qed.

Theorem C06_learning_response : forall e peer peer_port from rs tcp m0 x x',
  is_request m0 = false ->
  process_message e peer peer_port from rs tcp m0 x = Ok x' -> x_learned x' = x_learned x.
Proof. intros e peer pp from rs tcp m0 x x' R H. rewrite (C06_learning _ _ _ _ _ _ _ _ _ H), R. reflexivity. Qed.

(* ================================================================== concrete instances *)
(* (shared with C13.v and C03.v) messages are written line by line; LF line ends are accepted *)
Definition lines (ls : list string) : bytes := flat_map (fun s => s2b s ++ [LF]) ls.
Definition dummy_msg : message := {| m_start := SResp [] 0 []; m_headers := []; m_body := [] |}.
Definition msg_of (ls : list string) : message :=
  match parse_message (lines ls) with Ok (m, _) => m | _ => dummy_msg end.

Definition ex_lc (must : bool) : listen_cfg :=
  {| lc_addr := s2b "10.0.0.1"; lc_udp := 5060; lc_tcp := 5060;
     lc_backends := [s2b "10.0.1.1:5080"; s2b "10.0.1.2:5080"]; lc_dynamic := false;
     lc_no_received := false; lc_def_route := false; lc_must_rr := must |}.
(* services: a literal host, a regular expression (matches only as an expression), user@host, a
   urn; static routes: exact, wildcard, optionally default; two host-table names *)
Definition ex_cfg (keep with_default must : bool) : cfg :=
  {| c_name := s2b "svc.example.com, room.+@conf.example.com, alice@users.example.com, urn:service:sos";
     c_keep_next_hop := keep; c_dialog_timeout := 3600;
     c_routes := [(s2b "udp", (s2b "exact.example.com", s2b "10.0.2.1:5070"));
                  (s2b "tcp", (s2b "*.wild.example.com", s2b "10.0.2.2"))] ++
                 (if with_default then [(s2b "udp", (s2b "default", s2b "10.0.2.3:5090"))] else []);
     c_hosts := [(s2b "proxy.example.com", s2b "10.0.0.1"); (s2b "next.example.com", s2b "10.0.0.9")];
     c_listens := [ex_lc must] |}.
Definition ex_from : stransport := {| t_kind := KUdp; t_addr := s2b "10.0.0.1"; t_port := 5060 |}.
Definition ex_env (fx : fixes) (c : cfg) (n : nat) : env :=
  mk_env fx c (item_rs_of (fx_wiring fx)) 0 (ex_lc (lc_must_rr (ex_lc false))) (Z.of_nat n * ms) (branch_of n).

Definition req (ruri : string) (pre routes : list string) (to : string) (extra : list string) : list string :=
  [String.append "INVITE " (String.append ruri " SIP/2.0")] ++ pre ++
  ["Via: SIP/2.0/UDP client.example.com:5060;branch=z9hG4bKabc"%string; "Via: SIP/2.0/TCP 10.0.0.7;branch=z9hG4bKdef"%string]
  ++ routes ++
  [String.append "To: " to; "From: <sip:carol@example.com>;tag=f1"%string; "Call-ID: c1"%string;
   "CSeq: 1 INVITE"%string] ++ extra ++ ["Content-Length: 0"%string; ""%string].

(* what a datagram from 10.0.0.5:5060 produces in the initial state: destinations and texts *)
Definition run1 (fx : fixes) (c : cfg) (tcp_peers : list (bytes * Z)) (ls : list string) : list (dest * string) :=
  match proxy_step fx c 0 (branch_of 0) (init_state c 0 tcp_peers) (EvUdp 0 (s2b "10.0.0.5") 5060 (lines ls)) with
  | Ok (_, outs) => map (fun o => (fst o, string_of_list_ascii (snd o))) outs
  | _ => [(DConn 99, "error"%string)]
  end.

(* ---- f: a Via is pushed before the first Via header, here at position 1 ---- *)
Definition ex_m1 : message :=
  msg_of (req "sip:bob@svc.example.com" ["Max-Forwards: 70"%string] [] "<sip:bob@svc.example.com>" []).
Example ex_via_pushed :
  let e := ex_env all_fixed (ex_cfg false true false) 7 in
  via_pos ex_m1 = 1%nat /\
  map via_param_print (all_vias (m_headers (px_add_via e ex_from ex_m1))) =
    [s2b "SIP/2.0/UDP 10.0.0.1:5060;branch=z9hG4bK@@@@@@000007";
     s2b "SIP/2.0/UDP client.example.com:5060;branch=z9hG4bKabc"; s2b "SIP/2.0/TCP 10.0.0.7;branch=z9hG4bKdef"] /\
  map h_name (m_headers (px_add_via e ex_from ex_m1)) =
    map s2b ["Max-Forwards"; "Via"; "Via"; "Via"; "To"; "From"; "Call-ID"; "CSeq"; "Content-Length"]%string.
Proof. vm_compute. repeat split. Qed.

(* ---- g: Record-Route present / absent x must on / off ---- *)
Definition ex_m_rr : message :=
  msg_of (req "sip:bob@svc.example.com" ["Max-Forwards: 70"%string] [] "<sip:bob@svc.example.com>"
              ["Record-Route: <sip:10.0.0.5;lr>, <sip:edge.example.com:5080;lr>"%string]).
Example ex_rr_text : route_print [own_record_route ex_from] = s2b "<sip:10.0.0.1:5060;lr>".
Proof. vm_compute. reflexivity. Qed.
Example ex_rr_present_must_off :
  map route_param_print (all_rr (m_headers (px_add_record_route false ex_from ex_m_rr))) =
  [s2b "<sip:10.0.0.1:5060;lr>"; s2b "<sip:10.0.0.5;lr>"; s2b " <sip:edge.example.com:5080;lr>"] /\
  map h_name (m_headers (px_add_record_route false ex_from ex_m_rr)) =
    map s2b ["Max-Forwards"; "Via"; "Via"; "To"; "From"; "Call-ID"; "CSeq"; "Record-Route"; "Record-Route"; "Content-Length"]%string.
Proof. vm_compute. split; reflexivity. Qed.
Example ex_rr_present_must_on :
  map route_param_print (all_rr (m_headers (px_add_record_route true ex_from ex_m_rr))) =
  [s2b "<sip:10.0.0.1:5060;lr>"; s2b "<sip:10.0.0.5;lr>"; s2b " <sip:edge.example.com:5080;lr>"].
Proof. vm_compute. reflexivity. Qed.
Example ex_rr_absent_must_on :
  map route_param_print (all_rr (m_headers (px_add_record_route true ex_from ex_m1))) = [s2b "<sip:10.0.0.1:5060;lr>"] /\
  map h_name (m_headers (px_add_record_route true ex_from ex_m1)) =
    map s2b ["Record-Route"; "Max-Forwards"; "Via"; "Via"; "To"; "From"; "Call-ID"; "CSeq"; "Content-Length"]%string.
Proof. vm_compute. split; reflexivity. Qed.
Example ex_rr_absent_must_off : px_add_record_route false ex_from ex_m1 = ex_m1.
Proof. vm_compute. reflexivity. Qed.

(* ---- h ---- *)
Example ex_branch : branch_of 3 = s2b "z9hG4bK@@@@@@000003" /\ branch_of 1234 = s2b "z9hG4bK@@@@@@001234".
Proof. vm_compute. split; reflexivity. Qed.

(* ---- i: the peer and both Via hosts are learned, in this order ---- *)
Example ex_learning :
  match proxy_step all_fixed (ex_cfg false true false) 0 (branch_of 0) (init_state (ex_cfg false true false) 0 [])
                   (EvUdp 0 (s2b "10.0.0.5") 5060
                      (lines (req "sip:bob@svc.example.com" [] [] "<sip:bob@svc.example.com>" []))) with
  | Ok (st, _) => st_learned st = [(s2b "10.0.0.5", ex_from); (s2b "client.example.com", ex_from); (s2b "10.0.0.7", ex_from)]
  | _ => False
  end.
Proof. vm_compute. reflexivity. Qed.

(* ---- learned / not learned next hop, end to end ---- *)
(* the Route names the sender itself (learned from this very request, through the UDP listener):
   one Via of the listener on top, Record-Route of the listener ahead of the received one *)
Example ex_relay_learned :
  run1 all_fixed (ex_cfg false true false) []
       (req "sip:bob@elsewhere.example" [] ["Route: <sip:10.0.0.5:5062;lr>"%string] "<sip:bob@elsewhere.example>"
            ["Record-Route: <sip:10.0.0.5;lr>"%string]) =
  [(DUdp (s2b "10.0.0.5") 5062,
    String.concat (String (ascii_of_nat 13) (String (ascii_of_nat 10) EmptyString))
    ["INVITE sip:bob@elsewhere.example SIP/2.0";
     "Via: SIP/2.0/UDP 10.0.0.1:5060;branch=z9hG4bK@@@@@@000000";
     "Via: SIP/2.0/UDP client.example.com:5060;branch=z9hG4bKabc;received=10.0.0.5";
     "Via: SIP/2.0/TCP 10.0.0.7;branch=z9hG4bKdef";
     "To: <sip:bob@elsewhere.example>"; "From: <sip:carol@example.com>;tag=f1"; "Call-ID: c1"; "CSeq: 1 INVITE";
     "Record-Route: <sip:10.0.0.1:5060;lr>"; "Record-Route: <sip:10.0.0.5;lr>"; "Content-Length: 0"; ""; ""]%string)].
Proof. vm_compute. reflexivity. Qed.
(* the next hop 10.0.0.9 was never heard of: no Via, no Record-Route *)
Example ex_relay_not_learned :
  run1 all_fixed (ex_cfg false true true) []
       (req "sip:bob@elsewhere.example" [] ["Route: <sip:10.0.0.9:5062;lr>"%string] "<sip:bob@elsewhere.example>"
            ["Record-Route: <sip:10.0.0.5;lr>"%string]) =
  [(DUdp (s2b "10.0.0.9") 5062,
    String.concat (String (ascii_of_nat 13) (String (ascii_of_nat 10) EmptyString))
    ["INVITE sip:bob@elsewhere.example SIP/2.0";
     "Via: SIP/2.0/UDP client.example.com:5060;branch=z9hG4bKabc;received=10.0.0.5";
     "Via: SIP/2.0/TCP 10.0.0.7;branch=z9hG4bKdef";
     "To: <sip:bob@elsewhere.example>"; "From: <sip:carol@example.com>;tag=f1"; "Call-ID: c1"; "CSeq: 1 INVITE";
     "Record-Route: <sip:10.0.0.5;lr>"; "Content-Length: 0"; ""; ""]%string)].
Proof. vm_compute. reflexivity. Qed.

Print Assumptions C06_via_pushed.
Print Assumptions C06_via_position.
Print Assumptions C06_branch.
Print Assumptions C06_rr_policy.
Print Assumptions C06_rr_position.
Print Assumptions C06_rr_flat.
Print Assumptions own_record_route_text.
Print Assumptions own_record_route_text_noport.
Print Assumptions C06_decorate_learned.
Print Assumptions C06_not_learned_untouched.
Print Assumptions C06_backend_decorates.
Print Assumptions branch_of_inj.
Print Assumptions branch_of_cookie.
Print Assumptions C06_branches_distinct.
Print Assumptions learn_lookup.
Print Assumptions learn_keeps_iff.
Print Assumptions C06_learning.
Print Assumptions C06_learning_response.
Print Assumptions process_message_request.
Print Assumptions handle_message_request.
Print Assumptions send_message_shape.
Print Assumptions send_to_backend_shape.
