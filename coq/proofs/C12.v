(* C12.v — responses to TCP requests return on the connection the request used.
   Part 1: the transport table (keys, frames).  Part 2: registration.  Part 3: look-up and send.
   Part 4: until the final response; the B2 caveat.  Part 5: events and histories.
   Part 6: computed examples.  Reuses the header framework of C04.v.  No axioms, no admits. *)
From Coq Require Import List Ascii String ZArith NArith Bool Lia.
From Model Require Import Bytes BytesLemmas Uri Hdr Message Msg Rx Glob StaticRoute RoundRobin Pins Proxy.
From Model.proofs Require Import C04.
Import ListNotations.
Open Scope Z_scope.

(* ================================================================== Part 1: the transport table *)
Definition tcp : bytes := s2b "tcp".
(* an inbound-connection primary is kept by the sweep as long as now <= its expiry *)
Definition live (now_s ex : Z) : Prop := now_s <= ex.
(* the table maps K to a fail-over entry whose primary is connection c *)
Definition reg_at (K : bytes) (c : nat) (ex : Z) (p : pstate) : Prop :=
  exists sec, alookup K (ps_table p) = Some {| fo_pri := Some (PConn c ex); fo_sec := sec |}.

(* ---- keys ---- *)
(* distinct transaction ids give distinct keys for the same protocol / host / port *)
Theorem full_addr_inj_tid : forall proto host port t t',
  full_addr proto host port t = full_addr proto host port t' -> beq proto tcp = true -> t = t'.
Proof.
  intros proto host port t t' E P. unfold full_addr in E. fold tcp in E. rewrite P in E. cbn [andb] in E.
  destruct t as [|a t], t' as [|a' t']; cbn [beq negb] in E.
  - reflexivity.
  - exfalso. rewrite <- (app_nil_r (proto ++ _ ++ _)) in E at 1. apply app_inv_head in E. discriminate.
  - exfalso. rewrite <- (app_nil_r (proto ++ _ ++ _)) in E at 2. apply app_inv_head in E. discriminate.
  - apply app_inv_head in E. injection E as -> ->. reflexivity.
Qed.
(* transaction ids of distinct (method, branch) pairs differ when methods carry no '-' *)
Theorem tid_inj : forall m b m' b', ~ In "-"%char m -> ~ In "-"%char m' ->
  m ++ "-"%char :: b = m' ++ "-"%char :: b' -> m = m' /\ b = b'.
Proof.
  intros m b m' b' N N' E.
  pose proof (index_byte_app_notin "-"%char m b N) as I1. rewrite E in I1.
  rewrite (index_byte_app_notin "-"%char m' b' N') in I1. injection I1 as L.
  assert (M : m = m').
  { rewrite <- (firstn_length_app m ("-"%char :: b)), E, <- L. apply firstn_length_app. }
  subst m'. apply app_inv_head in E. injection E as ->. split; reflexivity.
Qed.
Corollary keys_differ : forall host port m b m' b', ~ In "-"%char m -> ~ In "-"%char m' -> (m, b) <> (m', b') ->
  full_addr tcp host port (m ++ "-"%char :: b) <> full_addr tcp host port (m' ++ "-"%char :: b').
Proof.
  intros host port m b m' b' N N' NE E. apply full_addr_inj_tid in E; [|reflexivity].
  apply tid_inj in E; try assumption. destruct E as [-> ->]. apply NE. reflexivity.
Qed.
(* the connection-level key of ConnAccepted (no transaction id) differs from a transaction key of the same peer *)
Lemma accept_key_differs host port t : t <> [] -> full_addr tcp host port t <> full_addr tcp host port [].
Proof. intros NE E. apply full_addr_inj_tid in E; [contradiction|reflexivity]. Qed.

(* ---- frames: entries under other keys are never touched ---- *)
Definition keepable (now_s : Z) (f : failover) : Prop :=
  match fo_pri f with Some pr => primary_expired now_s pr = false | None => True end.
Lemma keepable_conn now_s c ex sec : live now_s ex -> keepable now_s {| fo_pri := Some (PConn c ex); fo_sec := sec |}.
Proof. unfold live, keepable. cbn. intros H. apply andb_false_iff. right. apply Z.ltb_ge. exact H. Qed.
Lemma clean_expired_keep now_s p K f : alookup K (ps_table p) = Some f -> keepable now_s f ->
  alookup K (ps_table (clean_expired now_s p)) = Some f.
Proof.
  intros A Kp. unfold clean_expired. destruct (_ <? _); [exact A|]. cbn [ps_table].
  apply alookup_filter_keep; [exact A|]. cbn [snd]. unfold keepable in Kp.
  destruct (fo_pri f); [rewrite Kp|]; reflexivity.
Qed.
Lemma get_transport_other now_s pr h pt t p K f :
  alookup K (ps_table p) = Some f -> keepable now_s f ->
  K <> full_addr (to_lower pr) h pt t -> K <> full_addr (to_lower pr) h pt [] ->
  alookup K (ps_table (fst (get_transport now_s pr h pt t p))) = Some f.
Proof.
  intros A Kp N1 N2. unfold get_transport.
  pose proof (clean_expired_keep now_s p K f A Kp) as C. set (q := clean_expired now_s p) in *. clearbody q.
  destruct (negb _); [exact C|].
  destruct (alookup (full_addr (to_lower pr) h pt t) (ps_table q)); [exact C|].
  destruct (beq _ _).
  - destruct (resolvable h pt); [|exact C]. cbn [fst ps_table with_table]. rewrite alookup_aset_other by exact N1. exact C.
  - destruct (alookup (full_addr (to_lower pr) h pt []) (ps_table q)); cbn [fst ps_table with_table with_clients].
    + rewrite alookup_aset_other by exact N1. exact C.
    + rewrite alookup_aset_other by exact N1. rewrite alookup_aset_other by exact N2. exact C.
Qed.
Lemma get_transport_found now_s pr h pt t p f :
  supported_proto (to_lower pr) = true ->
  alookup (full_addr (to_lower pr) h pt t) (ps_table (clean_expired now_s p)) = Some f ->
  get_transport now_s pr h pt t p = (clean_expired now_s p, Ok (full_addr (to_lower pr) h pt t)).
Proof. intros S A. unfold get_transport. rewrite S, A. reflexivity. Qed.
(* GetTransport for tcp always yields the key, and the key is present afterwards *)
Lemma get_transport_tcp now_s h pt t p :
  snd (get_transport now_s tcp h pt t p) = Ok (full_addr tcp h pt t) /\
  exists f, alookup (full_addr tcp h pt t) (ps_table (fst (get_transport now_s tcp h pt t p))) = Some f.
Proof.
  unfold get_transport. set (q := clean_expired now_s p).
  change (to_lower tcp) with tcp. change (negb (supported_proto tcp)) with false. cbv iota.
  destruct (alookup (full_addr tcp h pt t) (ps_table q)) as [f|] eqn:A; [split; [reflexivity|exists f; exact A]|].
  change (beq tcp (s2b "udp")) with false. cbv iota.
  destruct (alookup (full_addr tcp h pt []) (ps_table q)); cbn [fst snd ps_table with_table]; (split; [reflexivity|]);
    eexists; apply alookup_aset_same.
Qed.
Lemma set_primary_same K pr p f : alookup K (ps_table p) = Some f ->
  alookup K (ps_table (set_primary K pr p)) = Some {| fo_pri := Some pr; fo_sec := fo_sec f |}.
Proof. intros A. unfold set_primary. rewrite A. cbn [ps_table with_table]. apply alookup_aset_same. Qed.
Lemma set_primary_other K K' pr p : K <> K' -> alookup K (ps_table (set_primary K' pr p)) = alookup K (ps_table p).
Proof.
  intros N. unfold set_primary. destruct (alookup K' (ps_table p)); [|reflexivity].
  cbn [ps_table with_table]. apply alookup_aset_other. exact N.
Qed.
Lemma remove_transport_other K pr h pt t p : K <> full_addr (to_lower pr) h pt t ->
  alookup K (ps_table (remove_transport pr h pt t p)) = alookup K (ps_table p).
Proof.
  intros N. unfold remove_transport. destruct (negb _); [reflexivity|]. cbn [ps_table with_table].
  apply alookup_adel_other. exact N.
Qed.

(* the table half of a proxy; sending over a reconnectable client changes only its cache *)
Lemma table_tcp_client_send n li local rs id b : forall p cs w outs,
  ps_table (fst (fst (fst (fst (tcp_client_send n li local rs id b p cs w outs))))) = ps_table p.
Proof.
  induction n as [|n IH]; intros p cs w outs; cbn [tcp_client_send]; [reflexivity|].
  destruct (find_client id (ps_clients p)) as [cl|]; [|reflexivity].
  destruct (tc_cached cl) as [c|].
  - destruct (conn_open cs c); [reflexivity|]. rewrite IH. reflexivity.
  - destruct (existsb _ _); [|reflexivity]. rewrite IH. reflexivity.
Qed.
Lemma conn_open_app cs cs' c : conn_open cs c = true -> conn_open (cs ++ cs') c = true.
Proof. unfold conn_open. rewrite existsb_app. intros ->. reflexivity. Qed.
Lemma conns_tcp_client_send n li local rs id b c : forall p cs w outs, conn_open cs c = true ->
  conn_open (snd (fst (fst (fst (tcp_client_send n li local rs id b p cs w outs))))) c = true.
Proof.
  induction n as [|n IH]; intros p cs w outs H; cbn [tcp_client_send]; [exact H|].
  destruct (find_client id (ps_clients p)) as [cl|]; [|exact H].
  destruct (tc_cached cl) as [c0|].
  - destruct (conn_open cs c0); [exact H|]. apply IH. exact H.
  - destruct (existsb _ _); [|exact H]. apply IH. apply conn_open_app. exact H.
Qed.
Lemma failover_send_frame li local rs f b p cs w c :
  let r := failover_send li local rs f b p cs w in
  ps_table (fst (fst (fst (fst (fst r))))) = ps_table p /\
  (conn_open cs c = true -> conn_open (snd (fst (fst (fst (fst r))))) c = true).
Proof.
  unfold failover_send.
  assert (T : forall f1 outs,
    let r := match fo_sec f1 with
             | Some id => let '(p2, cs2, w2, outs2, ok) := tcp_client_send 2 li local rs id b p cs w outs in
                          (p2, cs2, w2, outs2, ok, f1)
             | None => (p, cs, w, outs, false, f1)
             end in
    ps_table (fst (fst (fst (fst (fst r))))) = ps_table p /\
    (conn_open cs c = true -> conn_open (snd (fst (fst (fst (fst r))))) c = true)).
  { intros f1 outs. destruct (fo_sec f1) as [id|]; [|split; [reflexivity|intros H; exact H]].
    pose proof (table_tcp_client_send 2 li local rs id b p cs w outs) as H1.
    pose proof (conns_tcp_client_send 2 li local rs id b c p cs w outs) as H2.
    destruct (tcp_client_send 2 li local rs id b p cs w outs) as [[[[p2 cs2] w2] outs2] ok]. split; assumption. }
  destruct (fo_pri f) as [[ip port|ip port|c0 ex]|].
  - destruct (fits_datagram b); [split; [reflexivity|intros H; exact H]|apply T].
  - destruct (fits_datagram b); [split; [reflexivity|intros H; exact H]|apply T].
  - destruct (conn_open cs c0); [split; [reflexivity|intros H; exact H]|apply T].
  - apply T.
Qed.

Lemma get_transport_key now_s pr h pt t p key :
  snd (get_transport now_s pr h pt t p) = Ok key -> key = full_addr (to_lower pr) h pt t.
Proof.
  unfold get_transport. destruct (negb _); [discriminate|].
  destruct (alookup _ _); [intros H; injection H as <-; reflexivity|].
  destruct (beq _ _).
  - destruct (resolvable h pt); [intros H; injection H as <-; reflexivity|discriminate].
  - destruct (alookup _ _); intros H; injection H as <-; reflexivity.
Qed.

(* ================================================================== Part 3 (first half): sendMessage *)
Definition resolve (c : cfg) (host : bytes) : bytes := match get_ip c host with Some i => i | None => host end.
Definition tid_or_nil (m : message) : bytes := match tid_of m with Ok t => t | _ => [] end.

(* sendMessage touches three keys at most: the look-up key (resolved host), the connection-level
   key it may create next to it, the key it removes (host as written) *)
Lemma send_message_other e host port tr m x K f :
  alookup K (ps_table (x_p x)) = Some f -> keepable (now_s e) f ->
  K <> full_addr (to_lower tr) (resolve (e_cfg e) host) port (tid_or_nil m) ->
  K <> full_addr (to_lower tr) (resolve (e_cfg e) host) port [] ->
  K <> full_addr (to_lower tr) host port (tid_or_nil m) ->
  alookup K (ps_table (x_p (fst (send_message e host port tr m x)))) = Some f /\
  (forall c, conn_open (x_conns x) c = true -> conn_open (x_conns (fst (send_message e host port tr m x))) c = true).
Proof.
  intros A Kp N1 N2 N3. unfold send_message.
  pose proof (mtry_snd s_client_transaction m) as S. rewrite s_client_transaction_snd in S.
  destruct (mtry s_client_transaction m) as [m1 tid]. cbn [snd] in S.
  assert (T : match tid with Ok (Some t) => t | _ => [] end = tid_or_nil m).
  { subst tid. unfold tid_or_nil. destruct (tid_of m); reflexivity. }
  rewrite T. fold (resolve (e_cfg e) host).
  pose proof (get_transport_other (now_s e) tr (resolve (e_cfg e) host) port (tid_or_nil m) (x_p x) K f A Kp N1 N2) as G.
  pose proof (get_transport_key (now_s e) tr (resolve (e_cfg e) host) port (tid_or_nil m) (x_p x)) as GK.
  destruct (get_transport (now_s e) tr (resolve (e_cfg e) host) port (tid_or_nil m) (x_p x)) as [p1 rkey].
  cbn [fst snd] in G, GK.
  destruct rkey as [key| |]; cbn [fst x_p x_conns]; try (split; [exact G|intros c H; exact H]).
  specialize (GK key eq_refl). subst key.
  set (key := full_addr (to_lower tr) (resolve (e_cfg e) host) port (tid_or_nil m)) in *.
  set (p2 := match alookup key (ps_table p1) with
             | Some {| fo_pri := None |} => _ | _ => p1 end).
  assert (A2 : alookup K (ps_table p2) = Some f).
  { subst p2. destruct (alookup key (ps_table p1)) as [[[pr|] sec]|]; try exact G.
    destruct (_ && _)%bool; [exact G|].
    destruct (alookup (resolve (e_cfg e) host) (x_learned x)) as [[[| |] a pt]|]; try exact G.
    destruct (resolvable _ port); [|exact G]. rewrite set_primary_other by exact N1. exact G. }
  clearbody p2.
  destruct (alookup key (ps_table p2)) as [f0|]; cbn [fst x_p x_conns]; [|split; [exact A2|intros c H; exact H]].
  set (p3 := if is_final_response m1 then remove_transport tr host port (tid_or_nil m) p2 else p2).
  assert (A3 : alookup K (ps_table p3) = Some f).
  { subst p3. destruct (is_final_response m1); [|exact A2]. rewrite remove_transport_other by exact N3. exact A2. }
  clearbody p3.
  pose proof (failover_send_frame (e_li e) (lc_addr (e_lc e)) (pa_received_support (wire_proxy (e_lc e))) f0
                                  (write_message m1) p3 (x_conns x) (x_world x)) as F.
  destruct (failover_send _ _ _ f0 (write_message m1) p3 (x_conns x) (x_world x)) as [[[[[p4 cs] w] outs] ok] f'].
  cbn [fst snd x_p x_conns]. split.
  - destruct (F 0%nat) as [F1 _]. cbn [fst] in F1.
    destruct (alookup key (ps_table p4)); cbn [ps_table with_table]; [rewrite alookup_aset_other by exact N1|];
      rewrite F1; exact A3.
  - intros c H. destruct (F c) as [_ F2]. apply F2. exact H.
Qed.

(* the look-up finds the registered connection: the message is written to it, and only to it *)
Lemma send_message_conn e host port tr m x c ex sec t :
  tid_of m = Ok t -> to_lower tr = tcp ->
  alookup (full_addr tcp (resolve (e_cfg e) host) port t) (ps_table (x_p x))
    = Some {| fo_pri := Some (PConn c ex); fo_sec := sec |} ->
  live (now_s e) ex -> conn_open (x_conns x) c = true ->
  let K := full_addr tcp (resolve (e_cfg e) host) port t in
  let x' := fst (send_message e host port tr m x) in
  let m1 := fst (mtry s_client_transaction m) in
  x_outs x' = x_outs x ++ [(DConn c, write_message m1)] /\ x_conns x' = x_conns x /\
  ps_table (x_p x') =
    (if is_final_response m
     then (let tb := adel (full_addr tcp host port t) (ps_table (clean_expired (now_s e) (x_p x))) in
           match alookup K tb with
           | Some _ => aset K {| fo_pri := Some (PConn c ex); fo_sec := sec |} tb
           | None => tb
           end)
     else aset K {| fo_pri := Some (PConn c ex); fo_sec := sec |} (ps_table (clean_expired (now_s e) (x_p x)))).
Proof.
  intros Ht Htr A L O K x' m1. subst x' m1. unfold send_message.
  pose proof (mtry_snd s_client_transaction m) as S. rewrite s_client_transaction_snd, Ht in S.
  pose proof (pres_try names _ P_tid m) as K1.
  destruct (mtry s_client_transaction m) as [m1 tid]. cbn [fst snd] in S, K1 |- *. subst tid. cbn [opt_res].
  fold (resolve (e_cfg e) host).
  pose proof (clean_expired_keep (now_s e) (x_p x) K _ A (keepable_conn (now_s e) c ex sec L)) as C.
  rewrite (get_transport_found (now_s e) tr (resolve (e_cfg e) host) port t (x_p x) {| fo_pri := Some (PConn c ex); fo_sec := sec |});
    [|rewrite Htr; reflexivity|rewrite Htr; exact C].
  rewrite Htr. fold K. rewrite C. cbv iota. rewrite C.
  rewrite (k_is_final names m m1 K1).
  unfold failover_send. cbn [fo_pri].
  destruct (is_final_response m).
  - rewrite O. cbn [fst snd x_outs x_conns x_p]. split; [reflexivity|]. split; [reflexivity|].
    unfold remove_transport. rewrite Htr. change (negb (supported_proto tcp)) with false. cbv iota.
    cbn [ps_table with_table]. destruct (alookup K (adel _ _)); reflexivity.
  - rewrite O. cbn [fst snd x_outs x_conns x_p]. split; [reflexivity|]. split; [reflexivity|].
    rewrite C. reflexivity.
Qed.

(* ================================================================== Part 2: registration *)
(* received / rport stamping of the top Via entry *)
Definition stamp_via (rs : bool) (peer : bytes) (port : Z) (v : via_param) : via_param :=
  if rs then
    let v1 := via_set_param (s2b "received") peer v in
    if kv_has (s2b "rport") (v_params v1) then via_set_param (s2b "rport") (itoa port) v1 else v1
  else v.
Lemma kv_get_set_other n k val l : beq k n = false -> kv_get n (kv_set k val l) = kv_get n l.
Proof.
  intros NE. induction l as [|p r IH]; cbn.
  - rewrite NE. reflexivity.
  - destruct (beq (k_key p) k) eqn:E; cbn.
    + apply beq_eq in E. rewrite E, NE. reflexivity.
    + destruct (beq (k_key p) n); [reflexivity|exact IH].
Qed.
Lemma stamp_via_branch rs peer port v : via_get_branch (stamp_via rs peer port v) = via_get_branch v.
Proof.
  unfold stamp_via, via_get_branch. destruct rs; [|reflexivity].
  cbn zeta. destruct (kv_has _ _); unfold via_set_param; cbn [v_params];
    repeat rewrite kv_get_set_other by (vm_compute; reflexivity); reflexivity.
Qed.
Lemma top_after_stamp peer port m :
  top_via_of (fst (s_set_received peer port m)) = rmap (stamp_via true peer port) (top_via_of m).
Proof.
  rewrite !top_via_of_vals. unfold s_set_received, mbind.
  pose proof (get_via_vals m) as G.
  assert (S : snd (s_get_via m) = match hd_error (via_vals m) with Some v => sem_via v | None => Err end)
    by apply typed_get_snd.
  destruct (s_get_via m) as [m1 r]. cbn [fst snd] in *. subst r.
  destruct (via_vals m) as [|v0 vs]; cbn [hd_error]; [cbn [fst]; rewrite G; reflexivity|].
  assert (G' : forall l, sem_via v0 = Ok l -> via_vals m1 = HVia l :: vs).
  { intros l Hl. rewrite G. unfold sem_via, semg in Hl. destruct v0 as [s|l0|l0|l0|f|f|c]; cbn in Hl; try discriminate.
    - rewrite Hl. reflexivity.
    - injection Hl as ->. reflexivity. }
  cbn [top_of_vals].
  destruct (sem_via v0) as [l| |] eqn:Ev; cbn [fst rbind rmap].
  - specialize (G' l eq_refl). destruct l as [|v rest]; unfold merr, mmodify; cbn [fst].
    + rewrite G'. reflexivity.
    + unfold via_vals, set_val. cbn [m_headers with_headers]. rewrite hvals_update_same. fold (via_vals m1). rewrite G'.
      reflexivity.
  - rewrite G. unfold sem_via, semg in Ev. destruct v0 as [s|l0|l0|l0|f|f|c]; cbn in Ev; try discriminate;
      cbn [top_of_vals]; unfold sem_via, semg; cbn; try reflexivity. rewrite Ev. cbn. rewrite Ev. reflexivity.
  - rewrite G. unfold sem_via, semg in Ev. destruct v0 as [s|l0|l0|l0|f|f|c]; cbn in Ev; try discriminate.
    rewrite Ev. cbn [top_of_vals]. unfold sem_via, semg. cbn. rewrite Ev. reflexivity.
Qed.
Lemma decode_vias_rel hs :
  Forall2 (vrel (s2b "Via")) (hvals (s2b "Via") hs) (hvals (s2b "Via") (fst (decode_all_vias hs))).
Proof.
  unfold hvals. induction hs as [|h r IH]; cbn [decode_all_vias]; [constructor|].
  destruct (decode_all_vias r) as [r' vs]. cbn [fst] in IH.
  destruct (same_header (h_name h) (s2b "Via")) eqn:E.
  - assert (G0 : forall (vs' : list via_param),
      Forall2 (vrel (s2b "Via")) (map h_val (filter (fun x => same_header (h_name x) (s2b "Via")) (h :: r)))
                                 (map h_val (filter (fun x => same_header (h_name x) (s2b "Via")) (fst (h :: r', vs'))))).
    { intros vs'. cbn [filter fst]. rewrite E. cbn [map]. constructor; [left; reflexivity|exact IH]. }
    destruct (h_val h) as [s|l|l|l|f|f|c] eqn:Ev; try apply G0.
    destruct (parse_via s) as [l| |] eqn:Ep; try apply G0.
    cbn [filter fst h_name]. rewrite E. cbn [map h_val]. rewrite Ev. constructor; [|exact IH].
    right. cbn. split; [reflexivity|exact Ep].
  - cbn [filter fst]. rewrite E. exact IH.
Qed.
Lemma top_after_decode m : top_via_of (fst (s_all_via_params m)) = top_via_of m.
Proof.
  rewrite !top_via_of_vals. apply top_of_vals_rel. unfold via_vals, s_all_via_params.
  pose proof (decode_vias_rel (m_headers m)) as H. destruct (decode_all_vias (m_headers m)) as [hs vs]. exact H.
Qed.

(* host[1:len(host)-1] of handleRawMessage *)
Definition reg_host (fx : fixes) (host0 : bytes) : res bytes :=
  if has_prefix (s2b "[") host0
  then (if (fx_bracket_host fx && negb (has_suffix (s2b "]") host0 && Nat.leb 2 (List.length host0)))%bool
        then Ok host0 else slice_chk host0 1 (List.length host0 - 1))
  else Ok host0.
Lemma reg_host_plain fx h : has_prefix (s2b "[") h = false -> reg_host fx h = Ok h.
Proof. unfold reg_host. intros ->. reflexivity. Qed.
(* the state after the registration of connection c for the transaction (host, port, t) *)
Definition reg_pure (e : env) (c : nat) (host : bytes) (pt : Z) (t : bytes) (p : pstate) : pstate :=
  set_primary (full_addr tcp host pt t) (PConn c (now_s e + 3600)) (fst (get_transport (now_s e) tcp host pt t p)).
Lemma reg_pure_reg e c host pt t p : reg_at (full_addr tcp host pt t) c (now_s e + 3600) (reg_pure e c host pt t p).
Proof.
  unfold reg_pure, reg_at. destruct (get_transport_tcp (now_s e) host pt t p) as (_ & f & A).
  exists (fo_sec f). apply set_primary_same. exact A.
Qed.
Lemma reg_pure_other e c host pt t p K f : alookup K (ps_table p) = Some f -> keepable (now_s e) f ->
  K <> full_addr tcp host pt t -> K <> full_addr tcp host pt [] ->
  alookup K (ps_table (reg_pure e c host pt t p)) = Some f.
Proof.
  intros A Kp N1 N2. unfold reg_pure. rewrite set_primary_other by exact N1.
  apply (get_transport_other (now_s e) tcp host pt t p K f A Kp N1 N2).
Qed.
Lemma lb_reg_pure e c host pt t p : lb_eq p (reg_pure e c host pt t p).
Proof. unfold reg_pure. eapply lb_trans; [apply lb_get_transport|apply lb_set_primary]. Qed.

(* a TCP request through handleRawMessage: the exact state handed on *)
Lemma process_message_tcp_request e peer pport from rs c m x v cs br h0 pt tr0 host :
  is_request m = true -> top_via_of m = Ok v -> snd (s_get_cseq m) = Ok cs -> via_get_branch v = Some br ->
  hop_of_via (stamp_via rs peer pport v) = (h0, pt, tr0) -> reg_host (e_fx e) h0 = Ok host ->
  exists m3 l1, keeps NP m m3 /\
    process_message e peer pport from rs (Some c) m x =
    pm_tail e peer pport from m3 (reg_pure e c host pt (cs_method cs ++ "-"%char :: br) (x_p x)) l1 x.
Proof.
  intros R TV CS BR HOP RH. unfold process_message. rewrite R. cbn [andb].
  set (ML := if negb (amem peer (ps_backends (x_p x))) then _ else _).
  assert (K1 : keeps NP m (fst ML) /\ top_via_of (fst ML) = top_via_of m).
  { subst ML. destruct (negb _); [|split; [apply keeps_refl|reflexivity]].
    pose proof (pres_all_via_params NP NP_novia m) as K. pose proof (top_after_decode m) as T.
    destruct (s_all_via_params m) as [m' vs]. split; assumption. }
  destruct ML as [m1 l1]. cbn [fst] in K1. destruct K1 as [K1 T1].
  assert (R1 : is_request m1 = true) by (rewrite (k_is_request NP m m1 K1); exact R).
  rewrite R1. cbn [andb].
  set (m2 := if rs then fst (s_set_received peer pport m1) else m1).
  assert (K2 : keeps NP m m2).
  { subst m2. destruct rs; [|exact K1]. eapply keeps_trans; [exact K1|]. apply pres_set_received. apply NP_novia. }
  assert (T2 : top_via_of m2 = Ok (stamp_via rs peer pport v)).
  { subst m2. destruct rs; [rewrite top_after_stamp, T1, TV; reflexivity|rewrite T1; exact TV]. }
  assert (R2 : is_request m2 = true) by (rewrite (k_is_request NP m m2 K2); exact R).
  clearbody m2. clear K1 R1 T1 m1. rewrite R2.
  pose proof (pres_try names _ (pres_next_response_hop names all_names_incl) m2) as K3.
  pose proof (mtry_snd next_response_hop m2) as S3. rewrite next_response_hop_snd, T2 in S3. cbn [rmap] in S3. rewrite HOP in S3.
  destruct (mtry next_response_hop m2) as [m' hop]. cbn [fst snd] in K3, S3. subst hop. cbn [opt_res].
  fold (reg_host (e_fx e) h0). rewrite RH.
  pose proof (pres_try names _ P_tid m') as K4.
  pose proof (mtry_snd s_client_transaction m') as S4.
  assert (K23 : keeps names m2 m') by exact K3.
  rewrite s_client_transaction_snd, (tid_of_keeps names m2 m' K23) in S4 by in_names.
  unfold tid_of in S4. rewrite T2, (k_cseq NP m m2 K2 ltac:(in_names)), CS in S4. cbn [rbind] in S4.
  rewrite stamp_via_branch, BR in S4. cbn [of_opt rbind opt_res] in S4.
  destruct (mtry s_client_transaction m') as [m'' tid]. cbn [fst snd] in K4, S4. subst tid.
  pose proof (get_transport_tcp (now_s e) host pt (cs_method cs ++ "-"%char :: br) (x_p x)) as [GK _].
  unfold reg_pure. fold tcp.
  destruct (get_transport (now_s e) tcp host pt (cs_method cs ++ "-"%char :: br) (x_p x)) as [p1 rk].
  cbn [fst snd] in GK |- *. subst rk.
  exists m'', l1. split; [|reflexivity].
  eapply keeps_trans; [exact K2|]. eapply keeps_incl; [apply NP_names|]. eapply keeps_trans; eassumption.
Qed.

(* the registration block of handleRawMessage, once the learning and the stamping are done *)
Definition pm_block (e : env) (peer : bytes) (peer_port : Z) (from : stransport) (c : nat) (m2 : message)
           (l1 : learned) (x : ctx) : res ctx :=
  let '(m3, rp) :=
    if is_request m2 then
      let '(m', hop) := mtry next_response_hop m2 in
      match hop with
      | Ok oh =>
          let host0 := match oh with Some (h, _, _) => h | None => [] end in
          let port := match oh with Some (_, p, _) => p | None => 0 end in
          match (if has_prefix (s2b "[") host0
                 then (if (fx_bracket_host (e_fx e) && negb (has_suffix (s2b "]") host0 && Nat.leb 2 (List.length host0)))%bool
                       then Ok host0 else slice_chk host0 1 (List.length host0 - 1))
                 else Ok host0) with
          | Panic => (m', Panic)
          | Err => (m', Err)
          | Ok host =>
              match oh with
              | None => (m', Ok (x_p x))
              | Some _ =>
                  let '(m'', tid) := mtry s_client_transaction m' in
                  match tid with
                  | Ok (Some t) =>
                      let '(p1, rk) := get_transport (now_s e) (s2b "tcp") host port t (x_p x) in
                      match rk with
                      | Ok key => (m'', Ok (set_primary key (PConn c (now_s e + 3600)) p1))
                      | _ => (m'', Ok p1)
                      end
                  | _ => (m'', Ok (x_p x))
                  end
              end
          end
      | _ => (m', Ok (x_p x))
      end
    else (m2, Ok (x_p x)) in
  match rp with
  | Panic => Panic
  | Err => Err
  | Ok p1 => pm_tail e peer peer_port from m3 p1 l1 x
  end.
Lemma pm_tcp_prefix e peer pport from rs c m x : is_request m = true ->
  exists m2 l1, keeps NP m m2 /\ top_via_of m2 = rmap (stamp_via rs peer pport) (top_via_of m) /\
                process_message e peer pport from rs (Some c) m x = pm_block e peer pport from c m2 l1 x.
Proof.
  intros R. unfold process_message. rewrite R. cbn [andb].
  set (ML := if negb (amem peer (ps_backends (x_p x))) then _ else _).
  assert (K1 : keeps NP m (fst ML) /\ top_via_of (fst ML) = top_via_of m).
  { subst ML. destruct (negb _); [|split; [apply keeps_refl|reflexivity]].
    pose proof (pres_all_via_params NP NP_novia m) as K. pose proof (top_after_decode m) as T.
    destruct (s_all_via_params m) as [m' vs]. split; assumption. }
  destruct ML as [m1 l1]. cbn [fst] in K1. destruct K1 as [K1 T1].
  assert (R1 : is_request m1 = true) by (rewrite (k_is_request NP m m1 K1); exact R).
  rewrite R1. cbn [andb].
  set (m2 := if rs then fst (s_set_received peer pport m1) else m1).
  assert (K2 : keeps NP m m2).
  { subst m2. destruct rs; [|exact K1]. eapply keeps_trans; [exact K1|]. apply pres_set_received. apply NP_novia. }
  assert (T2 : top_via_of m2 = rmap (stamp_via rs peer pport) (top_via_of m)).
  { subst m2. destruct rs; [rewrite top_after_stamp, T1; reflexivity|].
    rewrite T1. unfold stamp_via. destruct (top_via_of m); reflexivity. }
  clearbody m2. exists m2, l1. split; [exact K2|]. split; [exact T2|]. reflexivity.
Qed.
(* the registration target of a TCP request, read from the stamped message *)
Definition reg_target2 (fx : fixes) (m2 : message) : option (bytes * Z * bytes) :=
  match top_via_of m2 with
  | Ok v =>
      match reg_host fx (fst (fst (hop_of_via v))), snd (s_get_cseq m2), via_get_branch v with
      | Ok host, Ok cs, Some br => Some (host, snd (fst (hop_of_via v)), cs_method cs ++ "-"%char :: br)
      | _, _, _ => None
      end
  | _ => None
  end.
Definition reg_state2 (e : env) (c : nat) (m2 : message) (p : pstate) : pstate :=
  match reg_target2 (e_fx e) m2 with
  | Some (host, pt, t) => reg_pure e c host pt t p
  | None => p
  end.
Lemma pm_block_spec e peer pport from c m2 l1 x : is_request m2 = true ->
  (exists m3, keeps names m2 m3 /\
     pm_block e peer pport from c m2 l1 x = pm_tail e peer pport from m3 (reg_state2 e c m2 (x_p x)) l1 x) \/
  pm_block e peer pport from c m2 l1 x = Err \/ pm_block e peer pport from c m2 l1 x = Panic.
Proof.
  intros R2. unfold pm_block, reg_state2, reg_target2. rewrite R2.
  pose proof (pres_try names _ (pres_next_response_hop names all_names_incl) m2) as K3.
  pose proof (mtry_snd next_response_hop m2) as S3. rewrite next_response_hop_snd in S3.
  destruct (mtry next_response_hop m2) as [m' hop]. cbn [fst snd] in K3, S3. subst hop.
  destruct (top_via_of m2) as [v| |] eqn:TV; cbn [rmap opt_res].
  - destruct (hop_of_via v) as [[h0 pt] tr0] eqn:HOP. cbn [fst snd]. fold (reg_host (e_fx e) h0).
    destruct (reg_host (e_fx e) h0) as [host| |] eqn:RH; [|right; left; reflexivity|right; right; reflexivity].
    left.
    pose proof (pres_try names _ P_tid m') as K4.
    pose proof (mtry_snd s_client_transaction m') as S4.
    rewrite s_client_transaction_snd, (tid_of_keeps names m2 m' K3) in S4 by in_names.
    unfold tid_of in S4. rewrite TV in S4.
    destruct (mtry s_client_transaction m') as [m'' tid]. cbn [fst snd] in K4, S4. subst tid.
    assert (K24 : keeps names m2 m'') by (eapply keeps_trans; eassumption).
    destruct (snd (s_get_cseq m2)) as [cs| |]; cbn [rbind opt_res]; try (exists m''; split; [exact K24|reflexivity]).
    destruct (via_get_branch v) as [br|]; cbn [of_opt rbind opt_res]; try (exists m''; split; [exact K24|reflexivity]).
    pose proof (get_transport_tcp (now_s e) host pt (cs_method cs ++ "-"%char :: br) (x_p x)) as [GK _].
    unfold reg_pure. fold tcp.
    destruct (get_transport (now_s e) tcp host pt (cs_method cs ++ "-"%char :: br) (x_p x)) as [p1 rk].
    cbn [fst snd] in GK |- *. subst rk. exists m''. split; [exact K24|reflexivity].
  - left. exists m'. split; [exact K3|reflexivity].
  - left. exists m'. split; [exact K3|reflexivity].
Qed.
