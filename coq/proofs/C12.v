(* C12.v — responses to TCP requests return on the connection the request used.
   Part 1: the transport table (keys, frames).  Part 2: registration.  Part 3: look-up and send.
   Part 4: until the final response; the B2 caveat.  Part 5: events and histories.
   Part 6: computed examples.  Reuses the header framework of C04.v.  No axioms, no admits. *)
From Coq Require Import List Ascii String ZArith NArith Bool Lia.
From Model Require Import Bytes BytesLemmas Uri Hdr Message Msg Rx Glob StaticRoute RoundRobin Pins Proxy.
From Model.proofs Require Import C04.
Import ListNotations.
Open Scope Z_scope.

(* ================================================================== Part 1: the transport table *)
Definition tcp : bytes := s2b "tcp".
(* an inbound-connection primary is kept by the sweep as long as now <= its expiry *)
Definition live (now_s ex : Z) : Prop := now_s <= ex.
(* the table maps K to a fail-over entry whose primary is connection c *)
Definition reg_at (K : bytes) (c : nat) (ex : Z) (p : pstate) : Prop :=
  exists sec, alookup K (ps_table p) = Some {| fo_pri := Some (PConn c ex); fo_sec := sec |}.

(* ---- keys ---- *)
(* distinct transaction ids give distinct keys for the same protocol / host / port *)
Theorem full_addr_inj_tid : forall proto host port t t',
  full_addr proto host port t = full_addr proto host port t' -> beq proto tcp = true -> t = t'.
Proof.
  intros proto host port t t' E P. unfold full_addr in E. fold tcp in E. rewrite P in E. cbn [andb] in E.
  destruct t as [|a t], t' as [|a' t']; cbn [beq negb] in E.
  - reflexivity.
  - exfalso. rewrite <- (app_nil_r (proto ++ _ ++ _)) in E at 1. apply app_inv_head in E. discriminate.
  - exfalso. rewrite <- (app_nil_r (proto ++ _ ++ _)) in E at 2. apply app_inv_head in E. discriminate.
  - apply app_inv_head in E. injection E as -> ->. reflexivity.
Qed.
(* transaction ids of distinct (method, branch) pairs differ when methods carry no '-' *)
Theorem tid_inj : forall m b m' b', ~ In "-"%char m -> ~ In "-"%char m' ->
  m ++ "-"%char :: b = m' ++ "-"%char :: b' -> m = m' /\ b = b'.
Proof.
  intros m b m' b' N N' E.
  pose proof (index_byte_app_notin "-"%char m b N) as I1. rewrite E in I1.
  rewrite (index_byte_app_notin "-"%char m' b' N') in I1. injection I1 as L.
  assert (M : m = m').
  { rewrite <- (firstn_length_app m ("-"%char :: b)), E, <- L. apply firstn_length_app. }
  subst m'. apply app_inv_head in E. injection E as ->. split; reflexivity.
Qed.
Corollary keys_differ : forall host port m b m' b', ~ In "-"%char m -> ~ In "-"%char m' -> (m, b) <> (m', b') ->
  full_addr tcp host port (m ++ "-"%char :: b) <> full_addr tcp host port (m' ++ "-"%char :: b').
Proof.
  intros host port m b m' b' N N' NE E. apply full_addr_inj_tid in E; [|reflexivity].
  apply tid_inj in E; try assumption. destruct E as [-> ->]. apply NE. reflexivity.
Qed.
(* the connection-level key of ConnAccepted (no transaction id) differs from a transaction key of the same peer *)
Lemma accept_key_differs host port t : t <> [] -> full_addr tcp host port t <> full_addr tcp host port [].
Proof. intros NE E. apply full_addr_inj_tid in E; [contradiction|reflexivity]. Qed.

(* ---- frames: entries under other keys are never touched ---- *)
Definition keepable (now_s : Z) (f : failover) : Prop :=
  match fo_pri f with Some pr => primary_expired now_s pr = false | None => True end.
Lemma keepable_conn now_s c ex sec : live now_s ex -> keepable now_s {| fo_pri := Some (PConn c ex); fo_sec := sec |}.
Proof. unfold live, keepable. cbn. intros H. apply andb_false_iff. right. apply Z.ltb_ge. exact H. Qed.
Lemma clean_expired_keep now_s p K f : alookup K (ps_table p) = Some f -> keepable now_s f ->
  alookup K (ps_table (clean_expired now_s p)) = Some f.
Proof.
  intros A Kp. unfold clean_expired. destruct (_ <? _); [exact A|]. cbn [ps_table].
  apply alookup_filter_keep; [exact A|]. cbn [snd]. unfold keepable in Kp.
  destruct (fo_pri f); [rewrite Kp|]; reflexivity.
Qed.
Lemma get_transport_other now_s pr h pt t p K f :
  alookup K (ps_table p) = Some f -> keepable now_s f ->
  K <> full_addr (to_lower pr) h pt t -> K <> full_addr (to_lower pr) h pt [] ->
  alookup K (ps_table (fst (get_transport now_s pr h pt t p))) = Some f.
Proof.
  intros A Kp N1 N2. unfold get_transport.
  pose proof (clean_expired_keep now_s p K f A Kp) as C. set (q := clean_expired now_s p) in *. clearbody q.
  destruct (negb _); [exact C|].
  destruct (alookup (full_addr (to_lower pr) h pt t) (ps_table q)); [exact C|].
  destruct (beq _ _).
  - destruct (resolvable h pt); [|exact C]. cbn [fst ps_table with_table]. rewrite alookup_aset_other by exact N1. exact C.
  - destruct (alookup (full_addr (to_lower pr) h pt []) (ps_table q)); cbn [fst ps_table with_table with_clients].
    + rewrite alookup_aset_other by exact N1. exact C.
    + rewrite alookup_aset_other by exact N1. rewrite alookup_aset_other by exact N2. exact C.
Qed.
Lemma get_transport_found now_s pr h pt t p f :
  supported_proto (to_lower pr) = true ->
  alookup (full_addr (to_lower pr) h pt t) (ps_table (clean_expired now_s p)) = Some f ->
  get_transport now_s pr h pt t p = (clean_expired now_s p, Ok (full_addr (to_lower pr) h pt t)).
Proof. intros S A. unfold get_transport. rewrite S, A. reflexivity. Qed.
(* GetTransport for tcp always yields the key, and the key is present afterwards *)
Lemma get_transport_tcp now_s h pt t p :
  snd (get_transport now_s tcp h pt t p) = Ok (full_addr tcp h pt t) /\
  exists f, alookup (full_addr tcp h pt t) (ps_table (fst (get_transport now_s tcp h pt t p))) = Some f.
Proof.
  unfold get_transport. set (q := clean_expired now_s p).
  change (to_lower tcp) with tcp. change (negb (supported_proto tcp)) with false. cbv iota.
  destruct (alookup (full_addr tcp h pt t) (ps_table q)) as [f|] eqn:A; [split; [reflexivity|exists f; exact A]|].
  change (beq tcp (s2b "udp")) with false. cbv iota.
  destruct (alookup (full_addr tcp h pt []) (ps_table q)); cbn [fst snd ps_table with_table]; (split; [reflexivity|]);
    eexists; apply alookup_aset_same.
Qed.
Lemma set_primary_same K pr p f : alookup K (ps_table p) = Some f ->
  alookup K (ps_table (set_primary K pr p)) = Some {| fo_pri := Some pr; fo_sec := fo_sec f |}.
Proof. intros A. unfold set_primary. rewrite A. cbn [ps_table with_table]. apply alookup_aset_same. Qed.
Lemma set_primary_other K K' pr p : K <> K' -> alookup K (ps_table (set_primary K' pr p)) = alookup K (ps_table p).
Proof.
  intros N. unfold set_primary. destruct (alookup K' (ps_table p)); [|reflexivity].
  cbn [ps_table with_table]. apply alookup_aset_other. exact N.
Qed.
Lemma remove_transport_other K pr h pt t p : K <> full_addr (to_lower pr) h pt t ->
  alookup K (ps_table (remove_transport pr h pt t p)) = alookup K (ps_table p).
Proof.
  intros N. unfold remove_transport. destruct (negb _); [reflexivity|]. cbn [ps_table with_table].
  apply alookup_adel_other. exact N.
Qed.

(* the table half of a proxy; sending over a reconnectable client changes only its cache *)
Lemma table_tcp_client_send n li local rs id b : forall p cs w outs,
  ps_table (fst (fst (fst (fst (tcp_client_send n li local rs id b p cs w outs))))) = ps_table p.
Proof.
  induction n as [|n IH]; intros p cs w outs; cbn [tcp_client_send]; [reflexivity|].
  destruct (find_client id (ps_clients p)) as [cl|]; [|reflexivity].
  destruct (tc_cached cl) as [c|].
  - destruct (conn_open cs c); [reflexivity|]. rewrite IH. reflexivity.
  - destruct (existsb _ _); reflexivity.
Qed.
Lemma conn_open_app cs cs' c : conn_open cs c = true -> conn_open (cs ++ cs') c = true.
Proof. unfold conn_open. rewrite existsb_app. intros ->. reflexivity. Qed.
Lemma conns_tcp_client_send n li local rs id b c : forall p cs w outs, conn_open cs c = true ->
  conn_open (snd (fst (fst (fst (tcp_client_send n li local rs id b p cs w outs))))) c = true.
Proof.
  induction n as [|n IH]; intros p cs w outs H; cbn [tcp_client_send]; [exact H|].
  destruct (find_client id (ps_clients p)) as [cl|]; [|exact H].
  destruct (tc_cached cl) as [c0|].
  - destruct (conn_open cs c0); [exact H|]. apply IH. exact H.
  - destruct (existsb _ _); [|exact H]. cbn [fst snd]. apply conn_open_app. exact H.
Qed.
Lemma failover_send_frame li local rs f b p cs w c :
  let r := failover_send li local rs f b p cs w in
  ps_table (fst (fst (fst (fst (fst r))))) = ps_table p /\
  (conn_open cs c = true -> conn_open (snd (fst (fst (fst (fst r))))) c = true).
Proof.
  unfold failover_send.
  assert (T : forall f1 outs,
    let r := match fo_sec f1 with
             | Some id => let '(p2, cs2, w2, outs2, ok) := tcp_client_send 2 li local rs id b p cs w outs in
                          (p2, cs2, w2, outs2, ok, f1)
             | None => (p, cs, w, outs, false, f1)
             end in
    ps_table (fst (fst (fst (fst (fst r))))) = ps_table p /\
    (conn_open cs c = true -> conn_open (snd (fst (fst (fst (fst r))))) c = true)).
  { intros f1 outs. destruct (fo_sec f1) as [id|]; [|split; [reflexivity|intros H; exact H]].
    pose proof (table_tcp_client_send 2 li local rs id b p cs w outs) as H1.
    pose proof (conns_tcp_client_send 2 li local rs id b c p cs w outs) as H2.
    destruct (tcp_client_send 2 li local rs id b p cs w outs) as [[[[p2 cs2] w2] outs2] ok]. split; assumption. }
  destruct (fo_pri f) as [[ip port|ip port|c0 ex]|].
  - destruct (fits_datagram b); [split; [reflexivity|intros H; exact H]|apply T].
  - destruct (fits_datagram b); [split; [reflexivity|intros H; exact H]|apply T].
  - destruct (conn_open cs c0); [split; [reflexivity|intros H; exact H]|apply T].
  - apply T.
Qed.

Lemma get_transport_key now_s pr h pt t p key :
  snd (get_transport now_s pr h pt t p) = Ok key -> key = full_addr (to_lower pr) h pt t.
Proof.
  unfold get_transport. destruct (negb _); [discriminate|].
  destruct (alookup _ _); [intros H; injection H as <-; reflexivity|].
  destruct (beq _ _).
  - destruct (resolvable h pt); [intros H; injection H as <-; reflexivity|discriminate].
  - destruct (alookup _ _); intros H; injection H as <-; reflexivity.
Qed.

(* ================================================================== Part 3 (first half): sendMessage *)
Definition resolve (c : cfg) (host : bytes) : bytes := match get_ip c host with Some i => i | None => host end.
Definition tid_or_nil (m : message) : bytes := match tid_of m with Ok t => t | _ => [] end.
(* the host under which the per-transaction entry is filed (handleRawMessage) and dropped
   (sendMessage): the resolved address after the repair, the host as written before it *)
Definition key_host (e : env) (host : bytes) : bytes :=
  if fx_resolved_key (e_fx e) then resolve (e_cfg e) host else host.
Lemma key_host_fixed e host : fx_resolved_key (e_fx e) = true -> key_host e host = resolve (e_cfg e) host.
Proof. unfold key_host. intros ->. reflexivity. Qed.
(* resolving is the identity on IPv4 literals and on unknown names; it is idempotent when the
   host table maps names to IPv4 literals *)
Lemma resolve_ipv4 c h : is_ipv4 h = true -> resolve c h = h.
Proof. unfold resolve, get_ip. intros ->. reflexivity. Qed.
Lemma resolve_unknown c h : is_ipv4 h = false -> alookup h (c_hosts c) = None -> resolve c h = h.
Proof. unfold resolve, get_ip. intros -> ->. reflexivity. Qed.
Lemma resolve_idem c h : (forall n ip, alookup n (c_hosts c) = Some ip -> is_ipv4 ip = true) ->
  resolve c (resolve c h) = resolve c h.
Proof.
  intros HT. destruct (is_ipv4 h) eqn:E.
  - rewrite (resolve_ipv4 c h E). apply resolve_ipv4. exact E.
  - destruct (alookup h (c_hosts c)) as [ip|] eqn:A.
    + assert (R : resolve c h = ip) by (unfold resolve, get_ip; rewrite E, A; reflexivity).
      rewrite R. apply resolve_ipv4. exact (HT h ip A).
    + rewrite (resolve_unknown c h E A). apply resolve_unknown; assumption.
Qed.

(* sendMessage touches three keys at most: the look-up key (resolved host), the connection-level
   key it may create next to it, the key it removes (the look-up key again after the repair) *)
Lemma send_message_other e host port tr m x K f :
  alookup K (ps_table (x_p x)) = Some f -> keepable (now_s e) f ->
  K <> full_addr (to_lower tr) (resolve (e_cfg e) host) port (tid_or_nil m) ->
  K <> full_addr (to_lower tr) (resolve (e_cfg e) host) port [] ->
  K <> full_addr (to_lower tr) (key_host e host) port (tid_or_nil m) ->
  alookup K (ps_table (x_p (fst (send_message e host port tr m x)))) = Some f /\
  (forall c, conn_open (x_conns x) c = true -> conn_open (x_conns (fst (send_message e host port tr m x))) c = true).
Proof.
  intros A Kp N1 N2 N3. unfold send_message.
  pose proof (mtry_snd s_client_transaction m) as S. rewrite s_client_transaction_snd in S.
  destruct (mtry s_client_transaction m) as [m1 tid]. cbn [snd] in S.
  assert (T : match tid with Ok (Some t) => t | _ => [] end = tid_or_nil m).
  { subst tid. unfold tid_or_nil. destruct (tid_of m); reflexivity. }
  rewrite T. fold (resolve (e_cfg e) host). fold (key_host e host).
  pose proof (get_transport_other (now_s e) tr (resolve (e_cfg e) host) port (tid_or_nil m) (x_p x) K f A Kp N1 N2) as G.
  pose proof (get_transport_key (now_s e) tr (resolve (e_cfg e) host) port (tid_or_nil m) (x_p x)) as GK.
  destruct (get_transport (now_s e) tr (resolve (e_cfg e) host) port (tid_or_nil m) (x_p x)) as [p1 rkey].
  cbn [fst snd] in G, GK.
  destruct rkey as [key| |]; cbn [fst x_p x_conns]; try (split; [exact G|intros c H; exact H]).
  specialize (GK key eq_refl). subst key.
  set (key := full_addr (to_lower tr) (resolve (e_cfg e) host) port (tid_or_nil m)) in *.
  set (p2 := match alookup key (ps_table p1) with
             | Some {| fo_pri := None |} => _ | _ => p1 end).
  assert (A2 : alookup K (ps_table p2) = Some f).
  { subst p2. destruct (alookup key (ps_table p1)) as [[[pr|] sec]|]; try exact G.
    destruct (_ && _)%bool; [exact G|].
    destruct (alookup (resolve (e_cfg e) host) (x_learned x)) as [[[| |] a pt]|]; try exact G.
    destruct (resolvable _ port); [|exact G]. rewrite set_primary_other by exact N1. exact G. }
  clearbody p2.
  destruct (alookup key (ps_table p2)) as [f0|]; cbn [fst x_p x_conns]; [|split; [exact A2|intros c H; exact H]].
  set (p3 := if is_final_response m1 then remove_transport tr (key_host e host) port (tid_or_nil m) p2 else p2).
  assert (A3 : alookup K (ps_table p3) = Some f).
  { subst p3. destruct (is_final_response m1); [|exact A2]. rewrite remove_transport_other by exact N3. exact A2. }
  clearbody p3.
  pose proof (failover_send_frame (e_li e) (lc_addr (e_lc e)) (pa_received_support (wire_proxy (e_lc e))) f0
                                  (write_message m1) p3 (x_conns x) (x_world x)) as F.
  destruct (failover_send _ _ _ f0 (write_message m1) p3 (x_conns x) (x_world x)) as [[[[[p4 cs] w] outs] ok] f'].
  cbn [fst snd x_p x_conns]. split.
  - destruct (F 0%nat) as [F1 _]. cbn [fst] in F1.
    destruct (alookup key (ps_table p4)); cbn [ps_table with_table]; [rewrite alookup_aset_other by exact N1|];
      rewrite F1; exact A3.
  - intros c H. destruct (F c) as [_ F2]. apply F2. exact H.
Qed.

(* the look-up finds the registered connection: the message is written to it, and only to it *)
Lemma send_message_conn e host port tr m x c ex sec t :
  tid_of m = Ok t -> to_lower tr = tcp ->
  alookup (full_addr tcp (resolve (e_cfg e) host) port t) (ps_table (x_p x))
    = Some {| fo_pri := Some (PConn c ex); fo_sec := sec |} ->
  live (now_s e) ex -> conn_open (x_conns x) c = true ->
  let K := full_addr tcp (resolve (e_cfg e) host) port t in
  let x' := fst (send_message e host port tr m x) in
  let m1 := fst (mtry s_client_transaction m) in
  x_outs x' = x_outs x ++ [(DConn c, write_message m1)] /\ x_conns x' = x_conns x /\
  ps_table (x_p x') =
    (if is_final_response m
     then (let tb := adel (full_addr tcp (key_host e host) port t) (ps_table (clean_expired (now_s e) (x_p x))) in
           match alookup K tb with
           | Some _ => aset K {| fo_pri := Some (PConn c ex); fo_sec := sec |} tb
           | None => tb
           end)
     else aset K {| fo_pri := Some (PConn c ex); fo_sec := sec |} (ps_table (clean_expired (now_s e) (x_p x)))).
Proof.
  intros Ht Htr A L O K x' m1. subst x' m1. unfold send_message.
  pose proof (mtry_snd s_client_transaction m) as S. rewrite s_client_transaction_snd, Ht in S.
  pose proof (pres_try names _ P_tid m) as K1.
  destruct (mtry s_client_transaction m) as [m1 tid]. cbn [fst snd] in S, K1 |- *. subst tid. cbn [opt_res].
  fold (resolve (e_cfg e) host). fold (key_host e host).
  pose proof (clean_expired_keep (now_s e) (x_p x) K _ A (keepable_conn (now_s e) c ex sec L)) as C.
  rewrite (get_transport_found (now_s e) tr (resolve (e_cfg e) host) port t (x_p x) {| fo_pri := Some (PConn c ex); fo_sec := sec |});
    [|rewrite Htr; reflexivity|rewrite Htr; exact C].
  rewrite Htr. fold K. rewrite C. cbv iota. rewrite C.
  rewrite (k_is_final names m m1 K1).
  unfold failover_send. cbn [fo_pri].
  destruct (is_final_response m).
  - rewrite O. cbn [fst snd x_outs x_conns x_p]. split; [reflexivity|]. split; [reflexivity|].
    unfold remove_transport. rewrite Htr. change (negb (supported_proto tcp)) with false. cbv iota.
    cbn [ps_table with_table]. destruct (alookup K (adel _ _)); reflexivity.
  - rewrite O. cbn [fst snd x_outs x_conns x_p]. split; [reflexivity|]. split; [reflexivity|].
    rewrite C. reflexivity.
Qed.

(* ================================================================== Part 2: registration *)
(* received / rport stamping of the top Via entry *)
Definition stamp_via (rs : bool) (peer : bytes) (port : Z) (v : via_param) : via_param :=
  if rs then
    let v1 := via_set_param (s2b "received") peer v in
    if kv_has (s2b "rport") (v_params v1) then via_set_param (s2b "rport") (itoa port) v1 else v1
  else v.
Lemma kv_get_set_other n k val l : beq k n = false -> kv_get n (kv_set k val l) = kv_get n l.
Proof.
  intros NE. induction l as [|p r IH]; cbn.
  - rewrite NE. reflexivity.
  - destruct (beq (k_key p) k) eqn:E; cbn.
    + apply beq_eq in E. rewrite E, NE. reflexivity.
    + destruct (beq (k_key p) n); [reflexivity|exact IH].
Qed.
Lemma stamp_via_branch rs peer port v : via_get_branch (stamp_via rs peer port v) = via_get_branch v.
Proof.
  unfold stamp_via, via_get_branch. destruct rs; [|reflexivity].
  cbn zeta. destruct (kv_has _ _); unfold via_set_param; cbn [v_params];
    repeat rewrite kv_get_set_other by (vm_compute; reflexivity); reflexivity.
Qed.
Lemma top_after_stamp peer port m :
  top_via_of (fst (s_set_received peer port m)) = rmap (stamp_via true peer port) (top_via_of m).
Proof.
  rewrite !top_via_of_vals. unfold s_set_received, mbind.
  pose proof (get_via_vals m) as G.
  assert (S : snd (s_get_via m) = match hd_error (via_vals m) with Some v => sem_via v | None => Err end)
    by apply typed_get_snd.
  destruct (s_get_via m) as [m1 r]. cbn [fst snd] in *. subst r.
  destruct (via_vals m) as [|v0 vs]; cbn [hd_error]; [cbn [fst]; rewrite G; reflexivity|].
  assert (G' : forall l, sem_via v0 = Ok l -> via_vals m1 = HVia l :: vs).
  { intros l Hl. rewrite G. unfold sem_via, semg in Hl. destruct v0 as [s|l0|l0|l0|f|f|c]; cbn in Hl; try discriminate.
    - rewrite Hl. reflexivity.
    - injection Hl as ->. reflexivity. }
  cbn [top_of_vals].
  destruct (sem_via v0) as [l| |] eqn:Ev; cbn [fst rbind rmap].
  - specialize (G' l eq_refl). destruct l as [|v rest]; unfold merr, mmodify; cbn [fst].
    + rewrite G'. reflexivity.
    + unfold via_vals, set_val. cbn [m_headers with_headers]. rewrite hvals_update_same. fold (via_vals m1). rewrite G'.
      reflexivity.
  - rewrite G. unfold sem_via, semg in Ev. destruct v0 as [s|l0|l0|l0|f|f|c]; cbn in Ev; try discriminate;
      cbn [top_of_vals]; unfold sem_via, semg; cbn; try reflexivity. rewrite Ev. cbn. rewrite Ev. reflexivity.
  - rewrite G. unfold sem_via, semg in Ev. destruct v0 as [s|l0|l0|l0|f|f|c]; cbn in Ev; try discriminate.
    rewrite Ev. cbn [top_of_vals]. unfold sem_via, semg. cbn. rewrite Ev. reflexivity.
Qed.
Lemma decode_vias_rel hs :
  Forall2 (vrel (s2b "Via")) (hvals (s2b "Via") hs) (hvals (s2b "Via") (fst (decode_all_vias hs))).
Proof.
  unfold hvals. induction hs as [|h r IH]; cbn [decode_all_vias]; [constructor|].
  destruct (decode_all_vias r) as [r' vs]. cbn [fst] in IH.
  destruct (same_header (h_name h) (s2b "Via")) eqn:E.
  - assert (G0 : forall (vs' : list via_param),
      Forall2 (vrel (s2b "Via")) (map h_val (filter (fun x => same_header (h_name x) (s2b "Via")) (h :: r)))
                                 (map h_val (filter (fun x => same_header (h_name x) (s2b "Via")) (fst (h :: r', vs'))))).
    { intros vs'. cbn [filter fst]. rewrite E. cbn [map]. constructor; [left; reflexivity|exact IH]. }
    destruct (h_val h) as [s|l|l|l|f|f|c] eqn:Ev; try apply G0.
    destruct (parse_via s) as [l| |] eqn:Ep; try apply G0.
    cbn [filter fst h_name]. rewrite E. cbn [map h_val]. rewrite Ev. constructor; [|exact IH].
    right. cbn. split; [reflexivity|exact Ep].
  - cbn [filter fst]. rewrite E. exact IH.
Qed.
Lemma top_after_decode m : top_via_of (fst (s_all_via_params m)) = top_via_of m.
Proof.
  rewrite !top_via_of_vals. apply top_of_vals_rel. unfold via_vals, s_all_via_params.
  pose proof (decode_vias_rel (m_headers m)) as H. destruct (decode_all_vias (m_headers m)) as [hs vs]. exact H.
Qed.

(* host[1:len(host)-1] of handleRawMessage *)
Definition reg_host (fx : fixes) (host0 : bytes) : res bytes :=
  if has_prefix (s2b "[") host0
  then (if (fx_bracket_host fx && negb (has_suffix (s2b "]") host0 && Nat.leb 2 (List.length host0)))%bool
        then Ok host0 else slice_chk host0 1 (List.length host0 - 1))
  else Ok host0.
Lemma reg_host_plain fx h : has_prefix (s2b "[") h = false -> reg_host fx h = Ok h.
Proof. unfold reg_host. intros ->. reflexivity. Qed.
(* the state after the registration of connection c for the transaction (host, port, t) *)
Definition reg_pure (e : env) (c : nat) (host : bytes) (pt : Z) (t : bytes) (p : pstate) : pstate :=
  set_primary (full_addr tcp host pt t) (PConn c (now_s e + 3600)) (fst (get_transport (now_s e) tcp host pt t p)).
Lemma reg_pure_reg e c host pt t p : reg_at (full_addr tcp host pt t) c (now_s e + 3600) (reg_pure e c host pt t p).
Proof.
  unfold reg_pure, reg_at. destruct (get_transport_tcp (now_s e) host pt t p) as (_ & f & A).
  exists (fo_sec f). apply set_primary_same. exact A.
Qed.
Lemma reg_pure_other e c host pt t p K f : alookup K (ps_table p) = Some f -> keepable (now_s e) f ->
  K <> full_addr tcp host pt t -> K <> full_addr tcp host pt [] ->
  alookup K (ps_table (reg_pure e c host pt t p)) = Some f.
Proof.
  intros A Kp N1 N2. unfold reg_pure. rewrite set_primary_other by exact N1.
  apply (get_transport_other (now_s e) tcp host pt t p K f A Kp N1 N2).
Qed.
Lemma lb_reg_pure e c host pt t p : lb_eq p (reg_pure e c host pt t p).
Proof. unfold reg_pure. eapply lb_trans; [apply lb_get_transport|apply lb_set_primary]. Qed.

(* the registration block of handleRawMessage, once the learning and the stamping are done *)
Definition pm_block (e : env) (peer : bytes) (peer_port : Z) (from : stransport) (c : nat) (m2 : message)
           (l1 : learned) (x : ctx) : res ctx :=
  let '(m3, rp) :=
    if is_request m2 then
      let '(m', hop) := mtry next_response_hop m2 in
      match hop with
      | Ok oh =>
          let host0 := match oh with Some (h, _, _) => h | None => [] end in
          let port := match oh with Some (_, p, _) => p | None => 0 end in
          match (if has_prefix (s2b "[") host0
                 then (if (fx_bracket_host (e_fx e) && negb (has_suffix (s2b "]") host0 && Nat.leb 2 (List.length host0)))%bool
                       then Ok host0 else slice_chk host0 1 (List.length host0 - 1))
                 else Ok host0) with
          | Panic => (m', Panic)
          | Err => (m', Err)
          | Ok host =>
              match oh with
              | None => (m', Ok (x_p x))
              | Some _ =>
                  let '(m'', tid) := mtry s_client_transaction m' in
                  match tid with
                  | Ok (Some t) =>
                      let host_r := if fx_resolved_key (e_fx e)
                                    then match get_ip (e_cfg e) host with Some i => i | None => host end else host in
                      let '(p1, rk) := get_transport (now_s e) (s2b "tcp") host_r port t (x_p x) in
                      match rk with
                      | Ok key => (m'', Ok (set_primary key (PConn c (now_s e + 3600)) p1))
                      | _ => (m'', Ok p1)
                      end
                  | _ => (m'', Ok (x_p x))
                  end
              end
          end
      | _ => (m', Ok (x_p x))
      end
    else (m2, Ok (x_p x)) in
  match rp with
  | Panic => Panic
  | Err => Err
  | Ok p1 => pm_tail e peer peer_port from m3 p1 l1 x
  end.
Lemma pm_tcp_prefix e peer pport from rs c m x : is_request m = true ->
  exists m2 l1, keeps NP m m2 /\ top_via_of m2 = rmap (stamp_via rs peer pport) (top_via_of m) /\
                process_message e peer pport from rs (Some c) m x = pm_block e peer pport from c m2 l1 x.
Proof.
  intros R. unfold process_message. rewrite R. cbn [andb].
  set (ML := if negb (amem peer (ps_backends (x_p x))) then _ else _).
  assert (K1 : keeps NP m (fst ML) /\ top_via_of (fst ML) = top_via_of m).
  { subst ML. destruct (negb _); [|split; [apply keeps_refl|reflexivity]].
    pose proof (pres_all_via_params NP NP_novia m) as K. pose proof (top_after_decode m) as T.
    destruct (s_all_via_params m) as [m' vs]. split; assumption. }
  destruct ML as [m1 l1]. cbn [fst] in K1. destruct K1 as [K1 T1].
  assert (R1 : is_request m1 = true) by (rewrite (k_is_request NP m m1 K1); exact R).
  rewrite R1. cbn [andb].
  set (m2 := if rs then fst (s_set_received peer pport m1) else m1).
  assert (K2 : keeps NP m m2).
  { subst m2. destruct rs; [|exact K1]. eapply keeps_trans; [exact K1|]. apply pres_set_received. apply NP_novia. }
  assert (T2 : top_via_of m2 = rmap (stamp_via rs peer pport) (top_via_of m)).
  { subst m2. destruct rs; [rewrite top_after_stamp, T1; reflexivity|].
    rewrite T1. unfold stamp_via. destruct (top_via_of m); reflexivity. }
  clearbody m2. exists m2, l1. split; [exact K2|]. split; [exact T2|]. reflexivity.
Qed.
(* the registration target of a TCP request, read from the stamped message *)
Definition reg_target2 (fx : fixes) (m2 : message) : option (bytes * Z * bytes) :=
  match top_via_of m2 with
  | Ok v =>
      match reg_host fx (fst (fst (hop_of_via v))), snd (s_get_cseq m2), via_get_branch v with
      | Ok host, Ok cs, Some br => Some (host, snd (fst (hop_of_via v)), cs_method cs ++ "-"%char :: br)
      | _, _, _ => None
      end
  | _ => None
  end.
Definition reg_state2 (e : env) (c : nat) (m2 : message) (p : pstate) : pstate :=
  match reg_target2 (e_fx e) m2 with
  | Some (host, pt, t) => reg_pure e c (key_host e host) pt t p
  | None => p
  end.
Lemma pm_block_spec e peer pport from c m2 l1 x : is_request m2 = true ->
  (exists m3, keeps names m2 m3 /\
     pm_block e peer pport from c m2 l1 x = pm_tail e peer pport from m3 (reg_state2 e c m2 (x_p x)) l1 x) \/
  pm_block e peer pport from c m2 l1 x = Err \/ pm_block e peer pport from c m2 l1 x = Panic.
Proof.
  intros R2. unfold pm_block, reg_state2, reg_target2. rewrite R2.
  pose proof (pres_try names _ (pres_next_response_hop names all_names_incl) m2) as K3.
  pose proof (mtry_snd next_response_hop m2) as S3. rewrite next_response_hop_snd in S3.
  destruct (mtry next_response_hop m2) as [m' hop]. cbn [fst snd] in K3, S3. subst hop.
  destruct (top_via_of m2) as [v| |] eqn:TV; cbn [rmap opt_res].
  - destruct (hop_of_via v) as [[h0 pt] tr0] eqn:HOP. cbn [fst snd]. fold (reg_host (e_fx e) h0).
    destruct (reg_host (e_fx e) h0) as [host| |] eqn:RH; [|right; left; reflexivity|right; right; reflexivity].
    left.
    pose proof (pres_try names _ P_tid m') as K4.
    pose proof (mtry_snd s_client_transaction m') as S4.
    rewrite s_client_transaction_snd, (tid_of_keeps names m2 m' K3) in S4 by in_names.
    unfold tid_of in S4. rewrite TV in S4.
    destruct (mtry s_client_transaction m') as [m'' tid]. cbn [fst snd] in K4, S4. subst tid.
    assert (K24 : keeps names m2 m'') by (eapply keeps_trans; eassumption).
    destruct (snd (s_get_cseq m2)) as [cs| |]; cbn [rbind opt_res]; try (exists m''; split; [exact K24|reflexivity]).
    destruct (via_get_branch v) as [br|]; cbn [of_opt rbind opt_res]; try (exists m''; split; [exact K24|reflexivity]).
    pose proof (get_transport_tcp (now_s e) (key_host e host) pt (cs_method cs ++ "-"%char :: br) (x_p x)) as [GK _].
    unfold reg_pure. fold tcp. cbv zeta. fold (resolve (e_cfg e) host). fold (key_host e host).
    destruct (get_transport (now_s e) tcp (key_host e host) pt (cs_method cs ++ "-"%char :: br) (x_p x)) as [p1 rk].
    cbn [fst snd] in GK |- *. subst rk. exists m''. split; [exact K24|reflexivity].
  - left. exists m'. split; [exact K3|reflexivity].
  - left. exists m'. split; [exact K3|reflexivity].
Qed.

(* the same target read from the message as received: the stamping acts on the top Via only *)
Definition reg_target (fx : fixes) (rs : bool) (peer : bytes) (pport : Z) (m : message) : option (bytes * Z * bytes) :=
  match top_via_of m with
  | Ok v =>
      let sv := stamp_via rs peer pport v in
      match reg_host fx (fst (fst (hop_of_via sv))), snd (s_get_cseq m), via_get_branch v with
      | Ok host, Ok cs, Some br => Some (host, snd (fst (hop_of_via sv)), cs_method cs ++ "-"%char :: br)
      | _, _, _ => None
      end
  | _ => None
  end.
Definition reg_state (e : env) (c : nat) (rs : bool) (peer : bytes) (pport : Z) (m : message) (p : pstate) : pstate :=
  match reg_target (e_fx e) rs peer pport m with
  | Some (host, pt, t) => reg_pure e c (key_host e host) pt t p
  | None => p
  end.
Lemma reg_target2_eq fx rs peer pport m m2 : keeps NP m m2 ->
  top_via_of m2 = rmap (stamp_via rs peer pport) (top_via_of m) ->
  reg_target2 fx m2 = reg_target fx rs peer pport m.
Proof.
  intros K T. unfold reg_target2, reg_target. rewrite T, (k_cseq NP m m2 K ltac:(in_names)).
  destruct (top_via_of m) as [v| |]; cbn [rmap]; try reflexivity. rewrite stamp_via_branch. reflexivity.
Qed.

(* ---- the table half is untouched by everything that is not a transport operation ---- *)
Lemma hd_tail_pure_tb e p1 ob m p' : hd_tail_pure e p1 ob m = Ok p' -> ps_table p' = ps_table p1.
Proof.
  unfold hd_tail_pure. destruct ob as [b|]; [|intros H; injection H as <-; reflexivity].
  destruct (method_of m) as [meth| |]; try discriminate; [|intros H; injection H as <-; reflexivity].
  destruct (beq meth (s2b "INVITE")).
  { destruct (dialog_of m); try discriminate; intros H; injection H as <-; reflexivity. }
  destruct (beq meth (s2b "BYE")); [|intros H; injection H as <-; reflexivity].
  destruct (dialog_of m); try discriminate; intros H; injection H as <-; reflexivity.
Qed.
Lemma hd_pure_tb e peer port p m p' : hd_pure e peer port p m = Ok p' -> ps_table p' = ps_table p.
Proof.
  unfold hd_pure. destruct (alookup _ _); [apply hd_tail_pure_tb|].
  destruct (tid_of m); try discriminate. intros H. apply hd_tail_pure_tb in H. rewrite H. reflexivity.
Qed.
Lemma sub_bind_pure_tb e p m : ps_table (sub_bind_pure e p m) = ps_table p.
Proof.
  unfold sub_bind_pure. destruct (relay_hop m) as [[[h pt] tr]| |]; try reflexivity.
  destruct (method_of m); try reflexivity. destruct (beq _ _); [|reflexivity].
  destruct (alookup _ _); [|reflexivity]. destruct (dialog_of m); reflexivity.
Qed.
Lemma resp_pure_tb e peer port p m : ps_table (resp_pure e peer port p m) = ps_table p.
Proof.
  unfold resp_pure. rewrite sub_bind_pure_tb.
  destruct (hd_pure e peer port p m) eqn:E; try reflexivity. eapply hd_pure_tb. exact E.
Qed.
Lemma stb_sel_tb e p m : ps_table (fst (stb_sel e p m)) = ps_table p.
Proof.
  unfold stb_sel, fbd_pure.
  destruct (method_of m) as [meth| |]; try reflexivity.
  destruct (_ && _)%bool; [reflexivity|].
  destruct (dialog_of m) as [d| |]; try reflexivity.
  cbv zeta. destruct (_ && _)%bool; [reflexivity|].
  destruct (get_raw _ m); cbn [fst]; try reflexivity; destruct (notify_terminated meth m); reflexivity.
Qed.
Lemma stb_pure_tb e t0 p m : ps_table (fst (stb_pure e t0 p m)) = ps_table p.
Proof.
  unfold stb_pure. pose proof (stb_sel_tb e p m) as T. destruct (stb_sel e p m) as [p1 b]. cbn [fst] in T.
  assert (B : forall bytes_, ps_table (fst (fst (backend_send b bytes_ p1))) = ps_table p1).
  { intros bytes_. unfold backend_send. destruct b as [a g|].
    - destruct (_ && _)%bool; reflexivity.
    - destruct (rr_dispatch (ps_rr p1)) as [r' o]. destruct o as [a|]; [destruct (fits_datagram bytes_)|]; reflexivity. }
  specialize (B (fwd_bytes e t0 p m)).
  destruct (backend_send b (fwd_bytes e t0 p m) p1) as [[p2 outs] ok]. cbn [fst] in B.
  destruct ok; cbn [fst]; [|congruence].
  destruct (snd (s_get_cseq m)); cbn [ps_table with_pins]; congruence.
Qed.
Lemma send_to_backend_tb e m x :
  ps_table (x_p (fst (send_to_backend e m x))) = ps_table (x_p x) /\ x_conns (fst (send_to_backend e m x)) = x_conns x.
Proof.
  destruct (ps_has_rr (x_p x)) eqn:HR.
  2:{ unfold send_to_backend. rewrite HR. cbn. split; reflexivity. }
  destruct (first_transport (e_lc e)) as [t0|] eqn:FT.
  2:{ unfold send_to_backend. rewrite HR, FT. cbn. split; reflexivity. }
  destruct (send_to_backend_spec e m x t0 HR FT) as (EP & _ & _ & EC & _). rewrite EP. split; [apply stb_pure_tb|exact EC].
Qed.

(* requests that the proxy does not relay along a Route / static route *)
Definition not_forwarded (e : env) (m : message) : Prop :=
  hvals (s2b "Route") (m_headers m) = [] /\ forall v, static_hop e m <> Ok v.
Lemma handle_message_local e from m x : is_request m = true -> not_forwarded e m ->
  ps_table (x_p (fst (handle_message e from m x))) = ps_table (x_p x) /\
  x_conns (fst (handle_message e from m x)) = x_conns x.
Proof.
  intros R [HR NS]. pose proof (handle_message_request e from m x R) as H. cbv zeta in H.
  rewrite (hop_result_no_route e m HR) in H.
  destruct (static_hop e m) as [v| |] eqn:ES; [exfalso; exact (NS v eq_refl)| |];
    (destruct (is_my_message _ from m); [destruct H as (m' & _ & ->); apply send_to_backend_tb|rewrite H; split; reflexivity]).
Qed.
Lemma pm_tail_exact e peer port from m3 p1 l1 x m : keeps NP m m3 -> is_request m = true ->
  exists m4, keeps NQ m m4 /\
    (route_consumed (e_cfg e) from m -> hvals (s2b "Route") (m_headers m4) = []) /\
    pm_tail e peer port from m3 p1 l1 x =
    Ok (fst (handle_message e from m4 {| x_learned := l1; x_p := p1; x_conns := x_conns x; x_world := x_world x; x_outs := x_outs x |})).
Proof.
  intros K R. unfold pm_tail.
  pose proof (pres_try NQ _ (pres_try_remove_top_route NQ (e_cfg e) from NQ_noroute) m3) as K4.
  set (m4 := fst (mtry (try_remove_top_route (e_cfg e) from) m3)) in *.
  assert (K04 : keeps NQ m m4) by (eapply keeps_trans; [eapply keeps_incl; [apply NQ_NP|exact K]|exact K4]).
  assert (R4 : is_response m4 = false) by (rewrite (k_is_response NQ m m4 K04); unfold is_response; rewrite R; reflexivity).
  rewrite R4. exists m4. split; [exact K04|]. split; [|reflexivity].
  intros HR. subst m4. apply try_remove_consumes.
  apply (route_consumed_keeps NP (e_cfg e) from m m3 K); [in_names|exact HR].
Qed.
Lemma not_forwarded_keeps e from m m4 : keeps NQ m m4 ->
  (route_consumed (e_cfg e) from m -> hvals (s2b "Route") (m_headers m4) = []) ->
  not_forwarded e m -> not_forwarded e m4.
Proof.
  intros K HR4 [HR NS]. split; [apply HR4; left; exact HR|].
  intros v. rewrite (static_hop_keeps NQ e m m4 K ltac:(in_names)). apply NS.
Qed.
(* a request over UDP: nothing is registered *)
Lemma pm_udp_prefix e peer pport from rs m x : is_request m = true ->
  exists m2 l1, keeps NP m m2 /\ process_message e peer pport from rs None m x = pm_tail e peer pport from m2 (x_p x) l1 x.
Proof.
  intros R. unfold process_message. rewrite R. cbn [andb].
  set (ML := if negb (amem peer (ps_backends (x_p x))) then _ else _).
  assert (K1 : keeps NP m (fst ML)).
  { subst ML. destruct (negb _); [|apply keeps_refl].
    pose proof (pres_all_via_params NP NP_novia m) as K. destruct (s_all_via_params m) as [m' vs]. exact K. }
  destruct ML as [m1 l1]. cbn [fst] in K1.
  assert (R1 : is_request m1 = true) by (rewrite (k_is_request NP m m1 K1); exact R).
  rewrite R1. cbn [andb].
  set (m2 := if rs then fst (s_set_received peer pport m1) else m1).
  assert (K2 : keeps NP m m2).
  { subst m2. destruct rs; [|exact K1]. eapply keeps_trans; [exact K1|]. apply pres_set_received. apply NP_novia. }
  clearbody m2. exists m2, l1. split; [exact K2|reflexivity].
Qed.

(* a request that is not relayed: the connections are as before, the table is as before except for
   the registration of the connection it arrived on *)
Lemma request_local e peer pport from rs tcp0 m x x' : is_request m = true -> not_forwarded e m ->
  process_message e peer pport from rs tcp0 m x = Ok x' ->
  x_conns x' = x_conns x /\
  ps_table (x_p x') = ps_table (match tcp0 with Some c => reg_state e c rs peer pport m (x_p x) | None => x_p x end).
Proof.
  intros R NF E.
  assert (T : exists m3 l1 p1, keeps NP m m3 /\ pm_tail e peer pport from m3 p1 l1 x = Ok x' /\
            p1 = match tcp0 with Some c => reg_state e c rs peer pport m (x_p x) | None => x_p x end).
  { destruct tcp0 as [c|].
    - destruct (pm_tcp_prefix e peer pport from rs c m x R) as (m2 & l1 & K2 & T2 & EQ). rewrite EQ in E.
      assert (R2 : is_request m2 = true) by (rewrite (k_is_request NP m m2 K2); exact R).
      destruct (pm_block_spec e peer pport from c m2 l1 x R2) as [(m3 & K3 & EQ3)|[EQ3|EQ3]];
        rewrite EQ3 in E; try discriminate.
      exists m3, l1, (reg_state2 e c m2 (x_p x)). split; [|split; [exact E|]].
      + eapply keeps_trans; [exact K2|eapply keeps_incl; [apply NP_names|exact K3]].
      + unfold reg_state2, reg_state. rewrite (reg_target2_eq (e_fx e) rs peer pport m m2 K2 T2). reflexivity.
    - destruct (pm_udp_prefix e peer pport from rs m x R) as (m2 & l1 & K2 & EQ). rewrite EQ in E.
      exists m2, l1, (x_p x). split; [exact K2|split; [exact E|reflexivity]]. }
  destruct T as (m3 & l1 & p1 & K3 & E3 & EP1).
  destruct (pm_tail_exact e peer pport from m3 p1 l1 x m K3 R) as (m4 & K4 & HR4 & EQ4). rewrite EQ4 in E3.
  injection E3 as <-.
  assert (R4 : is_request m4 = true) by (rewrite (k_is_request NQ m m4 K4); exact R).
  destruct (handle_message_local e from m4
              {| x_learned := l1; x_p := p1; x_conns := x_conns x; x_world := x_world x; x_outs := x_outs x |}
              R4 (not_forwarded_keeps e from m m4 K4 HR4 NF)) as [H1 H2].
  cbn [x_p x_conns] in H1, H2. rewrite <- EP1. split; [exact H2|exact H1].
Qed.

(* ---- C12_register ---- *)
(* for any setting of the repair flag: the entry is filed under [key_host e host] *)
Lemma C12_register_gen : forall e peer pport from rs c m x x' v cs br h0 pt tr0 host,
  is_request m = true -> not_forwarded e m ->
  top_via_of m = Ok v -> snd (s_get_cseq m) = Ok cs -> via_get_branch v = Some br ->
  hop_of_via (stamp_via rs peer pport v) = (h0, pt, tr0) -> reg_host (e_fx e) h0 = Ok host ->
  process_message e peer pport from rs (Some c) m x = Ok x' ->
  let K := full_addr tcp (key_host e host) pt (cs_method cs ++ "-"%char :: br) in
  reg_at K c (now_s e + 3600) (x_p x') /\ x_conns x' = x_conns x /\
  (forall K' f, alookup K' (ps_table (x_p x)) = Some f -> keepable (now_s e) f ->
                K' <> K -> K' <> full_addr tcp (key_host e host) pt [] -> alookup K' (ps_table (x_p x')) = Some f).
Proof.
  intros e peer pport from rs c m x x' v cs br h0 pt tr0 host R NF TV CS BR HOP RH E K.
  destruct (request_local e peer pport from rs (Some c) m x x' R NF E) as [EC ET].
  assert (RS : reg_state e c rs peer pport m (x_p x)
               = reg_pure e c (key_host e host) pt (cs_method cs ++ "-"%char :: br) (x_p x)).
  { unfold reg_state, reg_target. rewrite TV. cbv zeta. rewrite HOP. cbn [fst snd]. rewrite RH, CS, BR. reflexivity. }
  rewrite RS in ET. split; [|split; [exact EC|]].
  - unfold reg_at. rewrite ET. apply reg_pure_reg.
  - intros K' f A Kp N1 N2. rewrite ET. apply reg_pure_other; assumption.
Qed.
(* after the repair: filed under the RESOLVED response host, the address sendMessage looks up *)
Theorem C12_register : forall e peer pport from rs c m x x' v cs br h0 pt tr0 host,
  fx_resolved_key (e_fx e) = true ->
  is_request m = true -> not_forwarded e m ->
  top_via_of m = Ok v -> snd (s_get_cseq m) = Ok cs -> via_get_branch v = Some br ->
  hop_of_via (stamp_via rs peer pport v) = (h0, pt, tr0) -> reg_host (e_fx e) h0 = Ok host ->
  process_message e peer pport from rs (Some c) m x = Ok x' ->
  let K := full_addr tcp (resolve (e_cfg e) host) pt (cs_method cs ++ "-"%char :: br) in
  reg_at K c (now_s e + 3600) (x_p x') /\ x_conns x' = x_conns x /\
  (* every other entry is as it was *)
  (forall K' f, alookup K' (ps_table (x_p x)) = Some f -> keepable (now_s e) f ->
                K' <> K -> K' <> full_addr tcp (resolve (e_cfg e) host) pt [] ->
                alookup K' (ps_table (x_p x')) = Some f).
Proof.
  intros e peer pport from rs c m x x' v cs br h0 pt tr0 host FX R NF TV CS BR HOP RH E.
  rewrite <- (key_host_fixed e host FX).
  exact (C12_register_gen e peer pport from rs c m x x' v cs br h0 pt tr0 host R NF TV CS BR HOP RH E).
Qed.

(* ================================================================== Part 3 (second half): the relayed response *)
(* the transaction id sendMessage computes for a response: CSeq method and the branch of the Via
   entry that is on top once the proxy's own entry is popped *)
Definition resp_tid_of (m : message) : res bytes :=
  let! c := snd (s_get_cseq m) in
  let! v := next_top m in
  let! b := of_opt (via_get_branch v) in
  Ok (cs_method c ++ "-"%char :: b).
Lemma tid_of_popped m : tid_of (fst (s_pop_via m)) = resp_tid_of m.
Proof.
  unfold tid_of, resp_tid_of, next_top.
  rewrite (k_cseq NP m _ (pres_pop_via NP NP_novia m) ltac:(in_names)). reflexivity.
Qed.
Lemma resp_tid_of_keeps N m m' : keeps N m m' -> In (s2b "CSeq") N -> In (s2b "Via") N ->
  resp_tid_of m' = resp_tid_of m.
Proof.
  intros K H1 H2. unfold resp_tid_of. rewrite (k_cseq N m m' K H1), (next_top_keeps N m m' K H2). reflexivity.
Qed.

Definition ctx_with (x : ctx) (p : pstate) : ctx :=
  {| x_learned := x_learned x; x_p := p; x_conns := x_conns x; x_world := x_world x; x_outs := x_outs x |}.

Lemma handle_message_response_exact e from m x : is_request m = false ->
  exists m4, tid_of m4 = resp_tid_of m /\ is_final_response m4 = is_final_response m /\
    fst (handle_message e from m x) =
    match relay_hop m with
    | Ok (h, pt, tr) => fst (send_message e h pt tr m4 (ctx_with x (sub_bind_pure e (x_p x) m)))
    | _ => ctx_with x (sub_bind_pure e (x_p x) m)
    end.
Proof.
  intros R. unfold handle_message, ctx_with. rewrite R.
  pose proof (pres_try NP _ (pres_pop_via NP NP_novia) m) as K1.
  pose proof (mtry_fst s_pop_via m) as F1.
  destruct (mtry s_pop_via m) as [m1 r0]. cbn [fst] in K1, F1.
  pose proof (pres_try names _ (pres_next_response_hop names all_names_incl) m1) as K2.
  pose proof (mtry_snd next_response_hop m1) as S2.
  destruct (mtry next_response_hop m1) as [m2 hop]. cbn [fst snd] in K2, S2.
  rewrite next_response_hop_snd, F1 in S2. fold (next_top m) in S2. fold (relay_hop m) in S2.
  assert (K02 : keeps NP m m2) by (eapply keeps_trans; [exact K1|eapply keeps_incl; [apply NP_names|exact K2]]).
  pose proof (pres_try names _ P_method m2) as K3.
  pose proof (mtry_snd s_get_method m2) as S3.
  destruct (mtry s_get_method m2) as [m3 ometh]. cbn [fst snd] in K3, S3.
  rewrite s_get_method_snd, (method_of_keeps NP m m2 K02 ltac:(in_names)) in S3.
  assert (K03 : keeps NP m m3) by (eapply keeps_trans; [exact K02|eapply keeps_incl; [apply NP_names|exact K3]]).
  assert (K13 : keeps names m1 m3) by (eapply keeps_trans; eassumption).
  assert (FACT : forall m4, keeps names m1 m4 -> tid_of m4 = resp_tid_of m /\ is_final_response m4 = is_final_response m).
  { intros m4 K. split.
    - rewrite (tid_of_keeps names m1 m4 K) by in_names. rewrite F1. apply tid_of_popped.
    - rewrite (k_is_final names m1 m4 K). apply (k_is_final NP m m1 K1). }
  subst hop ometh. unfold sub_bind_pure.
  destruct (relay_hop m) as [[[host port] tr]| |]; cbn [opt_res].
  2:{ exists m3. destruct (FACT m3 K13) as [F2 F3]. split; [exact F2|]. split; [exact F3|]. reflexivity. }
  2:{ exists m3. destruct (FACT m3 K13) as [F2 F3]. split; [exact F2|]. split; [exact F3|]. reflexivity. }
  destruct (method_of m) as [meth| |]; cbn [opt_res].
  2:{ exists m3. destruct (FACT m3 K13) as [F2 F3]. split; [exact F2|]. split; [exact F3|]. reflexivity. }
  2:{ exists m3. destruct (FACT m3 K13) as [F2 F3]. split; [exact F2|]. split; [exact F3|]. reflexivity. }
  destruct (beq meth (s2b "SUBSCRIBE")).
  2:{ exists m3. destruct (FACT m3 K13) as [F2 F3]. split; [exact F2|]. split; [exact F3|]. reflexivity. }
  destruct (alookup (host ++ ":"%char :: itoa port) (ps_backends (x_p x))) as [g|].
  2:{ exists m3. destruct (FACT m3 K13) as [F2 F3]. split; [exact F2|]. split; [exact F3|]. reflexivity. }
  pose proof (pres_try names _ P_dialog m3) as K4.
  pose proof (mtry_snd s_get_dialog m3) as S4.
  destruct (mtry s_get_dialog m3) as [m4 od]. cbn [fst snd] in K4, S4.
  rewrite s_get_dialog_snd, (dialog_of_keeps NP m m3 K03) in S4 by in_names.
  assert (K04 : keeps NP m m4) by (eapply keeps_trans; [exact K03|eapply keeps_incl; [apply NP_names|exact K4]]).
  assert (K14 : keeps names m1 m4) by (eapply keeps_trans; eassumption).
  subst od. exists m4. destruct (FACT m4 K14) as [F2 F3]. split; [exact F2|]. split; [exact F3|].
  destruct (dialog_of m) as [d| |]; cbn [opt_res]; try reflexivity.
  rewrite (k_expires NP m m4 K04 ltac:(in_names)). reflexivity.
Qed.

Lemma process_message_response_exact e peer port from rs tcp0 m x : is_request m = false ->
  exists m4, tid_of m4 = resp_tid_of m /\ is_final_response m4 = is_final_response m /\
    process_message e peer port from rs tcp0 m x =
    Ok (match relay_hop m with
        | Ok (h, pt, tr) => fst (send_message e h pt tr m4 (ctx_with x (resp_pure e peer port (x_p x) m)))
        | _ => ctx_with x (resp_pure e peer port (x_p x) m)
        end).
Proof.
  intros R. remember (process_message e peer port from rs tcp0 m x) as pm eqn:EPM.
  unfold process_message in EPM. rewrite R in EPM. cbn [andb] in EPM.
  cbv iota in EPM. rewrite R in EPM. cbn [andb] in EPM. cbv iota in EPM. rewrite R in EPM.
  assert (T : (match tcp0 with Some _ => (m, Ok (x_p x)) | None => (m, Ok (x_p x)) end) = (m, @Ok pstate (x_p x)))
    by (destruct tcp0; reflexivity).
  rewrite T in EPM. cbv iota in EPM. clear T.
  pose proof (pres_try NR _ (pres_try_remove_top_route NR (e_cfg e) from NR_noroute) m) as K4.
  set (m4' := fst (mtry (try_remove_top_route (e_cfg e) from) m)) in *.
  assert (R4 : is_response m4' = true) by (rewrite (k_is_response NR m m4' K4); unfold is_response; rewrite R; reflexivity).
  rewrite R4 in EPM.
  destruct (handle_dialog_run e peer port (x_p x) m4') as (m5 & E5 & K5). rewrite E5 in EPM.
  rewrite (hd_pure_keeps NR e peer port (x_p x) m m4' K4) in EPM by (intros a Ha; exact Ha).
  assert (K05 : keeps NR m m5) by (eapply keeps_trans; [exact K4|eapply keeps_incl; [apply NR_names|exact K5]]).
  assert (R5 : is_request m5 = false) by (rewrite (k_is_request NR m m5 K05); exact R).
  set (p2 := match hd_pure e peer port (x_p x) m with Ok p' => p' | _ => x_p x end) in *.
  destruct (handle_message_response_exact e from m5 (ctx_with x p2) R5) as (m4 & F2 & F3 & EQ).
  exists m4. split; [rewrite F2; apply (resp_tid_of_keeps NR m m5 K05); in_names|].
  split; [rewrite F3; apply (k_is_final NR m m5 K05)|].
  subst pm. unfold ctx_with in EQ |- *. cbn [x_learned x_p x_conns x_world x_outs] in EQ. rewrite EQ.
  unfold resp_pure. fold p2. rewrite (sub_bind_pure_keeps NR e p2 m m5 K05) by (intros a Ha; exact Ha).
  unfold relay_hop. rewrite (next_top_keeps NR m m5 K05) by in_names. reflexivity.
Qed.

(* ---- C12_lookup / C12_until_final ---- *)
Theorem C12_lookup : forall e peer pport from rs tcp0 m x v host pt tr cs br c ex,
  is_request m = false ->
  next_top m = Ok v -> hop_of_via v = (host, pt, tr) -> to_lower tr = tcp ->
  snd (s_get_cseq m) = Ok cs -> via_get_branch v = Some br ->
  let K := full_addr tcp (resolve (e_cfg e) host) pt (cs_method cs ++ "-"%char :: br) in
  reg_at K c ex (x_p x) -> live (now_s e) ex -> conn_open (x_conns x) c = true ->
  exists x' b, process_message e peer pport from rs tcp0 m x = Ok x' /\
    (* written to c and to nothing else *)
    x_outs x' = x_outs x ++ [(DConn c, b)] /\ x_conns x' = x_conns x /\
    (* a provisional response leaves the entry in place *)
    (is_final_response m = false -> reg_at K c ex (x_p x')) /\
    (* a final response consumes it, AFTER having been sent through it *)
    (is_final_response m = true -> fx_resolved_key (e_fx e) = true -> alookup K (ps_table (x_p x')) = None).
Proof.
  intros e peer pport from rs tcp0 m x v host pt tr cs br c ex R NT HOP TR CS BR K [sec A] L O.
  destruct (process_message_response_exact e peer pport from rs tcp0 m x R) as (m4 & F2 & F3 & EQ).
  assert (RH : relay_hop m = Ok (host, pt, tr)) by (unfold relay_hop; rewrite NT; cbn [rmap]; rewrite HOP; reflexivity).
  assert (T4 : tid_of m4 = Ok (cs_method cs ++ "-"%char :: br)).
  { rewrite F2. unfold resp_tid_of. rewrite CS, NT. cbn [rbind]. rewrite BR. reflexivity. }
  rewrite RH in EQ.
  set (X := ctx_with x (resp_pure e peer pport (x_p x) m)) in *.
  assert (A' : alookup (full_addr tcp (resolve (e_cfg e) host) pt (cs_method cs ++ "-"%char :: br)) (ps_table (x_p X))
               = Some {| fo_pri := Some (PConn c ex); fo_sec := sec |}).
  { subst X. unfold ctx_with. cbn [x_p]. rewrite resp_pure_tb. exact A. }
  destruct (send_message_conn e host pt tr m4 X c ex sec (cs_method cs ++ "-"%char :: br) T4 TR A' L O) as (O1 & O2 & O3).
  eexists. eexists. split; [exact EQ|]. split; [exact O1|]. split; [exact O2|]. rewrite F3 in O3. fold K in O3. split.
  - intros NF. rewrite NF in O3. exists sec. rewrite O3. apply alookup_aset_same.
  - intros FI FX. rewrite FI in O3. rewrite O3. cbv zeta. subst K. rewrite (key_host_fixed e host FX).
    set (tb := adel (full_addr tcp (resolve (e_cfg e) host) pt (cs_method cs ++ "-"%char :: br)) _).
    assert (N : alookup (full_addr tcp (resolve (e_cfg e) host) pt (cs_method cs ++ "-"%char :: br)) tb = None)
      by apply alookup_adel_same.
    rewrite N. exact N.
Qed.

(* provisional and final responses alike are written to the registered connection: the look-up
   precedes the removal, the entry object already fetched is used for the send *)
Corollary C12_until_final : forall e peer pport from rs tcp0 m x v host pt tr cs br c ex,
  is_request m = false ->
  next_top m = Ok v -> hop_of_via v = (host, pt, tr) -> to_lower tr = tcp ->
  snd (s_get_cseq m) = Ok cs -> via_get_branch v = Some br ->
  reg_at (full_addr tcp (resolve (e_cfg e) host) pt (cs_method cs ++ "-"%char :: br)) c ex (x_p x) ->
  live (now_s e) ex -> conn_open (x_conns x) c = true ->
  exists x' b, process_message e peer pport from rs tcp0 m x = Ok x' /\ x_outs x' = x_outs x ++ [(DConn c, b)].
Proof.
  intros e peer pport from rs tcp0 m x v host pt tr cs br c ex R NT HOP TR CS BR RA L O.
  destruct (C12_lookup e peer pport from rs tcp0 m x v host pt tr cs br c ex R NT HOP TR CS BR RA L O)
    as (x' & b & E & O1 & _). exists x', b. split; assumption.
Qed.

(* ================================================================== Part 5: events and histories *)
(* connections are never closed by message processing (only by EvTcpClose and by a decode error
   on the connection itself) *)
Lemma send_message_mono e host port tr m x c0 : conn_open (x_conns x) c0 = true ->
  conn_open (x_conns (fst (send_message e host port tr m x))) c0 = true.
Proof.
  intros H. unfold send_message.
  destruct (mtry s_client_transaction m) as [m1 tid].
  destruct (get_transport _ _ _ _ _ _) as [p1 rkey].
  destruct rkey as [key| |]; cbn [fst x_conns]; try exact H.
  match goal with |- context [alookup key (ps_table ?p2)] => destruct (alookup key (ps_table p2)) as [f|] end;
    cbn [fst x_conns]; [|exact H].
  match goal with |- context [failover_send ?a ?b ?cc f ?d ?p3 ?cs ?w] =>
    pose proof (failover_send_frame a b cc f d p3 cs w c0) as F; destruct (failover_send a b cc f d p3 cs w) as [[[[[p4 cs'] w'] outs] ok] f'] end.
  cbn [fst snd x_conns] in *. apply F. exact H.
Qed.
Lemma handle_message_mono e from m x c0 : conn_open (x_conns x) c0 = true ->
  conn_open (x_conns (fst (handle_message e from m x))) c0 = true.
Proof.
  intros H. unfold handle_message. destruct (is_request m).
  - destruct (next_request_hop _ _ m) as [m1 r]. destruct r as [[[h p] t]| |].
    + apply send_message_mono. destruct (alookup h (x_learned x)); exact H.
    + destruct (is_my_message _ from m1); [|exact H]. rewrite (proj2 (send_to_backend_tb e m1 x)). exact H.
    + destruct (is_my_message _ from m1); [|exact H]. rewrite (proj2 (send_to_backend_tb e m1 x)). exact H.
  - destruct (mtry s_pop_via m) as [m1 r0]. destruct (mtry next_response_hop m1) as [m2 hop].
    destruct (mtry s_get_method m2) as [m3 ometh].
    match goal with |- context [let '(m4, p1) := ?B in _] => destruct B as [m4 p1] end.
    destruct hop as [[[[h p] t]|]| |]; try exact H. apply send_message_mono. exact H.
Qed.
Lemma process_message_mono e peer pport from rs tcp0 m x x' c0 :
  process_message e peer pport from rs tcp0 m x = Ok x' ->
  conn_open (x_conns x) c0 = true -> conn_open (x_conns x') c0 = true.
Proof.
  intros E H. destruct (is_request m) eqn:R.
  - assert (T : exists m3 l1 p1, keeps NP m m3 /\ pm_tail e peer pport from m3 p1 l1 x = Ok x').
    { destruct tcp0 as [c|].
      - destruct (pm_tcp_prefix e peer pport from rs c m x R) as (m2 & l1 & K2 & T2 & EQ). rewrite EQ in E.
        assert (R2 : is_request m2 = true) by (rewrite (k_is_request NP m m2 K2); exact R).
        destruct (pm_block_spec e peer pport from c m2 l1 x R2) as [(m3 & K3 & EQ3)|[EQ3|EQ3]];
          rewrite EQ3 in E; try discriminate.
        exists m3, l1, (reg_state2 e c m2 (x_p x)). split; [|exact E].
        eapply keeps_trans; [exact K2|eapply keeps_incl; [apply NP_names|exact K3]].
      - destruct (pm_udp_prefix e peer pport from rs m x R) as (m2 & l1 & K2 & EQ). rewrite EQ in E.
        exists m2, l1, (x_p x). split; [exact K2|exact E]. }
    destruct T as (m3 & l1 & p1 & K3 & E3).
    destruct (pm_tail_exact e peer pport from m3 p1 l1 x m K3 R) as (m4 & _ & _ & EQ4). rewrite EQ4 in E3.
    injection E3 as <-. apply handle_message_mono. exact H.
  - destruct (process_message_response_exact e peer pport from rs tcp0 m x R) as (m4 & _ & _ & EQ).
    rewrite EQ in E. injection E as <-.
    destruct (relay_hop m) as [[[h pt] tr]| |]; try exact H. apply send_message_mono. exact H.
Qed.
Lemma conn_open_close_other c' cs c : c' <> c -> conn_open (close_conn c' cs) c = conn_open cs c.
Proof.
  intros NE. unfold conn_open. induction cs as [|a r IH]; cbn [close_conn]; [reflexivity|].
  destruct (Nat.eqb_spec (cn_id a) c') as [E|E]; cbn [existsb].
  - cbn [cn_id cn_open]. destruct (Nat.eqb_spec (cn_id a) c) as [E2|E2]; [congruence|reflexivity].
  - rewrite IH. reflexivity.
Qed.

Section Held.
  Variables (li : nat) (K : bytes) (c : nat) (ex : Z).
  (* listener li still maps K to connection c, and c is open *)
  Definition held_x (x : ctx) : Prop := reg_at K c ex (x_p x) /\ conn_open (x_conns x) c = true.
  Definition held (st : state) : Prop :=
    (exists p, nth_p (st_proxies st) li = Some p /\ reg_at K c ex p) /\ conn_open (st_conns st) c = true.

  (* the keys a relayed response touches: look-up (resolved host), connection-level, removal
     ([key_host]: the look-up key again after the repair, the host as written before it) *)
  Definition send_keys (e : env) (m : message) : option (bytes * bytes * bytes) :=
    match relay_hop m with
    | Ok (h, pt, tr) =>
        let t := match resp_tid_of m with Ok t => t | _ => [] end in
        Some (full_addr (to_lower tr) (resolve (e_cfg e) h) pt t, full_addr (to_lower tr) (resolve (e_cfg e) h) pt [],
              full_addr (to_lower tr) (key_host e h) pt t)
    | _ => None
    end.
  Definition own_provisional (cf : cfg) (m : message) : Prop :=
    is_final_response m = false /\
    exists h pt tr t, relay_hop m = Ok (h, pt, tr) /\ to_lower tr = tcp /\ resp_tid_of m = Ok t /\
                      K = full_addr tcp (resolve cf h) pt t.
  (* [msg_away]: processing m does not disturb the entry K *)
  Definition msg_away (e : env) (rs : bool) (peer : bytes) (pport : Z) (tcp0 : option nat) (m : message) : Prop :=
    if is_request m then
      not_forwarded e m /\
      match tcp0 with
      | Some _ => match reg_target (e_fx e) rs peer pport m with
                  | Some (host, pt, t) =>
                      K <> full_addr tcp (key_host e host) pt t /\ K <> full_addr tcp (key_host e host) pt []
                  | None => True
                  end
      | None => True
      end
    else
      match send_keys e m with
      | Some (Ks, As, Kd) => (K <> Ks /\ K <> As /\ K <> Kd) \/ own_provisional (e_cfg e) m
      | None => True
      end.

  Lemma held_message e peer pport from rs tcp0 m x x' :
    process_message e peer pport from rs tcp0 m x = Ok x' -> live (now_s e) ex ->
    msg_away e rs peer pport tcp0 m -> held_x x -> held_x x'.
  Proof.
    intros E L AW [[sec A] O]. unfold msg_away in AW. destruct (is_request m) eqn:R.
    - destruct AW as [NF AW].
      destruct (request_local e peer pport from rs tcp0 m x x' R NF E) as [EC ET].
      split; [|rewrite EC; exact O]. exists sec. rewrite ET.
      destruct tcp0 as [c'|]; [|exact A]. unfold reg_state.
      destruct (reg_target (e_fx e) rs peer pport m) as [[[host pt] t]|]; [|exact A].
      destruct AW as [N1 N2]. apply reg_pure_other; [exact A|apply keepable_conn; exact L|exact N1|exact N2].
    - destruct (process_message_response_exact e peer pport from rs tcp0 m x R) as (m4 & F2 & F3 & EQ).
      rewrite EQ in E. injection E as <-. unfold send_keys in AW.
      set (X := ctx_with x (resp_pure e peer pport (x_p x) m)) in *.
      assert (AX : alookup K (ps_table (x_p X)) = Some {| fo_pri := Some (PConn c ex); fo_sec := sec |})
        by (subst X; unfold ctx_with; cbn [x_p]; rewrite resp_pure_tb; exact A).
      assert (OX : conn_open (x_conns X) c = true) by exact O.
      destruct (relay_hop m) as [[[h pt] tr]| |] eqn:RH; [|split; [exists sec; exact AX|exact OX]..].
      cbv zeta in AW.
      assert (TN : tid_or_nil m4 = match resp_tid_of m with Ok t => t | _ => [] end)
        by (unfold tid_or_nil; rewrite F2; reflexivity).
      destruct AW as [(N1 & N2 & N3)|(NF & h' & pt' & tr' & t & RH' & TR & RT & EK)].
      + rewrite <- TN in N1, N3.
        destruct (send_message_other e h pt tr m4 X K _ AX (keepable_conn (now_s e) c ex sec L) N1 N2 N3) as [G1 G2].
        split; [exists sec; exact G1|apply G2; exact OX].
      + rewrite RH in RH'. injection RH' as <- <- <-.
        assert (T4 : tid_of m4 = Ok t) by (rewrite F2; exact RT).
        rewrite EK in AX.
        destruct (send_message_conn e h pt tr m4 X c ex sec t T4 TR AX L OX) as (_ & O2 & O3).
        rewrite F3, NF in O3. split; [|rewrite O2; exact OX].
        exists sec. rewrite O3, EK. apply alookup_aset_same.
  Qed.

  (* a TCP chunk is clean when every message in it decodes (else the connection is closed) *)
  Fixpoint chunk_clean (fuel : nat) (s : bytes) : bool :=
    match fuel with
    | O => true
    | S f => match trim_left s with
             | [] => true
             | _ => match parse_message s with Ok (_, rest) => chunk_clean f rest | _ => false end
             end
    end.
  Lemma held_tcp e cn : live (now_s e) ex -> forall fuel s x x',
    tcp_messages fuel e cn s x = Ok x' ->
    Forall (msg_away e (cn_received_support cn) (cn_peer cn) (cn_peer_port cn) (Some (cn_id cn))) (chunk_msgs fuel s) ->
    (cn_id cn = c -> chunk_clean fuel s = true) ->
    held_x x -> held_x x'.
  Proof.
    intros L. induction fuel as [|f IH]; intros s x x' E F CL Q; cbn [tcp_messages chunk_msgs chunk_clean] in E, F, CL.
    - injection E as <-. exact Q.
    - destruct (trim_left s); [injection E as <-; exact Q|].
      destruct (parse_message s) as [[m rest]| |].
      + inversion F as [|m0 l0 AW F']; subst.
        destruct (process_message e (cn_peer cn) (cn_peer_port cn) (cn_from cn) (cn_received_support cn) (Some (cn_id cn)) m x)
          as [x1| |] eqn:E1; try discriminate.
        eapply IH; [exact E|exact F'|exact CL|]. eapply held_message; eassumption.
      + injection E as <-. destruct Q as [RA O]. split; [exact RA|]. cbn [x_conns].
        rewrite conn_open_close_other; [exact O|]. intros EC. specialize (CL EC). discriminate.
      + injection E as <-. destruct Q as [RA O]. split; [exact RA|]. cbn [x_conns].
        rewrite conn_open_close_other; [exact O|]. intros EC. specialize (CL EC). discriminate.
  Qed.
  Lemma mono_tcp e cn c0 : forall fuel s x x',
    tcp_messages fuel e cn s x = Ok x' -> (cn_id cn = c0 -> chunk_clean fuel s = true) ->
    conn_open (x_conns x) c0 = true -> conn_open (x_conns x') c0 = true.
  Proof.
    induction fuel as [|f IH]; intros s x x' E CL O; cbn [tcp_messages chunk_clean] in E, CL.
    - injection E as <-. exact O.
    - destruct (trim_left s); [injection E as <-; exact O|].
      destruct (parse_message s) as [[m rest]| |].
      + destruct (process_message e (cn_peer cn) (cn_peer_port cn) (cn_from cn) (cn_received_support cn) (Some (cn_id cn)) m x)
          as [x1| |] eqn:E1; try discriminate.
        eapply IH; [exact E|exact CL|]. eapply process_message_mono; eassumption.
      + injection E as <-. cbn [x_conns]. rewrite conn_open_close_other; [exact O|].
        intros EC. specialize (CL EC). discriminate.
      + injection E as <-. cbn [x_conns]. rewrite conn_open_close_other; [exact O|].
        intros EC. specialize (CL EC). discriminate.
  Qed.

  Definition ev_away (fx : fixes) (cf : cfg) (now : Z) (branch : bytes) (st : state) (ev : event) : Prop :=
    match ev with
    | EvUdp li' src sport data =>
        li' = li -> forall lc m rest, nth_opt (c_listens cf) li = Some lc -> parse_message data = Ok (m, rest) ->
          msg_away (mk_env fx cf (item_rs_of (fx_wiring fx)) li lc now branch)
                   (item_rs_of (fx_wiring fx) lc) src sport None m
    | EvTcpData cid data =>
        (cid = c -> chunk_clean (S (List.length data)) data = true) /\
        forall cn lc, find (fun x => Nat.eqb (cn_id x) cid) (st_conns st) = Some cn -> cn_li cn = li ->
          nth_opt (c_listens cf) li = Some lc ->
          Forall (msg_away (mk_env fx cf (item_rs_of (fx_wiring fx)) li lc now branch)
                           (cn_received_support cn) (cn_peer cn) (cn_peer_port cn) (Some (cn_id cn)))
                 (chunk_msgs (S (List.length data)) data)
    | EvTcpAccept li' src sport => li' = li -> K <> full_addr tcp src sport []
    | EvTcpClose cid => cid <> c
    | EvBackendAdd _ _ => True
    | EvBackendRemove _ _ => True
    end.
End Held.

Section Held2.
  Variables (li : nat) (K : bytes) (c : nat) (ex : Z).
  Definition ctx0 (st : state) (p : pstate) : ctx :=
    {| x_learned := st_learned st; x_p := p; x_conns := st_conns st; x_world := st_world st; x_outs := [] |}.
  Lemma run_ctx_held st li' f st' outs :
    run_ctx st li' f = Ok (st', outs) ->
    (li' = li -> forall p x', f p (ctx0 st p) = Ok x' -> held_x K c ex (ctx0 st p) -> held_x K c ex x') ->
    (forall p x', f p (ctx0 st p) = Ok x' -> conn_open (st_conns st) c = true -> conn_open (x_conns x') c = true) ->
    held li K c ex st -> held li K c ex st'.
  Proof.
    intros E H1 H2 [(p & N & RA) O]. unfold run_ctx in E.
    destruct (nth_p (st_proxies st) li') as [p0|] eqn:N0; [|injection E as <- _; split; [exists p; split; assumption|exact O]].
    fold (ctx0 st p0) in E.
    destruct (f p0 (ctx0 st p0)) as [x'| |] eqn:EF; try discriminate. injection E as <- _. unfold held. cbn [st_proxies st_conns].
    destruct (Nat.eq_dec li' li) as [->|NE].
    - rewrite N in N0. injection N0 as <-.
      destruct (H1 eq_refl p x' EF (conj RA O)) as [RA' O']. split; [|exact O'].
      exists (x_p x'). split; [eapply nth_set_same; exact N|exact RA'].
    - split; [exists p; split; [rewrite nth_set_other by exact NE; exact N|exact RA]|].
      eapply H2; [exact EF|exact O].
  Qed.

  Theorem C12_preserved : forall fx cf now branch st ev st' outs,
    proxy_step fx cf now branch st ev = Ok (st', outs) ->
    ev_away li K c fx cf now branch st ev -> now / second <= ex ->
    held li K c ex st -> held li K c ex st'.
  Proof.
    intros fx cf now branch st ev st' outs E OK L Q.
    destruct ev as [li' src sport data|li' src sport|cid data|cid|li' a|li' a]; cbn [proxy_step ev_away] in E, OK.
    - destruct (nth_opt (c_listens cf) li') as [lc|] eqn:NL; [|injection E as <- _; exact Q].
      destruct (parse_message data) as [[m rest]| |] eqn:EP; try (injection E as <- _; exact Q).
      eapply run_ctx_held; [exact E| | |exact Q].
      + intros -> p x' EF HX. eapply held_message; [exact EF|exact L|exact (OK eq_refl lc m rest NL eq_refl)|exact HX].
      + intros p x' EF O. eapply process_message_mono; [exact EF|exact O].
    - destruct (nth_opt (c_listens cf) li') as [lc|] eqn:NL; [|injection E as <- _; exact Q].
      destruct (nth_p (st_proxies st) li') as [p0|] eqn:N0; [|injection E as <- _; exact Q].
      set (e := mk_env fx cf (item_rs_of (fx_wiring fx)) li' lc now branch) in *.
      pose proof (get_transport_key (now_s e) (s2b "tcp") src sport [] p0) as GK.
      destruct Q as [(p & N & [sec A]) O].
      assert (FR : li' = li -> alookup K (ps_table (fst (get_transport (now_s e) (s2b "tcp") src sport [] p0)))
                             = Some {| fo_pri := Some (PConn c ex); fo_sec := sec |}).
      { intros ->. rewrite N in N0. injection N0 as <-.
        apply (get_transport_other (now_s e) tcp src sport [] p K _ A (keepable_conn (now_s e) c ex sec L));
          apply (OK eq_refl). }
      destruct (get_transport (now_s e) (s2b "tcp") src sport [] p0) as [p1 rk]. cbn [fst snd] in GK, FR.
      injection E as <- _. unfold held. cbn [st_proxies st_conns]. split; [|apply conn_open_app; exact O].
      destruct (Nat.eq_dec li' li) as [->|NE].
      + eexists. split; [eapply nth_set_same; exact N|]. exists sec.
        destruct rk as [key| |]; try (apply FR; reflexivity).
        rewrite set_primary_other; [apply FR; reflexivity|]. rewrite (GK key eq_refl). apply (OK eq_refl).
      + exists p. split; [rewrite nth_set_other by exact NE; exact N|exists sec; exact A].
    - destruct OK as [CL AW].
      destruct (find (fun x => Nat.eqb (cn_id x) cid) (st_conns st)) as [cn|] eqn:EFD; [|injection E as <- _; exact Q].
      destruct (cn_open cn); [|injection E as <- _; exact Q].
      destruct (nth_opt (c_listens cf) (cn_li cn)) as [lc|] eqn:NL; [|injection E as <- _; exact Q].
      assert (ID : cn_id cn = cid) by (apply find_some in EFD; destruct EFD as [_ H]; apply Nat.eqb_eq; exact H).
      assert (CL' : cn_id cn = c -> chunk_clean (S (List.length data)) data = true) by (intros H; apply CL; congruence).
      eapply run_ctx_held; [exact E| | |exact Q].
      + intros ELI p x' EF HX. rewrite ELI in NL, EF.
        eapply held_tcp; [|exact EF|exact (AW cn lc eq_refl ELI NL)|exact CL'|exact HX]. exact L.
      + intros p x' EF O. eapply mono_tcp; [exact EF|exact CL'|exact O].
    - injection E as <- _. destruct Q as [QP O]. split; [exact QP|]. cbn [st_conns].
      rewrite conn_open_close_other; [exact O|exact OK].
    - destruct Q as [(p & N & RA) O].
      destruct (nth_p (st_proxies st) li') as [p0|] eqn:N0; [|injection E as <- _; split; [exists p; split; assumption|exact O]].
      injection E as <- _. unfold held. cbn [st_proxies st_conns]. split; [|exact O].
      destruct (Nat.eq_dec li' li) as [->|NE].
      + rewrite N in N0. injection N0 as <-. eexists. split; [eapply nth_set_same; exact N|exact RA].
      + exists p. split; [rewrite nth_set_other by exact NE; exact N|exact RA].
    - destruct Q as [(p & N & RA) O].
      destruct (nth_p (st_proxies st) li') as [p0|] eqn:N0; [|injection E as <- _; split; [exists p; split; assumption|exact O]].
      destruct (rr_remove a (ps_rr p0)) as [r' closed]. injection E as <- _. unfold held. cbn [st_proxies st_conns].
      split; [|exact O].
      destruct (Nat.eq_dec li' li) as [->|NE].
      + rewrite N in N0. injection N0 as <-. eexists. split; [eapply nth_set_same; exact N|exact RA].
      + exists p. split; [rewrite nth_set_other by exact NE; exact N|exact RA].
  Qed.

  (* [hist_away st h]: no event of h disturbs the entry, each judged in the state it meets *)
  Fixpoint hist_away (fx : fixes) (cf : cfg) (st : state) (h : hist) : Prop :=
    match h with
    | [] => True
    | (now, br, ev) :: r =>
        now / second <= ex /\ ev_away li K c fx cf now br st ev /\
        match proxy_step fx cf now br st ev with
        | Ok (st1, _) => hist_away fx cf st1 r
        | _ => True
        end
    end.
  Theorem C12_preserved_history : forall fx cf h st st' outss,
    run fx cf st h = Ok (st', outss) -> hist_away fx cf st h -> held li K c ex st -> held li K c ex st'.
  Proof.
    intros fx cf. induction h as [|[[now br] ev] r IH]; intros st st' outss E F Q; cbn [run] in E.
    - injection E as <- _. exact Q.
    - cbn [hist_away] in F. destruct F as (L & AW & F).
      destruct (proxy_step fx cf now br st ev) as [[st1 o]| |] eqn:E1; cbn [rbind] in E; try discriminate.
      destruct (run fx cf st1 r) as [[st2 os]| |] eqn:E2; cbn [rbind] in E; try discriminate.
      injection E as <- _. eapply IH; [exact E2|exact F|]. eapply C12_preserved; eassumption.
  Qed.
End Held2.

(* ---- one complete request in a TCP chunk ---- *)
Lemma parse_ok_nonblank s m rest : parse_message s = Ok (m, rest) -> trim_left s <> [].
Proof. intros EP ET. unfold parse_message in EP. rewrite ET in EP. cbn in EP. discriminate. Qed.
Lemma tcp_single e cn data m rest x x' :
  parse_message data = Ok (m, rest) -> trim_left rest = [] ->
  tcp_messages (S (List.length data)) e cn data x = Ok x' ->
  process_message e (cn_peer cn) (cn_peer_port cn) (cn_from cn) (cn_received_support cn) (Some (cn_id cn)) m x = Ok x'.
Proof.
  intros EP TR E. cbn [tcp_messages] in E. pose proof (parse_ok_nonblank data m rest EP) as NB.
  destruct (trim_left data) as [|a l]; [contradiction|]. rewrite EP in E.
  destruct (process_message e (cn_peer cn) (cn_peer_port cn) (cn_from cn) (cn_received_support cn) (Some (cn_id cn)) m x)
    as [x1| |]; try discriminate.
  destruct (List.length data) as [|f]; cbn [tcp_messages] in E; [exact E|]. rewrite TR in E. exact E.
Qed.
Lemma chunk_clean_single data m rest : parse_message data = Ok (m, rest) -> trim_left rest = [] ->
  chunk_clean (S (List.length data)) data = true.
Proof.
  intros EP TR. cbn [chunk_clean]. destruct (trim_left data); [reflexivity|]. rewrite EP.
  destruct (List.length data); cbn [chunk_clean]; [reflexivity|]. rewrite TR. reflexivity.
Qed.
Lemma find_conn_open cs c cn : find (fun x => Nat.eqb (cn_id x) c) cs = Some cn -> cn_open cn = true ->
  conn_open cs c = true.
Proof.
  intros F O. apply find_some in F. destruct F as [HI HE]. unfold conn_open. apply existsb_exists.
  exists cn. split; [exact HI|]. rewrite HE, O. reflexivity.
Qed.

(* ---- C12_same_connection: request on connection c ... any interleaving ... response ---- *)
Theorem C12_same_connection : forall cf li lc h1 tq bq c dataq h2 tr br peer pport datar st0 stf outss
    st1 o1 cn pq mq restq mr restr v cs brq h0 pt tr0 host v2 host2 trr cs2,
  nth_opt (c_listens cf) li = Some lc ->
  run all_fixed cf st0 (h1 ++ (tq, bq, EvTcpData c dataq) :: h2 ++ [(tr, br, EvUdp li peer pport datar)]) = Ok (stf, outss) ->
  run all_fixed cf st0 h1 = Ok (st1, o1) ->
  (* c is an open connection of listener li *)
  find (fun x => Nat.eqb (cn_id x) c) (st_conns st1) = Some cn -> cn_open cn = true -> cn_li cn = li ->
  nth_p (st_proxies st1) li = Some pq ->
  (* the request: one complete message, not relayed along a Route / static route *)
  parse_message dataq = Ok (mq, restq) -> trim_left restq = [] ->
  is_request mq = true -> not_forwarded (mk_env all_fixed cf (item_rs_of true) li lc tq bq) mq ->
  top_via_of mq = Ok v -> snd (s_get_cseq mq) = Ok cs -> via_get_branch v = Some brq ->
  hop_of_via (stamp_via (cn_received_support cn) (cn_peer cn) (cn_peer_port cn) v) = (h0, pt, tr0) ->
  reg_host all_fixed h0 = Ok host ->
  (* the entry is filed under the RESOLVED response host *)
  let K := full_addr tcp (resolve cf host) pt (cs_method cs ++ "-"%char :: brq) in
  let ex := tq / second + 3600 in
  (* in between: nothing that touches K except provisional responses of the transaction itself;
     c is not closed; less than 3600 s *)
  (forall st2 oq, proxy_step all_fixed cf tq bq st1 (EvTcpData c dataq) = Ok (st2, oq) ->
                  hist_away li K c ex all_fixed cf st2 h2) ->
  (* the response: the client's Via entry under the proxy's: a response host that resolves to the
     same address (in particular the same text), same port, same branch, same CSeq method *)
  parse_message datar = Ok (mr, restr) -> is_request mr = false ->
  next_top mr = Ok v2 -> hop_of_via v2 = (host2, pt, trr) -> to_lower trr = tcp ->
  snd (s_get_cseq mr) = Ok cs2 -> cs_method cs2 = cs_method cs -> via_get_branch v2 = Some brq ->
  resolve cf host2 = resolve cf host -> tr / second <= ex ->
  exists b, last outss [] = [(DConn c, b)].
Proof.
  intros cf li lc h1 tq bq c dataq h2 tr br peer pport datar st0 stf outss st1 o1 cn pq mq restq mr restr
         v cs brq h0 pt tr0 host v2 host2 trr cs2
         NL E E1 EFD CO CLI NP EPq TRq Rq NF TV CS BR HOP RH K ex HA EPr Rr NT HOP2 TR2 CS2 CM BR2 RS LR.
  rewrite run_app, E1 in E. cbn [rbind run] in E.
  destruct (proxy_step all_fixed cf tq bq st1 (EvTcpData c dataq)) as [[st2 oq]| |] eqn:E2; cbn [rbind] in E; try discriminate.
  rewrite run_app in E.
  destruct (run all_fixed cf st2 h2) as [[st3 o3]| |] eqn:E3; cbn [rbind run] in E; try discriminate.
  destruct (proxy_step all_fixed cf tr br st3 (EvUdp li peer pport datar)) as [[st4 outs]| |] eqn:E4; cbn [rbind] in E; try discriminate.
  injection E as _ <-.
  assert (ID : cn_id cn = c) by (apply find_some in EFD; destruct EFD as [_ H]; apply Nat.eqb_eq; exact H).
  assert (Q2 : held li K c ex st2).
  { pose proof E2 as E2'. cbn [proxy_step] in E2'. rewrite EFD in E2'. cbv beta iota in E2'. rewrite CO in E2'.
    cbv beta iota zeta in E2'. rewrite CLI, NL in E2'. cbv beta iota zeta in E2'.
    unfold run_ctx in E2'. rewrite NP in E2'. cbv beta iota in E2'.
    set (eq := mk_env all_fixed cf (item_rs_of (fx_wiring all_fixed)) li lc tq bq) in *.
    set (x0 := {| x_learned := st_learned st1; x_p := pq; x_conns := st_conns st1; x_world := st_world st1; x_outs := [] |}) in *.
    destruct (tcp_messages (S (List.length dataq)) eq cn dataq x0) as [x'| |] eqn:ET; try discriminate.
    injection E2' as <- _.
    apply (tcp_single eq cn dataq mq restq x0 x' EPq TRq) in ET.
    destruct (C12_register eq (cn_peer cn) (cn_peer_port cn) (cn_from cn) (cn_received_support cn) (cn_id cn) mq x0 x'
                           v cs brq h0 pt tr0 host eq_refl Rq NF TV CS BR HOP RH ET) as (RA & EC & _).
    split.
    - exists (x_p x'). split; [cbn [st_proxies]; eapply nth_set_same; exact NP|]. rewrite ID in RA. exact RA.
    - cbn [st_conns]. rewrite EC. apply (find_conn_open (st_conns st1) c cn EFD CO). }
  assert (Q3 : held li K c ex st3) by (eapply C12_preserved_history; [exact E3|exact (HA st2 oq eq_refl)|exact Q2]).
  destruct Q3 as [(p3 & N3 & RA3) O3].
  cbn [proxy_step] in E4. rewrite NL, EPr in E4. unfold run_ctx in E4. rewrite N3 in E4.
  set (er := mk_env all_fixed cf (item_rs_of (fx_wiring all_fixed)) li lc tr br) in *.
  set (x3 := {| x_learned := st_learned st3; x_p := p3; x_conns := st_conns st3; x_world := st_world st3; x_outs := [] |}) in *.
  destruct (C12_lookup er peer pport (udp_from lc) (e_item_rs er) None mr x3 v2 host2 pt trr cs2 brq c ex
                       Rr NT HOP2 TR2 CS2 BR2) as (x' & b & EQ & O1 & _).
  - change (e_cfg er) with cf. rewrite RS, CM. exact RA3.
  - exact LR.
  - exact O3.
  - unfold udp_from in EQ. rewrite EQ in E4. injection E4 as _ <-. exists b. rewrite app_comm_cons, app_assoc, last_last, O1. reflexivity.
Qed.

(* ---- executable versions of the hypotheses (for concrete histories and for judges) ---- *)
Definition not_forwarded_b (e : env) (m : message) : bool :=
  match hvals (s2b "Route") (m_headers m) with [] => true | _ => false end &&
  match static_hop e m with Ok _ => false | _ => true end.
Definition own_provisional_b (K : bytes) (cf : cfg) (m : message) : bool :=
  negb (is_final_response m) &&
  match relay_hop m, resp_tid_of m with
  | Ok (h, pt, tr), Ok t => beq (to_lower tr) tcp && beq K (full_addr tcp (resolve cf h) pt t)
  | _, _ => false
  end.
Definition msg_away_b (K : bytes) (e : env) (rs : bool) (peer : bytes) (pport : Z) (tcp0 : option nat) (m : message) : bool :=
  if is_request m then
    not_forwarded_b e m &&
    match tcp0 with
    | Some _ => match reg_target (e_fx e) rs peer pport m with
                | Some (host, pt, t) => negb (beq K (full_addr tcp (key_host e host) pt t)) &&
                                        negb (beq K (full_addr tcp (key_host e host) pt []))
                | None => true
                end
    | None => true
    end
  else
    match send_keys e m with
    | Some (Ks, As, Kd) => (negb (beq K Ks) && negb (beq K As) && negb (beq K Kd)) || own_provisional_b K (e_cfg e) m
    | None => true
    end.
Lemma msg_away_b_sound K e rs peer pport tcp0 m :
  msg_away_b K e rs peer pport tcp0 m = true -> msg_away K e rs peer pport tcp0 m.
Proof.
  unfold msg_away_b, msg_away. destruct (is_request m).
  - intros H. apply andb_true_iff in H. destruct H as [H1 H2]. split.
    + unfold not_forwarded_b in H1. apply andb_true_iff in H1. destruct H1 as [A B]. split.
      * destruct (hvals _ _); [reflexivity|discriminate].
      * intros v Hv. rewrite Hv in B. discriminate.
    + destruct tcp0; [|exact I]. destruct (reg_target (e_fx e) rs peer pport m) as [[[host pt] t]|]; [|exact I].
      apply andb_true_iff in H2. destruct H2 as [A B]. split; apply beq_neq; apply negb_true_iff; assumption.
  - intros H. destruct (send_keys e m) as [[[Ks As] Kd]|]; [|exact I].
    apply orb_true_iff in H. destruct H as [H|H].
    + left. apply andb_true_iff in H. destruct H as [H C]. apply andb_true_iff in H. destruct H as [A B].
      repeat split; apply beq_neq; apply negb_true_iff; assumption.
    + right. unfold own_provisional_b in H. apply andb_true_iff in H. destruct H as [A B].
      split; [apply negb_true_iff; exact A|].
      destruct (relay_hop m) as [[[h pt] tr]| |] eqn:RH; try discriminate.
      destruct (resp_tid_of m) as [t| |] eqn:RT; try discriminate.
      apply andb_true_iff in B. destruct B as [B1 B2]. exists h, pt, tr, t.
      split; [reflexivity|]. split; [apply beq_eq; exact B1|]. split; [reflexivity|apply beq_eq; exact B2].
Qed.
Definition ev_away_b (li : nat) (K : bytes) (c : nat) (fx : fixes) (cf : cfg) (now : Z) (branch : bytes)
           (st : state) (ev : event) : bool :=
  match ev with
  | EvUdp li' src sport data =>
      negb (Nat.eqb li' li) ||
      match nth_opt (c_listens cf) li, parse_message data with
      | Some lc, Ok (m, _) => msg_away_b K (mk_env fx cf (item_rs_of (fx_wiring fx)) li lc now branch)
                                         (item_rs_of (fx_wiring fx) lc) src sport None m
      | _, _ => true
      end
  | EvTcpData cid data =>
      (negb (Nat.eqb cid c) || chunk_clean (S (List.length data)) data) &&
      match find (fun x => Nat.eqb (cn_id x) cid) (st_conns st) with
      | Some cn =>
          negb (Nat.eqb (cn_li cn) li) ||
          match nth_opt (c_listens cf) li with
          | Some lc => forallb (msg_away_b K (mk_env fx cf (item_rs_of (fx_wiring fx)) li lc now branch)
                                           (cn_received_support cn) (cn_peer cn) (cn_peer_port cn) (Some (cn_id cn)))
                               (chunk_msgs (S (List.length data)) data)
          | None => true
          end
      | None => true
      end
  | EvTcpAccept li' src sport => negb (Nat.eqb li' li) || negb (beq K (full_addr tcp src sport []))
  | EvTcpClose cid => negb (Nat.eqb cid c)
  | EvBackendAdd _ _ => true
  | EvBackendRemove _ _ => true
  end.
Lemma ev_away_b_sound li K c fx cf now branch st ev :
  ev_away_b li K c fx cf now branch st ev = true -> ev_away li K c fx cf now branch st ev.
Proof.
  destruct ev as [li' src sport data|li' src sport|cid data|cid|li' a|li' a]; cbn [ev_away_b ev_away]; intros H; try exact I.
  - intros -> lc m rest NL EP. rewrite Nat.eqb_refl, NL, EP in H. cbn [negb orb] in H. apply msg_away_b_sound. exact H.
  - intros ->. rewrite Nat.eqb_refl in H. cbn [negb orb] in H. apply beq_neq. apply negb_true_iff. exact H.
  - apply andb_true_iff in H. destruct H as [H1 H2]. split.
    + intros ->. rewrite Nat.eqb_refl in H1. exact H1.
    + intros cn lc EFD ELI NL. rewrite EFD, ELI, Nat.eqb_refl, NL in H2. cbn [negb orb] in H2.
      apply Forall_forall. intros m Hm. apply msg_away_b_sound. rewrite forallb_forall in H2. apply H2. exact Hm.
  - intros ->. rewrite Nat.eqb_refl in H. discriminate.
Qed.
Fixpoint hist_away_b (li : nat) (K : bytes) (c : nat) (ex : Z) (fx : fixes) (cf : cfg) (st : state) (h : hist) : bool :=
  match h with
  | [] => true
  | (now, br, ev) :: r =>
      Z.leb (now / second) ex && ev_away_b li K c fx cf now br st ev &&
      match proxy_step fx cf now br st ev with
      | Ok (st1, _) => hist_away_b li K c ex fx cf st1 r
      | _ => true
      end
  end.
Lemma hist_away_b_sound li K c ex fx cf h : forall st,
  hist_away_b li K c ex fx cf st h = true -> hist_away li K c ex fx cf st h.
Proof.
  induction h as [|[[now br] ev] r IH]; intros st H; cbn [hist_away_b hist_away] in *; [exact I|].
  apply andb_true_iff in H. destruct H as [H H3]. apply andb_true_iff in H. destruct H as [H1 H2].
  split; [apply Z.leb_le; exact H1|]. split; [apply ev_away_b_sound; exact H2|].
  destruct (proxy_step fx cf now br st ev) as [[st1 o]| |]; [apply IH; exact H3|exact I|exact I].
Qed.

(* ================================================================== Part 6: computed examples *)
(* two connections from the same peer ip, the same Via sent-by, different branches; requests and
   responses (180 then 200) interleaved and reordered across the connections *)
Definition x_lc (nr : bool) : listen_cfg :=
  {| lc_addr := s2b "10.0.0.1"; lc_udp := 5060; lc_tcp := 5060;
     lc_backends := [s2b "10.0.0.11:5070"];
     lc_dynamic := false; lc_no_received := nr; lc_def_route := false; lc_must_rr := false |}.
Definition x_cfg (nr : bool) (hosts : list (bytes * bytes)) : cfg :=
  {| c_name := s2b "sip.example.com"; c_keep_next_hop := false; c_dialog_timeout := 1800;
     c_routes := []; c_hosts := hosts; c_listens := [x_lc nr] |}.
Definition x_invite (branch callid : string) : bytes := sip [
  "INVITE sip:bob@sip.example.com SIP/2.0";
  ("Via: SIP/2.0/TCP client.example:5060;branch=" ++ branch)%string;
  "From: <sip:alice@client.example>;tag=a-1";
  "To: <sip:bob@sip.example.com>";
  ("Call-ID: " ++ callid)%string;
  "CSeq: 1 INVITE";
  "Content-Length: 0"]%string.
Definition x_resp (status pxbranch branch callid recv : string) : bytes := sip [
  ("SIP/2.0 " ++ status)%string;
  ("Via: SIP/2.0/UDP 10.0.0.1:5060;branch=" ++ pxbranch)%string;
  ("Via: SIP/2.0/TCP client.example:5060;branch=" ++ branch ++ recv)%string;
  "From: <sip:alice@client.example>;tag=a-1";
  "To: <sip:bob@sip.example.com>;tag=b-2";
  ("Call-ID: " ++ callid)%string;
  "CSeq: 1 INVITE";
  "Content-Length: 0"]%string.
Definition rcv : string := ";received=10.0.0.50"%string.
Definition x_h1 : hist :=
  [ (sec 1, s2b "z9hG4bKpx0", EvTcpAccept 0 (s2b "10.0.0.50") 40001);
    (sec 2, s2b "z9hG4bKpx1", EvTcpAccept 0 (s2b "10.0.0.50") 40002) ].
Definition x_h2 : hist :=
  [ (sec 4, s2b "z9hG4bKpx3", EvTcpData 1 (x_invite "z9hG4bKb" "call-b"));
    (sec 5, s2b "z9hG4bKpx4", EvUdp 0 (s2b "10.0.0.11") 5070 (x_resp "180 Ringing" "z9hG4bKpx3" "z9hG4bKb" "call-b" rcv));
    (sec 6, s2b "z9hG4bKpx5", EvUdp 0 (s2b "10.0.0.11") 5070 (x_resp "180 Ringing" "z9hG4bKpx2" "z9hG4bKa" "call-a" rcv)) ].
Definition x_req : Z * bytes * event := (sec 3, s2b "z9hG4bKpx2", EvTcpData 0 (x_invite "z9hG4bKa" "call-a")).
Definition x_fin : Z * bytes * event :=
  (sec 7, s2b "z9hG4bKpx6", EvUdp 0 (s2b "10.0.0.11") 5070 (x_resp "200 OK" "z9hG4bKpx2" "z9hG4bKa" "call-a" rcv)).
Definition x_tail : hist :=
  [ (sec 8, s2b "z9hG4bKpx7", EvUdp 0 (s2b "10.0.0.11") 5070 (x_resp "200 OK" "z9hG4bKpx3" "z9hG4bKb" "call-b" rcv));
    (sec 9, s2b "z9hG4bKpx8", EvUdp 0 (s2b "10.0.0.11") 5070 (x_resp "200 OK" "z9hG4bKpx2" "z9hG4bKa" "call-a" rcv)) ].
Definition x_hist : hist := x_h1 ++ x_req :: x_h2 ++ [x_fin] ++ x_tail.
Definition x_c0 := x_cfg false [].
Definition x_st0 : state := init_state x_c0 0 [].
Definition keys_of (r : res (state * list (list output))) : list bytes :=
  match r with
  | Ok (st, _) => match nth_p (st_proxies st) 0 with Some p => map fst (ps_table p) | None => [] end
  | _ => []
  end.
(* every response on the connection of its own request; the retransmitted 200 of the finished
   transaction goes to NO connection (the peer does not accept connections) *)
Example C12_history_ex :
  dests (run all_fixed x_c0 x_st0 x_hist) =
  [ []; []; [DUdp (s2b "10.0.0.11") 5070]; [DUdp (s2b "10.0.0.11") 5070];
    [DConn 1]; [DConn 0]; [DConn 0]; [DConn 1]; [] ] /\
  keys_of (run all_fixed x_c0 x_st0 (firstn 4 x_hist)) =
  map s2b ["tcp://10.0.0.50:40001"; "tcp://10.0.0.50:40002"; "tcp://10.0.0.50:5060";
           "tcp://10.0.0.50:5060-INVITE-z9hG4bKa"; "tcp://10.0.0.50:5060-INVITE-z9hG4bKb"]%string /\
  keys_of (run all_fixed x_c0 x_st0 x_hist) =
  map s2b ["tcp://10.0.0.50:40001"; "tcp://10.0.0.50:40002"; "tcp://10.0.0.50:5060"]%string.
Proof. vm_compute. repeat split; reflexivity. Qed.

(* B2, computed.  Stamping off, sent-by = a NAME of the host table.  Before the repair the
   registration was filed under the name, the look-up used the resolved address, the removal the
   name again: the final response was NOT written to connection 0 (dropped when 10.0.0.50:5060
   accepts no connection, sent on a NEW connection when it does) and the look-up entries stayed in
   the table for ever.  After the repair all three use the resolved address *)
Definition b2_cfg : cfg := x_cfg true [(s2b "client.example", s2b "10.0.0.50")].
Definition b2_hist : hist :=
  [ (sec 1, s2b "z9hG4bKpx0", EvTcpAccept 0 (s2b "10.0.0.50") 40001);
    (sec 3, s2b "z9hG4bKpx2", EvTcpData 0 (x_invite "z9hG4bKa" "call-a"));
    (sec 7, s2b "z9hG4bKpx6", EvUdp 0 (s2b "10.0.0.11") 5070 (x_resp "200 OK" "z9hG4bKpx2" "z9hG4bKa" "call-a" "")) ].
Definition legacy_key_fixes : fixes :=
  {| fx_wiring := true; fx_udp_via_listener := true; fx_indialog_invite := true; fx_bracket_host := true;
     fx_resolved_key := false; fx_stale_pin := true |}.
Theorem C12_legacy_refuted :
  (* before the repair (fx_resolved_key = false) *)
  dests (run legacy_key_fixes b2_cfg (init_state b2_cfg 0 []) b2_hist) = [ []; [DUdp (s2b "10.0.0.11") 5070]; [] ] /\
  dests (run legacy_key_fixes b2_cfg (init_state b2_cfg 0 [(s2b "10.0.0.50", 5060)]) b2_hist) =
    [ []; [DUdp (s2b "10.0.0.11") 5070]; [DDial (s2b "10.0.0.50") 5060 1; DConn 1] ] /\
  keys_of (run legacy_key_fixes b2_cfg (init_state b2_cfg 0 []) (firstn 2 b2_hist)) =
    map s2b ["tcp://10.0.0.50:40001"; "tcp://client.example:5060"; "tcp://client.example:5060-INVITE-z9hG4bKa"]%string /\
  keys_of (run legacy_key_fixes b2_cfg (init_state b2_cfg 0 []) b2_hist) =
    map s2b ["tcp://10.0.0.50:40001"; "tcp://client.example:5060"; "tcp://10.0.0.50:5060";
             "tcp://10.0.0.50:5060-INVITE-z9hG4bKa"]%string /\
  (* after the repair: the same history delivers the 200 on connection 0, whether or not
     10.0.0.50:5060 accepts connections, and the per-transaction key is consumed *)
  dests (run all_fixed b2_cfg (init_state b2_cfg 0 []) b2_hist) = [ []; [DUdp (s2b "10.0.0.11") 5070]; [DConn 0] ] /\
  dests (run all_fixed b2_cfg (init_state b2_cfg 0 [(s2b "10.0.0.50", 5060)]) b2_hist) =
    [ []; [DUdp (s2b "10.0.0.11") 5070]; [DConn 0] ] /\
  keys_of (run all_fixed b2_cfg (init_state b2_cfg 0 []) (firstn 2 b2_hist)) =
    map s2b ["tcp://10.0.0.50:40001"; "tcp://10.0.0.50:5060"; "tcp://10.0.0.50:5060-INVITE-z9hG4bKa"]%string /\
  keys_of (run all_fixed b2_cfg (init_state b2_cfg 0 []) b2_hist) =
    map s2b ["tcp://10.0.0.50:40001"; "tcp://10.0.0.50:5060"]%string.
Proof. vm_compute. repeat split; reflexivity. Qed.
(* the same sent-by when the name is NOT in the host table: delivered on connection 0, entry consumed *)
Example C12_unknown_name_ok :
  let cf := x_cfg true [] in
  dests (run all_fixed cf (init_state cf 0 []) b2_hist) = [ []; [DUdp (s2b "10.0.0.11") 5070]; [DConn 0] ] /\
  keys_of (run all_fixed cf (init_state cf 0 []) b2_hist) = map s2b ["tcp://10.0.0.50:40001"; "tcp://client.example:5060"]%string.
Proof. vm_compute. split; reflexivity. Qed.

(* the hypotheses of C12_same_connection hold on the interleaved history: the 200 of transaction a *)
Definition x_r1 := run all_fixed x_c0 x_st0 x_h1.
Definition x_st1 : state := match x_r1 with Ok (s, _) => s | _ => x_st0 end.
Definition x_o1 : list (list output) := match x_r1 with Ok (_, o) => o | _ => [] end.
Definition x_dummy_conn : conn :=
  {| cn_id := 0; cn_li := 0; cn_open := false; cn_peer := []; cn_peer_port := 0;
     cn_from := udp_from (x_lc false); cn_received_support := false |}.
Definition x_cn : conn := match find (fun x => Nat.eqb (cn_id x) 0) (st_conns x_st1) with Some cn => cn | None => x_dummy_conn end.
Definition x_pq : pstate := match nth_p (st_proxies x_st1) 0 with Some p => p | None => init_pstate x_c0 0 (x_lc false) end.
Definition x_dummy_via : via_param := create_via_param [] [] 0.
Definition x_dummy_cseq : cseq := {| cs_seq := 0; cs_method := [] |}.
Definition via_or_dummy (r : res via_param) : via_param := match r with Ok v => v | _ => x_dummy_via end.
Definition cseq_or_dummy (r : res cseq) : cseq := match r with Ok c => c | _ => x_dummy_cseq end.
Definition x_dataq : bytes := x_invite "z9hG4bKa" "call-a".
Definition x_datar : bytes := x_resp "200 OK" "z9hG4bKpx2" "z9hG4bKa" "call-a" rcv.
Example C12_same_connection_ex :
  exists b, last (match run all_fixed x_c0 x_st0 (x_h1 ++ x_req :: x_h2 ++ [x_fin]) with Ok (_, o) => o | _ => [] end) []
            = [(DConn 0, b)].
Proof.
  destruct (run all_fixed x_c0 x_st0 (x_h1 ++ x_req :: x_h2 ++ [x_fin])) as [[stf outss]| |] eqn:E;
    try (vm_compute in E; discriminate E).
  eapply (C12_same_connection x_c0 0%nat (x_lc false) x_h1 (sec 3) (s2b "z9hG4bKpx2") 0%nat x_dataq x_h2
            (sec 7) (s2b "z9hG4bKpx6") (s2b "10.0.0.11") 5070 x_datar x_st0 stf outss
            x_st1 x_o1 x_cn x_pq (msg_of x_dataq) (rest_of x_dataq) (msg_of x_datar) (rest_of x_datar)
            (via_or_dummy (top_via_of (msg_of x_dataq))) (cseq_or_dummy (snd (s_get_cseq (msg_of x_dataq))))
            (s2b "z9hG4bKa") (s2b "10.0.0.50") 5060 (s2b "TCP") (s2b "10.0.0.50")
            (via_or_dummy (next_top (msg_of x_datar))) (s2b "10.0.0.50") (s2b "TCP") (cseq_or_dummy (snd (s_get_cseq (msg_of x_datar))))).
  - reflexivity.
  - exact E.
  - vm_compute. reflexivity.
  - vm_compute. reflexivity.
  - vm_compute. reflexivity.
  - vm_compute. reflexivity.
  - vm_compute. reflexivity.
  - vm_compute. reflexivity.
  - vm_compute. reflexivity.
  - vm_compute. reflexivity.
  - split; [vm_compute; reflexivity|]. intros v Hv. vm_compute in Hv. discriminate Hv.
  - vm_compute. reflexivity.
  - vm_compute. reflexivity.
  - vm_compute. reflexivity.
  - vm_compute. reflexivity.
  - vm_compute. reflexivity.
  - intros st2 oq E2. vm_compute in E2. injection E2 as <- _. apply hist_away_b_sound. vm_compute. reflexivity.
  - vm_compute. reflexivity.
  - vm_compute. reflexivity.
  - vm_compute. reflexivity.
  - vm_compute. reflexivity.
  - vm_compute. reflexivity.
  - vm_compute. reflexivity.
  - vm_compute. reflexivity.
  - vm_compute. reflexivity.
  - vm_compute. reflexivity.
  - vm_compute. discriminate.
Qed.

(* ------------------------------------------------------------------ axiom audit *)
Print Assumptions full_addr_inj_tid.
Print Assumptions keys_differ.
Print Assumptions C12_register.
Print Assumptions C12_lookup.
Print Assumptions C12_until_final.
Print Assumptions C12_preserved.
Print Assumptions C12_preserved_history.
Print Assumptions C12_same_connection.
Print Assumptions C12_history_ex.
Print Assumptions C12_legacy_refuted.
Print Assumptions C12_same_connection_ex.
