(* proofs/C02_bridge_tcp.v — JUDGE BRIDGE for property C02 (responses follow the Via chain), TCP events.

   proofs/C02_bridge.v proves that the executable judge [SpecProxy.judge_C02_event] answers 0 on what the
   MODEL emits for a datagram carrying a response ([EvUdp]).  This file lifts the bridge to a response that
   arrives on a TCP connection ([EvTcpData cid data]): "responses arriving on an accepted TCP connection are
   relayed by their Via stack".

   Part 0  a response is processed the same way whatever connection it came on: process_message with
           [Some cid] = process_message with [None] (the connection is only remembered for REQUESTS)
   Part 1  the judge on an [EvTcpData] event, spelled out
   Part 2  the process_message level:
             C02_judge_bridge_tcp_core_msg   minimal hypotheses, destination check [dest_ok] as a hypothesis
                                             (the exact analogue of C02_bridge.C02_judge_bridge_core)
             C02_judge_bridge_tcp_msg        the same in the requested shape (connection record [cn], the judge's
                                             bookkeeping [js_conns], accepted connection, one message in the chunk)
             C02_judge_bridge_tcp_msg_udp    next Via says UDP: no hypothesis left on the outputs
             C02_judge_bridge_tcp_msg_drop   at most one Via entry: nothing is relayed
   Part 3  tcp_messages_single (a chunk holding one message and then only blanks is one process_message),
           tcp_step_single (the EvTcpData branch of proxy_step on such a chunk), and the proxy_step level:
             C02_judge_bridge_tcp_core_step  minimal hypotheses, [dest_ok] as a hypothesis
             C02_judge_bridge_tcp_step       the same in the requested shape
           and ALL the destination theorems of C02_bridge.v, lifted:
             C02_judge_bridge_tcp_step_udp / _drop / _unsupported / _unresolved / _tcp_partial / _tcp_sent / _tcp_fresh
   Part 4  what EvTcpAccept records (the connection record the hypotheses talk about is the one the model files)
   Part 5  examples: accept, then a chunk carrying a response with three Via entries (the second carries
           received and rport) followed by a keep-alive CR LF; the hypotheses of the step theorems hold, verdict 0
           by the theorem; a TCP next hop (dial + write: _tcp_sent and _tcp_fresh apply); a single Via entry;
           sensitivity (wrong destination: 1, Via stack untouched: 2, nothing relayed: 1);
           [tcp_quiet_ok_needed]: a response whose next hop is the TCP peer of the accepted connection itself
           is NOT written by the model (the transaction's slot only inherits the reconnectable client), the
           judge answers 1: the one hypothesis of _tcp_partial that fails there is [tcp_quiet_ok];
           [C02_bridge_tcp_open_needed]: why H_open is a hypothesis
   No axioms, no admits.  Nothing of C02_bridge.v had to be re-proved: its lemmas on the response pipeline
   ([response_hm_good], [process_response_hm]) are stated for any peer / transport / flag / context; only
   [process_response_hm] fixes [None], which Part 0 removes.

   WHAT THE JUDGE USES OF A TCP EVENT (SpecProxy.judge_C02_event):
     - [j_input]: the connection must be in the judge's bookkeeping [js_conns]; if it is not, the verdict is 0
       without looking.  Of the record it finds, (li, ip, port), the judge of C02 uses NOTHING: it never reads
       the listen entry ([listener_port lc true] and [received_on lc] are used by the judges of C07 / C13 /
       C03, not by this one) nor the peer.  So the theorems hold for every judge state; [find ... (js_conns stj)
       = Some ...] is kept in the requested-shape theorems only (it is what makes the judge look at all, see
       [C02_bridge_tcp_ex_unknown_conn]).
     - ji_tcp = true only matters through "negb (ji_tcp i) || single_message m": a chunk with several messages
       is not judged (0).
     - [dest_ok] reads [js_conns] for a TCP destination when nothing was written (tcp_quiet_ok / tcp_agree, as
       for UDP events).

   HYPOTHESES COMPARED WITH THE UDP THEOREMS
     new, step level:
       H_find   find (fun y => Nat.eqb (cn_id y) cid) (st_conns st) = Some cn   which record the model uses
       H_open   cn_open cn = true   NEEDED: on a connection the model holds for closed it emits nothing, while
                the judge (whose bookkeeping may still list the connection) demands the relay whenever the next
                hop is observable (reason 1).  For a datagram there is no such state.
       H_one    trim_left rest = []  the chunk holds one message (then tcp_messages stops); with more messages
                the outputs of the later ones would be judged against the Via stack of the first.
       The listen entry is cn_li cn (the model reads it in the record): nth_opt (c_listens c) (cn_li cn) = Some lc,
       nth_p (st_proxies st) (cn_li cn) = Some p replace the UDP theorems' hypotheses on li.
     NOT needed (kept in the requested-shape theorems C02_judge_bridge_tcp_msg / _step only, unused there):
       - the judge's record of the connection (see above), cn_id cn = cid;
       - cn_from cn = the listener's KTcpListen transport: a response is relayed the same way whatever transport
         read it (try_remove_top_route only touches Route headers, HandleMessage pops the top Via without
         looking at it), so the theorems also cover responses read on connections the proxy DIALLED (TCP
         backends);
       - anything about the received-support flag: it only stamps REQUESTS (is_request m1 && rs); hence also no
         fx_wiring hypothesis;
       - the judge's [single_message jin]: if it is false the judge answers 0 without looking, if it is true the
         proof goes through.  (It cannot be derived from H_one in general: the judge takes the body length from
         the first Content-Length / l header, the model from get_header_int.)
       - src_ok / branch_ok / safe1 / port ranges / learned table (hypotheses of the C07 bridge): the proxy pushes
         no Via entry of its own on a response. *)
From Coq Require Import List Ascii String ZArith NArith Bool Arith Lia.
From Coq Require Import ZifyBool ZifyNat ZifyN.
From Model Require Import Bytes BytesLemmas Uri Hdr Message Msg Rx Glob StaticRoute RoundRobin Pins Wire
     Proxy RunProxy SpecProxy SpecC14.
From Model.proofs Require C06 C13_bridge.
From Model.proofs Require Import MsgLemmas C14_via C01 C07 C02 C07_bridge C02_bridge.
Import ListNotations.
Open Scope Z_scope.
Open Scope list_scope.

(* ====================================================================== Part 0: a response, any connection *)
(* handleRawMessage remembers the connection for the responses of a REQUEST; for a response nothing is filed *)
Lemma process_response_any_tcp e peer port from rs tcp m0 x :
  is_response m0 = true ->
  process_message e peer port from rs tcp m0 x = process_message e peer port from rs None m0 x.
Proof.
  intros Hr.
  assert (Hq : is_request m0 = false) by (unfold is_response in Hr; apply negb_true_iff; exact Hr).
  destruct tcp as [c|]; [|reflexivity].
  unfold process_message. cbv zeta. repeat (progress (rewrite ?Hq; cbn [andb]; cbv beta iota)).
  reflexivity.
Qed.

(* the context handed to sendMessage: only the pins may have changed *)
Definition pins_ctx (x : ctx) (pins' : pins) : ctx :=
  {| x_learned := x_learned x; x_p := with_pins (x_p x) pins'; x_conns := x_conns x; x_world := x_world x;
     x_outs := x_outs x |}.

(* C02_bridge.step_response_good at the process_message level, any connection *)
Lemma msg_response_good e peer port from rs tcp m x x' :
  is_response m = true -> good m ->
  process_message e peer port from rs tcp m x = Ok x' ->
  match top_view (pop_view (via_hdrs m)) with
  | Some v2 =>
      exists m4 pins',
        x' = fst (send_message e (hop_host v2) (hop_port v2) (v_transport v2) m4 (pins_ctx x pins')) /\
        sent_msg m4 = relayed_response e peer port from x m /\
        good m4 /\ m_start m4 = m_start m /\ m_body m4 = m_body m /\ via_hdrs m4 = pop_view (via_hdrs m)
  | None => x_outs x' = x_outs x
  end.
Proof.
  intros Hr G E. rewrite (process_response_any_tcp _ _ _ _ _ _ _ _ Hr) in E.
  pose proof (process_response_hm _ _ _ _ _ _ _ _ Hr E) as EX.
  pose proof (response_hm_good e peer port from x m Hr G) as GG.
  destruct (top_view (pop_view (via_hdrs m))) as [v2|].
  - destruct GG as (m4 & pins' & G1 & G2 & G3 & G4 & G5). exists m4, pins'.
    split; [rewrite EX, G1; reflexivity|]. split; [|repeat split; assumption].
    unfold relayed_response. rewrite G1. symmetry. exact (proj1 (send_message_outs _ _ _ _ _ _)).
  - rewrite EX. exact GG.
Qed.

(* ====================================================================== Part 1: the judge on EvTcpData *)
Lemma judge_C02_tcp_unfold pc st cid data outs closed :
  judge_C02_event pc st (EvTcpData cid data) outs closed =
  match find (fun y => Nat.eqb (fst y) cid) (js_conns st) with
  | Some _ =>
      match j_read data with
      | Some m => if (j_is_response m && jm_has_cl m && single_message m)%bool
                  then jc02_body pc st (j_flat_via (jm_headers m)) (msgs_of outs) else O
      | None => O
      end
  | None => O
  end.
Proof.
  unfold judge_C02_event, j_input.
  destruct (find (fun y => Nat.eqb (fst y) cid) (js_conns st)) as [[c0 [[li ip] port]]|]; reflexivity.
Qed.

(* ====================================================================== Part 2: one message *)
(* THE CORE, process_message level, minimal hypotheses.  For every case, judge state, environment, peer,
   receiving transport, received-support flag and connection ([tcp]; None allowed), every chunk both readers
   accept and every model context: the judge of C02 accepts what process_message appends for the message
   ([pre], any sub-selection [vis] of it, labelled as the correspondence run labels it) as soon as its
   destination check [dest_ok] holds of the visible outputs.  The check is only asked for when the response
   has at least two Via entries, and may use what the model emitted: ONE sendMessage call for the entry v2 on
   top after the pop, on a message whose serialisation is that of [relayed_response]. *)
Theorem C02_judge_bridge_tcp_core_msg :
  forall (pc : proxy_case) (stj : jstate) (e : env) (cid : nat) (peer : bytes) (pport : Z) (from : stransport)
         (rs : bool) (tcp : option nat) (data : bytes) (jin : jmsg) (m : message) (rest : bytes)
         (x x' : ctx) (pre : list output) (vis : output -> bool) (closed : list nat),
  j_read data = Some jin -> parse_message data = Ok (m, rest) ->
  via_domain m ->
  process_message e peer pport from rs tcp m x = Ok x' ->
  x_outs x' = x_outs x ++ pre ->
  (forall v1 v2 vrest m4 pins',
     is_response m = true ->
     flat_view (via_hdrs m) = v1 :: v2 :: vrest ->
     x_outs x ++ pre = x_outs (fst (send_message e (hop_host v2) (hop_port v2) (v_transport v2) m4
                                      (pins_ctx x pins'))) ->
     write_message (sent_msg m4) = write_message (relayed_response e peer pport from x m) ->
     dest_ok pc stj (j_dest (pc_cfg pc) (v_transport v2) (hop_host v2) (hop_port v2))
             (msgs_of (map B13.labelled (filter vis pre))) = true) ->
  judge_C02_event pc stj (EvTcpData cid data) (map B13.labelled (filter vis pre)) closed = O.
Proof.
  intros pc stj e cid peer pport from rs tcp data jin m rest x x' pre vis closed HJ HP HV EP EO Hdest.
  rewrite judge_C02_tcp_unfold.
  destruct (find (fun y => Nat.eqb (fst y) cid) (js_conns stj)) as [rec|]; [|reflexivity].
  rewrite HJ.
  destruct (j_is_response jin && jm_has_cl jin && single_message jin)%bool eqn:Cond; [|reflexivity].
  destruct (read_agree _ _ _ _ HJ HP) as (_ & _ & _ & Bd & PS).
  destruct (read_agree_all _ _ _ _ HJ HP) as (EH & PR).
  assert (Hq : is_request m = false).
  { unfold is_request. rewrite (parse_start_line_kind _ _ PS).
    apply andb_true_iff in Cond. destruct Cond as [Cond _]. apply andb_true_iff in Cond.
    destruct Cond as [Cond _]. unfold j_is_response in Cond. rewrite Cond. reflexivity. }
  assert (Hr : is_response m = true) by (unfold is_response; rewrite Hq; reflexivity).
  assert (Hst : start_ok (start_line_print (m_start m))).
  { unfold is_request in Hq. destruct (m_start m) as [meth uri ver|v c r] eqn:Em; [discriminate Hq|].
    exact (response_line_ok _ _ _ _ PS). }
  assert (G0 : good m) by (apply good_of_parse; assumption).
  assert (GA : Forall (fun h => is_via_name (h_name h) = true -> good_h h) (m_headers m))
    by (eapply Forall_impl; [|exact G0]; intros h Gh _; exact Gh).
  pose proof (via_read (m_headers m) GA) as VR. rewrite <- EH in VR. fold (via_hdrs m) in VR.
  pose proof (good_view _ GA) as GV. fold (via_hdrs m) in GV.
  pose proof (msg_response_good _ _ _ _ _ _ _ _ _ Hr G0 EP) as SG.
  destruct (flat_view (via_hdrs m)) as [|v1 [|v2 vrest]] eqn:FV.
  - rewrite (pop_short _ GV) in SG by (rewrite FV; cbn [List.length]; lia).
    assert (Epre : pre = []) by (apply (app_inv_head (x_outs x)); rewrite app_nil_r, <- EO; exact SG).
    subst pre. exact (jc02_body_short pc stj _ _ VR (Nat.le_0_l _)).
  - rewrite (pop_short _ GV) in SG by (rewrite FV; cbn [List.length]; lia).
    assert (Epre : pre = []) by (apply (app_inv_head (x_outs x)); rewrite app_nil_r, <- EO; exact SG).
    subst pre. refine (jc02_body_short pc stj _ _ VR _). cbn [map List.length]. lia.
  - destruct (pop_two _ _ _ _ GV FV) as (TV & FP). rewrite TV in SG.
    destruct SG as (m4 & pins' & EX & ES & G4 & S4 & B4 & V4). subst x'.
    assert (EB : write_message (sent_msg m4) = write_message (relayed_response e peer pport from x m))
      by (rewrite ES; reflexivity).
    specialize (Hdest v1 v2 vrest m4 pins' Hr eq_refl (eq_sym EO) EB).
    cbn [map] in VR. rewrite (jc02_body_two pc stj _ _ _ _ _ VR), jc02_two_of, Hdest. cbn [negb].
    destruct (msgs_of (map B13.labelled (filter vis pre))) as [|[l ob] [|q qs]] eqn:Ems; try reflexivity.
    destruct (send_message_out_is e (hop_host v2) (hop_port v2) (v_transport v2) m4 (pins_ctx x pins'))
      as (os & O1 & O2).
    change (x_outs (pins_ctx x pins')) with (x_outs x) in O1. rewrite EO in O1. apply app_inv_head in O1. subst os.
    rewrite (single_msg_payload _ _ _ _ _ O2 Ems).
    destruct (veq_sent_msg m4) as (Sa & Sb & Sv).
    apply jvias_accept.
    + unfold sent_msg. apply (gpres_mtry _ gpres_s_client_transaction). exact G4.
    + rewrite Sa, S4. exact Hst.
    + rewrite Sb, B4. exact Bd.
    + rewrite Sv, V4. exact FP.
Qed.

(* REQUESTED SHAPE (statement 1 of the task; for C02 the UDP bridge is a core + one theorem per kind of
   destination, so the destination check stays a hypothesis here as in C02_judge_bridge_core; the closed
   forms follow).  [cn] is the model's record of an accepted connection, the judge's bookkeeping files the
   connection [cid] under the same listen entry and peer, the chunk holds exactly that one message.  The
   hypotheses on [js_conns], cn_li, cn_id, cn_from and [trim_left rest = []] are NOT used (see the head of
   the file); nothing is needed about cn_received_support. *)
Theorem C02_judge_bridge_tcp_msg :
  forall (pc : proxy_case) (stj : jstate) (fx : fixes) (now : Z) (br : bytes) (cid li : nat) (lc : listen_cfg)
         (cn : conn) (data : bytes) (jin : jmsg) (m : message) (rest : bytes)
         (x x' : ctx) (pre : list output) (vis : output -> bool) (closed : list nat),
  let c := pc_cfg pc in
  let e := mk_env fx c (item_rs_of (fx_wiring fx)) li lc now br in
  nth_opt (c_listens c) li = Some lc ->
  find (fun y => Nat.eqb (fst y) cid) (js_conns stj) = Some (cid, (li, cn_peer cn, cn_peer_port cn)) ->
  cn_li cn = li -> cn_id cn = cid ->
  cn_from cn = {| t_kind := KTcpListen; t_addr := lc_addr lc; t_port := lc_tcp lc |} ->
  j_read data = Some jin -> parse_message data = Ok (m, rest) -> trim_left rest = [] ->
  via_domain m ->
  process_message e (cn_peer cn) (cn_peer_port cn) (cn_from cn) (cn_received_support cn) (Some (cn_id cn)) m x
    = Ok x' ->
  x_outs x' = x_outs x ++ pre ->
  (forall v1 v2 vrest m4 pins',
     is_response m = true ->
     flat_view (via_hdrs m) = v1 :: v2 :: vrest ->
     x_outs x ++ pre = x_outs (fst (send_message e (hop_host v2) (hop_port v2) (v_transport v2) m4
                                      (pins_ctx x pins'))) ->
     write_message (sent_msg m4) =
       write_message (relayed_response e (cn_peer cn) (cn_peer_port cn) (cn_from cn) x m) ->
     dest_ok pc stj (j_dest c (v_transport v2) (hop_host v2) (hop_port v2))
             (msgs_of (map B13.labelled (filter vis pre))) = true) ->
  judge_C02_event pc stj (EvTcpData cid data) (map B13.labelled (filter vis pre)) closed = O.
Proof.
  intros pc stj fx now br cid li lc cn data jin m rest x x' pre vis closed c e
         _ _ _ _ _ HJ HP _ HV EP EO Hdest.
  exact (C02_judge_bridge_tcp_core_msg pc stj e cid (cn_peer cn) (cn_peer_port cn) (cn_from cn)
           (cn_received_support cn) (Some (cn_id cn)) data jin m rest x x' pre vis closed HJ HP HV EP EO Hdest).
Qed.

(* closed form (a): the next Via entry says UDP and its host resolves.  Conditions as in
   C02_judge_bridge_step_udp, on the context [x] the message is processed in. *)
Theorem C02_judge_bridge_tcp_msg_udp :
  forall (pc : proxy_case) (stj : jstate) (e : env) (cid : nat) (peer : bytes) (pport : Z) (from : stransport)
         (rs : bool) (tcp : option nat) (data : bytes) (jin : jmsg) (m : message) (rest : bytes)
         (x x' : ctx) (pre : list output) (closed : list nat)
         (v1 v2 : via_param) (vrest : list via_param) (ip : bytes),
  e_cfg e = pc_cfg pc ->
  j_read data = Some jin -> parse_message data = Ok (m, rest) ->
  via_domain m ->
  flat_view (via_hdrs m) = v1 :: v2 :: vrest ->
  to_lower (v_transport v2) = s2b "udp" ->
  get_ip (pc_cfg pc) (hop_host v2) = Some ip -> resolvable ip (hop_port v2) = true ->
  udp_slot_ok ip (hop_port v2) (x_p x) ->
  fits_datagram (write_message (relayed_response e peer pport from x m)) = true ->
  process_message e peer pport from rs tcp m x = Ok x' ->
  x_outs x' = x_outs x ++ pre ->
  judge_C02_event pc stj (EvTcpData cid data)
    (map B13.labelled (filter (visible (pc_udp_endpoints pc)) pre)) closed = O.
Proof.
  intros pc stj e cid peer pport from rs tcp data jin m rest x x' pre closed v1 v2 vrest ip
         He HJ HP HV FV Htr Hip Hres Hslot Hfit EP EO.
  apply (C02_judge_bridge_tcp_core_msg pc stj e cid peer pport from rs tcp data jin m rest x x' pre _ closed
           HJ HP HV EP EO).
  intros v1' v2' vrest' m4 pins' Hr FV' EO' EB. rewrite FV in FV'. injection FV' as <- <- <-.
  rewrite <- EB in Hfit. rewrite <- He in Hip.
  rewrite (C02_dest_udp e (hop_host v2) (hop_port v2) (v_transport v2) m4 (pins_ctx x pins') ip
             Htr Hip Hres Hslot Hfit) in EO'.
  change (x_outs (pins_ctx x pins')) with (x_outs x) in EO'. apply app_inv_head in EO'. subst pre.
  unfold j_dest, lower_is. rewrite Htr. change (beq (s2b "udp") (s2b "udp")) with true. cbv iota.
  rewrite <- He, Hip. apply dest_ok_udp_one.
Qed.

(* closed form (b): at most one Via entry: nothing is relayed *)
Theorem C02_judge_bridge_tcp_msg_drop :
  forall (pc : proxy_case) (stj : jstate) (e : env) (cid : nat) (peer : bytes) (pport : Z) (from : stransport)
         (rs : bool) (tcp : option nat) (data : bytes) (jin : jmsg) (m : message) (rest : bytes)
         (x x' : ctx) (pre : list output) (vis : output -> bool) (closed : list nat),
  j_read data = Some jin -> parse_message data = Ok (m, rest) ->
  via_domain m ->
  (List.length (flat_view (via_hdrs m)) <= 1)%nat ->
  process_message e peer pport from rs tcp m x = Ok x' ->
  x_outs x' = x_outs x ++ pre ->
  judge_C02_event pc stj (EvTcpData cid data) (map B13.labelled (filter vis pre)) closed = O.
Proof.
  intros pc stj e cid peer pport from rs tcp data jin m rest x x' pre vis closed HJ HP HV Hlen EP EO.
  apply (C02_judge_bridge_tcp_core_msg pc stj e cid peer pport from rs tcp data jin m rest x x' pre vis closed
           HJ HP HV EP EO).
  intros v1 v2 vrest m4 pins' _ FV _ _. rewrite FV in Hlen. cbn [List.length] in Hlen. lia.
Qed.

(* ====================================================================== Part 3: one step of the proxy *)
(* only keep-alive blanks left: the reader waits, nothing happens, whatever the fuel *)
Lemma tcp_messages_blank f e cn s x : trim_left s = [] -> tcp_messages f e cn s x = Ok x.
Proof. intros T. destruct f as [|f]; cbn [tcp_messages]; [reflexivity|]. rewrite T. reflexivity. Qed.

(* a chunk that decodes does not consist of blanks *)
Lemma parse_message_nonblank data m rest : parse_message data = Ok (m, rest) -> trim_left data <> [].
Proof.
  intros P E. unfold parse_message in P. rewrite E in P.
  cbv beta iota zeta delta [read_line] in P. discriminate P.
Qed.

(* a chunk holding exactly one message: tcp_messages = process_message of that message *)
Lemma tcp_messages_single e cn data x m rest :
  parse_message data = Ok (m, rest) -> trim_left rest = [] ->
  tcp_messages (S (List.length data)) e cn data x =
  process_message e (cn_peer cn) (cn_peer_port cn) (cn_from cn) (cn_received_support cn) (Some (cn_id cn)) m x.
Proof.
  intros P T. cbn [tcp_messages].
  destruct (trim_left data) as [|c0 r0] eqn:TD; [exfalso; exact (parse_message_nonblank _ _ _ P TD)|].
  rewrite P.
  destruct (process_message e (cn_peer cn) (cn_peer_port cn) (cn_from cn) (cn_received_support cn)
                            (Some (cn_id cn)) m x) as [x1| |]; [|reflexivity|reflexivity].
  apply tcp_messages_blank. exact T.
Qed.

Lemma find_conn_id cid cs cn : find (fun y => Nat.eqb (cn_id y) cid) cs = Some cn -> cn_id cn = cid.
Proof. intros H. apply find_some in H. destruct H as [_ H]. apply Nat.eqb_eq in H. exact H. Qed.

(* the EvTcpData branch of proxy_step on such a chunk read on an open connection: one process_message in the
   environment of the connection's listen entry, on the context of the state *)
Lemma tcp_step_single fx c now br st cid cn lc p data m rest st' outs :
  find (fun y => Nat.eqb (cn_id y) cid) (st_conns st) = Some cn -> cn_open cn = true ->
  nth_opt (c_listens c) (cn_li cn) = Some lc -> nth_p (st_proxies st) (cn_li cn) = Some p ->
  parse_message data = Ok (m, rest) -> trim_left rest = [] ->
  proxy_step fx c now br st (EvTcpData cid data) = Ok (st', outs) ->
  exists x', process_message (step_env fx c (cn_li cn) lc now br) (cn_peer cn) (cn_peer_port cn) (cn_from cn)
               (cn_received_support cn) (Some (cn_id cn)) m (step_ctx st p) = Ok x' /\
             outs = x_outs x'.
Proof.
  intros HF HO EL EP HP HT H.
  cbn [proxy_step] in H. rewrite HF in H.
  destruct (cn_open cn); [|discriminate HO].
  cbv zeta in H. rewrite EL in H. unfold run_ctx in H. rewrite EP in H.
  rewrite (tcp_messages_single _ cn data _ m rest HP HT) in H.
  destruct (process_message _ _ _ _ _ _ _ _) as [x'| |] eqn:E; try discriminate.
  injection H as <- <-. exists x'. split; [first [exact E|reflexivity]|reflexivity].
Qed.

(* the bytes of the relayed response, as a function of the input (for the datagram size limit) *)
Definition relayed_bytes_tcp (fx : fixes) (c : cfg) (now : Z) (br : bytes) (st : state) (lc : listen_cfg)
           (p : pstate) (cn : conn) (m : message) : bytes :=
  write_message (relayed_response (step_env fx c (cn_li cn) lc now br) (cn_peer cn) (cn_peer_port cn) (cn_from cn)
                   (step_ctx st p) m).

(* THE CORE, proxy_step level, minimal hypotheses (the analogue of C02_judge_bridge_core for EvTcpData). *)
Theorem C02_judge_bridge_tcp_core_step :
  forall (pc : proxy_case) (stj : jstate) (fx : fixes) (now : Z) (br : bytes) (st : state) (cid : nat)
         (lc : listen_cfg) (cn : conn) (p : pstate) (data : bytes) (jin : jmsg) (m : message) (rest : bytes)
         (st' : state) (outs : list output) (vis : output -> bool) (closed : list nat),
  find (fun y => Nat.eqb (cn_id y) cid) (st_conns st) = Some cn -> cn_open cn = true ->
  nth_opt (c_listens (pc_cfg pc)) (cn_li cn) = Some lc -> nth_p (st_proxies st) (cn_li cn) = Some p ->
  j_read data = Some jin -> parse_message data = Ok (m, rest) -> trim_left rest = [] ->
  via_domain m ->
  proxy_step fx (pc_cfg pc) now br st (EvTcpData cid data) = Ok (st', outs) ->
  (forall v1 v2 vrest m4 pins',
     is_response m = true ->
     flat_view (via_hdrs m) = v1 :: v2 :: vrest ->
     outs = x_outs (fst (send_message (step_env fx (pc_cfg pc) (cn_li cn) lc now br) (hop_host v2) (hop_port v2)
                           (v_transport v2) m4 (pin_ctx st p pins'))) ->
     write_message (sent_msg m4) = relayed_bytes_tcp fx (pc_cfg pc) now br st lc p cn m ->
     dest_ok pc stj (j_dest (pc_cfg pc) (v_transport v2) (hop_host v2) (hop_port v2))
             (msgs_of (map B13.labelled (filter vis outs))) = true) ->
  judge_C02_event pc stj (EvTcpData cid data) (map B13.labelled (filter vis outs)) closed = O.
Proof.
  intros pc stj fx now br st cid lc cn p data jin m rest st' outs vis closed
         HF HO EL EP HJ HP HT HV H Hdest.
  destruct (tcp_step_single _ _ _ _ _ _ _ _ _ _ _ _ _ _ HF HO EL EP HP HT H) as (x' & E & ->).
  apply (C02_judge_bridge_tcp_core_msg pc stj (step_env fx (pc_cfg pc) (cn_li cn) lc now br) cid
           (cn_peer cn) (cn_peer_port cn) (cn_from cn) (cn_received_support cn) (Some (cn_id cn))
           data jin m rest (step_ctx st p) x' (x_outs x') vis closed HJ HP HV E eq_refl).
  intros v1 v2 vrest m4 pins' Hr FV EO EB. exact (Hdest v1 v2 vrest m4 pins' Hr FV EO EB).
Qed.

(* REQUESTED SHAPE (statement 2 of the task).  The hypotheses on [js_conns] and cn_from are not used. *)
Theorem C02_judge_bridge_tcp_step :
  forall (pc : proxy_case) (stj : jstate) (fx : fixes) (now : Z) (br : bytes) (st : state) (cid li : nat)
         (lc : listen_cfg) (cn : conn) (p : pstate) (data : bytes) (jin : jmsg) (m : message) (rest : bytes)
         (st' : state) (outs : list output) (vis : output -> bool) (closed : list nat),
  nth_opt (c_listens (pc_cfg pc)) li = Some lc ->
  find (fun y => Nat.eqb (cn_id y) cid) (st_conns st) = Some cn ->
  find (fun y => Nat.eqb (fst y) cid) (js_conns stj) = Some (cid, (li, cn_peer cn, cn_peer_port cn)) ->
  cn_li cn = li -> cn_open cn = true ->
  cn_from cn = {| t_kind := KTcpListen; t_addr := lc_addr lc; t_port := lc_tcp lc |} ->
  nth_p (st_proxies st) li = Some p ->
  j_read data = Some jin -> parse_message data = Ok (m, rest) -> trim_left rest = [] ->
  via_domain m ->
  proxy_step fx (pc_cfg pc) now br st (EvTcpData cid data) = Ok (st', outs) ->
  (forall v1 v2 vrest m4 pins',
     is_response m = true ->
     flat_view (via_hdrs m) = v1 :: v2 :: vrest ->
     outs = x_outs (fst (send_message (step_env fx (pc_cfg pc) li lc now br) (hop_host v2) (hop_port v2)
                           (v_transport v2) m4 (pin_ctx st p pins'))) ->
     write_message (sent_msg m4) = relayed_bytes_tcp fx (pc_cfg pc) now br st lc p cn m ->
     dest_ok pc stj (j_dest (pc_cfg pc) (v_transport v2) (hop_host v2) (hop_port v2))
             (msgs_of (map B13.labelled (filter vis outs))) = true) ->
  judge_C02_event pc stj (EvTcpData cid data) (map B13.labelled (filter vis outs)) closed = O.
Proof.
  intros pc stj fx now br st cid li lc cn p data jin m rest st' outs vis closed
         EL HF _ HLi HO _ EP HJ HP HT HV H Hdest. subst li.
  exact (C02_judge_bridge_tcp_core_step pc stj fx now br st cid lc cn p data jin m rest st' outs vis closed
           HF HO EL EP HJ HP HT HV H Hdest).
Qed.

(* ---------------------------------------------------------------- the destinations, as in C02_bridge.v Part 5 *)
(* (a) the next Via entry says UDP, host resolvable.  No agreement between judge state and model state. *)
Theorem C02_judge_bridge_tcp_step_udp :
  forall (pc : proxy_case) (stj : jstate) (fx : fixes) (now : Z) (br : bytes) (st : state) (cid : nat)
         (lc : listen_cfg) (cn : conn) (p : pstate) (data : bytes) (jin : jmsg) (m : message) (rest : bytes)
         (st' : state) (outs : list output) (closed : list nat)
         (v1 v2 : via_param) (vrest : list via_param) (ip : bytes),
  find (fun y => Nat.eqb (cn_id y) cid) (st_conns st) = Some cn -> cn_open cn = true ->
  nth_opt (c_listens (pc_cfg pc)) (cn_li cn) = Some lc -> nth_p (st_proxies st) (cn_li cn) = Some p ->
  j_read data = Some jin -> parse_message data = Ok (m, rest) -> trim_left rest = [] ->
  via_domain m ->
  flat_view (via_hdrs m) = v1 :: v2 :: vrest ->
  to_lower (v_transport v2) = s2b "udp" ->
  get_ip (pc_cfg pc) (hop_host v2) = Some ip -> resolvable ip (hop_port v2) = true ->
  udp_slot_ok ip (hop_port v2) p ->
  fits_datagram (relayed_bytes_tcp fx (pc_cfg pc) now br st lc p cn m) = true ->
  proxy_step fx (pc_cfg pc) now br st (EvTcpData cid data) = Ok (st', outs) ->
  judge_C02_event pc stj (EvTcpData cid data)
    (map B13.labelled (filter (visible (pc_udp_endpoints pc)) outs)) closed = O.
Proof.
  intros pc stj fx now br st cid lc cn p data jin m rest st' outs closed v1 v2 vrest ip
         HF HO EL EP HJ HP HT HV FV Htr Hip Hres Hslot Hfit H.
  apply (C02_judge_bridge_tcp_core_step pc stj fx now br st cid lc cn p data jin m rest st' outs _ closed
           HF HO EL EP HJ HP HT HV H).
  intros v1' v2' vrest' m4 pins' Hr FV' EO EB. rewrite FV in FV'. injection FV' as <- <- <-.
  rewrite <- EB in Hfit.
  rewrite EO.
  rewrite (C02_dest_udp (step_env fx (pc_cfg pc) (cn_li cn) lc now br) (hop_host v2) (hop_port v2) (v_transport v2)
             m4 (pin_ctx st p pins') ip Htr Hip Hres Hslot Hfit).
  cbn [pin_ctx x_outs app].
  unfold j_dest, lower_is. rewrite Htr. change (beq (s2b "udp") (s2b "udp")) with true. cbv iota. rewrite Hip.
  apply dest_ok_udp_one.
Qed.

(* (b) at most one Via entry: nothing is relayed *)
Theorem C02_judge_bridge_tcp_step_drop :
  forall (pc : proxy_case) (stj : jstate) (fx : fixes) (now : Z) (br : bytes) (st : state) (cid : nat)
         (lc : listen_cfg) (cn : conn) (p : pstate) (data : bytes) (jin : jmsg) (m : message) (rest : bytes)
         (st' : state) (outs : list output) (vis : output -> bool) (closed : list nat),
  find (fun y => Nat.eqb (cn_id y) cid) (st_conns st) = Some cn -> cn_open cn = true ->
  nth_opt (c_listens (pc_cfg pc)) (cn_li cn) = Some lc -> nth_p (st_proxies st) (cn_li cn) = Some p ->
  j_read data = Some jin -> parse_message data = Ok (m, rest) -> trim_left rest = [] ->
  via_domain m ->
  (List.length (flat_view (via_hdrs m)) <= 1)%nat ->
  proxy_step fx (pc_cfg pc) now br st (EvTcpData cid data) = Ok (st', outs) ->
  judge_C02_event pc stj (EvTcpData cid data) (map B13.labelled (filter vis outs)) closed = O.
Proof.
  intros pc stj fx now br st cid lc cn p data jin m rest st' outs vis closed
         HF HO EL EP HJ HP HT HV Hlen H.
  apply (C02_judge_bridge_tcp_core_step pc stj fx now br st cid lc cn p data jin m rest st' outs vis closed
           HF HO EL EP HJ HP HT HV H).
  intros v1 v2 vrest m4 pins' _ FV _ _. rewrite FV in Hlen. cbn [List.length] in Hlen. lia.
Qed.

(* (c) a transport that is neither udp nor tcp *)
Theorem C02_judge_bridge_tcp_step_unsupported :
  forall (pc : proxy_case) (stj : jstate) (fx : fixes) (now : Z) (br : bytes) (st : state) (cid : nat)
         (lc : listen_cfg) (cn : conn) (p : pstate) (data : bytes) (jin : jmsg) (m : message) (rest : bytes)
         (st' : state) (outs : list output) (vis : output -> bool) (closed : list nat)
         (v1 v2 : via_param) (vrest : list via_param),
  find (fun y => Nat.eqb (cn_id y) cid) (st_conns st) = Some cn -> cn_open cn = true ->
  nth_opt (c_listens (pc_cfg pc)) (cn_li cn) = Some lc -> nth_p (st_proxies st) (cn_li cn) = Some p ->
  j_read data = Some jin -> parse_message data = Ok (m, rest) -> trim_left rest = [] ->
  via_domain m ->
  flat_view (via_hdrs m) = v1 :: v2 :: vrest ->
  supported_proto (to_lower (v_transport v2)) = false ->
  proxy_step fx (pc_cfg pc) now br st (EvTcpData cid data) = Ok (st', outs) ->
  judge_C02_event pc stj (EvTcpData cid data) (map B13.labelled (filter vis outs)) closed = O.
Proof.
  intros pc stj fx now br st cid lc cn p data jin m rest st' outs vis closed v1 v2 vrest
         HF HO EL EP HJ HP HT HV FV Hun H.
  apply (C02_judge_bridge_tcp_core_step pc stj fx now br st cid lc cn p data jin m rest st' outs vis closed
           HF HO EL EP HJ HP HT HV H).
  intros v1' v2' vrest' m4 pins' Hr FV' EO EB. rewrite FV in FV'. injection FV' as <- <- <-.
  rewrite EO, (C02_dest_unsupported _ _ _ _ _ _ Hun). cbn [pin_ctx x_outs filter map].
  unfold supported_proto in Hun. apply orb_false_iff in Hun. destruct Hun as [U1 U2].
  unfold j_dest, lower_is. rewrite U1, U2. reflexivity.
Qed.

(* (d) udp or tcp, the host is not in the host table (judge: JAny = at most one message, whose Via stack is
   then checked) *)
Theorem C02_judge_bridge_tcp_step_unresolved :
  forall (pc : proxy_case) (stj : jstate) (fx : fixes) (now : Z) (br : bytes) (st : state) (cid : nat)
         (lc : listen_cfg) (cn : conn) (p : pstate) (data : bytes) (jin : jmsg) (m : message) (rest : bytes)
         (st' : state) (outs : list output) (vis : output -> bool) (closed : list nat)
         (v1 v2 : via_param) (vrest : list via_param),
  find (fun y => Nat.eqb (cn_id y) cid) (st_conns st) = Some cn -> cn_open cn = true ->
  nth_opt (c_listens (pc_cfg pc)) (cn_li cn) = Some lc -> nth_p (st_proxies st) (cn_li cn) = Some p ->
  j_read data = Some jin -> parse_message data = Ok (m, rest) -> trim_left rest = [] ->
  via_domain m ->
  flat_view (via_hdrs m) = v1 :: v2 :: vrest ->
  get_ip (pc_cfg pc) (hop_host v2) = None ->
  proxy_step fx (pc_cfg pc) now br st (EvTcpData cid data) = Ok (st', outs) ->
  judge_C02_event pc stj (EvTcpData cid data) (map B13.labelled (filter vis outs)) closed = O.
Proof.
  intros pc stj fx now br st cid lc cn p data jin m rest st' outs vis closed v1 v2 vrest
         HF HO EL EP HJ HP HT HV FV Hip H.
  apply (C02_judge_bridge_tcp_core_step pc stj fx now br st cid lc cn p data jin m rest st' outs vis closed
           HF HO EL EP HJ HP HT HV H).
  intros v1' v2' vrest' m4 pins' Hr FV' EO EB. rewrite FV in FV'. injection FV' as <- <- <-.
  destruct (send_message_outs (step_env fx (pc_cfg pc) (cn_li cn) lc now br) (hop_host v2) (hop_port v2)
              (v_transport v2) m4 (pin_ctx st p pins')) as (_ & _ & os & O1 & O2).
  cbn [pin_ctx x_outs app] in O1. rewrite <- EO in O1. subst os.
  pose proof (Nat.le_trans _ _ _ (msgs_len_le vis outs) (shape_one_msg _ _ O2)) as LE.
  unfold j_dest. rewrite Hip.
  destruct (lower_is (v_transport v2) "udp") eqn:U1.
  - unfold dest_ok. apply Nat.leb_le. exact LE.
  - destruct (lower_is (v_transport v2) "tcp") eqn:U2.
    + unfold dest_ok. apply Nat.leb_le. exact LE.
    + assert (Hun : supported_proto (to_lower (v_transport v2)) = false).
      { unfold supported_proto. unfold lower_is in U1, U2. rewrite U1, U2. reflexivity. }
      rewrite EO, (C02_dest_unsupported _ _ _ _ _ _ Hun). reflexivity.
Qed.

(* (e) TCP.  PARTIAL in the sense of C02_judge_bridge_step_tcp_partial: the agreement [tcp_quiet_ok] is stated on
   the OUTPUTS of the step (when nothing was written the judge must know neither a listener nor an open
   connection for that address); what is missing for a statement on the states alone is described there.
   Note that on a TCP event the judge's bookkeeping is never empty (it holds at least the connection the
   chunk came on), so [tcp_quiet_ok] has content: e.g. a response whose next hop is the very peer of the
   connection is NOT written by the model while the judge demands it (see [tcp_quiet_ok_needed] in Part 5). *)
Theorem C02_judge_bridge_tcp_step_tcp_partial :
  forall (pc : proxy_case) (stj : jstate) (fx : fixes) (now : Z) (br : bytes) (st : state) (cid : nat)
         (lc : listen_cfg) (cn : conn) (p : pstate) (data : bytes) (jin : jmsg) (m : message) (rest : bytes)
         (st' : state) (outs : list output) (closed : list nat)
         (v1 v2 : via_param) (vrest : list via_param) (ip : bytes),
  find (fun y => Nat.eqb (cn_id y) cid) (st_conns st) = Some cn -> cn_open cn = true ->
  nth_opt (c_listens (pc_cfg pc)) (cn_li cn) = Some lc -> nth_p (st_proxies st) (cn_li cn) = Some p ->
  j_read data = Some jin -> parse_message data = Ok (m, rest) -> trim_left rest = [] ->
  via_domain m ->
  flat_view (via_hdrs m) = v1 :: v2 :: vrest ->
  to_lower (v_transport v2) = s2b "tcp" ->
  get_ip (pc_cfg pc) (hop_host v2) = Some ip ->
  fx_udp_via_listener fx = true -> tcp_slot_ok p ->
  proxy_step fx (pc_cfg pc) now br st (EvTcpData cid data) = Ok (st', outs) ->
  tcp_quiet_ok pc stj ip (hop_port v2) outs ->
  judge_C02_event pc stj (EvTcpData cid data)
    (map B13.labelled (filter (visible (pc_udp_endpoints pc)) outs)) closed = O.
Proof.
  intros pc stj fx now br st cid lc cn p data jin m rest st' outs closed v1 v2 vrest ip
         HF HO EL EP HJ HP HT HV FV Htr Hip Hfx Hslot H HQ.
  apply (C02_judge_bridge_tcp_core_step pc stj fx now br st cid lc cn p data jin m rest st' outs _ closed
           HF HO EL EP HJ HP HT HV H).
  intros v1' v2' vrest' m4 pins' Hr FV' EO EB. rewrite FV in FV'. injection FV' as <- <- <-.
  destruct (C02_dest_tcp (step_env fx (pc_cfg pc) (cn_li cn) lc now br) (hop_host v2) (hop_port v2)
              (v_transport v2) m4 (pin_ctx st p pins') Hfx Htr Hslot) as (os & O1 & O2).
  cbn [pin_ctx x_outs app] in O1. rewrite <- EO in O1. subst os.
  unfold j_dest, lower_is. rewrite Htr.
  change (beq (s2b "tcp") (s2b "udp")) with false. change (beq (s2b "tcp") (s2b "tcp")) with true. cbv iota.
  rewrite Hip.
  exact (dest_ok_tcp pc stj ip (hop_port v2) _ outs _ O2 (tcp_shape_visible _ _ _ O2) HQ).
Qed.

(* ... in particular: whenever the model wrote the response on a connection, the judge accepts *)
Corollary C02_judge_bridge_tcp_step_tcp_sent :
  forall (pc : proxy_case) (stj : jstate) (fx : fixes) (now : Z) (br : bytes) (st : state) (cid : nat)
         (lc : listen_cfg) (cn : conn) (p : pstate) (data : bytes) (jin : jmsg) (m : message) (rest : bytes)
         (st' : state) (outs : list output) (closed : list nat)
         (v1 v2 : via_param) (vrest : list via_param) (ip : bytes),
  find (fun y => Nat.eqb (cn_id y) cid) (st_conns st) = Some cn -> cn_open cn = true ->
  nth_opt (c_listens (pc_cfg pc)) (cn_li cn) = Some lc -> nth_p (st_proxies st) (cn_li cn) = Some p ->
  j_read data = Some jin -> parse_message data = Ok (m, rest) -> trim_left rest = [] ->
  via_domain m ->
  flat_view (via_hdrs m) = v1 :: v2 :: vrest ->
  to_lower (v_transport v2) = s2b "tcp" ->
  get_ip (pc_cfg pc) (hop_host v2) = Some ip ->
  fx_udp_via_listener fx = true -> tcp_slot_ok p ->
  proxy_step fx (pc_cfg pc) now br st (EvTcpData cid data) = Ok (st', outs) ->
  filter C06.is_msg outs <> [] ->
  judge_C02_event pc stj (EvTcpData cid data)
    (map B13.labelled (filter (visible (pc_udp_endpoints pc)) outs)) closed = O.
Proof.
  intros pc stj fx now br st cid lc cn p data jin m rest st' outs closed v1 v2 vrest ip
         HF HO EL EP HJ HP HT HV FV Htr Hip Hfx Hslot H NE.
  apply (C02_judge_bridge_tcp_step_tcp_partial pc stj fx now br st cid lc cn p data jin m rest st' outs closed
           v1 v2 vrest ip HF HO EL EP HJ HP HT HV FV Htr Hip Hfx Hslot H).
  intros E. exfalso. exact (NE E).
Qed.

(* first use of a TCP address by this listener: everything from the states ([tcp_fresh], [tcp_agree] of
   C02_bridge.v).  On a TCP event [tcp_agree] says in particular: when the judge has booked a connection to
   ip:port (for instance the one the chunk came on), ip:port listens in the model's world. *)
Theorem C02_judge_bridge_tcp_step_tcp_fresh :
  forall (pc : proxy_case) (stj : jstate) (fx : fixes) (now : Z) (br : bytes) (st : state) (cid : nat)
         (lc : listen_cfg) (cn : conn) (p : pstate) (data : bytes) (jin : jmsg) (m : message) (rest : bytes)
         (st' : state) (outs : list output) (closed : list nat)
         (v1 v2 : via_param) (vrest : list via_param) (ip : bytes),
  tcp_agree pc stj st ip (hop_port v2) ->
  find (fun y => Nat.eqb (cn_id y) cid) (st_conns st) = Some cn -> cn_open cn = true ->
  nth_opt (c_listens (pc_cfg pc)) (cn_li cn) = Some lc -> nth_p (st_proxies st) (cn_li cn) = Some p ->
  j_read data = Some jin -> parse_message data = Ok (m, rest) -> trim_left rest = [] ->
  via_domain m ->
  flat_view (via_hdrs m) = v1 :: v2 :: vrest ->
  to_lower (v_transport v2) = s2b "tcp" ->
  get_ip (pc_cfg pc) (hop_host v2) = Some ip ->
  fx_udp_via_listener fx = true -> tcp_fresh ip (hop_port v2) p ->
  proxy_step fx (pc_cfg pc) now br st (EvTcpData cid data) = Ok (st', outs) ->
  judge_C02_event pc stj (EvTcpData cid data)
    (map B13.labelled (filter (visible (pc_udp_endpoints pc)) outs)) closed = O.
Proof.
  intros pc stj fx now br st cid lc cn p data jin m rest st' outs closed v1 v2 vrest ip
         (AG1 & AG2) HF HO EL EP HJ HP HT HV FV Htr Hip Hfx Hfresh H.
  apply (C02_judge_bridge_tcp_core_step pc stj fx now br st cid lc cn p data jin m rest st' outs _ closed
           HF HO EL EP HJ HP HT HV H).
  intros v1' v2' vrest' m4 pins' Hr FV' EO EB. rewrite FV in FV'. injection FV' as <- <- <-.
  rewrite EO.
  rewrite (send_message_tcp_fresh (step_env fx (pc_cfg pc) (cn_li cn) lc now br) (hop_host v2) (hop_port v2)
             (v_transport v2) m4 (pin_ctx st p pins') ip Hfx Htr Hip Hfresh).
  cbn [pin_ctx x_outs x_world app].
  unfold j_dest, lower_is. rewrite Htr.
  change (beq (s2b "tcp") (s2b "udp")) with false. change (beq (s2b "tcp") (s2b "tcp")) with true. cbv iota.
  rewrite Hip.
  assert (Q : has_peer (w_tcp_listeners (st_world st)) ip (hop_port v2) = false ->
              has_peer (pc_tcp_listeners pc) ip (hop_port v2) = false /\ jconn_to stj ip (hop_port v2) = false).
  { intros W. split.
    - destruct (has_peer (pc_tcp_listeners pc) ip (hop_port v2)); [|reflexivity].
      rewrite (AG1 eq_refl) in W. discriminate W.
    - destruct (jconn_to stj ip (hop_port v2)); [|reflexivity].
      rewrite (AG2 eq_refl) in W. discriminate W. }
  clear AG1 AG2.
  destruct (has_peer (w_tcp_listeners (st_world st)) ip (hop_port v2)).
  - reflexivity.
  - cbn [filter map]. change (msgs_of []) with (@nil (bytes * bytes)). rewrite dest_ok_tcp_nil.
    destruct (Q eq_refl) as [-> ->]. reflexivity.
Qed.

(* ====================================================================== Part 4: what EvTcpAccept records *)
(* The record the model files for an accepted connection is open, carries the listen entry of the accept, the
   peer and port of the event, and the listener's KTcpListen transport; the judge's bookkeeping [js_step]
   files (js_next_conn, (li, src, sport)) for the same event.  So H_find / H_open / the listen-entry
   hypotheses of Part 3 are those of a connection the model itself accepted (and the unused hypotheses of the
   requested-shape theorems hold of it as well). *)
Lemma C02_tcp_accept_records fx c now br st li src sport lc p :
  nth_opt (c_listens c) li = Some lc -> nth_p (st_proxies st) li = Some p ->
  exists st' rs, proxy_step fx c now br st (EvTcpAccept li src sport) = Ok (st', []) /\
    st_conns st' = st_conns st ++
      [{| cn_id := w_next_conn (st_world st); cn_li := li; cn_open := true; cn_peer := src; cn_peer_port := sport;
          cn_from := {| t_kind := KTcpListen; t_addr := lc_addr lc; t_port := lc_tcp lc |};
          cn_received_support := rs |}].
Proof.
  intros EL EP. cbn [proxy_step]. rewrite EL, EP. cbv zeta.
  destruct (get_transport _ _ _ _ _ _) as [p1 rk].
  eexists. eexists. split; reflexivity.
Qed.

Lemma js_step_accept_records stj li src sport outs :
  js_conns (js_step stj (EvTcpAccept li src sport) outs) =
  (js_conns stj ++ [(js_next_conn stj, (li, src, sport))]) ++ dialled O outs.
Proof. reflexivity. Qed.

(* ====================================================================== Part 5: examples *)
(* a decidable form of [tcp_slot_ok], for concrete states *)
Definition tcp_slot_ok_b (p : pstate) : bool :=
  forallb (fun kf => negb (has_prefix (s2b "tcp://") (fst kf)) ||
                     match fo_pri (snd kf) with
                     | Some (PUdp _ _) | Some (PUdpVia _ _) => false
                     | _ => true
                     end) (ps_table p).
Lemma tcp_slot_ok_b_sound p : tcp_slot_ok_b p = true -> tcp_slot_ok p.
Proof.
  unfold tcp_slot_ok_b, tcp_slot_ok. intros H k f I Hk ip port. rewrite forallb_forall in H.
  specialize (H (k, f) I). cbn [fst snd] in H. rewrite Hk in H. cbn [negb orb] in H.
  destruct (fo_pri f) as [[a b|a b|c0 ex]|]; try discriminate H; split; discriminate.
Qed.

Module C02_bridge_tcp_example.
Import C02_bridge_example.
Open Scope string_scope.
Open Scope list_scope.
Open Scope Z_scope.

(* the peer 10.0.0.2:5070 connects to the listener; then sends on the connection the response of
   C02_bridge_example.ex_data (three Via entries: the proxy's own and one with received=127.0.0.9;rport=40000 in
   a comma list, a third under the compact name) followed by a keep-alive CR LF *)
Definition tx_accept : event := EvTcpAccept 0 ex_src 5070.
Definition tx_data : bytes := ex_data ++ crlf.
Definition tx_ev : event := EvTcpData 0 tx_data.
Definition tx_st1 : state :=
  match proxy_step all_fixed ex_cfg 0 ex_br ex_st tx_accept with Ok (s, _) => s | _ => ex_st end.
Definition tx_p : pstate := match nth_p (st_proxies tx_st1) 0 with Some p => p | None => ex_p end.
Definition tx_step (b : bytes) : res (state * list output) :=
  proxy_step all_fixed ex_cfg 0 ex_br tx_st1 (EvTcpData 0 b).
Definition tx_st_of (b : bytes) : state := match tx_step b with Ok (s, _) => s | _ => tx_st1 end.
Definition tx_outs_of (b : bytes) : list output := match tx_step b with Ok (_, o) => o | _ => [] end.
Definition tx_seen (b : bytes) : list (bytes * bytes) :=
  map B13.labelled (filter (visible (pc_udp_endpoints ex_pc)) (tx_outs_of b)).
(* judge: the bookkeeping after the accept *)
Definition tx_stj1 : jstate := js_step_c (js_init ex_cfg) tx_accept [] [].
(* the model's record of the connection *)
Definition tx_cn : conn :=
  {| cn_id := 0; cn_li := 0; cn_open := true; cn_peer := ex_src; cn_peer_port := 5070;
     cn_from := {| t_kind := KTcpListen; t_addr := lc_addr ex_lc; t_port := lc_tcp ex_lc |};
     cn_received_support := received_on ex_lc |}.

Example tx_accept_ok : proxy_step all_fixed ex_cfg 0 ex_br ex_st tx_accept = Ok (tx_st1, []).
Proof. vm_compute. reflexivity. Qed.
Example tx_conn_found : find (fun y => Nat.eqb (cn_id y) 0) (st_conns tx_st1) = Some tx_cn.
Proof. vm_compute. reflexivity. Qed.
Example tx_judge_conn :
  find (fun y => Nat.eqb (fst y) 0%nat) (js_conns tx_stj1) = Some (0%nat, (0%nat, cn_peer tx_cn, cn_peer_port tx_cn)).
Proof. vm_compute. reflexivity. Qed.
Example tx_p_found : nth_p (st_proxies tx_st1) (cn_li tx_cn) = Some tx_p.
Proof. vm_compute. reflexivity. Qed.
Example tx_parse : parse_message tx_data = Ok (parsed tx_data, crlf).
Proof. vm_compute. reflexivity. Qed.
Example tx_read :
  option_map (fun jin => (j_is_response jin, jm_has_cl jin, single_message jin)) (j_read tx_data)
  = Some (true, true, true).
Proof. vm_compute. reflexivity. Qed.
Example tx_three_vias : List.length (flat_view (via_hdrs (parsed tx_data))) = 3%nat.
Proof. vm_compute. reflexivity. Qed.

(* what leaves the proxy: one datagram to received:rport of the second entry, carrying the two entries left *)
Example tx_output :
  map fst (tx_seen tx_data) = [s2b "udp:127.0.0.9:40000"] /\
  map (fun o => option_map (fun om => j_flat_via (jm_headers om)) (j_read (snd o))) (tx_seen tx_data) =
    [Some [s2b "SIP/2.0/UDP 10.9.9.9:5070;rport=40000;branch=z9hG4bKabc;received=127.0.0.9";
           s2b "SIP/2.0/TCP 10.8.8.8;branch=z9hG4bKdef"]].
Proof. split; vm_compute; reflexivity. Qed.

(* the hypotheses of C02_judge_bridge_tcp_step_udp hold of this instance, hence the judge accepts *)
Example C02_bridge_tcp_ex_udp :
  judge_C02_event ex_pc tx_stj1 tx_ev (tx_seen tx_data) [] = O.
Proof.
  apply (C02_judge_bridge_tcp_step_udp ex_pc tx_stj1 all_fixed 0 ex_br tx_st1 0%nat ex_lc tx_cn tx_p tx_data
           (jread tx_data) (parsed tx_data) crlf (tx_st_of tx_data) (tx_outs_of tx_data) []
           (via_n tx_data 0) (via_n tx_data 1) [via_n tx_data 2] (s2b "127.0.0.9")).
  - exact tx_conn_found.
  - reflexivity.
  - reflexivity.
  - exact tx_p_found.
  - vc.
  - exact tx_parse.
  - reflexivity.
  - apply via_domain_b_sound. vc.
  - vc.
  - vc.
  - vc.
  - vc.
  - vc.
  - vc.
  - vc.
Qed.
(* ... the verdict computed directly *)
Example C02_bridge_tcp_ex_computed : judge_C02_event ex_pc tx_stj1 tx_ev (tx_seen tx_data) [] = O.
Proof. vm_compute. reflexivity. Qed.

(* the requested-shape step theorem on the same instance (every hypothesis, the unused ones included); the
   destination check is discharged by computation on the outputs *)
Example C02_bridge_tcp_ex_step :
  judge_C02_event ex_pc tx_stj1 tx_ev (tx_seen tx_data) [] = O.
Proof.
  apply (C02_judge_bridge_tcp_step ex_pc tx_stj1 all_fixed 0 ex_br tx_st1 0%nat 0%nat ex_lc tx_cn tx_p tx_data
           (jread tx_data) (parsed tx_data) crlf (tx_st_of tx_data) (tx_outs_of tx_data)
           (visible (pc_udp_endpoints ex_pc)) []).
  - reflexivity.
  - exact tx_conn_found.
  - exact tx_judge_conn.
  - reflexivity.
  - reflexivity.
  - reflexivity.
  - exact tx_p_found.
  - vc.
  - exact tx_parse.
  - reflexivity.
  - apply via_domain_b_sound. vc.
  - vc.
  - intros v1 v2 vrest m4 pins' _ FV _ _.
    assert (E : flat_view (via_hdrs (parsed tx_data)) = [via_n tx_data 0; via_n tx_data 1; via_n tx_data 2])
      by (vm_compute; reflexivity).
    rewrite E in FV. injection FV as <- <- <-. vm_compute. reflexivity.
Qed.

(* the message-level theorem on the same instance *)
Definition tx_e : env := step_env all_fixed ex_cfg 0 ex_lc 0 ex_br.
Definition tx_x : ctx := step_ctx tx_st1 tx_p.
Definition tx_x' : ctx :=
  match process_message tx_e (cn_peer tx_cn) (cn_peer_port tx_cn) (cn_from tx_cn) (cn_received_support tx_cn)
                        (Some (cn_id tx_cn)) (parsed tx_data) tx_x
  with Ok y => y | _ => tx_x end.
Example C02_bridge_tcp_ex_msg :
  judge_C02_event ex_pc tx_stj1 tx_ev
    (map B13.labelled (filter (visible (pc_udp_endpoints ex_pc)) (x_outs tx_x'))) [] = O.
Proof.
  apply (C02_judge_bridge_tcp_msg_udp ex_pc tx_stj1 tx_e 0%nat (cn_peer tx_cn) (cn_peer_port tx_cn) (cn_from tx_cn)
           (cn_received_support tx_cn) (Some (cn_id tx_cn)) tx_data (jread tx_data) (parsed tx_data) crlf
           tx_x tx_x' (x_outs tx_x') [] (via_n tx_data 0) (via_n tx_data 1) [via_n tx_data 2] (s2b "127.0.0.9")).
  - reflexivity.
  - vc.
  - exact tx_parse.
  - apply via_domain_b_sound. vc.
  - vc.
  - vc.
  - vc.
  - vc.
  - vc.
  - vc.
  - vc.
  - reflexivity.
Qed.
Example tx_msg_outs : x_outs tx_x' = tx_outs_of tx_data.
Proof. vm_compute. reflexivity. Qed.

(* SENSITIVITY.  The judge does look: the same bytes at another address are rejected (1), the received
   response relayed unchanged to the right address is rejected for its Via stack (2), nothing relayed at
   all is rejected (1: the destination is observed) *)
Example C02_bridge_tcp_ex_sensitive :
  judge_C02_event ex_pc tx_stj1 tx_ev
    [(s2b "udp:10.9.9.9:5070", match tx_outs_of tx_data with (_, b) :: _ => b | [] => [] end)] [] = 1%nat /\
  judge_C02_event ex_pc tx_stj1 tx_ev [(s2b "udp:127.0.0.9:40000", ex_data)] [] = 2%nat /\
  judge_C02_event ex_pc tx_stj1 tx_ev [] [] = 1%nat.
Proof. repeat split; vm_compute; reflexivity. Qed.
(* without the judge's record of the connection there is no verdict *)
Example C02_bridge_tcp_ex_unknown_conn :
  judge_C02_event ex_pc (js_init ex_cfg) tx_ev [(s2b "udp:10.9.9.9:5070", ex_data)] [] = O.
Proof. vm_compute. reflexivity. Qed.
(* H_open is needed: the same chunk on the same connection once the model holds it for closed yields no
   output, and the judge (bookkeeping unchanged) answers 1 *)
Definition tx_st1_closed : state :=
  {| st_learned := st_learned tx_st1; st_proxies := st_proxies tx_st1; st_conns := close_conn 0 (st_conns tx_st1);
     st_world := st_world tx_st1 |}.
Example C02_bridge_tcp_open_needed :
  match proxy_step all_fixed ex_cfg 0 ex_br tx_st1_closed tx_ev with
  | Ok (_, o) => judge_C02_event ex_pc tx_stj1 tx_ev (map B13.labelled (filter (visible (pc_udp_endpoints ex_pc)) o)) []
  | _ => O
  end = 1%nat.
Proof. vm_compute. reflexivity. Qed.

(* A TCP NEXT HOP.  The next Via entry names TCP and 10.8.8.8:5080, which listens: the model dials and writes
   on the new connection (conn:1; conn:0 is the accepted one).  C02_judge_bridge_tcp_step_tcp_sent applies, and
   so does C02_judge_bridge_tcp_step_tcp_fresh (first use of that address; the table holds the slot of the
   accepted connection only). *)
Definition tx_tcp : bytes := ex_tcp ++ crlf.
Example tx_tcp_outputs : map fst (tx_seen tx_tcp) = [s2b "dial:10.8.8.8:5080"; s2b "conn:1"].
Proof. vm_compute. reflexivity. Qed.
Example C02_bridge_tcp_ex_tcp_sent :
  judge_C02_event ex_pc tx_stj1 (EvTcpData 0 tx_tcp) (tx_seen tx_tcp) [] = O.
Proof.
  apply (C02_judge_bridge_tcp_step_tcp_sent ex_pc tx_stj1 all_fixed 0 ex_br tx_st1 0%nat ex_lc tx_cn tx_p tx_tcp
           (jread tx_tcp) (parsed tx_tcp) crlf (tx_st_of tx_tcp) (tx_outs_of tx_tcp) []
           (via_n tx_tcp 0) (via_n tx_tcp 1) [] (s2b "10.8.8.8")).
  - exact tx_conn_found.
  - reflexivity.
  - reflexivity.
  - exact tx_p_found.
  - vc.
  - vc.
  - reflexivity.
  - apply via_domain_b_sound. vc.
  - vc.
  - vc.
  - vc.
  - reflexivity.
  - apply tcp_slot_ok_b_sound. vc.
  - vc.
  - intros X. vm_compute in X. discriminate X.
Qed.
Example C02_bridge_tcp_ex_tcp_fresh :
  judge_C02_event ex_pc tx_stj1 (EvTcpData 0 tx_tcp) (tx_seen tx_tcp) [] = O.
Proof.
  apply (C02_judge_bridge_tcp_step_tcp_fresh ex_pc tx_stj1 all_fixed 0 ex_br tx_st1 0%nat ex_lc tx_cn tx_p tx_tcp
           (jread tx_tcp) (parsed tx_tcp) crlf (tx_st_of tx_tcp) (tx_outs_of tx_tcp) []
           (via_n tx_tcp 0) (via_n tx_tcp 1) [] (s2b "10.8.8.8")).
  - split; intros _; vc.
  - exact tx_conn_found.
  - reflexivity.
  - reflexivity.
  - exact tx_p_found.
  - vc.
  - vc.
  - reflexivity.
  - apply via_domain_b_sound. vc.
  - vc.
  - vc.
  - vc.
  - reflexivity.
  - split; [intros tid; destruct tid; vm_compute; reflexivity|vm_compute; reflexivity].
  - vc.
Qed.

(* [tcp_quiet_ok] IS NOT IDLE ON A TCP EVENT (a disagreement between model and judge that the hypothesis
   excludes).  The next Via entry names TCP and the very peer of the accepted connection (10.0.0.2:5070).  The
   accept filed the connection as the PRIMARY of the slot tcp://10.0.0.2:5070; sendMessage looks the
   transaction's slot tcp://10.0.0.2:5070-<tid> up, does not find it, and creates it with the SECONDARY of the
   address slot only (get_transport: fo_pri := None, fo_sec := fo_sec f): the reconnectable client dials
   10.0.0.2:5070, nobody listens there, nothing is written.  (Only a REQUEST read on the connection files the
   connection under its transaction: pm_conn.)  The judge's bookkeeping knows a connection to that address
   (the one the chunk came on) and demands a write: reason 1.  Every hypothesis of
   C02_judge_bridge_tcp_step_tcp_partial but [tcp_quiet_ok] holds of this instance. *)
Definition tx_back : bytes := resp [own; "Via: SIP/2.0/TCP 10.0.0.2:5070;branch=z9hG4bKdef"] ++ crlf.
Example tcp_quiet_ok_needed :
  tx_outs_of tx_back = [] /\
  tcp_slot_ok tx_p /\
  to_lower (v_transport (via_n tx_back 1)) = s2b "tcp" /\
  get_ip ex_cfg (hop_host (via_n tx_back 1)) = Some (s2b "10.0.0.2") /\ hop_port (via_n tx_back 1) = 5070 /\
  jconn_to tx_stj1 (s2b "10.0.0.2") 5070 = true /\
  judge_C02_event ex_pc tx_stj1 (EvTcpData 0 tx_back) (tx_seen tx_back) [] = 1%nat.
Proof.
  split; [vc|]. split; [apply tcp_slot_ok_b_sound; vc|]. repeat split; vm_compute; reflexivity.
Qed.

(* a single Via entry on the connection: dropped *)
Definition tx_single : bytes := ex_single ++ crlf.
Example C02_bridge_tcp_ex_drop :
  tx_outs_of tx_single = [] /\
  judge_C02_event ex_pc tx_stj1 (EvTcpData 0 tx_single) (tx_seen tx_single) [] = O.
Proof.
  split; [vc|].
  apply (C02_judge_bridge_tcp_step_drop ex_pc tx_stj1 all_fixed 0 ex_br tx_st1 0%nat ex_lc tx_cn tx_p tx_single
           (jread tx_single) (parsed tx_single) crlf (tx_st_of tx_single) (tx_outs_of tx_single)
           (visible (pc_udp_endpoints ex_pc)) []).
  - exact tx_conn_found.
  - reflexivity.
  - reflexivity.
  - exact tx_p_found.
  - vc.
  - vc.
  - reflexivity.
  - apply via_domain_b_sound. vc.
  - vm_compute. lia.
  - vc.
Qed.

(* Part 4 on this instance *)
Example tx_accept_records : st_conns tx_st1 = st_conns ex_st ++ [tx_cn].
Proof. vm_compute. reflexivity. Qed.
End C02_bridge_tcp_example.

Print Assumptions process_response_any_tcp.
Print Assumptions judge_C02_tcp_unfold.
Print Assumptions tcp_messages_single.
Print Assumptions tcp_step_single.
Print Assumptions C02_judge_bridge_tcp_core_msg.
Print Assumptions C02_judge_bridge_tcp_msg.
Print Assumptions C02_judge_bridge_tcp_msg_udp.
Print Assumptions C02_judge_bridge_tcp_msg_drop.
Print Assumptions C02_judge_bridge_tcp_core_step.
Print Assumptions C02_judge_bridge_tcp_step.
Print Assumptions C02_judge_bridge_tcp_step_udp.
Print Assumptions C02_judge_bridge_tcp_step_drop.
Print Assumptions C02_judge_bridge_tcp_step_unsupported.
Print Assumptions C02_judge_bridge_tcp_step_unresolved.
Print Assumptions C02_judge_bridge_tcp_step_tcp_partial.
Print Assumptions C02_judge_bridge_tcp_step_tcp_sent.
Print Assumptions C02_judge_bridge_tcp_step_tcp_fresh.
Print Assumptions C02_tcp_accept_records.
Print Assumptions C02_bridge_tcp_example.C02_bridge_tcp_ex_udp.
Print Assumptions C02_bridge_tcp_example.C02_bridge_tcp_ex_step.
Print Assumptions C02_bridge_tcp_example.C02_bridge_tcp_ex_tcp_sent.
Print Assumptions C02_bridge_tcp_example.C02_bridge_tcp_ex_tcp_fresh.
