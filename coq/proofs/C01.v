(* proofs/C01.v — property C01: relaying leaves everything the proxy does not own untouched.

   For EVERY message, configuration, state, listener, repair-flag value (no size bounds):
     - every byte string the proxy emits while handling a decoded message m is
       [write_message m'] for some m' with the same NON-ROUTING VIEW as m (start line text,
       (name, printed value) list of all headers other than Via / Route / Record-Route /
       Content-Length with multiplicity and order, body), on every path (backend, Route,
       static route, response by Via; UDP and TCP)            [C01_relay_preserves, C01_proxy_step_*]
     - write_message emits exactly one Content-Length, after all other headers
                                                              [C01_single_content_length*]
     - the executable judge of SpecProxy.v accepts every such output   [C01_judge_bridge*]
   under the hypothesis [stable m] (raw From / To / CSeq values are fixed points of
   decode-then-encode), which holds on the C14 grammar domain and is visibly necessary
   (CSeq "0001 INVITE" is re-encoded "1 INVITE").
   No axioms, no admits. *)
From Coq Require Import List Ascii String ZArith NArith Bool Lia.
From Model Require Import Bytes BytesLemmas Uri Hdr Message Msg Rx Glob StaticRoute RoundRobin Pins
     Proxy RunProxy SpecProxy SpecC14.
From Model.proofs Require Import C14_uri C14_hdr C14_via MsgLemmas.
Import ListNotations.
Open Scope list_scope.

#[local] Arguments same_header : simpl never.
#[local] Arguments s2b : simpl never.

(* ================================================================== 1. frame lemmas of Proxy.v *)

Ltac pres :=
  repeat first
    [ apply preserves_mret | apply preserves_merr | apply preserves_mlift
    | exact preserves_s_get_via | exact preserves_s_get_route | exact preserves_s_get_from
    | exact preserves_s_get_to | exact preserves_s_get_cseq | exact preserves_s_get_method
    | exact preserves_s_top_via | exact preserves_s_client_transaction
    | exact preserves_s_pop_via | exact preserves_s_pop_route | exact preserves_s_get_dialog
    | apply preserves_s_set_received | apply preserves_s_get_raw | apply preserves_s_get_expires
    | exact preserves_s_all_via_params
    | apply preserves_mtry
    | apply preserves_mbind; [|intros ?]
    | match goal with |- preserves (match ?x with _ => _ end) => destruct x end ].

Lemma preserves_next_response_hop : preserves next_response_hop.
Proof. unfold next_response_hop. pres. Qed.

Lemma preserves_next_hop_by_route keep : preserves (next_hop_by_route keep).
Proof. unfold next_hop_by_route. pres. Qed.

Lemma preserves_next_hop_by_config rt : preserves (next_hop_by_config rt).
Proof. unfold next_hop_by_config. pres. Qed.

Lemma preserves_next_request_hop keep rt : preserves (next_request_hop keep rt).
Proof.
  intros m S. unfold next_request_hop.
  pose proof (preserves_next_hop_by_route keep m S) as H.
  destruct (next_hop_by_route keep m) as [m1 r]. destruct H as [S1 V1].
  destruct r; [split; assumption| |split; assumption].
  pose proof (preserves_next_hop_by_config rt m1 S1) as H.
  destruct (next_hop_by_config rt m1) as [m2 r2]. destruct H as [S2 V2]. split; [exact S2|congruence].
Qed.

Lemma preserves_try_remove_top_route c from : preserves (try_remove_top_route c from).
Proof. unfold try_remove_top_route. pres. Qed.

Lemma frame_px_add_via e t : frame_f (px_add_via e t).
Proof. unfold px_add_via. apply frame_add_via. Qed.

Lemma frame_px_add_record_route must t : frame_f (px_add_record_route must t).
Proof.
  intros m S. unfold px_add_record_route.
  destruct (negb (has_header (s2b "Record-Route") m) && negb must)%bool;
    [split; [exact S|reflexivity]|apply frame_add_record_route; exact S].
Qed.

Lemma preserves_handle_dialog e peer peer_port p : preserves (handle_dialog e peer peer_port p).
Proof.
  unfold handle_dialog. apply preserves_mbind.
  - destruct (alookup (join_host_port peer peer_port) (ps_backends p)); [apply preserves_mret|].
    apply preserves_mbind; [exact preserves_s_client_transaction|]. intros tid.
    destruct (pins_get (e_now e) tid (ps_pins p)) as [pins1 ob].
    apply preserves_mbind; [apply (preserves_read (fun m => Ok (is_final_response m)))|].
    intros fin. apply preserves_mret.
  - intros [p1 ob]. pres.
Qed.

Lemma preserves_find_backend_by_dialog e p : preserves (find_backend_by_dialog e p).
Proof. unfold find_backend_by_dialog. pres. Qed.

(* ================================================================== 2. what a send emits *)

(* an output of the proxy is acceptable for the received message m *)
Definition good (m : message) (d : dest) (b : bytes) : Prop :=
  match d with
  | DDial _ _ _ => b = []
  | _ => exists m', b = write_message m' /\ view m' = view m
  end.

(* every output carries exactly the bytes [b] (a dial carries none) *)
Definition sent (b : bytes) (outs : list output) : Prop :=
  forall d b', In (d, b') outs -> match d with DDial _ _ _ => b' = [] | _ => b' = b end.

Lemma sent_nil b : sent b [].
Proof. intros d b' []. Qed.
Lemma sent_app b l1 l2 : sent b l1 -> sent b l2 -> sent b (l1 ++ l2).
Proof. intros H1 H2 d b' I. apply in_app_iff in I. destruct I; [apply H1|apply H2]; assumption. Qed.
Lemma sent_one_conn b c : sent b [(DConn c, b)].
Proof. intros d b' [E|[]]. inversion E; subst. reflexivity. Qed.
Lemma sent_one_udp b ip port : sent b [(DUdp ip port, b)].
Proof. intros d b' [E|[]]. inversion E; subst. reflexivity. Qed.
Lemma sent_one_dial b ip port c : sent b [(DDial ip port c, [])].
Proof. intros d b' [E|[]]. inversion E; subst. reflexivity. Qed.

Lemma good_of_sent m m1 outs :
  sent (write_message m1) outs -> view m1 = view m -> forall d b, In (d, b) outs -> good m d b.
Proof.
  intros H V d b I. specialize (H d b I). unfold good.
  destruct d; subst; try reflexivity; exists m1; split; auto.
Qed.

Lemma tcp_client_send_sent n li local rs id b :
  forall p cs w outs p' cs' w' outs' ok,
    tcp_client_send n li local rs id b p cs w outs = (p', cs', w', outs', ok) ->
    exists ext, outs' = outs ++ ext /\ sent b ext.
Proof.
  induction n as [|n IH]; intros p cs w outs p' cs' w' outs' ok H; simpl in H.
  - inversion H; subst. exists []. rewrite app_nil_r. split; [reflexivity|apply sent_nil].
  - destruct (find_client id (ps_clients p)) as [cl|];
      [|inversion H; subst; exists []; rewrite app_nil_r; split; [reflexivity|apply sent_nil]].
    destruct (tc_cached cl) as [c|].
    + destruct (conn_open cs c).
      * inversion H; subst. exists [(DConn c, b)]. split; [reflexivity|apply sent_one_conn].
      * exact (IH _ _ _ _ _ _ _ _ _ H).
    + destruct (existsb _ (w_tcp_listeners w)).
      * destruct (IH _ _ _ _ _ _ _ _ _ H) as (ext & E & Se). subst outs'.
        exists ((DDial (tc_host cl) (tc_port cl) (w_next_conn w), []) :: ext).
        rewrite <- app_assoc. split; [reflexivity|].
        apply (sent_app b [_] ext); [apply sent_one_dial|exact Se].
      * inversion H; subst. exists []. rewrite app_nil_r. split; [reflexivity|apply sent_nil].
Qed.

Lemma failover_send_sent li local rs f b p cs w p' cs' w' outs ok f' :
  failover_send li local rs f b p cs w = (p', cs', w', outs, ok, f') -> sent b outs.
Proof.
  unfold failover_send. intros H.
  assert (Sec : forall f1 r,
             match fo_sec f1 with
             | Some id => let '(p2, cs2, w2, outs2, ok2) := tcp_client_send 2 li local rs id b p cs w [] in
                          (p2, cs2, w2, outs2, ok2, f1)
             | None => (p, cs, w, [], false, f1)
             end = r -> sent b (snd (fst (fst r)))).
  { intros f1 r E. destruct (fo_sec f1) as [id|]; [|subst r; apply sent_nil].
    destruct (tcp_client_send 2 li local rs id b p cs w []) as [[[[p2 cs2] w2] outs2] ok2] eqn:T.
    subst r. simpl. destruct (tcp_client_send_sent _ _ _ _ _ _ _ _ _ _ _ _ _ _ _ T) as (ext & -> & Se).
    exact Se. }
  destruct (fo_pri f) as [[ip port|ip port|c ex]|].
  - destruct (fits_datagram b); [inversion H; subst; apply sent_one_udp|exact (Sec _ _ H)].
  - destruct (fits_datagram b); [inversion H; subst; apply sent_one_udp|exact (Sec _ _ H)].
  - destruct (conn_open cs c); [inversion H; subst; apply sent_one_conn|exact (Sec _ _ H)].
  - exact (Sec _ _ H).
Qed.

Lemma backend_send_sent br b p p' outs ok : backend_send br b p = (p', outs, ok) -> sent b outs.
Proof.
  unfold backend_send. intros H.
  assert (A : forall a, sent b (match last_index_byte ":"%char a with
                                | Some pos => [(DUdp (firstn pos a) (atoi_val (skipn (S pos) a)), b)]
                                | None => [] end)).
  { intros a. destruct (last_index_byte ":"%char a); [apply sent_one_udp|apply sent_nil]. }
  destruct br as [a g|].
  - destruct (existsb _ (ps_backends p) && fits_datagram b)%bool; inversion H; subst; [apply A|apply sent_nil].
  - destruct (rr_dispatch (ps_rr p)) as [r' o]. destruct o as [a|].
    + destruct (fits_datagram b); inversion H; subst; [apply A|apply sent_nil].
    + inversion H; subst. apply sent_nil.
Qed.

(* ================================================================== 3. the pipeline *)

(* the outputs of x' extend those of x by acceptable outputs for m *)
Definition outs_ok (m : message) (x x' : ctx) : Prop :=
  exists pre, x_outs x' = x_outs x ++ pre /\ forall d b, In (d, b) pre -> good m d b.

Lemma outs_ok_same m x x' : x_outs x' = x_outs x -> outs_ok m x x'.
Proof. intros E. exists []. rewrite app_nil_r. split; [exact E|intros d b []]. Qed.
Lemma outs_ok_view m1 m x x' : view m1 = view m -> outs_ok m1 x x' -> outs_ok m x x'.
Proof.
  intros V (pre & E & G). exists pre. split; [exact E|]. intros d b I. specialize (G d b I).
  unfold good in *. destruct d; auto; destruct G as (m' & B & V'); exists m'; split; congruence.
Qed.
Lemma outs_ok_outs m x x0 x' : x_outs x0 = x_outs x -> outs_ok m x0 x' -> outs_ok m x x'.
Proof. intros E (pre & E' & G). exists pre. rewrite <- E. split; assumption. Qed.

(* one let / one destructuring let at the head of the equation H *)
Ltac let1 H id :=
  lazymatch type of H with
  | (let v := ?X in @?B v) = ?R =>
      let E := fresh "E" in remember X as id eqn:E; clear E; change (B id = R) in H; cbv beta in H
  end.
Ltac let1eq H id E :=
  lazymatch type of H with
  | (let v := ?X in @?B v) = ?R => remember X as id eqn:E; change (B id = R) in H; cbv beta in H
  end.
Tactic Notation "dlet" hyp(H) "as" simple_intropattern(pat) "eqn" ":" ident(E) :=
  lazymatch type of H with
  | (match ?X with _ => _ end) = _ => destruct X as pat eqn:E
  end; cbv beta iota in H.

Lemma send_message_ok e host port tr m x x' m' :
  stable m -> send_message e host port tr m x = (x', m') -> outs_ok m x x'.
Proof.
  intros S H. cbv delta [send_message] in H; cbv beta in H.
  let1 H ip.
  dlet H as [m1 tid] eqn:T.
  destruct (preserves_run _ _ _ _ (preserves_mtry _ preserves_s_client_transaction) S T) as [S1 V1].
  let1 H trid.
  dlet H as [p1 rkey] eqn:G. clear G.
  destruct rkey as [key| |]; try (inversion H; subst; apply outs_ok_same; reflexivity).
  let1 H p2.
  destruct (alookup key (ps_table p2)) as [f|]; [|inversion H; subst; apply outs_ok_same; reflexivity].
  let1 H p3.
  dlet H as [[[[[p4 cs] w] outs] ok] f'] eqn:F.
  let1 H p5. inversion H; subst. exists outs. split; [reflexivity|].
  exact (good_of_sent m m' outs (failover_send_sent _ _ _ _ _ _ _ _ _ _ _ _ _ _ F) V1).
Qed.

Lemma send_to_backend_ok e m x x' m' :
  stable m -> send_to_backend e m x = (x', m') -> outs_ok m x x'.
Proof.
  intros S H. cbv delta [send_to_backend] in H; cbv beta in H.
  let1 H p.
  destruct (negb (ps_has_rr p)); [inversion H; subst; apply outs_ok_same; reflexivity|].
  destruct (first_transport (e_lc e)) as [t0|]; [|inversion H; subst; apply outs_ok_same; reflexivity].
  dlet H as [m1 r] eqn:F.
  destruct (preserves_run _ _ _ _ (preserves_find_backend_by_dialog e p) S F) as [S1 V1].
  dlet H as [p1 ob] eqn:Ep. clear Ep.
  let1 H b.
  let1eq H m2 E2.
  assert (R2 : stable m2 /\ view m2 = view m).
  { subst m2. destruct (frame_px_add_via e t0 m1 S1) as [Sa Va].
    destruct (frame_px_add_record_route (pa_must_rr (wire_proxy (e_lc e))) t0 _ Sa) as [Sb Vb].
    split; [exact Sb|congruence]. }
  clear E2. destruct R2 as [S2 V2].
  dlet H as [[p2 outs] ok] eqn:B.
  destruct ok.
  - dlet H as [m3 tid] eqn:T. let1 H p3. inversion H; subst. exists outs. split; [reflexivity|].
    exact (good_of_sent m m2 outs (backend_send_sent _ _ _ _ _ _ B) V2).
  - inversion H; subst. apply outs_ok_same. reflexivity.
Qed.

Lemma handle_message_ok e from m x x' m' :
  stable m -> handle_message e from m x = (x', m') -> outs_ok m x x'.
Proof.
  intros S H. cbv delta [handle_message] in H; cbv beta in H.
  destruct (is_request m).
  - dlet H as [m1 r] eqn:N.
    destruct (preserves_run _ _ _ _ (preserves_next_request_hop _ _) S N) as [S1 V1].
    destruct r as [[[host port] transport]| |].
    + let1eq H m2 E2.
      assert (R2 : stable m2 /\ view m2 = view m).
      { subst m2. destruct (alookup host (x_learned x)) as [t|]; [|split; assumption].
        destruct (frame_px_add_via e t m1 S1) as [Sa Va].
        destruct (frame_px_add_record_route (pa_must_rr (wire_proxy (e_lc e))) t _ Sa) as [Sb Vb].
        split; [exact Sb|congruence]. }
      destruct R2 as [S2 V2].
      apply (outs_ok_view m2); [exact V2|]. exact (send_message_ok _ _ _ _ _ _ _ _ S2 H).
    + destruct (is_my_message _ from m1).
      * apply (outs_ok_view m1); [exact V1|]. exact (send_to_backend_ok _ _ _ _ _ S1 H).
      * inversion H; subst. apply outs_ok_same. reflexivity.
    + destruct (is_my_message _ from m1).
      * apply (outs_ok_view m1); [exact V1|]. exact (send_to_backend_ok _ _ _ _ _ S1 H).
      * inversion H; subst. apply outs_ok_same. reflexivity.
  - dlet H as [m1 u] eqn:P1.
    destruct (preserves_run _ _ _ _ (preserves_mtry _ preserves_s_pop_via) S P1) as [S1 V1].
    dlet H as [m2 hop] eqn:P2.
    destruct (preserves_run _ _ _ _ (preserves_mtry _ preserves_next_response_hop) S1 P2) as [S2 V2].
    dlet H as [m3 ometh] eqn:P3.
    destruct (preserves_run _ _ _ _ (preserves_mtry _ preserves_s_get_method) S2 P3) as [S3 V3].
    dlet H as [m4 p1] eqn:P4.
    assert (R4 : stable m4 /\ view m4 = view m3).
    { assert (Same : forall pp, (m3, pp) = (m4, p1) -> stable m4 /\ view m4 = view m3).
      { intros pp E. inversion E; subst. split; [exact S3|reflexivity]. }
      destruct hop as [[[[host port] tr]|]| |]; try exact (Same _ P4).
      destruct ometh as [[meth|]| |]; try exact (Same _ P4).
      destruct (beq meth (s2b "SUBSCRIBE")); [|exact (Same _ P4)].
      cbv zeta in P4.
      destruct (alookup _ (ps_backends (x_p x))) as [g|]; [|exact (Same _ P4)].
      destruct (mtry s_get_dialog m3) as [mm od] eqn:D.
      destruct (preserves_run _ _ _ _ (preserves_mtry _ preserves_s_get_dialog) S3 D) as [S4 V4].
      destruct od as [[d|]| |]; inversion P4; subst; split; assumption. }
    clear P4. destruct R4 as [S4 V4].
    assert (V40 : view m4 = view m) by congruence.
    let1eq H x1 Ex1.
    assert (O1 : x_outs x1 = x_outs x) by (subst x1; reflexivity). clear Ex1.
    destruct hop as [[[[host port] tr]|]| |];
      try (inversion H; subst; apply outs_ok_same; exact O1).
    apply (outs_ok_outs m x x1 x' O1). apply (outs_ok_view m4); [exact V40|].
    exact (send_message_ok _ _ _ _ _ _ _ _ S4 H).
Qed.

Lemma process_message_ok e peer peer_port from rs tcp m x x' :
  stable m -> process_message e peer peer_port from rs tcp m x = Ok x' -> outs_ok m x x'.
Proof.
  intros S H. cbv delta [process_message] in H; cbv beta in H.
  (* learn *)
  dlet H as [m1 l1] eqn:E1.
  assert (R1 : stable m1 /\ view m1 = view m).
  { destruct (is_request m && negb (amem peer (ps_backends (x_p x))))%bool.
    - destruct (s_all_via_params m) as [mm vs] eqn:A. inversion E1; subst.
      exact (preserves_run _ _ _ _ preserves_s_all_via_params S A).
    - inversion E1; subst. split; [exact S|reflexivity]. }
  clear E1. destruct R1 as [S1 V1].
  (* received / rport *)
  let1eq H m2 E2.
  assert (R2 : stable m2 /\ view m2 = view m).
  { subst m2. destruct (is_request m1 && rs)%bool; [|split; assumption].
    destruct (frame_f_fst _ (preserves_s_set_received peer peer_port) m1 S1) as [Sa Va].
    split; [exact Sa|congruence]. }
  clear E2. destruct R2 as [S2 V2].
  (* the connection for the responses *)
  dlet H as [m3 rp] eqn:E3.
  assert (R3 : stable m3 /\ view m3 = view m).
  { assert (Same : forall pp, (m2, pp) = (m3, rp) -> stable m3 /\ view m3 = view m).
    { intros pp E. inversion E; subst. split; assumption. }
    destruct tcp as [c|]; [|exact (Same _ E3)].
    destruct (is_request m2); [|exact (Same _ E3)].
    destruct (mtry next_response_hop m2) as [mm hop] eqn:Eh.
    destruct (preserves_run _ _ _ _ (preserves_mtry _ preserves_next_response_hop) S2 Eh) as [Sh Vh].
    assert (Same' : forall pp, (mm, pp) = (m3, rp) -> stable m3 /\ view m3 = view m).
    { intros pp E. inversion E; subst. split; [assumption|congruence]. }
    destruct hop as [oh| |]; try exact (Same' _ E3).
    cbv zeta in E3.
    match type of E3 with (match ?X with _ => _ end) = _ => destruct X as [host| |] end;
      try exact (Same' _ E3).
    destruct oh as [hh|]; [|exact (Same' _ E3)].
    destruct (mtry s_client_transaction mm) as [m'' tid] eqn:Et.
    destruct (preserves_run _ _ _ _ (preserves_mtry _ preserves_s_client_transaction) Sh Et) as [St Vt].
    assert (Same'' : forall pp, (m'', pp) = (m3, rp) -> stable m3 /\ view m3 = view m).
    { intros pp E. inversion E; subst. split; [assumption|congruence]. }
    destruct tid as [[t|]| |]; try exact (Same'' _ E3).
    destruct (get_transport _ _ _ _ _ _) as [pp rk]. destruct rk; exact (Same'' _ E3). }
  clear E3. destruct R3 as [S3 V3].
  destruct rp as [p1| |]; try discriminate.
  (* tryRemoveTopRoute *)
  let1eq H m4 E4.
  assert (R4 : stable m4 /\ view m4 = view m).
  { subst m4.
    destruct (frame_f_fst _ (preserves_mtry _ (preserves_try_remove_top_route (e_cfg e) from)) m3 S3) as [Sa Va].
    split; [exact Sa|congruence]. }
  clear E4. destruct R4 as [S4 V4].
  (* handleDialog *)
  dlet H as [m5 p2] eqn:E5.
  assert (R5 : stable m5 /\ view m5 = view m).
  { destruct (is_response m4); [|inversion E5; subst; split; assumption].
    destruct (handle_dialog e peer peer_port p1 m4) as [mm r] eqn:Hd.
    destruct (preserves_run _ _ _ _ (preserves_handle_dialog e peer peer_port p1) S4 Hd) as [Sa Va].
    inversion E5; subst. split; [assumption|congruence]. }
  clear E5. destruct R5 as [S5 V5].
  let1eq H x1 Ex1.
  assert (O1 : x_outs x1 = x_outs x) by (subst x1; reflexivity). clear Ex1.
  destruct (handle_message e from m5 x1) as [x2 m6] eqn:HM.
  inversion H; subst. simpl.
  apply (outs_ok_outs m x x1 x' O1). apply (outs_ok_view m5); [exact V5|].
  exact (handle_message_ok _ _ _ _ _ _ S5 HM).
Qed.

(* ------------------------------------------------------------------ main theorem *)
Theorem C01_relay_preserves :
  forall e peer peer_port from rs tcp m x x',
    stable m ->
    process_message e peer peer_port from rs tcp m x = Ok x' ->
    exists pre, x_outs x' = x_outs x ++ pre /\
      forall d b, In (d, b) pre ->
        match d with
        | DDial _ _ _ => b = []
        | _ => exists m', b = write_message m' /\ view m' = view m
        end.
Proof.
  intros e peer peer_port from rs tcp m x x' S H.
  exact (process_message_ok _ _ _ _ _ _ _ _ _ S H).
Qed.

(* ------------------------------------------------------------------ lifted to proxy_step *)
(* UDP: every output of the event whose datagram decodes to m *)
Theorem C01_proxy_step_udp :
  forall fx c now branch st li src sport data m rest st' outs,
    parse_message data = Ok (m, rest) -> stable m ->
    proxy_step fx c now branch st (EvUdp li src sport data) = Ok (st', outs) ->
    forall d b, In (d, b) outs -> good m d b.
Proof.
  intros fx c now branch st li src sport data m rest st' outs P S H d b I.
  cbv delta [proxy_step] in H; cbv beta iota in H.
  destruct (nth_opt (c_listens c) li) as [lc|]; [|inversion H; subst; contradiction].
  cbv zeta in H. rewrite P in H. unfold run_ctx in H.
  destruct (nth_p (st_proxies st) li) as [p|]; [|inversion H; subst; contradiction].
  match type of H with (match ?X with _ => _ end) = _ => destruct X as [x'| |] eqn:PM end;
    try discriminate.
  inversion H; subst. destruct (C01_relay_preserves _ _ _ _ _ _ _ _ _ S PM) as (pre & E & G).
  simpl in E. rewrite E in I. exact (G d b I).
Qed.

Lemma tcp_messages_ok e c : forall fuel s x x',
  (forall m, In m (parse_stream fuel s) -> stable m) ->
  tcp_messages fuel e c s x = Ok x' ->
  exists pre, x_outs x' = x_outs x ++ pre /\
    forall d b, In (d, b) pre -> exists m, In m (parse_stream fuel s) /\ good m d b.
Proof.
  assert (Nil : forall (x : ctx) (P : dest -> bytes -> Prop),
             exists pre, x_outs x = x_outs x ++ pre /\ forall d b, In (d, b) pre -> P d b).
  { intros x P. exists []. rewrite app_nil_r. split; [reflexivity|intros d b []]. }
  induction fuel as [|fuel IH]; intros s x x' St H; cbn [tcp_messages] in H.
  - inversion H; subst. apply Nil.
  - destruct (trim_left s) as [|c0 tl0] eqn:TL; [inversion H; subst; apply Nil|].
    cbn [parse_stream] in St |- *.
    destruct (parse_message s) as [[m rest]| |] eqn:P.
    + match type of H with (match ?X with _ => _ end) = _ => destruct X as [x1| |] eqn:PM end;
        try discriminate.
      destruct (C01_relay_preserves _ _ _ _ _ _ _ _ _ (St m (or_introl eq_refl)) PM) as (pre1 & E1 & G1).
      destruct (IH rest x1 x' (fun m0 I0 => St m0 (or_intror I0)) H) as (pre2 & E2 & G2).
      exists (pre1 ++ pre2). split; [rewrite E2, E1, app_assoc; reflexivity|].
      intros d0 b0 I. apply in_app_iff in I. destruct I as [I|I].
      * exists m. split; [left; reflexivity|exact (G1 d0 b0 I)].
      * destruct (G2 d0 b0 I) as (m0 & I0 & G0). exists m0. split; [right; exact I0|exact G0].
    + inversion H; subst. simpl. apply Nil.
    + inversion H; subst. simpl. apply Nil.
Qed.

(* TCP: a chunk may contain several messages; each output comes from one of them *)
Theorem C01_proxy_step_tcp :
  forall fx c now branch st cid data st' outs,
    (forall m, In m (parse_stream (S (List.length data)) data) -> stable m) ->
    proxy_step fx c now branch st (EvTcpData cid data) = Ok (st', outs) ->
    forall d b, In (d, b) outs ->
      exists m, In m (parse_stream (S (List.length data)) data) /\ good m d b.
Proof.
  intros fx c now branch st cid data st' outs St H d b I.
  cbv delta [proxy_step] in H; cbv beta iota in H.
  destruct (find _ (st_conns st)) as [cn|]; [|inversion H; subst; contradiction].
  destruct (cn_open cn); [|inversion H; subst; contradiction].
  cbv zeta in H.
  destruct (nth_opt (c_listens c) (cn_li cn)) as [lc|]; [|inversion H; subst; contradiction].
  unfold run_ctx in H.
  destruct (nth_p (st_proxies st) (cn_li cn)) as [p|]; [|inversion H; subst; contradiction].
  match type of H with (match ?X with _ => _ end) = _ => destruct X as [x'| |] eqn:TM end;
    try discriminate.
  inversion H; subst. destruct (tcp_messages_ok _ _ _ _ _ _ St TM) as (pre & E & G).
  simpl in E. rewrite E in I. exact (G d b I).
Qed.

(* ================================================================== 4. [stable] on the C14 domain *)

(* the raw From / To / CSeq values are reference renderings of well-formed abstract values *)
Definition c14_domain_h (h : header) : Prop :=
  match h_val h with
  | HRaw s =>
      ((same_header (h_name h) (s2b "From") = true \/ same_header (h_name h) (s2b "To") = true) ->
       exists f, wf_fromto f = true /\ s = rp_fromto f) /\
      (same_header (h_name h) (s2b "CSeq") = true -> exists c, wf_cseq c = true /\ s = rp_cseq c)
  | _ => True
  end.

Theorem stable_on_c14_domain m : Forall c14_domain_h (m_headers m) -> stable m.
Proof.
  unfold stable, stable_hs. apply Forall_impl. intros h D.
  unfold c14_domain_h in D. unfold stable_h. destruct (h_val h); auto.
  destruct D as [D1 D2]. split.
  - intros N f P. destruct (D1 N) as (af & W & ->). rewrite (parse_fromto_rp af W) in P.
    inversion P; subst. apply fromto_print_embed. exact W.
  - intros N c P. destruct (D2 N) as (ac & W & ->). rewrite (parse_cseq_rp ac W) in P.
    inversion P; subst. apply cseq_print_embed.
Qed.

(* executable check of [stable] (used for the concrete examples) *)
Definition stable_hb (h : header) : bool :=
  match h_val h with
  | HRaw s =>
      (if (same_header (h_name h) (s2b "From") || same_header (h_name h) (s2b "To"))%bool
       then match parse_fromto s with Ok f => beq (fromto_print f) s | _ => true end else true) &&
      (if same_header (h_name h) (s2b "CSeq")
       then match parse_cseq s with Ok c => beq (cseq_print c) s | _ => true end else true)
  | _ => true
  end.
Definition stable_b (m : message) : bool := forallb stable_hb (m_headers m).

Lemma stable_b_sound m : stable_b m = true -> stable m.
Proof.
  unfold stable_b, stable, stable_hs. rewrite forallb_forall, Forall_forall. intros H h I.
  specialize (H h I). unfold stable_hb in H. unfold stable_h. destruct (h_val h); auto.
  apply andb_true_iff in H. destruct H as [H1 H2]. split.
  - intros N f P. assert (N' : (same_header (h_name h) (s2b "From") || same_header (h_name h) (s2b "To"))%bool = true)
      by (destruct N as [N|N]; rewrite N; [reflexivity|apply orb_true_r]).
    rewrite N', P in H1. apply beq_eq. exact H1.
  - intros N c P. rewrite N, P in H2. apply beq_eq. exact H2.
Qed.

(* OUTSIDE the domain the hypothesis fails and so does the conclusion: a CSeq number with
   leading zeros is decoded (GetClientTransaction on every relayed message) and re-encoded %d *)
Definition ex_unstable : message :=
  {| m_start := SReq (s2b "INVITE") (AAbs (s2b "tel:+1")) (s2b "SIP/2.0");
     m_headers := [{| h_name := s2b "CSeq"; h_val := HRaw (s2b "0001 INVITE") |}];
     m_body := [] |}.
Example C01_stable_necessary :
  parse_cseq (s2b "0001 INVITE") = Ok {| cs_seq := 1; cs_method := s2b "INVITE" |} /\
  cseq_print {| cs_seq := 1; cs_method := s2b "INVITE" |} = s2b "1 INVITE" /\
  ~ stable ex_unstable /\
  view (fst (s_get_cseq ex_unstable)) <> view ex_unstable /\
  view_hs (m_headers (fst (s_get_cseq ex_unstable))) = [(s2b "CSeq", s2b "1 INVITE")].
Proof.
  assert (P : parse_cseq (s2b "0001 INVITE") = Ok {| cs_seq := 1; cs_method := s2b "INVITE" |})
    by (vm_compute; reflexivity).
  split; [exact P|]. split; [vm_compute; reflexivity|]. split; [|split].
  - intros S. inversion S as [|h r Sh Sr]; subst. unfold stable_h in Sh. simpl in Sh.
    destruct Sh as [_ Sh]. specialize (Sh (same_header_refl _) _ P). vm_compute in Sh. discriminate Sh.
  - vm_compute. intros E. discriminate E.
  - vm_compute. reflexivity.
Qed.

(* ================================================================== 5. exactly one Content-Length *)

Definition is_cl_h (h : header) : bool := same_header (h_name h) (s2b "Content-Length").
Definition cl_header (m : message) : header :=
  {| h_name := s2b "Content-Length"; h_val := HRaw (itoa (Z.of_nat (List.length (m_body m)))) |}.
(* the header fields write_message emits, in order *)
Definition emitted_headers (m : message) : list header :=
  filter (fun h => negb (is_cl_h h)) (m_headers m) ++ [cl_header m].

(* write_message m = start line, the received headers that are not a Content-Length (any
   spelling: full, compact "l", any case) in their order, then ONE Content-Length with the
   number of body bytes, the empty line, the body *)
Theorem C01_single_content_length m :
  write_message m =
    start_line_print (m_start m) ++ crlf ++ flat_map header_print (emitted_headers m) ++ crlf ++ m_body m
  /\ emitted_headers m = filter (fun h => negb (is_cl_h h)) (m_headers m) ++ [cl_header m]
  /\ Forall (fun h => is_cl_h h = false) (filter (fun h => negb (is_cl_h h)) (m_headers m))
  /\ is_cl_h (cl_header m) = true
  /\ header_print (cl_header m) =
       s2b "Content-Length: " ++ itoa (Z.of_nat (List.length (m_body m))) ++ crlf
  /\ List.length (filter is_cl_h (emitted_headers m)) = 1%nat.
Proof.
  assert (F : Forall (fun h => is_cl_h h = false) (filter (fun h => negb (is_cl_h h)) (m_headers m))).
  { apply Forall_forall. intros h I. apply filter_In in I. destruct I as [_ I].
    apply negb_true_iff. exact I. }
  assert (C : is_cl_h (cl_header m) = true) by apply same_header_refl.
  assert (P : header_print (cl_header m) =
               s2b "Content-Length: " ++ itoa (Z.of_nat (List.length (m_body m))) ++ crlf).
  { unfold header_print. cbn [cl_header h_name h_val hval_print].
    change (s2b "Content-Length: ") with (s2b "Content-Length" ++ s2b ": ").
    rewrite <- !app_assoc. reflexivity. }
  repeat split; try assumption.
  - unfold write_message, emitted_headers. rewrite flat_map_app. cbn [flat_map]. rewrite app_nil_r, P.
    rewrite <- !app_assoc. reflexivity.
  - unfold emitted_headers. rewrite filter_app. cbn [filter]. rewrite C.
    assert (E : filter is_cl_h (filter (fun h => negb (is_cl_h h)) (m_headers m)) = []).
    { induction F as [|h r Hh Hr IH]; [reflexivity|]. cbn [filter]. rewrite Hh. exact IH. }
    rewrite E. reflexivity.
Qed.

(* ================================================================== 6. the pre-fix encoder *)

(* encodeHeader compared header.name == "Content-Length" (exact spelling only) *)
Definition write_message_legacy (m : message) : bytes :=
  start_line_print (m_start m) ++ crlf ++
  flat_map header_print (filter (fun h => negb (beq (h_name h) (s2b "Content-Length"))) (m_headers m)) ++
  s2b "Content-Length: " ++ itoa (Z.of_nat (List.length (m_body m))) ++ crlf ++ crlf ++ m_body m.

Definition parsed (b : bytes) : message :=
  match parse_message b with
  | Ok (m, _) => m
  | _ => {| m_start := SResp [] 0 []; m_headers := []; m_body := [] |}
  end.
(* the verdict of the executable judge on (input bytes, output bytes); None = unreadable *)
Definition judge_bytes (i o : bytes) : option nat :=
  match j_read i, j_read o with Some ji, Some jo => Some (judge_C01_pair ji jo) | _, _ => None end.

Definition ex_legacy_input : bytes :=
  s2b "INVITE sip:svc@example.com SIP/2.0" ++ crlf ++ s2b "l: 3" ++ crlf ++ crlf ++ s2b "abc".

(* a request with the compact header "l: 3": the pre-fix encoder emits it AND its own
   Content-Length (two fields; the judge answers 5), the repaired one emits exactly one *)
Theorem C01_legacy_refuted :
  parse_message ex_legacy_input = Ok (parsed ex_legacy_input, []) /\
  option_map in_domain_C01 (j_read ex_legacy_input) = Some true /\
  stable (parsed ex_legacy_input) /\
  write_message_legacy (parsed ex_legacy_input) =
    s2b "INVITE sip:svc@example.com SIP/2.0" ++ crlf ++ s2b "l: 3" ++ crlf ++
    s2b "Content-Length: 3" ++ crlf ++ crlf ++ s2b "abc" /\
  option_map jm_cl_count (j_read (write_message_legacy (parsed ex_legacy_input))) = Some 2%nat /\
  judge_bytes ex_legacy_input (write_message_legacy (parsed ex_legacy_input)) = Some 5%nat /\
  option_map jm_cl_count (j_read (write_message (parsed ex_legacy_input))) = Some 1%nat /\
  judge_bytes ex_legacy_input (write_message (parsed ex_legacy_input)) = Some 0%nat.
Proof.
  split; [vm_compute; reflexivity|]. split; [vm_compute; reflexivity|].
  split; [apply stable_b_sound; vm_compute; reflexivity|].
  repeat split; vm_compute; reflexivity.
Qed.

(* ================================================================== 7. non-vacuity *)

Definition ex_lc : listen_cfg :=
  {| lc_addr := s2b "10.0.0.1"; lc_udp := 5060; lc_tcp := 5060; lc_backends := [s2b "10.0.0.2:5080"];
     lc_dynamic := false; lc_no_received := false; lc_def_route := false; lc_must_rr := true |}.
Definition ex_cfg : cfg :=
  {| c_name := s2b "example.com"; c_keep_next_hop := false; c_dialog_timeout := 3600;
     c_routes := [(s2b "udp", (s2b "static.example.org", s2b "10.0.0.8:5090"))];
     c_hosts := []; c_listens := [ex_lc] |}.
(* one TCP peer accepts connections *)
Definition ex_st : state := init_state ex_cfg 0 [(s2b "10.0.0.7", 5080%Z)].

(* compact and odd-case names, a repeated extension header, '%', quotes, ';', ',', '<', '>',
   non-UTF-8 bytes, a compact Content-Length that is not the last header, a body with
   CR LF NUL *)
Definition ex_common : bytes :=
  s2b "v: SIP/2.0/UDP 10.0.0.9:5070;branch=z9hG4bKabc;rport" ++ crlf ++
  s2b "f: ""A %41 \""q\"""" <sip:alice@a.example.com;x=%25>;tag=1%sz" ++ crlf ++
  s2b "T: <sip:svc@example.com>" ++ crlf ++
  s2b "i: call-1@host" ++ crlf ++
  s2b "CSeq: 7 INVITE" ++ crlf ++
  s2b "X-eXt: a;b=""c"";%d%s,<>" ++ crlf ++
  s2b "x-ext: second, value" ++ crlf ++
  (s2b "X-Bin: " ++ [ascii_of_nat 255; ascii_of_nat 254; "a"%char; ascii_of_nat 128]) ++ crlf ++
  s2b "l: 7" ++ crlf ++
  s2b "cONTENT-tYPE: application/x" ++ crlf ++
  s2b "X-eXt: third" ++ crlf ++ crlf ++
  [ "a"%char; ascii_of_nat 13; ascii_of_nat 10; zero; "b"%char; ascii_of_nat 10; ascii_of_nat 13 ].
(* addressed to the service name: relayed to the backend *)
Definition ex_req_backend : bytes := s2b "INVITE sip:svc@example.com SIP/2.0" ++ crlf ++ ex_common.
(* carries a Route: relayed to the first route entry (over TCP: a dial, then the bytes) *)
Definition ex_req_route : bytes :=
  s2b "oPTIONS sip:bob@elsewhere.example.net;transport=tcp SIP/2.0" ++ crlf ++
  s2b "Route: <sip:10.0.0.7:5080;lr;transport=tcp>,<sip:10.0.0.6;lr>" ++ crlf ++ ex_common.
(* To host in the static route table *)
Definition ex_req_static : bytes :=
  s2b "MESSAGE sip:carol@static.example.org SIP/2.0" ++ crlf ++
  s2b "To: sip:carol@static.example.org" ++ crlf ++ ex_common.
(* a response: relayed by its second Via *)
Definition ex_resp : bytes :=
  s2b "SIP/2.0 183 Session  Progress" ++ crlf ++
  s2b "Via: SIP/2.0/UDP 10.0.0.1:5060;branch=z9hG4bKpx" ++ crlf ++ ex_common.

Definition ex_run (data : bytes) : res (state * list output) :=
  proxy_step all_fixed ex_cfg 1000 (branch_of 0) ex_st (EvUdp 0 (s2b "10.0.0.9") 5070%Z data).
Definition ex_outs (data : bytes) : list (bytes * bytes) :=
  match ex_run data with Ok (_, outs) => map (fun o => (label_of (fst o), snd o)) outs | _ => [] end.

(* hypotheses of the theorems hold on the concrete inputs ... *)
Example ex_hypotheses :
  Forall (fun b => parse_message b = Ok (parsed b, []) /\ stable (parsed b) /\
                   option_map in_domain_C01 (j_read b) = Some true)
         [ex_req_backend; ex_req_route; ex_req_static].
Proof.
  apply Forall_cons; [|apply Forall_cons; [|apply Forall_cons; [|apply Forall_nil]]];
    (split; [vm_compute; reflexivity|split; [apply stable_b_sound; vm_compute; reflexivity|vm_compute; reflexivity]]).
Qed.
(* (the response has a start line with a run of blanks: parse/print normalises it, it is in the
   domain of the theorem but not of the judge) *)
Example ex_hypotheses_resp :
  parse_message ex_resp = Ok (parsed ex_resp, []) /\ stable (parsed ex_resp) /\
  option_map in_domain_C01 (j_read ex_resp) = Some false.
Proof.
  repeat split; try (vm_compute; reflexivity); apply stable_b_sound; vm_compute; reflexivity.
Qed.

(* ... and the conclusion is exercised: where each message goes, and what the executable
   judge says about the bytes *)
Example ex_paths :
  map fst (ex_outs ex_req_backend) = [s2b "udp:10.0.0.2:5080"] /\
  map fst (ex_outs ex_req_route) = [s2b "dial:10.0.0.7:5080"; s2b "conn:0"] /\
  map fst (ex_outs ex_req_static) = [s2b "udp:10.0.0.8:5090"] /\
  map fst (ex_outs ex_resp) = [s2b "udp:10.0.0.9:5070"] /\
  map (fun o => judge_bytes ex_req_backend (snd o)) (ex_outs ex_req_backend) = [Some 0%nat] /\
  map (fun o => judge_bytes ex_req_route (snd o)) (ex_outs ex_req_route) = [None; Some 0%nat] /\
  map (fun o => judge_bytes ex_req_static (snd o)) (ex_outs ex_req_static) = [Some 0%nat] /\
  map (fun o => view (parsed (snd o)) = view (parsed ex_resp)) (ex_outs ex_resp) = [view (parsed ex_resp) = view (parsed ex_resp)].
Proof. repeat split; vm_compute; reflexivity. Qed.

(* the theorem instantiated *)
Example ex_backend_theorem :
  forall st' outs, ex_run ex_req_backend = Ok (st', outs) ->
    outs <> [] /\ forall d b, In (d, b) outs -> good (parsed ex_req_backend) d b.
Proof.
  intros st' outs H. split.
  - intros ->. vm_compute in H. discriminate H.
  - apply (C01_proxy_step_udp all_fixed ex_cfg 1000%Z (branch_of 0) ex_st 0%nat (s2b "10.0.0.9") 5070%Z
             ex_req_backend (parsed ex_req_backend) [] st' outs); [vm_compute; reflexivity| |exact H].
    apply stable_b_sound. vm_compute. reflexivity.
Qed.
