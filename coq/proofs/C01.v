(* proofs/C01.v — property C01: relaying leaves everything the proxy does not own untouched.

   For EVERY message, configuration, state, listener, repair-flag value (no size bounds):
     - every byte string the proxy emits while handling a decoded message m is
       [write_message m'] for some m' with the same NON-ROUTING VIEW as m (start line text,
       (name, printed value) list of all headers other than Via / Route / Record-Route /
       Content-Length with multiplicity and order, body), on every path (backend, Route,
       static route, response by Via; UDP and TCP)            [C01_relay_preserves, C01_proxy_step_*]
     - write_message emits exactly one Content-Length, after all other headers
                                                              [C01_single_content_length*]
     - the executable judge of SpecProxy.v accepts every such output   [C01_judge_bridge*]
   under the hypothesis [stable m] (raw From / To / CSeq values are fixed points of
   decode-then-encode), which holds on the C14 grammar domain and is visibly necessary
   (CSeq "0001 INVITE" is re-encoded "1 INVITE").
   No axioms, no admits. *)
From Coq Require Import List Ascii String ZArith NArith Bool Lia.
From Model Require Import Bytes BytesLemmas Uri Hdr Message Msg Rx Glob StaticRoute RoundRobin Pins
     Proxy RunProxy SpecProxy SpecC14.
From Model.proofs Require Import C14_uri C14_hdr C14_via MsgLemmas.
Import ListNotations.
Open Scope list_scope.

#[local] Arguments same_header : simpl never.
#[local] Arguments s2b : simpl never.

(* ================================================================== 1. frame lemmas of Proxy.v *)

Ltac pres :=
  repeat first
    [ apply preserves_mret | apply preserves_merr | apply preserves_mlift
    | exact preserves_s_get_via | exact preserves_s_get_route | exact preserves_s_get_from
    | exact preserves_s_get_to | exact preserves_s_get_cseq | exact preserves_s_get_method
    | exact preserves_s_top_via | exact preserves_s_client_transaction
    | exact preserves_s_pop_via | exact preserves_s_pop_route | exact preserves_s_get_dialog
    | apply preserves_s_set_received | apply preserves_s_get_raw | apply preserves_s_get_expires
    | exact preserves_s_all_via_params
    | apply preserves_mtry
    | apply preserves_mbind; [|intros ?]
    | match goal with |- preserves (match ?x with _ => _ end) => destruct x end ].

Lemma preserves_next_response_hop : preserves next_response_hop.
Proof. unfold next_response_hop. pres. Qed.

Lemma preserves_next_hop_by_route keep : preserves (next_hop_by_route keep).
Proof. unfold next_hop_by_route. pres. Qed.

Lemma preserves_next_hop_by_config rt : preserves (next_hop_by_config rt).
Proof. unfold next_hop_by_config. pres. Qed.

Lemma preserves_next_request_hop keep rt : preserves (next_request_hop keep rt).
Proof.
  intros m S. unfold next_request_hop.
  pose proof (preserves_next_hop_by_route keep m S) as H.
  destruct (next_hop_by_route keep m) as [m1 r]. destruct H as [S1 V1].
  destruct r; [split; assumption| |split; assumption].
  pose proof (preserves_next_hop_by_config rt m1 S1) as H.
  destruct (next_hop_by_config rt m1) as [m2 r2]. destruct H as [S2 V2]. split; [exact S2|congruence].
Qed.

Lemma preserves_try_remove_top_route c from : preserves (try_remove_top_route c from).
Proof. unfold try_remove_top_route. pres. Qed.

Lemma frame_px_add_via e t : frame_f (px_add_via e t).
Proof. unfold px_add_via. apply frame_add_via. Qed.

Lemma frame_px_add_record_route must t : frame_f (px_add_record_route must t).
Proof.
  intros m S. unfold px_add_record_route.
  destruct (negb (has_header (s2b "Record-Route") m) && negb must)%bool;
    [split; [exact S|reflexivity]|apply frame_add_record_route; exact S].
Qed.

Lemma preserves_handle_dialog e peer peer_port p : preserves (handle_dialog e peer peer_port p).
Proof.
  unfold handle_dialog. apply preserves_mbind.
  - destruct (alookup (join_host_port peer peer_port) (ps_backends p)); [apply preserves_mret|].
    apply preserves_mbind; [exact preserves_s_client_transaction|]. intros tid.
    destruct (pins_get (e_now e) tid (ps_pins p)) as [pins1 ob].
    apply preserves_mbind; [apply (preserves_read (fun m => Ok (is_final_response m)))|].
    intros fin. apply preserves_mret.
  - intros [p1 ob]. pres.
Qed.

Lemma preserves_find_backend_by_dialog e p : preserves (find_backend_by_dialog e p).
Proof. unfold find_backend_by_dialog. pres. Qed.

(* ================================================================== 2. what a send emits *)

(* an output of the proxy is acceptable for the received message m *)
Definition good (m : message) (d : dest) (b : bytes) : Prop :=
  match d with
  | DDial _ _ _ => b = []
  | _ => exists m', b = write_message m' /\ view m' = view m
  end.

(* every output carries exactly the bytes [b] (a dial carries none) *)
Definition sent (b : bytes) (outs : list output) : Prop :=
  forall d b', In (d, b') outs -> match d with DDial _ _ _ => b' = [] | _ => b' = b end.

Lemma sent_nil b : sent b [].
Proof. intros d b' []. Qed.
Lemma sent_app b l1 l2 : sent b l1 -> sent b l2 -> sent b (l1 ++ l2).
Proof. intros H1 H2 d b' I. apply in_app_iff in I. destruct I; [apply H1|apply H2]; assumption. Qed.
Lemma sent_one_conn b c : sent b [(DConn c, b)].
Proof. intros d b' [E|[]]. inversion E; subst. reflexivity. Qed.
Lemma sent_one_udp b ip port : sent b [(DUdp ip port, b)].
Proof. intros d b' [E|[]]. inversion E; subst. reflexivity. Qed.
Lemma sent_one_dial b ip port c : sent b [(DDial ip port c, [])].
Proof. intros d b' [E|[]]. inversion E; subst. reflexivity. Qed.

Lemma good_of_sent m m1 outs :
  sent (write_message m1) outs -> view m1 = view m -> forall d b, In (d, b) outs -> good m d b.
Proof.
  intros H V d b I. specialize (H d b I). unfold good.
  destruct d; subst; try reflexivity; exists m1; split; auto.
Qed.

Lemma tcp_client_send_sent n li local rs id b :
  forall p cs w outs p' cs' w' outs' ok,
    tcp_client_send n li local rs id b p cs w outs = (p', cs', w', outs', ok) ->
    exists ext, outs' = outs ++ ext /\ sent b ext.
Proof.
  induction n as [|n IH]; intros p cs w outs p' cs' w' outs' ok H; simpl in H.
  - inversion H; subst. exists []. rewrite app_nil_r. split; [reflexivity|apply sent_nil].
  - destruct (find_client id (ps_clients p)) as [cl|];
      [|inversion H; subst; exists []; rewrite app_nil_r; split; [reflexivity|apply sent_nil]].
    destruct (tc_cached cl) as [c|].
    + destruct (conn_open cs c).
      * inversion H; subst. exists [(DConn c, b)]. split; [reflexivity|apply sent_one_conn].
      * exact (IH _ _ _ _ _ _ _ _ _ H).
    + destruct (existsb _ (w_tcp_listeners w)).
      * (* the round that dials also writes, on the connection it has just opened *)
        inversion H; subst.
        exists [(DDial (tc_host cl) (tc_port cl) (w_next_conn w), []); (DConn (w_next_conn w), b)].
        split; [reflexivity|].
        apply (sent_app b [_] [_]); [apply sent_one_dial|apply sent_one_conn].
      * inversion H; subst. exists []. rewrite app_nil_r. split; [reflexivity|apply sent_nil].
Qed.

Lemma failover_send_sent li local rs f b p cs w p' cs' w' outs ok f' :
  failover_send li local rs f b p cs w = (p', cs', w', outs, ok, f') -> sent b outs.
Proof.
  unfold failover_send. intros H.
  assert (Sec : forall f1 r,
             match fo_sec f1 with
             | Some id => let '(p2, cs2, w2, outs2, ok2) := tcp_client_send 2 li local rs id b p cs w [] in
                          (p2, cs2, w2, outs2, ok2, f1)
             | None => (p, cs, w, [], false, f1)
             end = r -> sent b (snd (fst (fst r)))).
  { intros f1 r E. destruct (fo_sec f1) as [id|]; [|subst r; apply sent_nil].
    destruct (tcp_client_send 2 li local rs id b p cs w []) as [[[[p2 cs2] w2] outs2] ok2] eqn:T.
    subst r. simpl. destruct (tcp_client_send_sent _ _ _ _ _ _ _ _ _ _ _ _ _ _ _ T) as (ext & -> & Se).
    exact Se. }
  destruct (fo_pri f) as [[ip port|ip port|c ex]|].
  - destruct (fits_datagram b); [inversion H; subst; apply sent_one_udp|exact (Sec _ _ H)].
  - destruct (fits_datagram b); [inversion H; subst; apply sent_one_udp|exact (Sec _ _ H)].
  - destruct (conn_open cs c); [inversion H; subst; apply sent_one_conn|exact (Sec _ _ H)].
  - exact (Sec _ _ H).
Qed.

Lemma backend_send_sent br b p p' outs ok : backend_send br b p = (p', outs, ok) -> sent b outs.
Proof.
  unfold backend_send. intros H.
  assert (A : forall a, sent b (match last_index_byte ":"%char a with
                                | Some pos => [(DUdp (firstn pos a) (atoi_val (skipn (S pos) a)), b)]
                                | None => [] end)).
  { intros a. destruct (last_index_byte ":"%char a); [apply sent_one_udp|apply sent_nil]. }
  destruct br as [a g|].
  - destruct (existsb _ (ps_backends p) && fits_datagram b)%bool; inversion H; subst; [apply A|apply sent_nil].
  - destruct (rr_dispatch (ps_rr p)) as [r' o]. destruct o as [a|].
    + destruct (fits_datagram b); inversion H; subst; [apply A|apply sent_nil].
    + inversion H; subst. apply sent_nil.
Qed.

(* ================================================================== 3. the pipeline *)

(* the outputs of x' extend those of x by acceptable outputs for m *)
Definition outs_ok (m : message) (x x' : ctx) : Prop :=
  exists pre, x_outs x' = x_outs x ++ pre /\ forall d b, In (d, b) pre -> good m d b.

Lemma outs_ok_same m x x' : x_outs x' = x_outs x -> outs_ok m x x'.
Proof. intros E. exists []. rewrite app_nil_r. split; [exact E|intros d b []]. Qed.
Lemma outs_ok_view m1 m x x' : view m1 = view m -> outs_ok m1 x x' -> outs_ok m x x'.
Proof.
  intros V (pre & E & G). exists pre. split; [exact E|]. intros d b I. specialize (G d b I).
  unfold good in *. destruct d; auto; destruct G as (m' & B & V'); exists m'; split; congruence.
Qed.
Lemma outs_ok_outs m x x0 x' : x_outs x0 = x_outs x -> outs_ok m x0 x' -> outs_ok m x x'.
Proof. intros E (pre & E' & G). exists pre. rewrite <- E. split; assumption. Qed.

(* one let / one destructuring let at the head of the equation H *)
Ltac let1 H id :=
  lazymatch type of H with
  | (let v := ?X in @?B v) = ?R =>
      let E := fresh "E" in remember X as id eqn:E; clear E; change (B id = R) in H; cbv beta in H
  end.
Ltac let1eq H id E :=
  lazymatch type of H with
  | (let v := ?X in @?B v) = ?R => remember X as id eqn:E; change (B id = R) in H; cbv beta in H
  end.
Tactic Notation "dlet" hyp(H) "as" simple_intropattern(pat) "eqn" ":" ident(E) :=
  lazymatch type of H with
  | (match ?X with _ => _ end) = _ => destruct X as pat eqn:E
  end; cbv beta iota in H.

Lemma send_message_ok e host port tr m x x' m' :
  stable m -> send_message e host port tr m x = (x', m') -> outs_ok m x x'.
Proof.
  intros S H. cbv delta [send_message] in H; cbv beta in H.
  let1 H ip.
  dlet H as [m1 tid] eqn:T.
  destruct (preserves_run _ _ _ _ (preserves_mtry _ preserves_s_client_transaction) S T) as [S1 V1].
  let1 H trid.
  dlet H as [p1 rkey] eqn:G. clear G.
  destruct rkey as [key| |]; try (inversion H; subst; apply outs_ok_same; reflexivity).
  let1 H p2.
  destruct (alookup key (ps_table p2)) as [f|]; [|inversion H; subst; apply outs_ok_same; reflexivity].
  let1 H p3.
  dlet H as [[[[[p4 cs] w] outs] ok] f'] eqn:F.
  let1 H p5. inversion H; subst. exists outs. split; [reflexivity|].
  exact (good_of_sent m m' outs (failover_send_sent _ _ _ _ _ _ _ _ _ _ _ _ _ _ F) V1).
Qed.

Lemma send_to_backend_ok e m x x' m' :
  stable m -> send_to_backend e m x = (x', m') -> outs_ok m x x'.
Proof.
  intros S H. cbv delta [send_to_backend] in H; cbv beta in H.
  let1 H p.
  destruct (negb (ps_has_rr p)); [inversion H; subst; apply outs_ok_same; reflexivity|].
  destruct (first_transport (e_lc e)) as [t0|]; [|inversion H; subst; apply outs_ok_same; reflexivity].
  dlet H as [m1 r] eqn:F.
  destruct (preserves_run _ _ _ _ (preserves_find_backend_by_dialog e p) S F) as [S1 V1].
  dlet H as [p1 ob] eqn:Ep. clear Ep.
  let1 H b.
  let1eq H m2 E2.
  assert (R2 : stable m2 /\ view m2 = view m).
  { subst m2. destruct (frame_px_add_via e t0 m1 S1) as [Sa Va].
    destruct (frame_px_add_record_route (pa_must_rr (wire_proxy (e_lc e))) t0 _ Sa) as [Sb Vb].
    split; [exact Sb|congruence]. }
  clear E2. destruct R2 as [S2 V2].
  dlet H as [[p2 outs] ok] eqn:B.
  destruct ok.
  - dlet H as [m3 tid] eqn:T. let1 H p3. inversion H; subst. exists outs. split; [reflexivity|].
    exact (good_of_sent m m2 outs (backend_send_sent _ _ _ _ _ _ B) V2).
  - inversion H; subst. apply outs_ok_same. reflexivity.
Qed.

Lemma handle_message_ok e from m x x' m' :
  stable m -> handle_message e from m x = (x', m') -> outs_ok m x x'.
Proof.
  intros S H. cbv delta [handle_message] in H; cbv beta in H.
  destruct (is_request m).
  - dlet H as [m1 r] eqn:N.
    destruct (preserves_run _ _ _ _ (preserves_next_request_hop _ _) S N) as [S1 V1].
    destruct r as [[[host port] transport]| |].
    + let1eq H m2 E2.
      assert (R2 : stable m2 /\ view m2 = view m).
      { subst m2. destruct (alookup host (x_learned x)) as [t|]; [|split; assumption].
        destruct (frame_px_add_via e t m1 S1) as [Sa Va].
        destruct (frame_px_add_record_route (pa_must_rr (wire_proxy (e_lc e))) t _ Sa) as [Sb Vb].
        split; [exact Sb|congruence]. }
      destruct R2 as [S2 V2].
      apply (outs_ok_view m2); [exact V2|]. exact (send_message_ok _ _ _ _ _ _ _ _ S2 H).
    + destruct (is_my_message _ from m1).
      * apply (outs_ok_view m1); [exact V1|]. exact (send_to_backend_ok _ _ _ _ _ S1 H).
      * inversion H; subst. apply outs_ok_same. reflexivity.
    + destruct (is_my_message _ from m1).
      * apply (outs_ok_view m1); [exact V1|]. exact (send_to_backend_ok _ _ _ _ _ S1 H).
      * inversion H; subst. apply outs_ok_same. reflexivity.
  - dlet H as [m1 u] eqn:P1.
    destruct (preserves_run _ _ _ _ (preserves_mtry _ preserves_s_pop_via) S P1) as [S1 V1].
    dlet H as [m2 hop] eqn:P2.
    destruct (preserves_run _ _ _ _ (preserves_mtry _ preserves_next_response_hop) S1 P2) as [S2 V2].
    dlet H as [m3 ometh] eqn:P3.
    destruct (preserves_run _ _ _ _ (preserves_mtry _ preserves_s_get_method) S2 P3) as [S3 V3].
    dlet H as [m4 p1] eqn:P4.
    assert (R4 : stable m4 /\ view m4 = view m3).
    { assert (Same : forall pp, (m3, pp) = (m4, p1) -> stable m4 /\ view m4 = view m3).
      { intros pp E. inversion E; subst. split; [exact S3|reflexivity]. }
      destruct hop as [[[[host port] tr]|]| |]; try exact (Same _ P4).
      destruct ometh as [[meth|]| |]; try exact (Same _ P4).
      destruct (beq meth (s2b "SUBSCRIBE")); [|exact (Same _ P4)].
      cbv zeta in P4.
      destruct (alookup _ (ps_backends (x_p x))) as [g|]; [|exact (Same _ P4)].
      destruct (mtry s_get_dialog m3) as [mm od] eqn:D.
      destruct (preserves_run _ _ _ _ (preserves_mtry _ preserves_s_get_dialog) S3 D) as [S4 V4].
      destruct od as [[d|]| |]; inversion P4; subst; split; assumption. }
    clear P4. destruct R4 as [S4 V4].
    assert (V40 : view m4 = view m) by congruence.
    let1eq H x1 Ex1.
    assert (O1 : x_outs x1 = x_outs x) by (subst x1; reflexivity). clear Ex1.
    destruct hop as [[[[host port] tr]|]| |];
      try (inversion H; subst; apply outs_ok_same; exact O1).
    apply (outs_ok_outs m x x1 x' O1). apply (outs_ok_view m4); [exact V40|].
    exact (send_message_ok _ _ _ _ _ _ _ _ S4 H).
Qed.

Lemma process_message_ok e peer peer_port from rs tcp m x x' :
  stable m -> process_message e peer peer_port from rs tcp m x = Ok x' -> outs_ok m x x'.
Proof.
  intros S H. cbv delta [process_message] in H; cbv beta in H.
  (* learn *)
  dlet H as [m1 l1] eqn:E1.
  assert (R1 : stable m1 /\ view m1 = view m).
  { destruct (is_request m && negb (amem peer (ps_backends (x_p x))))%bool.
    - destruct (s_all_via_params m) as [mm vs] eqn:A. inversion E1; subst.
      exact (preserves_run _ _ _ _ preserves_s_all_via_params S A).
    - inversion E1; subst. split; [exact S|reflexivity]. }
  clear E1. destruct R1 as [S1 V1].
  (* received / rport *)
  let1eq H m2 E2.
  assert (R2 : stable m2 /\ view m2 = view m).
  { subst m2. destruct (is_request m1 && rs)%bool; [|split; assumption].
    destruct (frame_f_fst _ (preserves_s_set_received peer peer_port) m1 S1) as [Sa Va].
    split; [exact Sa|congruence]. }
  clear E2. destruct R2 as [S2 V2].
  (* the connection for the responses *)
  dlet H as [m3 rp] eqn:E3.
  assert (R3 : stable m3 /\ view m3 = view m).
  { assert (Same : forall pp, (m2, pp) = (m3, rp) -> stable m3 /\ view m3 = view m).
    { intros pp E. inversion E; subst. split; assumption. }
    destruct tcp as [c|]; [|exact (Same _ E3)].
    destruct (is_request m2); [|exact (Same _ E3)].
    destruct (mtry next_response_hop m2) as [mm hop] eqn:Eh.
    destruct (preserves_run _ _ _ _ (preserves_mtry _ preserves_next_response_hop) S2 Eh) as [Sh Vh].
    assert (Same' : forall pp, (mm, pp) = (m3, rp) -> stable m3 /\ view m3 = view m).
    { intros pp E. inversion E; subst. split; [assumption|congruence]. }
    destruct hop as [oh| |]; try exact (Same' _ E3).
    cbv zeta in E3.
    match type of E3 with (match ?X with _ => _ end) = _ => destruct X as [host| |] end;
      try exact (Same' _ E3).
    destruct oh as [hh|]; [|exact (Same' _ E3)].
    destruct (mtry s_client_transaction mm) as [m'' tid] eqn:Et.
    destruct (preserves_run _ _ _ _ (preserves_mtry _ preserves_s_client_transaction) Sh Et) as [St Vt].
    assert (Same'' : forall pp, (m'', pp) = (m3, rp) -> stable m3 /\ view m3 = view m).
    { intros pp E. inversion E; subst. split; [assumption|congruence]. }
    destruct tid as [[t|]| |]; try exact (Same'' _ E3).
    destruct (get_transport _ _ _ _ _ _) as [pp rk]. destruct rk; exact (Same'' _ E3). }
  clear E3. destruct R3 as [S3 V3].
  destruct rp as [p1| |]; try discriminate.
  (* tryRemoveTopRoute *)
  let1eq H m4 E4.
  assert (R4 : stable m4 /\ view m4 = view m).
  { subst m4.
    destruct (frame_f_fst _ (preserves_mtry _ (preserves_try_remove_top_route (e_cfg e) from)) m3 S3) as [Sa Va].
    split; [exact Sa|congruence]. }
  clear E4. destruct R4 as [S4 V4].
  (* handleDialog *)
  dlet H as [m5 p2] eqn:E5.
  assert (R5 : stable m5 /\ view m5 = view m).
  { destruct (is_response m4); [|inversion E5; subst; split; assumption].
    destruct (handle_dialog e peer peer_port p1 m4) as [mm r] eqn:Hd.
    destruct (preserves_run _ _ _ _ (preserves_handle_dialog e peer peer_port p1) S4 Hd) as [Sa Va].
    inversion E5; subst. split; [assumption|congruence]. }
  clear E5. destruct R5 as [S5 V5].
  let1eq H x1 Ex1.
  assert (O1 : x_outs x1 = x_outs x) by (subst x1; reflexivity). clear Ex1.
  destruct (handle_message e from m5 x1) as [x2 m6] eqn:HM.
  inversion H; subst. simpl.
  apply (outs_ok_outs m x x1 x' O1). apply (outs_ok_view m5); [exact V5|].
  exact (handle_message_ok _ _ _ _ _ _ S5 HM).
Qed.

(* ------------------------------------------------------------------ main theorem *)
Theorem C01_relay_preserves :
  forall e peer peer_port from rs tcp m x x',
    stable m ->
    process_message e peer peer_port from rs tcp m x = Ok x' ->
    exists pre, x_outs x' = x_outs x ++ pre /\
      forall d b, In (d, b) pre ->
        match d with
        | DDial _ _ _ => b = []
        | _ => exists m', b = write_message m' /\ view m' = view m
        end.
Proof.
  intros e peer peer_port from rs tcp m x x' S H.
  exact (process_message_ok _ _ _ _ _ _ _ _ _ S H).
Qed.

(* ------------------------------------------------------------------ lifted to proxy_step *)
(* UDP: every output of the event whose datagram decodes to m *)
Theorem C01_proxy_step_udp :
  forall fx c now branch st li src sport data m rest st' outs,
    parse_message data = Ok (m, rest) -> stable m ->
    proxy_step fx c now branch st (EvUdp li src sport data) = Ok (st', outs) ->
    forall d b, In (d, b) outs -> good m d b.
Proof.
  intros fx c now branch st li src sport data m rest st' outs P S H d b I.
  cbv delta [proxy_step] in H; cbv beta iota in H.
  destruct (nth_opt (c_listens c) li) as [lc|]; [|inversion H; subst; contradiction].
  cbv zeta in H. rewrite P in H. unfold run_ctx in H.
  destruct (nth_p (st_proxies st) li) as [p|]; [|inversion H; subst; contradiction].
  match type of H with (match ?X with _ => _ end) = _ => destruct X as [x'| |] eqn:PM end;
    try discriminate.
  inversion H; subst. destruct (C01_relay_preserves _ _ _ _ _ _ _ _ _ S PM) as (pre & E & G).
  simpl in E. rewrite E in I. exact (G d b I).
Qed.

Lemma tcp_messages_ok e c : forall fuel s x x',
  (forall m, In m (parse_stream fuel s) -> stable m) ->
  tcp_messages fuel e c s x = Ok x' ->
  exists pre, x_outs x' = x_outs x ++ pre /\
    forall d b, In (d, b) pre -> exists m, In m (parse_stream fuel s) /\ good m d b.
Proof.
  assert (Nil : forall (x : ctx) (P : dest -> bytes -> Prop),
             exists pre, x_outs x = x_outs x ++ pre /\ forall d b, In (d, b) pre -> P d b).
  { intros x P. exists []. rewrite app_nil_r. split; [reflexivity|intros d b []]. }
  induction fuel as [|fuel IH]; intros s x x' St H; cbn [tcp_messages] in H.
  - inversion H; subst. apply Nil.
  - destruct (trim_left s) as [|c0 tl0] eqn:TL; [inversion H; subst; apply Nil|].
    cbn [parse_stream] in St |- *.
    destruct (parse_message s) as [[m rest]| |] eqn:P.
    + match type of H with (match ?X with _ => _ end) = _ => destruct X as [x1| |] eqn:PM end;
        try discriminate.
      destruct (C01_relay_preserves _ _ _ _ _ _ _ _ _ (St m (or_introl eq_refl)) PM) as (pre1 & E1 & G1).
      destruct (IH rest x1 x' (fun m0 I0 => St m0 (or_intror I0)) H) as (pre2 & E2 & G2).
      exists (pre1 ++ pre2). split; [rewrite E2, E1, app_assoc; reflexivity|].
      intros d0 b0 I. apply in_app_iff in I. destruct I as [I|I].
      * exists m. split; [left; reflexivity|exact (G1 d0 b0 I)].
      * destruct (G2 d0 b0 I) as (m0 & I0 & G0). exists m0. split; [right; exact I0|exact G0].
    + inversion H; subst. simpl. apply Nil.
    + inversion H; subst. simpl. apply Nil.
Qed.

(* TCP: a chunk may contain several messages; each output comes from one of them *)
Theorem C01_proxy_step_tcp :
  forall fx c now branch st cid data st' outs,
    (forall m, In m (parse_stream (S (List.length data)) data) -> stable m) ->
    proxy_step fx c now branch st (EvTcpData cid data) = Ok (st', outs) ->
    forall d b, In (d, b) outs ->
      exists m, In m (parse_stream (S (List.length data)) data) /\ good m d b.
Proof.
  intros fx c now branch st cid data st' outs St H d b I.
  cbv delta [proxy_step] in H; cbv beta iota in H.
  destruct (find _ (st_conns st)) as [cn|]; [|inversion H; subst; contradiction].
  destruct (cn_open cn); [|inversion H; subst; contradiction].
  cbv zeta in H.
  destruct (nth_opt (c_listens c) (cn_li cn)) as [lc|]; [|inversion H; subst; contradiction].
  unfold run_ctx in H.
  destruct (nth_p (st_proxies st) (cn_li cn)) as [p|]; [|inversion H; subst; contradiction].
  match type of H with (match ?X with _ => _ end) = _ => destruct X as [x'| |] eqn:TM end;
    try discriminate.
  inversion H; subst. destruct (tcp_messages_ok _ _ _ _ _ _ St TM) as (pre & E & G).
  simpl in E. rewrite E in I. exact (G d b I).
Qed.

(* ================================================================== 4. [stable] on the C14 domain *)

(* the raw From / To / CSeq values are reference renderings of well-formed abstract values *)
Definition c14_domain_h (h : header) : Prop :=
  match h_val h with
  | HRaw s =>
      ((same_header (h_name h) (s2b "From") = true \/ same_header (h_name h) (s2b "To") = true) ->
       exists f, wf_fromto f = true /\ s = rp_fromto f) /\
      (same_header (h_name h) (s2b "CSeq") = true -> exists c, wf_cseq c = true /\ s = rp_cseq c)
  | _ => True
  end.

Theorem stable_on_c14_domain m : Forall c14_domain_h (m_headers m) -> stable m.
Proof.
  unfold stable, stable_hs. apply Forall_impl. intros h D.
  unfold c14_domain_h in D. unfold stable_h. destruct (h_val h); auto.
  destruct D as [D1 D2]. split.
  - intros N f P. destruct (D1 N) as (af & W & ->). rewrite (parse_fromto_rp af W) in P.
    inversion P; subst. apply fromto_print_embed. exact W.
  - intros N c P. destruct (D2 N) as (ac & W & ->). rewrite (parse_cseq_rp ac W) in P.
    inversion P; subst. apply cseq_print_embed.
Qed.

(* executable check of [stable] (used for the concrete examples) *)
Definition stable_hb (h : header) : bool :=
  match h_val h with
  | HRaw s =>
      (if (same_header (h_name h) (s2b "From") || same_header (h_name h) (s2b "To"))%bool
       then match parse_fromto s with Ok f => beq (fromto_print f) s | _ => true end else true) &&
      (if same_header (h_name h) (s2b "CSeq")
       then match parse_cseq s with Ok c => beq (cseq_print c) s | _ => true end else true)
  | _ => true
  end.
Definition stable_b (m : message) : bool := forallb stable_hb (m_headers m).

Lemma stable_b_sound m : stable_b m = true -> stable m.
Proof.
  unfold stable_b, stable, stable_hs. rewrite forallb_forall, Forall_forall. intros H h I.
  specialize (H h I). unfold stable_hb in H. unfold stable_h. destruct (h_val h); auto.
  apply andb_true_iff in H. destruct H as [H1 H2]. split.
  - intros N f P. assert (N' : (same_header (h_name h) (s2b "From") || same_header (h_name h) (s2b "To"))%bool = true)
      by (destruct N as [N|N]; rewrite N; [reflexivity|apply orb_true_r]).
    rewrite N', P in H1. apply beq_eq. exact H1.
  - intros N c P. rewrite N, P in H2. apply beq_eq. exact H2.
Qed.

(* OUTSIDE the domain the hypothesis fails and so does the conclusion: a CSeq number with
   leading zeros is decoded (GetClientTransaction on every relayed message) and re-encoded %d *)
Definition ex_unstable : message :=
  {| m_start := SReq (s2b "INVITE") (AAbs (s2b "tel:+1")) (s2b "SIP/2.0");
     m_headers := [{| h_name := s2b "CSeq"; h_val := HRaw (s2b "0001 INVITE") |}];
     m_body := [] |}.
Example C01_stable_necessary :
  parse_cseq (s2b "0001 INVITE") = Ok {| cs_seq := 1; cs_method := s2b "INVITE" |} /\
  cseq_print {| cs_seq := 1; cs_method := s2b "INVITE" |} = s2b "1 INVITE" /\
  ~ stable ex_unstable /\
  view (fst (s_get_cseq ex_unstable)) <> view ex_unstable /\
  view_hs (m_headers (fst (s_get_cseq ex_unstable))) = [(s2b "CSeq", s2b "1 INVITE")].
Proof.
  assert (P : parse_cseq (s2b "0001 INVITE") = Ok {| cs_seq := 1; cs_method := s2b "INVITE" |})
    by (vm_compute; reflexivity).
  split; [exact P|]. split; [vm_compute; reflexivity|]. split; [|split].
  - intros S. inversion S as [|h r Sh Sr]; subst. unfold stable_h in Sh. simpl in Sh.
    destruct Sh as [_ Sh]. specialize (Sh (same_header_refl _) _ P). vm_compute in Sh. discriminate Sh.
  - vm_compute. intros E. discriminate E.
  - vm_compute. reflexivity.
Qed.

(* ================================================================== 5. exactly one Content-Length *)

Definition is_cl_h (h : header) : bool := same_header (h_name h) (s2b "Content-Length").
Definition cl_header (m : message) : header :=
  {| h_name := s2b "Content-Length"; h_val := HRaw (itoa (Z.of_nat (List.length (m_body m)))) |}.
(* the header fields write_message emits, in order *)
Definition emitted_headers (m : message) : list header :=
  filter (fun h => negb (is_cl_h h)) (m_headers m) ++ [cl_header m].

(* write_message m = start line, the received headers that are not a Content-Length (any
   spelling: full, compact "l", any case) in their order, then ONE Content-Length with the
   number of body bytes, the empty line, the body *)
Theorem C01_single_content_length m :
  write_message m =
    start_line_print (m_start m) ++ crlf ++ flat_map header_print (emitted_headers m) ++ crlf ++ m_body m
  /\ emitted_headers m = filter (fun h => negb (is_cl_h h)) (m_headers m) ++ [cl_header m]
  /\ Forall (fun h => is_cl_h h = false) (filter (fun h => negb (is_cl_h h)) (m_headers m))
  /\ is_cl_h (cl_header m) = true
  /\ header_print (cl_header m) =
       s2b "Content-Length: " ++ itoa (Z.of_nat (List.length (m_body m))) ++ crlf
  /\ List.length (filter is_cl_h (emitted_headers m)) = 1%nat.
Proof.
  assert (F : Forall (fun h => is_cl_h h = false) (filter (fun h => negb (is_cl_h h)) (m_headers m))).
  { apply Forall_forall. intros h I. apply filter_In in I. destruct I as [_ I].
    apply negb_true_iff. exact I. }
  assert (C : is_cl_h (cl_header m) = true) by apply same_header_refl.
  assert (P : header_print (cl_header m) =
               s2b "Content-Length: " ++ itoa (Z.of_nat (List.length (m_body m))) ++ crlf).
  { unfold header_print. cbn [cl_header h_name h_val hval_print].
    change (s2b "Content-Length: ") with (s2b "Content-Length" ++ s2b ": ").
    rewrite <- !app_assoc. reflexivity. }
  repeat split; try assumption.
  - unfold write_message, emitted_headers. rewrite flat_map_app. cbn [flat_map]. rewrite app_nil_r, P.
    rewrite <- !app_assoc. reflexivity.
  - unfold emitted_headers. rewrite filter_app. cbn [filter]. rewrite C.
    assert (E : filter is_cl_h (filter (fun h => negb (is_cl_h h)) (m_headers m)) = []).
    { induction F as [|h r Hh Hr IH]; [reflexivity|]. cbn [filter]. rewrite Hh. exact IH. }
    rewrite E. reflexivity.
Qed.

(* ================================================================== 6. the pre-fix encoder *)

(* encodeHeader compared header.name == "Content-Length" (exact spelling only) *)
Definition write_message_legacy (m : message) : bytes :=
  start_line_print (m_start m) ++ crlf ++
  flat_map header_print (filter (fun h => negb (beq (h_name h) (s2b "Content-Length"))) (m_headers m)) ++
  s2b "Content-Length: " ++ itoa (Z.of_nat (List.length (m_body m))) ++ crlf ++ crlf ++ m_body m.

Definition parsed (b : bytes) : message :=
  match parse_message b with
  | Ok (m, _) => m
  | _ => {| m_start := SResp [] 0 []; m_headers := []; m_body := [] |}
  end.
(* the verdict of the executable judge on (input bytes, output bytes); None = unreadable *)
Definition judge_bytes (i o : bytes) : option nat :=
  match j_read i, j_read o with Some ji, Some jo => Some (judge_C01_pair ji jo) | _, _ => None end.

Definition ex_legacy_input : bytes :=
  s2b "INVITE sip:svc@example.com SIP/2.0" ++ crlf ++ s2b "l: 3" ++ crlf ++ crlf ++ s2b "abc".

(* a request with the compact header "l: 3": the pre-fix encoder emits it AND its own
   Content-Length (two fields; the judge answers 5), the repaired one emits exactly one *)
Theorem C01_legacy_refuted :
  parse_message ex_legacy_input = Ok (parsed ex_legacy_input, []) /\
  option_map in_domain_C01 (j_read ex_legacy_input) = Some true /\
  stable (parsed ex_legacy_input) /\
  write_message_legacy (parsed ex_legacy_input) =
    s2b "INVITE sip:svc@example.com SIP/2.0" ++ crlf ++ s2b "l: 3" ++ crlf ++
    s2b "Content-Length: 3" ++ crlf ++ crlf ++ s2b "abc" /\
  option_map jm_cl_count (j_read (write_message_legacy (parsed ex_legacy_input))) = Some 2%nat /\
  judge_bytes ex_legacy_input (write_message_legacy (parsed ex_legacy_input)) = Some 5%nat /\
  option_map jm_cl_count (j_read (write_message (parsed ex_legacy_input))) = Some 1%nat /\
  judge_bytes ex_legacy_input (write_message (parsed ex_legacy_input)) = Some 0%nat.
Proof.
  split; [vm_compute; reflexivity|]. split; [vm_compute; reflexivity|].
  split; [apply stable_b_sound; vm_compute; reflexivity|].
  repeat (split; [vm_compute; reflexivity|]). vm_compute; reflexivity.
Qed.

(* ================================================================== 7. non-vacuity *)

Definition ex_lc : listen_cfg :=
  {| lc_addr := s2b "10.0.0.1"; lc_udp := 5060; lc_tcp := 5060; lc_backends := [s2b "10.0.0.2:5080"];
     lc_dynamic := false; lc_no_received := false; lc_def_route := false; lc_must_rr := true |}.
Definition ex_cfg : cfg :=
  {| c_name := s2b "example.com"; c_keep_next_hop := false; c_dialog_timeout := 3600;
     c_routes := [(s2b "udp", (s2b "static.example.org", s2b "10.0.0.8:5090"))];
     c_hosts := []; c_listens := [ex_lc] |}.
(* one TCP peer accepts connections *)
Definition ex_st : state := init_state ex_cfg 0 [(s2b "10.0.0.7", 5080%Z)].

(* compact and odd-case names, a repeated extension header, '%', quotes, ';', ',', '<', '>',
   non-UTF-8 bytes, a compact Content-Length that is not the last header, a body with
   CR LF NUL *)
Definition ex_common : bytes :=
  s2b "v: SIP/2.0/UDP 10.0.0.9:5070;branch=z9hG4bKabc;rport" ++ crlf ++
  s2b "f: ""A %41 \""q\"""" <sip:alice@a.example.com;x=%25>;tag=1%sz" ++ crlf ++
  s2b "T: <sip:svc@example.com>" ++ crlf ++
  s2b "i: call-1@host" ++ crlf ++
  s2b "CSeq: 7 INVITE" ++ crlf ++
  s2b "X-eXt: a;b=""c"";%d%s,<>" ++ crlf ++
  s2b "x-ext: second, value" ++ crlf ++
  (s2b "X-Bin: " ++ [ascii_of_nat 255; ascii_of_nat 254; "a"%char; ascii_of_nat 128]) ++ crlf ++
  s2b "l: 7" ++ crlf ++
  s2b "cONTENT-tYPE: application/x" ++ crlf ++
  s2b "X-eXt: third" ++ crlf ++ crlf ++
  [ "a"%char; ascii_of_nat 13; ascii_of_nat 10; zero; "b"%char; ascii_of_nat 10; ascii_of_nat 13 ].
(* addressed to the service name: relayed to the backend *)
Definition ex_req_backend : bytes := s2b "INVITE sip:svc@example.com SIP/2.0" ++ crlf ++ ex_common.
(* carries a Route: relayed to the first route entry (over TCP: a dial, then the bytes) *)
Definition ex_req_route : bytes :=
  s2b "oPTIONS sip:bob@elsewhere.example.net;transport=tcp SIP/2.0" ++ crlf ++
  s2b "Route: <sip:10.0.0.7:5080;lr;transport=tcp>,<sip:10.0.0.6;lr>" ++ crlf ++ ex_common.
(* To host in the static route table *)
Definition ex_req_static : bytes :=
  s2b "MESSAGE sip:carol@static.example.org SIP/2.0" ++ crlf ++
  s2b "To: sip:carol@static.example.org" ++ crlf ++ ex_common.
(* a response: relayed by its second Via *)
Definition ex_resp : bytes :=
  s2b "SIP/2.0 183 Session  Progress" ++ crlf ++
  s2b "Via: SIP/2.0/UDP 10.0.0.1:5060;branch=z9hG4bKpx" ++ crlf ++ ex_common.

Definition ex_run (data : bytes) : res (state * list output) :=
  proxy_step all_fixed ex_cfg 1000 (branch_of 0) ex_st (EvUdp 0 (s2b "10.0.0.9") 5070%Z data).
Definition ex_outs (data : bytes) : list (bytes * bytes) :=
  match ex_run data with Ok (_, outs) => map (fun o => (label_of (fst o), snd o)) outs | _ => [] end.

(* hypotheses of the theorems hold on the concrete inputs ... *)
Example ex_hypotheses :
  Forall (fun b => parse_message b = Ok (parsed b, []) /\ stable (parsed b) /\
                   option_map in_domain_C01 (j_read b) = Some true)
         [ex_req_backend; ex_req_route; ex_req_static].
Proof.
  apply Forall_cons; [|apply Forall_cons; [|apply Forall_cons; [|apply Forall_nil]]];
    (split; [vm_compute; reflexivity|split; [apply stable_b_sound; vm_compute; reflexivity|vm_compute; reflexivity]]).
Qed.
(* (the response has a start line with a run of blanks: parse/print normalises it, it is in the
   domain of the theorem but not of the judge) *)
Example ex_hypotheses_resp :
  parse_message ex_resp = Ok (parsed ex_resp, []) /\ stable (parsed ex_resp) /\
  option_map in_domain_C01 (j_read ex_resp) = Some false.
Proof.
  split; [vm_compute; reflexivity|split; [apply stable_b_sound; vm_compute; reflexivity|vm_compute; reflexivity]].
Qed.

(* ... and the conclusion is exercised: where each message goes, and what the executable
   judge says about the bytes *)
Example ex_paths :
  map fst (ex_outs ex_req_backend) = [s2b "udp:10.0.0.2:5080"] /\
  map fst (ex_outs ex_req_route) = [s2b "dial:10.0.0.7:5080"; s2b "conn:0"] /\
  map fst (ex_outs ex_req_static) = [s2b "udp:10.0.0.8:5090"] /\
  map fst (ex_outs ex_resp) = [s2b "udp:10.0.0.9:5070"] /\
  map (fun o => judge_bytes ex_req_backend (snd o)) (ex_outs ex_req_backend) = [Some 0%nat] /\
  map (fun o => judge_bytes ex_req_route (snd o)) (ex_outs ex_req_route) = [None; Some 0%nat] /\
  map (fun o => judge_bytes ex_req_static (snd o)) (ex_outs ex_req_static) = [Some 0%nat] /\
  map (fun o => view (parsed (snd o)) = view (parsed ex_resp)) (ex_outs ex_resp) = [view (parsed ex_resp) = view (parsed ex_resp)].
Proof. repeat (split; [vm_compute; reflexivity|]). vm_compute; reflexivity. Qed.

(* the theorem instantiated *)
Example ex_backend_parse : parse_message ex_req_backend = Ok (parsed ex_req_backend, []).
Proof. vm_compute. reflexivity. Qed.
Example ex_backend_stable : stable (parsed ex_req_backend).
Proof. apply stable_b_sound. vm_compute. reflexivity. Qed.
Example ex_backend_theorem :
  forall st' outs,
    proxy_step all_fixed ex_cfg 1000 (branch_of 0) ex_st (EvUdp 0 (s2b "10.0.0.9") 5070%Z ex_req_backend)
      = Ok (st', outs) ->
    forall d b, In (d, b) outs -> good (parsed ex_req_backend) d b.
Proof.
  intros st' outs H.
  exact (C01_proxy_step_udp _ _ _ _ _ _ _ _ _ _ _ _ _ ex_backend_parse ex_backend_stable H).
Qed.

(* ================================================================== 8. bridge to the executable judge *)

(* ---- the judge's header classes are the model's ---- *)
Lemma same_header_cl n : same_header n (s2b "Content-Length") = is_cl n.
Proof. reflexivity. Qed.
Lemma same_header_via n : same_header n (s2b "Via") = is_via n.
Proof. reflexivity. Qed.
Lemma same_header_route n : same_header n (s2b "Route") = is_route n.
Proof. unfold same_header. change (get_compact (s2b "Route")) with (@None bytes). rewrite orb_false_r. reflexivity. Qed.
Lemma same_header_rr n : same_header n (s2b "Record-Route") = is_rr n.
Proof. unfold same_header. change (get_compact (s2b "Record-Route")) with (@None bytes). rewrite orb_false_r. reflexivity. Qed.
Lemma routing_name_judge n : routing_name n = routing_header n.
Proof.
  unfold routing_name, routing_header.
  rewrite same_header_via, same_header_route, same_header_rr, same_header_cl. reflexivity.
Qed.

(* ---- white space ---- *)
Lemma trim_left_head s : match trim_left s with c :: _ => is_space c = false | [] => True end.
Proof.
  induction s as [|c r IH]; cbn [trim_left]; [exact I|].
  destruct (is_space c) eqn:E; [exact IH|exact E].
Qed.
Lemma trim_left_fix s : match s with c :: _ => is_space c = false | [] => True end -> trim_left s = s.
Proof. destruct s as [|c r]; [reflexivity|]. intros H. cbn [trim_left]. rewrite H. reflexivity. Qed.
Lemma trim_left_idem s : trim_left (trim_left s) = trim_left s.
Proof. apply trim_left_fix, trim_left_head. Qed.
Lemma trim_left_suffix s : exists w, s = w ++ trim_left s.
Proof.
  induction s as [|c r [w E]]; [exists []; reflexivity|]. cbn [trim_left].
  destruct (is_space c); [exists (c :: w); cbn [app]; f_equal; exact E|exists []; reflexivity].
Qed.
Lemma trim_space_idem s : trim_space (trim_space s) = trim_space s.
Proof.
  unfold trim_space, trim_right.
  set (a := trim_left s). set (b := trim_left (rev a)).
  assert (Hb : trim_left (rev b) = rev b).
  { apply trim_left_fix. destruct (rev b) as [|c r] eqn:Erb; [exact I|].
    destruct (trim_left_suffix (rev a)) as [w Ew]. fold b in Ew.
    assert (Ea : a = rev b ++ rev w) by (rewrite <- (rev_involutive a), Ew, rev_app_distr; reflexivity).
    rewrite Erb in Ea. pose proof (trim_left_head s) as Hh. fold a in Hh. rewrite Ea in Hh. exact Hh. }
  rewrite Hb, rev_involutive. unfold b. rewrite trim_left_idem. reflexivity.
Qed.
Lemma trim_space_sp x : trim_space (" "%char :: x) = trim_space x.
Proof. unfold trim_space. cbn [trim_left]. change (is_space " "%char) with true. reflexivity. Qed.

(* ---- Atoi accepts only sign + digits, within int64 ---- *)
Lemma digit_nospace : forall c, is_digit c = true -> is_space c = false.
Proof. ascii_cases. Qed.
Lemma digits_val_digits s : forall a v, digits_val s a = Some v -> Forall (fun c => is_digit c = true) s.
Proof.
  induction s as [|c r IH]; intros a v H; [constructor|]. cbn [digits_val] in H.
  destruct (is_digit c) eqn:E; [|discriminate]. constructor; [exact E|exact (IH _ _ H)].
Qed.
Lemma atoi_inv s z : atoi s = Some z -> nospace s /\ (int_min <= z <= int_max)%Z.
Proof.
  unfold atoi. destruct s as [|c r]; [discriminate|]. intros H. cbv zeta in H.
  assert (K : forall ds,
             match digits_val ds 0 with
             | Some v => if (Z.leb int_min (if Ascii.eqb c "-" then (- v)%Z else v) &&
                             Z.leb (if Ascii.eqb c "-" then (- v)%Z else v) int_max)%bool
                         then Some (if Ascii.eqb c "-" then (- v)%Z else v) else None
             | None => None end = Some z ->
             Forall (fun x => is_digit x = true) ds /\ (int_min <= z <= int_max)%Z).
  { intros ds E. destruct (digits_val ds 0) as [v|] eqn:D; [|discriminate].
    destruct (Z.leb int_min _ && Z.leb _ int_max)%bool eqn:R; [|discriminate].
    inversion E; subst. apply andb_true_iff in R. destruct R as [R1 R2].
    apply Z.leb_le in R1, R2. split; [exact (digits_val_digits _ _ _ D)|split; assumption]. }
  destruct (Ascii.eqb c "-" || Ascii.eqb c "+")%bool eqn:Sg.
  - destruct r as [|d r']; [discriminate|].
    destruct (K _ H) as [F R]. split; [|exact R]. intros x [<-|I].
    + apply orb_true_iff in Sg. destruct Sg as [Q|Q]; apply Ascii.eqb_eq in Q; subst c; reflexivity.
    + apply digit_nospace. rewrite Forall_forall in F. exact (F x I).
  - destruct (K _ H) as [F R]. split; [|exact R]. intros x I.
    apply digit_nospace. rewrite Forall_forall in F. exact (F x I).
Qed.

(* ---- splitting into lines ---- *)
Lemma firstn_len_app {A} (a b : list A) : firstn (List.length a) (a ++ b) = a.
Proof. induction a as [|x a IH]; [destruct b; reflexivity|cbn; rewrite IH; reflexivity]. Qed.
Lemma skipn_S_len_app {A} (a : list A) x b : skipn (S (List.length a)) (a ++ x :: b) = b.
Proof. induction a as [|y a IH]; [reflexivity|exact IH]. Qed.

Lemma j_strip_cr_snoc l : j_strip_cr (l ++ [jCR]) = l.
Proof.
  unfold j_strip_cr. rewrite rev_app_distr. change (rev [jCR]) with [jCR]. cbn [app].
  rewrite Ascii.eqb_refl. apply rev_involutive.
Qed.
Lemma j_strip_cr_cases t : j_strip_cr t = t \/ t = j_strip_cr t ++ [jCR].
Proof.
  unfold j_strip_cr. destruct (rev t) as [|x r] eqn:E.
  - left. destruct t as [|y t']; [reflexivity|].
    apply (f_equal (@List.length _)) in E. rewrite rev_length in E. discriminate E.
  - destruct (Ascii.eqb x jCR) eqn:Q; [right|left; reflexivity].
    apply Ascii.eqb_eq in Q. subst x. rewrite <- (rev_involutive t), E. reflexivity.
Qed.
Lemma j_strip_cr_in x t : In x (j_strip_cr t) -> In x t.
Proof.
  destruct (j_strip_cr_cases t) as [E|E]; [rewrite E; auto|].
  intros I. rewrite E. apply in_app_iff. left. exact I.
Qed.
Lemma j_strip_cr_head t c l : j_strip_cr t = c :: l -> exists t', t = c :: t'.
Proof.
  intros H. destruct (j_strip_cr_cases t) as [E|E].
  - exists l. rewrite <- E. exact H.
  - rewrite H in E. exists (l ++ [jCR]). exact E.
Qed.

Definition lines_text (ls : list bytes) : bytes := flat_map (fun l => l ++ crlf) ls.

Lemma j_lines_text ls : forall fuel acc rest,
  Forall (fun l => l <> [] /\ ~ In jLF l) ls -> (List.length ls < fuel)%nat ->
  j_lines fuel (lines_text ls ++ crlf ++ rest) acc = Some (rev acc ++ ls, rest).
Proof.
  induction ls as [|l ls IH]; intros fuel acc rest F L.
  - destruct fuel as [|f]; [inversion L|]. rewrite app_nil_r. reflexivity.
  - destruct fuel as [|f]; [inversion L|]. inversion F as [|? ? [Hne Hlf] F']; subst.
    assert (E : lines_text (l :: ls) ++ crlf ++ rest =
                (l ++ [jCR]) ++ jLF :: (lines_text ls ++ crlf ++ rest)).
    { unfold lines_text. cbn [flat_map]. rewrite <- !app_assoc. reflexivity. }
    rewrite E. cbn [j_lines].
    assert (N : ~ In jLF (l ++ [jCR])).
    { intros I. apply in_app_iff in I. destruct I as [I|[I|[]]]; [exact (Hlf I)|discriminate I]. }
    rewrite (index_byte_app_notin _ _ _ N), firstn_len_app, skipn_S_len_app, j_strip_cr_snoc.
    destruct l as [|c l']; [contradiction Hne; reflexivity|].
    rewrite IH; [|exact F'|cbn [List.length] in L; lia].
    cbn [rev]. rewrite <- app_assoc. reflexivity.
Qed.

Lemma lines_text_length ls : (List.length ls <= List.length (lines_text ls))%nat.
Proof.
  induction ls as [|l ls IH]; [apply le_n|]. unfold lines_text in *. cbn [flat_map List.length].
  rewrite !app_length. cbn [crlf List.length]. lia.
Qed.

(* ---- write_message as lines ---- *)
Definition hline (h : header) : bytes := h_name h ++ s2b ": " ++ hval_print (h_val h).
Lemma flat_map_hline hs : flat_map header_print hs = lines_text (map hline hs).
Proof.
  induction hs as [|h r IH]; [reflexivity|]. unfold lines_text in *. cbn [map flat_map]. rewrite IH.
  unfold header_print, hline. rewrite <- !app_assoc. reflexivity.
Qed.
Lemma write_message_lines m :
  write_message m =
  lines_text (start_line_print (m_start m) :: map hline (emitted_headers m)) ++ crlf ++ m_body m.
Proof.
  rewrite (proj1 (C01_single_content_length m)), flat_map_hline.
  unfold lines_text. cbn [flat_map]. rewrite <- !app_assoc. reflexivity.
Qed.

Lemma j_header_hline n v :
  ~ In ":"%char n -> j_header (n ++ s2b ": " ++ v) = Some (n, trim_space_go (" "%char :: v)).
Proof.
  intros N. unfold j_header. change (s2b ": " ++ v) with (":"%char :: " "%char :: v).
  rewrite (index_byte_app_notin _ _ _ N), firstn_len_app, skipn_S_len_app. reflexivity.
Qed.

(* what the judge reads for a header the model holds as (name, printed value) *)
Definition jpair (p : bytes * bytes) : bytes * bytes := (fst p, trim_space_go (" "%char :: snd p)).
Definition hpair (h : header) : bytes * bytes := (h_name h, hval_print (h_val h)).

Lemma j_headers_hlines hs :
  Forall (fun h => ~ In ":"%char (h_name h)) hs ->
  j_headers (map hline hs) = Some (map (fun h => jpair (hpair h)) hs).
Proof.
  induction 1 as [|h r Hh Hr IH]; [reflexivity|]. cbn [map j_headers].
  unfold hline at 1. rewrite (j_header_hline _ _ Hh), IH. reflexivity.
Qed.

(* ---- what the judge reads in an output ---- *)
(* only LF and ':' matter for the line structure (CR inside a value does not split a line) *)
Definition line_safe (m : message) : Prop :=
  Forall (fun h => ~ In ":"%char (h_name h) /\ ~ In jLF (h_name h) /\ ~ In jLF (hval_print (h_val h)))
         (m_headers m).
Definition start_ok (sl : bytes) : Prop :=
  ~ In jLF sl /\ exists c r, sl = c :: r /\ is_space c = false.

Lemma itoa_no_lf z : ~ In jLF (itoa z).
Proof. apply itoa_notin; [reflexivity|discriminate]. Qed.
Lemma itoa_nospace z : nospace (itoa z).
Proof.
  intros c I. pose proof (itoa_chars z) as F. rewrite Forall_forall in F.
  destruct (F c I) as [D| ->]; [apply digit_nospace; exact D|reflexivity].
Qed.

Lemma filter_cl_kept (hs : list header) :
  filter (fun p : bytes * bytes => is_cl (fst p))
         (map (fun h => jpair (hpair h)) (filter (fun h => negb (is_cl_h h)) hs)) = [].
Proof.
  induction hs as [|h r IH]; [reflexivity|]. cbn [filter]. destruct (is_cl_h h) eqn:E; cbn [negb]; [exact IH|].
  cbn [map filter jpair hpair fst]. unfold is_cl_h in E. rewrite same_header_cl in E. rewrite E. exact IH.
Qed.

(* the count statement of C01_single_content_length over the judge's own line splitting:
   the output is readable, has exactly one Content-Length, its value is the body length, the
   body is the body and nothing follows it *)
Theorem C01_single_content_length_read m :
  line_safe m -> start_ok (start_line_print (m_start m)) ->
  (Z.of_nat (List.length (m_body m)) <= int_max)%Z ->
  j_read (write_message m) =
    Some {| jm_start := start_line_print (m_start m);
            jm_headers := map (fun h => jpair (hpair h)) (emitted_headers m);
            jm_body := m_body m; jm_rest := [];
            jm_has_cl := true; jm_cl_count := 1;
            jm_cl_value := Some (Z.of_nat (List.length (m_body m))) |}.
Proof.
  intros Ls (Slf & c & r & Es & Ec) Hb.
  unfold j_read. rewrite write_message_lines.
  set (em := emitted_headers m).
  set (text := lines_text (start_line_print (m_start m) :: map hline em) ++ crlf ++ m_body m).
  assert (T : trim_left text = text).
  { apply trim_left_fix. unfold text, lines_text. cbn [flat_map]. rewrite Es. cbn [app]. exact Ec. }
  rewrite T.
  assert (Em : Forall (fun h => ~ In ":"%char (h_name h) /\ ~ In jLF (h_name h) /\
                                ~ In jLF (hval_print (h_val h))) em).
  { unfold em, emitted_headers. apply Forall_app. split.
    - unfold line_safe in Ls. rewrite Forall_forall in *. intros h I. apply filter_In in I. exact (Ls h (proj1 I)).
    - constructor; [|constructor]. cbn [cl_header h_name h_val hval_print].
      split; [|split]; [vm_compute; intuition discriminate|vm_compute; intuition discriminate|apply itoa_no_lf]. }
  unfold text.
  rewrite (j_lines_text (start_line_print (m_start m) :: map hline em) _ [] (m_body m)).
  - cbn [rev app]. rewrite j_headers_hlines
      by (apply Forall_impl with (2 := Em); intros h H; exact (proj1 H)).
    assert (Cls : filter (fun p : bytes * bytes => is_cl (fst p)) (map (fun h => jpair (hpair h)) em)
                  = [jpair (hpair (cl_header m))]).
    { unfold em, emitted_headers. rewrite map_app, filter_app, filter_cl_kept. reflexivity. }
    rewrite Cls. cbn [snd jpair hpair cl_header h_name h_val hval_print List.length].
    rewrite trim_space_go_sp by reflexivity. rewrite trim_space_go_itoa.
    rewrite atoi_itoa by (unfold int_min; lia).
    rewrite Nat2Z.id, firstn_all, skipn_all. reflexivity.
  - constructor.
    + split; [rewrite Es; discriminate|exact Slf].
    + apply Forall_forall. intros l I. apply in_map_iff in I. destruct I as (h & <- & I).
      rewrite Forall_forall in Em. destruct (Em h I) as (_ & N1 & N2). unfold hline. split.
      * destruct (h_name h); discriminate.
      * intros J. apply in_app_iff in J. destruct J as [J|J]; [exact (N1 J)|].
        apply in_app_iff in J. destruct J as [J|J]; [|exact (N2 J)].
        vm_compute in J. intuition discriminate.
  - pose proof (lines_text_length (start_line_print (m_start m) :: map hline em)) as L.
    apply Nat.lt_succ_r. rewrite app_length. eapply Nat.le_trans; [exact L|apply Nat.le_add_r].
Qed.

(* ---- the judge's reading of the INPUT agrees with parse_message ---- *)
Lemma read_line_index s i :
  index_byte jLF s = Some i -> read_line s = Some (j_strip_cr (firstn i s), skipn (S i) s).
Proof.
  intros H. unfold read_line. destruct s as [|c r]; [discriminate H|].
  change LF with jLF. rewrite H. reflexivity.
Qed.

Lemma lines_sim : forall f1 s acc f2 hacc ls rest hs rest',
  j_lines f1 s acc = Some (ls, rest) -> parse_headers f2 s hacc = Ok (hs, rest') ->
  exists jl hl, ls = rev acc ++ jl /\ hs = rev hacc ++ hl /\
                Forall2 (fun line h => parse_header_line line = Ok h) jl hl /\ rest = rest'.
Proof.
  induction f1 as [|f1 IH]; intros s acc f2 hacc ls rest hs rest' J P; [discriminate J|].
  destruct f2 as [|f2]; [discriminate P|]. cbn [j_lines] in J. cbn [parse_headers] in P.
  destruct (index_byte jLF s) as [i|] eqn:Ei; [|discriminate J].
  rewrite (read_line_index _ _ Ei) in P.
  destruct (j_strip_cr (firstn i s)) as [|c l] eqn:El.
  - inversion J; inversion P; subst. exists [], []. rewrite !app_nil_r. repeat split; constructor.
  - destruct (parse_header_line (c :: l)) as [h| |] eqn:Ph; try discriminate P. cbn [rbind] in P.
    destruct (IH _ _ _ _ _ _ _ _ J P) as (jl & hl & E1 & E2 & F & Er).
    exists ((c :: l) :: jl), (h :: hl). cbn [rev] in E1, E2. rewrite <- app_assoc in E1, E2.
    repeat split; [exact E1|exact E2|constructor; assumption|exact Er].
Qed.

(* THE ONLY lemma that looks inside the trimming function of parse_header_line: the value the
   model stores, re-read by the judge after ": ", is the value the judge reads in the input
   (model and judge both trim with strings.TrimSpace's Unicode white space, trim_space_go:
   idempotence, BytesLemmas.trim_space_go_idem) *)
Lemma model_value_trim line h :
  parse_header_line line = Ok h ->
  exists v, h_val h = HRaw v /\ j_header line = Some (h_name h, trim_space_go (" "%char :: v)).
Proof.
  unfold parse_header_line, j_header. destruct (index_byte ":"%char line) as [p|]; [|discriminate].
  intros H. inversion H; subst. cbn [h_name h_val]. eexists. split; [reflexivity|].
  rewrite trim_space_go_sp by reflexivity. rewrite trim_space_go_idem. reflexivity.
Qed.

Definition hrel (p : bytes * bytes) (h : header) : Prop :=
  fst p = h_name h /\ exists v, h_val h = HRaw v /\ snd p = trim_space_go (" "%char :: v).

Lemma j_headers_rel jl hl :
  Forall2 (fun line h => parse_header_line line = Ok h) jl hl ->
  forall jhs, j_headers jl = Some jhs -> Forall2 hrel jhs hl.
Proof.
  induction 1 as [|line h jl hl Ph F IH]; intros jhs J; cbn [j_headers] in J.
  - inversion J. constructor.
  - destruct (model_value_trim _ _ Ph) as (v & Hv & Hj). rewrite Hj in J.
    destruct (j_headers jl) as [r|]; [|discriminate J]. inversion J; subst.
    constructor; [split; [reflexivity|exists v; split; [exact Hv|reflexivity]]|exact (IH _ eq_refl)].
Qed.

Lemma kept_rel jhs hl :
  Forall2 hrel jhs hl ->
  filter (fun p : bytes * bytes => negb (routing_header (fst p))) jhs = map jpair (view_hs hl).
Proof.
  induction 1 as [|p h jhs hl (En & v & Hv & Es) F IH]; [reflexivity|].
  cbn [filter]. rewrite view_hs_cons, En, <- routing_name_judge.
  destruct (routing_name (h_name h)); cbn [negb]; [exact IH|].
  cbn [map]. rewrite IH. f_equal. destruct p as [n x]. cbn [fst snd] in En, Es. subst.
  unfold jpair. cbn [fst snd]. rewrite Hv. reflexivity.
Qed.

Lemma cl_rel jhs hl h :
  Forall2 hrel jhs hl -> get_header (s2b "Content-Length") hl = Some h ->
  exists p rest, filter (fun x : bytes * bytes => is_cl (fst x)) jhs = p :: rest /\ hrel p h.
Proof.
  induction 1 as [|p h0 jhs hl R F IH]; cbn [get_header filter]; intros G; [discriminate G|].
  destruct R as (En & R). rewrite En, <- same_header_cl.
  destruct (same_header (h_name h0) (s2b "Content-Length")).
  - inversion G; subst. eexists _, _. split; [reflexivity|]. split; assumption.
  - exact (IH G).
Qed.

Lemma read_agree b jin m rest :
  j_read b = Some jin -> parse_message b = Ok (m, rest) ->
  start_ok (jm_start jin) /\
  filter (fun p : bytes * bytes => negb (routing_header (fst p))) (jm_headers jin)
    = map jpair (view_hs (m_headers m)) /\
  jm_body jin = m_body m /\ (Z.of_nat (List.length (m_body m)) <= int_max)%Z /\
  parse_start_line (jm_start jin) = Ok (m_start m).
Proof.
  unfold j_read, parse_message. intros J P.
  pose proof (trim_left_head b) as Hh.
  set (s := trim_left b) in *. clearbody s.
  cbn [j_lines] in J.
  destruct (index_byte jLF s) as [i|] eqn:Ei; [|discriminate J].
  rewrite (read_line_index _ _ Ei) in P.
  destruct (index_byte_some _ _ _ Ei) as (Es & Nlf & _).
  destruct (j_strip_cr (firstn i s)) as [|c l] eqn:El.
  { change (rev (@nil bytes)) with (@nil bytes) in J. cbv beta iota in J. discriminate J. }
  cbv beta iota in J. cbv beta iota in P.
  match type of J with context [j_lines ?f ?r ?a] =>
    destruct (j_lines f r a) as [[ls jrest]|] eqn:JL end; [|discriminate J].
  destruct (parse_start_line (c :: l)) as [st| |] eqn:PS; try discriminate P. cbn [rbind] in P.
  match type of P with context [parse_headers ?f ?r []] =>
    destruct (parse_headers f r []) as [[hs rest1]| |] eqn:PH end; try discriminate P.
  cbn [rbind] in P. cbv beta iota in P.
  destruct (lines_sim _ _ _ _ _ _ _ _ _ JL PH) as (jl & hl & E1 & E2 & F & Er).
  cbn [rev app] in E1, E2. subst ls hs jrest. cbv beta iota in J.
  destruct (j_headers jl) as [jhs|] eqn:JH; [|discriminate J].
  pose proof (j_headers_rel _ _ F _ JH) as R.
  match type of P with context [get_header_int ?n ?mm] =>
    destruct (get_header_int n mm) as [cl| |] eqn:G end; try discriminate P.
  cbn [rbind] in P.
  destruct (Z.ltb cl 0); [discriminate P|]. destruct (Z.ltb _ cl); [discriminate P|].
  inversion P; subst m rest. clear P.
  unfold get_header_int, get_raw in G. cbn [m_headers] in G.
  destruct (get_header (s2b "Content-Length") hl) as [h|] eqn:GH; [|discriminate G].
  destruct (h_val h) as [v| | | | | |] eqn:Hv; try discriminate G. cbn [rbind] in G.
  destruct (atoi v) as [z|] eqn:A; [|discriminate G]. cbn [of_opt] in G. inversion G; subst z. clear G.
  destruct (atoi_inv _ _ A) as [Nv Rg].
  destruct (cl_rel _ _ _ R GH) as (p & prest & Cls & (_ & v' & Hv' & Ep)).
  rewrite Hv in Hv'. inversion Hv'; subst v'.
  rewrite trim_space_go_sp in Ep by reflexivity.
  rewrite (trim_space_go_ascii_nospace _ (atoi_ascii _ _ A) Nv) in Ep.
  rewrite Cls in J. cbv beta iota in J. rewrite Ep, A in J. cbv beta iota in J.
  inversion J; subst jin. clear J. cbn [jm_start jm_headers jm_body m_headers m_body m_start].
  split; [|split; [|split; [|split; [|exact PS]]]].
  - split.
    + intros I. rewrite <- El in I. apply j_strip_cr_in in I. exact (Nlf I).
    + exists c, l. split; [reflexivity|].
      destruct (j_strip_cr_head _ _ _ El) as [t' Et]. rewrite Es, Et in Hh. exact Hh.
  - exact (kept_rel _ _ R).
  - reflexivity.
  - apply Z.le_trans with (Z.of_nat (Z.to_nat cl)).
    + apply Nat2Z.inj_le. apply firstn_le_length.
    + destruct Rg as [_ Rg]. unfold int_max in *. lia.
Qed.

Lemma hs_eqb_refl a : hs_eqb a a = true.
Proof. induction a as [|[n v] r IH]; [reflexivity|]. cbn [hs_eqb]. rewrite !beq_refl, IH. reflexivity. Qed.

Lemma kept_out m :
  filter (fun p : bytes * bytes => negb (routing_header (fst p)))
         (map (fun h => jpair (hpair h)) (emitted_headers m)) = map jpair (view_hs (m_headers m)).
Proof.
  unfold emitted_headers. rewrite map_app, filter_app. cbn [map filter].
  change (routing_header (fst (jpair (hpair (cl_header m))))) with true. cbn [negb]. rewrite app_nil_r.
  induction (m_headers m) as [|h r IH]; [reflexivity|].
  cbn [filter]. rewrite view_hs_cons. unfold is_cl_h at 1.
  destruct (same_header (h_name h) (s2b "Content-Length")) eqn:E; cbn [negb].
  - rewrite (routing_content_length _ E). exact IH.
  - cbn [map filter]. change (fst (jpair (hpair h))) with (h_name h). rewrite <- routing_name_judge.
    destruct (routing_name (h_name h)); cbn [negb]; [exact IH|]. cbn [map]. rewrite IH. reflexivity.
Qed.

(* ------------------------------------------------------------------ the bridge
   REQUESTED (kept for reference; FALSE as it stands, see C01_start_line_hypothesis_necessary):
     forall b jin m rest m', j_read b = Some jin -> in_domain_C01 jin = true ->
       parse_message b = Ok (m, rest) -> view m' = view m -> line_safe m' ->
       exists jo, j_read (write_message m') = Some jo /\ judge_C01_pair jin jo = 0.
   in_domain_C01 only asks for a sip:/sips:/tel:/urn: scheme and single blanks; the start line is
   decoded and re-encoded by the proxy, which is the identity only on the C14 grammar
   (hypothesis [start_line_print (m_start m) = jm_start jin], discharged on the grammar domain
   by start_line_request_roundtrip / start_line_response_roundtrip below).  With that
   hypothesis in_domain_C01 is not even needed. *)
Theorem C01_judge_bridge_partial b jin m rest m' :
  j_read b = Some jin -> parse_message b = Ok (m, rest) ->
  start_line_print (m_start m) = jm_start jin ->
  view m' = view m -> line_safe m' ->
  exists jo, j_read (write_message m') = Some jo /\ judge_C01_pair jin jo = 0%nat.
Proof.
  intros J P Hs V Ls. destruct (read_agree _ _ _ _ J P) as (So & K & B & L & _).
  rewrite !view_eq in V. injection V as V1 V2 V3.
  eexists. split.
  - apply C01_single_content_length_read; [exact Ls|rewrite V1, Hs; exact So|rewrite V3; exact L].
  - unfold judge_C01_pair. cbn [jm_start jm_headers jm_body jm_rest jm_cl_count jm_cl_value].
    rewrite V1, Hs, beq_refl. cbn [negb].
    unfold kept. cbn [jm_headers]. rewrite kept_out, V2, K, hs_eqb_refl. cbn [negb].
    rewrite V3, B, beq_refl. cbn [negb]. rewrite Z.eqb_refl. reflexivity.
Qed.

(* with the outputs of the proxy: every non-dial output of an event is accepted by the judge *)
Corollary C01_judge_relay b jin m rest e peer peer_port from rs tcp x x' :
  j_read b = Some jin -> parse_message b = Ok (m, rest) ->
  start_line_print (m_start m) = jm_start jin -> stable m ->
  process_message e peer peer_port from rs tcp m x = Ok x' ->
  exists pre, x_outs x' = x_outs x ++ pre /\
    forall d o, In (d, o) pre ->
      match d with
      | DDial _ _ _ => o = []
      | _ => exists m', o = write_message m' /\
                        (line_safe m' -> exists jo, j_read o = Some jo /\ judge_C01_pair jin jo = 0%nat)
      end.
Proof.
  intros J P Hs S H. destruct (C01_relay_preserves _ _ _ _ _ _ _ _ _ S H) as (pre & E & G).
  exists pre. split; [exact E|]. intros d o I. specialize (G d o I).
  destruct d; auto; destruct G as (m' & -> & V); exists m'; (split; [reflexivity|]);
    intros Ls; exact (C01_judge_bridge_partial _ _ _ _ _ J P Hs V Ls).
Qed.

(* the start-line hypothesis is necessary: in_domain_C01 accepts "sip:h?x", whose header part
   without '=' is dropped when the Request-URI is decoded; the judge answers 2 *)
Definition ex_start_input : bytes :=
  s2b "INVITE sip:h?x SIP/2.0" ++ crlf ++ s2b "Content-Length: 0" ++ crlf ++ crlf.
Example C01_start_line_hypothesis_necessary :
  option_map in_domain_C01 (j_read ex_start_input) = Some true /\
  parse_message ex_start_input = Ok (parsed ex_start_input, []) /\
  stable (parsed ex_start_input) /\
  start_line_print (m_start (parsed ex_start_input)) = s2b "INVITE sip:h SIP/2.0" /\
  judge_bytes ex_start_input (write_message (parsed ex_start_input)) = Some 2%nat.
Proof.
  split; [vm_compute; reflexivity|]. split; [vm_compute; reflexivity|].
  split; [apply stable_b_sound; vm_compute; reflexivity|].
  split; vm_compute; reflexivity.
Qed.

(* ---- the start-line hypothesis holds on the grammar domain ---- *)
Lemma in_domain_single_blanks jin : in_domain_C01 jin = true -> single_blanks (jm_start jin) = true.
Proof.
  unfold in_domain_C01. intros H. repeat (apply andb_true_iff in H; destruct H as [H ?]). assumption.
Qed.

(* The judge splits the start line at ASCII blanks ([fields]); the proxy uses strings.Fields
   ([fields_go]), which also splits at the UTF-8 encodings of the Unicode white-space runes and
   re-joins the words with single ASCII blanks.  The two readings must agree on the line
   (hypothesis [fields_go l0 = fields l0]; it holds whenever [no_usp l0 = true], in particular
   for an ASCII line: BytesLemmas.fields_go_no_usp / fields_go_ascii).  Without it the
   statement is false: see [C01_fields_hypothesis_necessary] below. *)
Lemma start_line_request_roundtrip l0 meth u ver a :
  single_blanks l0 = true -> fields l0 = [meth; u; ver] -> fields_go l0 = fields l0 ->
  has_prefix (s2b "SIP/") l0 = false ->
  wf_addr a = true -> u = rp_addr a ->
  exists st, parse_start_line l0 = Ok st /\ start_line_print st = l0.
Proof.
  intros Sb F G Np W ->. unfold parse_start_line, parse_request_line.
  rewrite Np, G, F, (parse_addr_spec_rp a W). cbn [rbind]. eexists. split; [reflexivity|].
  cbn [start_line_print]. rewrite (addr_spec_print_embed a W).
  unfold single_blanks in Sb. apply beq_eq in Sb. rewrite F in Sb. rewrite Sb. reflexivity.
Qed.

Lemma start_line_response_roundtrip l0 ver c r1 rs code :
  single_blanks l0 = true -> fields l0 = ver :: c :: r1 :: rs -> fields_go l0 = fields l0 ->
  has_prefix (s2b "SIP/") l0 = true ->
  atoi c = Some code -> itoa code = c ->
  exists st, parse_start_line l0 = Ok st /\ start_line_print st = l0.
Proof.
  intros Sb F G Pp A I. unfold parse_start_line, parse_status_line. rewrite Pp, G, F, A.
  eexists. split; [reflexivity|]. cbn [start_line_print]. rewrite I.
  unfold single_blanks in Sb. apply beq_eq in Sb. rewrite F in Sb. rewrite Sb.
  rewrite (join_byte_cons2 " "%char ver (c :: r1 :: rs)) by discriminate.
  rewrite (join_byte_cons2 " "%char c (r1 :: rs)) by discriminate. reflexivity.
Qed.

(* the bridge for a request of the domain: Request-URI = reference rendering of a well-formed
   abstract address (sip:, sips:, or any other scheme) *)
Theorem C01_judge_bridge_request b jin m rest m' meth u ver a :
  j_read b = Some jin -> in_domain_C01 jin = true -> parse_message b = Ok (m, rest) ->
  j_is_response jin = false -> fields (jm_start jin) = [meth; u; ver] ->
  fields_go (jm_start jin) = fields (jm_start jin) ->
  wf_addr a = true -> u = rp_addr a ->
  view m' = view m -> line_safe m' ->
  exists jo, j_read (write_message m') = Some jo /\ judge_C01_pair jin jo = 0%nat.
Proof.
  intros J D P Nr F G W U V Ls. destruct (read_agree _ _ _ _ J P) as (_ & _ & _ & _ & PS).
  destruct (start_line_request_roundtrip _ _ _ _ _ (in_domain_single_blanks _ D) F G Nr W U) as (st & E1 & E2).
  rewrite PS in E1. inversion E1; subst st.
  exact (C01_judge_bridge_partial _ _ _ _ _ J P E2 V Ls).
Qed.

(* ... and for a response whose status code is written in canonical decimal *)
Theorem C01_judge_bridge_response b jin m rest m' ver c r1 rs code :
  j_read b = Some jin -> in_domain_C01 jin = true -> parse_message b = Ok (m, rest) ->
  j_is_response jin = true -> fields (jm_start jin) = ver :: c :: r1 :: rs ->
  fields_go (jm_start jin) = fields (jm_start jin) ->
  atoi c = Some code -> itoa code = c ->
  view m' = view m -> line_safe m' ->
  exists jo, j_read (write_message m') = Some jo /\ judge_C01_pair jin jo = 0%nat.
Proof.
  intros J D P Ir F G A I V Ls. destruct (read_agree _ _ _ _ J P) as (_ & _ & _ & _ & PS).
  destruct (start_line_response_roundtrip _ _ _ _ _ _ (in_domain_single_blanks _ D) F G Ir A I) as (st & E1 & E2).
  rewrite PS in E1. inversion E1; subst st.
  exact (C01_judge_bridge_partial _ _ _ _ _ J P E2 V Ls).
Qed.

(* non-vacuity of the bridge hypotheses on the rich request *)
Definition ex_ruri : a_addr :=
  AASip {| au_secure := false; au_user := Some (s2b "svc", None); au_host := s2b "example.com";
           au_port := None; au_params := []; au_headers := [] |}.
Example ex_bridge_hypotheses :
  wf_addr ex_ruri = true /\
  option_map (fun j => fields (jm_start j)) (j_read ex_req_backend)
    = Some [s2b "INVITE"; rp_addr ex_ruri; s2b "SIP/2.0"] /\
  option_map j_is_response (j_read ex_req_backend) = Some false /\
  option_map (fun j => no_usp (jm_start j)) (j_read ex_req_backend) = Some true /\
  option_map (fun j => fields_go (jm_start j)) (j_read ex_req_backend)
    = option_map (fun j => fields (jm_start j)) (j_read ex_req_backend) /\
  option_map in_domain_C01 (j_read ex_req_backend) = Some true.
Proof. repeat (split; [vm_compute; reflexivity|]). vm_compute; reflexivity. Qed.

(* the hypothesis [fields_go (jm_start jin) = fields (jm_start jin)] is necessary: a reason phrase
   with U+00A0 (C2 A0) inside is one word for the judge and two words for strings.Fields; the
   proxy re-joins the words with an ASCII blank, the start line changes, the judge answers 2 *)
Definition ex_nbsp_input : bytes :=
  s2b "SIP/2.0 200 OK" ++ [ascii_of_nat 194; ascii_of_nat 160] ++ s2b "then" ++ crlf ++
  s2b "Content-Length: 0" ++ crlf ++ crlf.
Example C01_fields_hypothesis_necessary :
  option_map in_domain_C01 (j_read ex_nbsp_input) = Some true /\
  option_map (fun j => List.length (fields (jm_start j))) (j_read ex_nbsp_input) = Some 3%nat /\
  option_map (fun j => List.length (fields_go (jm_start j))) (j_read ex_nbsp_input) = Some 4%nat /\
  parse_message ex_nbsp_input = Ok (parsed ex_nbsp_input, []) /\
  start_line_print (m_start (parsed ex_nbsp_input)) = s2b "SIP/2.0 200 OK then" /\
  judge_bytes ex_nbsp_input (write_message (parsed ex_nbsp_input)) = Some 2%nat.
Proof. repeat (split; [vm_compute; reflexivity|]). vm_compute; reflexivity. Qed.

Print Assumptions C01_relay_preserves.
Print Assumptions C01_proxy_step_udp.
Print Assumptions C01_proxy_step_tcp.
Print Assumptions stable_on_c14_domain.
Print Assumptions stable_b_sound.
Print Assumptions C01_stable_necessary.
Print Assumptions C01_single_content_length.
Print Assumptions C01_single_content_length_read.
Print Assumptions C01_legacy_refuted.
Print Assumptions C01_judge_bridge_partial.
Print Assumptions C01_judge_relay.
Print Assumptions C01_judge_bridge_request.
Print Assumptions C01_judge_bridge_response.
Print Assumptions C01_start_line_hypothesis_necessary.
Print Assumptions ex_backend_theorem.
