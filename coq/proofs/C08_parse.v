(* C08, the parse part: the receive path (bufio reader, readLine, skipWhiteSpace, ParseMessage,
   the per-connection loop, the UDP parse step) never panics, never runs out of fuel, and
   requests from make at most 4 x (bytes received) + 64 KiB -- for every byte string, every
   segmentation, every reader window.  The proofs are in C11.v (they come with the refinement);
   this file states them and refutes the same claims for the code as found.

   What is counted: the explicit make calls of readBody (the message body).  Line buffers,
   strings and header structs are proportional to the bytes of the lines they hold by
   construction (append of received fragments) and are not modelled as make.
   The bound [2 * length <= make_limit] (streams and datagrams below 2^46 bytes) is where the
   model's make primitive would refuse even a legitimate doubling. *)
From Coq Require Import List Ascii String ZArith Bool Arith Lia.
From Model Require Import Bytes Message Bufio.
From Model.proofs Require C11.
Import ListNotations.
Local Open Scope nat_scope.

(* TCP: the connection loop ends with a decode error (the connection is closed): not with a
   panic, and not because the model ran out of fuel -- every loop of the model is bounded by
   the bytes still to come *)
Theorem C08_parse_no_panic : forall size cs, Forall C11.nonempty cs ->
  (2 * Z.of_nat (List.length (List.concat cs)) <= make_limit)%Z ->
  snd (fst (parse_conn_full size cs)) = EndErr.
Proof. exact C11.C08_parse_no_panic_conn. Qed.

Theorem C08_parse_terminates : forall size cs, Forall C11.nonempty cs ->
  (2 * Z.of_nat (List.length (List.concat cs)) <= make_limit)%Z ->
  snd (fst (parse_conn_full size cs)) <> EndFuel /\ snd (fst (parse_conn_full size cs)) <> EndPanic.
Proof.
  intros size cs Hne Hlim. rewrite (C11.C08_parse_no_panic_conn size cs Hne Hlim). split; discriminate.
Qed.

Theorem C08_alloc_bounded : forall size cs, Forall C11.nonempty cs ->
  (2 * Z.of_nat (List.length (List.concat cs)) <= make_limit)%Z ->
  (snd (parse_conn_full size cs) <= 4 * Z.of_nat (List.length (List.concat cs)) + 65536)%Z.
Proof. exact C11.C08_alloc_bounded_conn. Qed.

(* UDP: one datagram, whatever the rest of the receive buffer holds *)
Theorem C08_parse_no_panic_udp : forall buf n,
  (2 * Z.of_nat (List.length (firstn n buf)) <= make_limit)%Z ->
  udp_parse buf n <> Panic /\
  (snd (udp_parse_a buf n) <= 4 * Z.of_nat (List.length (firstn n buf)) + 65536)%Z.
Proof.
  intros buf n Hlim. destruct (C11.udp_parse_abs buf n Hlim) as (H & Ha). split; [|exact Ha].
  rewrite H. unfold parse_bytes, res_fst.
  destruct (parse_message (firstn n buf)) as [[m r]| |] eqn:E; try discriminate.
  exfalso. exact (C11.parse_message_no_panic _ E).
Qed.

(* the code as found: make([]byte, contentLength) before reading.  A 68-byte input makes it
   panic (TCP and UDP), resp. request a gigabyte; the repaired code answers Err and requests
   nothing beyond the bound *)
Definition absurd (cl : string) : bytes :=
  s2b "INVITE sip:a@h SIP/2.0" ++ [CR; LF] ++ s2b "Content-Length: " ++ s2b cl ++ [CR; LF; CR; LF] ++ s2b "short".
Theorem C08_legacy_refuted :
  snd (fst (parse_conn_legacy_full 4096 [absurd "4611686018427387904"])) = EndPanic /\
  udp_parse_legacy (absurd "4611686018427387904") 68 = Panic /\
  snd (parse_conn_legacy_full 4096 [absurd "1073741824"]) = 1073741824%Z /\
  parse_conn_full 4096 [absurd "4611686018427387904"] = ([], EndErr, 65536%Z) /\
  parse_conn_full 4096 [absurd "1073741824"] = ([], EndErr, 65536%Z).
Proof.
  split; [vm_compute; reflexivity|]. split; [vm_compute; reflexivity|].
  split; [vm_compute; reflexivity|]. split; vm_compute; reflexivity.
Qed.

(* non-vacuity: the hypotheses hold for an ordinary segmented stream *)
Example C08_ex :
  let cs := C11.chop 5 100 (C11.legacy_stream ++ C11.legacy_stream) in
  Forall C11.nonempty cs /\ (2 * Z.of_nat (List.length (List.concat cs)) <= make_limit)%Z /\
  parse_conn_full 16 cs = (parse_conn 16 cs, EndErr, 0%Z) /\ List.length (parse_conn 16 cs) = 2.
Proof.
  cbv zeta. split; [vm_compute; repeat constructor; discriminate|].
  split; [vm_compute; discriminate|]. split; vm_compute; reflexivity.
Qed.

Print Assumptions C08_parse_no_panic.
Print Assumptions C08_parse_terminates.
Print Assumptions C08_alloc_bounded.
Print Assumptions C08_parse_no_panic_udp.
Print Assumptions C08_legacy_refuted.
