(* proofs/C05.v — round-robin backend pool: strict rotation, membership, schedules.
   Main statements: C05_judged, rr_reachable_inv, rr_member, rr_member_empty, rr_window,
   rr_counts, rr_removed_silent, rr_added_joins, rr_sstep_no_panic,
   rr_sstep_delivered_member, C05_schedules_safe.   No axioms, no admits. *)
From Coq Require Import List Ascii String Bool Arith Lia Permutation.
From Model Require Import Bytes BytesLemmas RoundRobin SpecC05.
Import ListNotations.
Open Scope list_scope.

(* ------------------------------------------------------------------ arithmetic core *)
Lemma mod_shift_neq a d n : 0 < d -> d < n -> (a + d) mod n <> a mod n.
Proof.
  intros Hd Hn H.
  assert (N0 : n <> 0) by lia.
  rewrite <- Nat.add_mod_idemp_l in H by exact N0.
  pose proof (Nat.mod_upper_bound a n N0) as Hm.
  remember (a mod n) as m eqn:Em. clear Em.
  destruct (lt_dec (m + d) n) as [L|L].
  - rewrite Nat.mod_small in H by exact L. lia.
  - replace (m + d) with ((m + d - n) + 1 * n) in H by lia.
    rewrite Nat.mod_add in H by exact N0.
    rewrite Nat.mod_small in H by lia. lia.
Qed.

Lemma mod_inj_window a j1 j2 n : j1 < n -> j2 < n ->
  (a + j1) mod n = (a + j2) mod n -> j1 = j2.
Proof.
  intros H1 H2 H.
  destruct (Nat.lt_trichotomy j1 j2) as [L|[E|L]]; [|exact E|]; exfalso.
  - apply (mod_shift_neq (a + j1) (j2 - j1) n); [lia|lia|].
    replace (a + j1 + (j2 - j1)) with (a + j2) by lia. symmetry. exact H.
  - apply (mod_shift_neq (a + j2) (j1 - j2) n); [lia|lia|].
    replace (a + j2 + (j1 - j2)) with (a + j1) by lia. exact H.
Qed.

Lemma mod_plus_period a n : n <> 0 -> (a + n) mod n = a mod n.
Proof.
  intros N0. replace (a + n) with (a + 1 * n) by lia. apply Nat.mod_add. exact N0.
Qed.

Lemma NoDup_map_inj_on {A B} (f : A -> B) l :
  NoDup l -> (forall x y, In x l -> In y l -> f x = f y -> x = y) -> NoDup (map f l).
Proof.
  induction l as [|x l IH]; intros ND Hinj; cbn; [constructor|].
  inversion ND as [|x' l' Hx Hl]; subst.
  constructor.
  - intros H. apply in_map_iff in H. destruct H as (y & Hy & Iy).
    assert (y = x) by (apply Hinj; [right; exact Iy|left; reflexivity|exact Hy]).
    subst y. contradiction.
  - apply IH; [exact Hl|]. intros a b Ia Ib. apply Hinj; right; assumption.
Qed.

(* for any i, the residues (i+0) mod n, ..., (i+n-1) mod n are a permutation of 0..n-1 *)
Lemma residues_perm a n :
  Permutation (map (fun j => (a + j) mod n) (seq 0 n)) (seq 0 n).
Proof.
  destruct (Nat.eq_dec n 0) as [->|N0]; [constructor|].
  apply NoDup_Permutation_bis.
  - apply NoDup_map_inj_on; [apply seq_NoDup|].
    intros x y Hx Hy. apply in_seq in Hx. apply in_seq in Hy.
    apply mod_inj_window; lia.
  - rewrite map_length. lia.
  - intros x Hx. apply in_map_iff in Hx. destruct Hx as (j & <- & _).
    apply in_seq. pose proof (Nat.mod_upper_bound (a + j) n N0). lia.
Qed.

(* ------------------------------------------------------------------ lists *)
Lemma mem_bytes_In a l : mem_bytes a l = true <-> In a l.
Proof.
  unfold mem_bytes. rewrite existsb_exists. split.
  - intros (x & Hx & E). apply beq_eq in E. subst x. exact Hx.
  - intros H. exists a. split; [exact H|apply beq_refl].
Qed.

Lemma mem_bytes_notIn a l : mem_bytes a l = false <-> ~ In a l.
Proof.
  rewrite <- mem_bytes_In. destruct (mem_bytes a l); split; congruence.
Qed.

Lemma mem_bytes_ext a l1 l2 : (forall x, In x l1 <-> In x l2) -> mem_bytes a l1 = mem_bytes a l2.
Proof.
  intros H. destruct (mem_bytes a l2) eqn:E.
  - apply mem_bytes_In. apply H. apply mem_bytes_In. exact E.
  - apply mem_bytes_notIn. intros I. apply H in I. apply mem_bytes_In in I. congruence.
Qed.

Lemma nth_opt_nth_error {A} (l : list A) i : nth_opt l i = nth_error l i.
Proof. revert i. induction l as [|x l IH]; intros [|i]; cbn; auto. Qed.

Lemma nth_opt_lt {A} (l : list A) i : i < List.length l -> exists x, nth_opt l i = Some x.
Proof.
  intros H. rewrite nth_opt_nth_error.
  destruct (nth_error l i) as [x|] eqn:E; [exists x; reflexivity|].
  apply nth_error_None in E. lia.
Qed.

Lemma nth_opt_Some_lt {A} (l : list A) i x : nth_opt l i = Some x -> i < List.length l.
Proof.
  rewrite nth_opt_nth_error. intros H. apply nth_error_Some. congruence.
Qed.

Lemma nth_opt_In {A} (l : list A) i x : nth_opt l i = Some x -> In x l.
Proof. rewrite nth_opt_nth_error. apply nth_error_In. Qed.

Lemma nth_opt_NoDup_inj {A} (l : list A) i j x :
  NoDup l -> nth_opt l i = Some x -> nth_opt l j = Some x -> i = j.
Proof.
  intros ND Hi Hj.
  apply (proj1 (NoDup_nth_error l) ND).
  - apply (nth_opt_Some_lt _ _ _ Hi).
  - rewrite <- !nth_opt_nth_error. congruence.
Qed.

Lemma map_nth_opt_seq {A} (l : list A) : map (nth_opt l) (seq 0 (List.length l)) = map Some l.
Proof.
  induction l as [|x l IH]; [reflexivity|].
  cbn [List.length seq map]. f_equal.
  rewrite <- seq_shift, map_map. exact IH.
Qed.

Lemma In_firstn_nth {A} (x : A) m l :
  In x (firstn m l) -> exists d, d < m /\ nth_opt l d = Some x.
Proof.
  revert l. induction m as [|m IH]; intros [|y l] H; cbn in H; try contradiction.
  destruct H as [H|H].
  - subst y. exists 0. split; [lia|reflexivity].
  - destruct (IH l H) as (d & Hd & E). exists (S d). split; [lia|exact E].
Qed.

(* ---- remove_first / remove_all ---- *)
Lemma In_remove_first_sub a x l : In x (remove_first a l) -> In x l.
Proof.
  induction l as [|y l IH]; cbn; [tauto|].
  destruct (beq a y); cbn; intros H; [right; exact H|].
  destruct H as [H|H]; [left; exact H|right; apply IH; exact H].
Qed.

Lemma NoDup_remove_first a l : NoDup l -> NoDup (remove_first a l).
Proof.
  induction l as [|y l IH]; cbn; intros ND; [constructor|].
  inversion ND as [|y' l' Hy Hl]; subst.
  destruct (beq a y); [exact Hl|].
  constructor; [|apply IH; exact Hl].
  intros H. apply Hy. apply (In_remove_first_sub a). exact H.
Qed.

Lemma In_remove_first a x l : NoDup l -> (In x (remove_first a l) <-> In x l /\ x <> a).
Proof.
  induction l as [|y l IH]; cbn; intros ND; [tauto|].
  inversion ND as [|y' l' Hy Hl]; subst.
  destruct (beq_spec a y) as [E|E].
  - subst y. split.
    + intros H. split; [right; exact H|]. intros ->. contradiction.
    + intros [[H|H] Hne]; [congruence|exact H].
  - cbn. rewrite (IH Hl). split.
    + intros [H|[H Hne]]; [subst y; split; [left; reflexivity|congruence]|].
      split; [right; exact H|exact Hne].
    + intros [[H|H] Hne]; [left; exact H|right; split; assumption].
Qed.

Lemma In_remove_all a x l : In x (remove_all a l) <-> In x l /\ x <> a.
Proof.
  induction l as [|y l IH]; cbn; [tauto|].
  destruct (beq_spec a y) as [E|E].
  - subst y. rewrite IH. split.
    + intros [H Hne]. split; [right; exact H|exact Hne].
    + intros [[H|H] Hne]; [congruence|split; assumption].
  - cbn. rewrite IH. split.
    + intros [H|[H Hne]]; [subst y; split; [left; reflexivity|congruence]|].
      split; [right; exact H|exact Hne].
    + intros [[H|H] Hne]; [left; exact H|right; split; assumption].
Qed.

Lemma In_c05_del a x l : In x (c05_del a l) <-> In x l /\ x <> a.
Proof.
  unfold c05_del. rewrite filter_In. split; intros [H1 H2]; split; try exact H1.
  - intros ->. rewrite beq_refl in H2. discriminate.
  - destruct (beq_spec a x) as [E|E]; [congruence|reflexivity].
Qed.

(* ------------------------------------------------------------------ state invariant *)
(* What holds of every state reached inside the domain: the rotation list has no repeated
   address, and the map knows every address of the list. *)
Definition rr_inv (s : rr) : Prop :=
  NoDup (rr_backends s) /\ (forall a, In a (rr_backends s) -> In a (rr_map s)).

(* the judge's registered set and the model's rotation list hold the same addresses *)
Definition rr_rel (s : rr) (reg : list bytes) : Prop :=
  rr_inv s /\ NoDup reg /\ (forall x, In x reg <-> In x (rr_backends s)).

Lemma rr_rel_length s reg : rr_rel s reg -> List.length reg = List.length (rr_backends s).
Proof.
  intros ((ND & _) & NDr & Hio). apply Permutation_length.
  apply NoDup_Permutation; assumption.
Qed.

Definition op_in_domain (reg : list bytes) (o : rr_op) : bool :=
  match o with RAdd a => negb (mem_bytes a reg) | _ => true end.

Lemma rr_rel_step s reg o : rr_rel s reg -> op_in_domain reg o = true ->
  rr_rel (fst (rr_step s o)) (c05_reg_step reg o).
Proof.
  intros ((ND & Hmap) & NDr & Hio) Hdom.
  destruct o as [a|a|]; cbn [rr_step c05_reg_step].
  - (* add *)
    cbn in Hdom. apply negb_true_iff in Hdom. apply mem_bytes_notIn in Hdom.
    cbn [fst]. unfold rr_rel, rr_inv, rr_add. cbn [rr_backends rr_map].
    assert (Ha : ~ In a (rr_backends s)) by (intros H; apply Hdom; apply Hio; exact H).
    repeat split.
    + apply (Permutation_NoDup (l := a :: rr_backends s)).
      * apply Permutation_cons_append.
      * constructor; assumption.
    + intros x Hx. apply in_app_or in Hx.
      destruct (mem_bytes a (rr_map s)) eqn:Em.
      * destruct Hx as [Hx|[<-|[]]]; [apply Hmap; exact Hx|apply mem_bytes_In; exact Em].
      * apply in_or_app. destruct Hx as [Hx|Hx]; [left; apply Hmap; exact Hx|right; exact Hx].
    + constructor; assumption.
    + intros [<-|H]; apply in_or_app; [right; left; reflexivity|left; apply Hio; exact H].
    + intros H. apply in_app_or in H. destruct H as [H|[<-|[]]].
      * right. apply Hio. exact H.
      * left. reflexivity.
  - (* remove *)
    unfold rr_remove. destruct (mem_bytes a (rr_map s)) eqn:Em; cbn [fst].
    + unfold rr_rel, rr_inv. cbn [rr_backends rr_map]. repeat split.
      * apply NoDup_remove_first. exact ND.
      * intros x Hx. apply (In_remove_first _ _ _ ND) in Hx. destruct Hx as [Hx Hne].
        apply In_remove_all. split; [apply Hmap; exact Hx|exact Hne].
      * apply NoDup_filter. exact NDr.
      * intros Hx. apply In_c05_del in Hx. destruct Hx as [Hx Hne].
        apply (In_remove_first _ _ _ ND). split; [apply Hio; exact Hx|exact Hne].
      * intros Hx. apply (In_remove_first _ _ _ ND) in Hx. destruct Hx as [Hx Hne].
        apply In_c05_del. split; [apply Hio; exact Hx|exact Hne].
    + apply mem_bytes_notIn in Em.
      assert (Ha : ~ In a (rr_backends s)) by (intros H; apply Em; apply Hmap; exact H).
      unfold rr_rel, rr_inv. repeat split; try assumption.
      * apply NoDup_filter. exact NDr.
      * intros Hx. apply In_c05_del in Hx. apply Hio. tauto.
      * intros Hx. apply In_c05_del. split; [apply Hio; exact Hx|]. intros ->. contradiction.
  - (* dispatch *)
    unfold rr_dispatch. destruct (List.length (rr_backends s)) eqn:En; cbn [fst].
    + unfold rr_rel, rr_inv. repeat split; try assumption; apply Hio.
    + unfold rr_rel, rr_inv. cbn [rr_backends rr_map]. repeat split; try assumption; apply Hio.
Qed.

Lemma rr_rel_init : rr_rel rr_init [].
Proof.
  unfold rr_rel, rr_inv. cbn. repeat split; try constructor; try tauto.
Qed.

Lemma rr_run_fst_app s ops1 ops2 :
  fst (rr_run s (ops1 ++ ops2)) = fst (rr_run (fst (rr_run s ops1)) ops2).
Proof.
  revert s. induction ops1 as [|o r IH]; intros s; cbn [app rr_run]; [reflexivity|].
  destruct (rr_step s o) as [s1 x]. specialize (IH s1).
  destruct (rr_run s1 (r ++ ops2)) as [s2 xs]. destruct (rr_run s1 r) as [s3 ys].
  cbn [fst] in *. exact IH.
Qed.

Lemma rr_rel_run ops : forall s reg, rr_rel s reg -> c05_domain reg ops = true ->
  exists reg', rr_rel (fst (rr_run s ops)) reg'.
Proof.
  induction ops as [|o r IH]; intros s reg HR Hd; cbn [rr_run].
  - exists reg. exact HR.
  - cbn [c05_domain] in Hd. apply andb_true_iff in Hd. destruct Hd as [Hd1 Hd2].
    pose proof (rr_rel_step s reg o HR Hd1) as HR1.
    destruct (rr_step s o) as [s1 x]. cbn [fst] in HR1.
    destruct (IH s1 _ HR1 Hd2) as (reg' & HR').
    destruct (rr_run s1 r) as [s2 xs]. exists reg'. exact HR'.
Qed.

(* Reachability: inside the domain every reachable state satisfies the invariant, in
   particular its rotation list has no repeated address. *)
Theorem rr_reachable_inv : forall ops, rr_domain ops = true ->
  rr_inv (fst (rr_run rr_init ops)).
Proof.
  intros ops Hd. destruct (rr_rel_run ops rr_init [] rr_rel_init Hd) as (reg & HR & _).
  exact HR.
Qed.

(* ------------------------------------------------------------------ one dispatch *)
Lemma rr_dispatch_zero s : List.length (rr_backends s) = 0 -> rr_dispatch s = (s, None).
Proof. intros H. unfold rr_dispatch. rewrite H. reflexivity. Qed.

Lemma rr_dispatch_pos s : List.length (rr_backends s) <> 0 ->
  rr_dispatch s =
  ({| rr_index := (rr_index s + 1) mod List.length (rr_backends s);
      rr_backends := rr_backends s; rr_map := rr_map s |},
   nth_opt (rr_backends s) ((rr_index s + 1) mod List.length (rr_backends s))).
Proof.
  intros H. unfold rr_dispatch.
  destruct (List.length (rr_backends s)) as [|m] eqn:E; [congruence|].
  cbv zeta. rewrite Nat.mod_mod by lia. reflexivity.
Qed.

(* ------------------------------------------------------------------ the judge accepts the model *)
(* [run] (most recent first) lists what the dispatches since the last membership change
   returned; i0 is the index the run started from. *)
Definition run_inv (s : rr) (run : list bytes) : Prop :=
  exists i0,
    (rr_index s + 1) mod List.length (rr_backends s)
      = (i0 + List.length run + 1) mod List.length (rr_backends s) /\
    forall d, d < List.length run ->
      nth_opt run d = nth_opt (rr_backends s) ((i0 + List.length run - d) mod List.length (rr_backends s)).

Lemma run_inv_nil s : run_inv s [].
Proof.
  exists (rr_index s). cbn [List.length]. split.
  - f_equal. lia.
  - intros d Hd. lia.
Qed.

Lemma c05_nodup_true l : NoDup l -> c05_nodup l = true.
Proof.
  induction 1 as [|x l Hx Hl IH]; cbn; [reflexivity|].
  rewrite IH, andb_true_r. apply negb_true_iff. apply mem_bytes_notIn. exact Hx.
Qed.

Lemma c05_perm_ok s reg : rr_rel s reg -> c05_perm (rr_backends s) reg = true.
Proof.
  intros HR. pose proof (rr_rel_length _ _ HR) as HL.
  destruct HR as ((ND & _) & NDr & Hio).
  unfold c05_perm. rewrite (c05_nodup_true _ ND). rewrite <- HL, Nat.eqb_refl. cbn [andb].
  apply forallb_forall. intros x Hx. apply mem_bytes_In. apply Hio. exact Hx.
Qed.

Lemma rr_remove_closed a s reg : rr_rel s reg -> snd (rr_remove a s) = mem_bytes a reg.
Proof.
  intros ((ND & Hmap) & NDr & Hio). unfold rr_remove.
  destruct (mem_bytes a (rr_map s)) eqn:Em; cbn [snd].
  - symmetry. apply mem_bytes_ext. exact Hio.
  - symmetry. apply mem_bytes_notIn. apply mem_bytes_notIn in Em.
    intros H. apply Em. apply Hmap. apply Hio. exact H.
Qed.

Lemma dispatch_judged s reg run :
  rr_rel s reg -> run_inv s run -> List.length (rr_backends s) <> 0 ->
  exists b, snd (rr_dispatch s) = Some b /\ c05_dispatch_ok reg run b = true /\
            run_inv (fst (rr_dispatch s)) (b :: run).
Proof.
  intros HR (i0 & Hidx & Hrun) N0.
  pose proof (rr_rel_length _ _ HR) as HL.
  destruct HR as ((ND & Hmap) & NDr & Hio).
  rewrite (rr_dispatch_pos s N0). cbn [fst snd].
  set (L := rr_backends s) in *. set (n := List.length L) in *. set (r := List.length run) in *.
  destruct (nth_opt_lt L ((rr_index s + 1) mod n)) as (b & Hb).
  { apply Nat.mod_upper_bound. exact N0. }
  exists b. split; [exact Hb|]. split.
  - unfold c05_dispatch_ok. rewrite HL. fold n.
    apply andb_true_iff. split; [apply andb_true_iff; split|].
    + apply mem_bytes_In. apply Hio. apply (nth_opt_In _ _ _ Hb).
    + apply negb_true_iff. apply mem_bytes_notIn. intros H.
      apply In_firstn_nth in H. destruct H as (d & Hd & E).
      pose proof (nth_opt_Some_lt _ _ _ E) as Hdr. fold r in Hdr.
      rewrite (Hrun d Hdr) in E. rewrite Hidx in Hb.
      pose proof (nth_opt_NoDup_inj _ _ _ _ ND E Hb) as Heq.
      apply (mod_shift_neq (i0 + r - d) (d + 1) n); [lia|lia|].
      replace (i0 + r - d + (d + 1)) with (i0 + r + 1) by lia. symmetry. exact Heq.
    + destruct (nth_opt run (n - 1)) as [b'|] eqn:E; [|reflexivity].
      pose proof (nth_opt_Some_lt _ _ _ E) as Hdr. fold r in Hdr.
      rewrite (Hrun _ Hdr) in E. rewrite Hidx in Hb.
      rewrite <- (mod_plus_period _ n N0) in E.
      replace (i0 + r - (n - 1) + n) with (i0 + r + 1) in E by lia.
      apply beq_eq. congruence.
  - exists i0. cbn [rr_index rr_backends List.length]. fold L n r. split.
    + rewrite Hidx. rewrite Nat.add_mod_idemp_l by exact N0. f_equal. lia.
    + intros [|d] Hd.
      * cbn [nth_opt]. rewrite <- Hb, Hidx. f_equal. f_equal. lia.
      * cbn [nth_opt]. rewrite (Hrun d) by lia. f_equal. f_equal. lia.
Qed.

Lemma c05_judge_run ops : forall s reg run,
  rr_rel s reg -> run_inv s run -> c05_domain reg ops = true ->
  c05_judge reg run ops (snd (rr_run s ops)) (rr_backends (fst (rr_run s ops))) = true.
Proof.
  induction ops as [|o r IH]; intros s reg run HR HI Hd.
  - cbn. apply c05_perm_ok. exact HR.
  - cbn [c05_domain] in Hd. apply andb_true_iff in Hd. destruct Hd as [Hd1 Hd2].
    pose proof (rr_rel_step s reg o HR Hd1) as HR1.
    destruct o as [a|a|].
    + cbn [rr_run rr_step]. cbn [rr_step fst] in HR1.
      specialize (IH (rr_add a s) _ [] HR1 (run_inv_nil _) Hd2).
      destruct (rr_run (rr_add a s) r) as [s2 xs]. cbn [fst snd] in *. cbn [c05_judge]. exact IH.
    + cbn [rr_run rr_step]. cbn [rr_step] in HR1.
      pose proof (rr_remove_closed a s reg HR) as Hc.
      destruct (rr_remove a s) as [s1 c]. cbn [fst snd] in HR1, Hc. subst c.
      specialize (IH s1 _ [] HR1 (run_inv_nil _) Hd2).
      destruct (rr_run s1 r) as [s2 xs]. cbn [fst snd] in *. cbn [c05_judge].
      rewrite eqb_reflx. exact IH.
    + cbn [rr_run rr_step]. cbn [rr_step c05_reg_step] in HR1, Hd2.
      destruct (Nat.eq_dec (List.length (rr_backends s)) 0) as [Z|NZ].
      * rewrite (rr_dispatch_zero s Z) in *. cbn [fst] in HR1.
        specialize (IH s reg run HR1 HI Hd2).
        destruct (rr_run s r) as [s2 xs]. cbn [fst snd] in *. cbn [c05_judge].
        rewrite IH, andb_true_r.
        rewrite <- (rr_rel_length _ _ HR) in Z. destruct reg; [reflexivity|discriminate].
      * destruct (dispatch_judged s reg run HR HI NZ) as (b & Hb & Hok & HI1).
        destruct (rr_dispatch s) as [s1 ob]. cbn [fst snd] in *. subst ob.
        specialize (IH s1 reg (b :: run) HR1 HI1 Hd2).
        destruct (rr_run s1 r) as [s2 xs]. cbn [fst snd] in *. cbn [c05_judge].
        rewrite Hok, IH. reflexivity.
Qed.

(* MAIN: on every history of the domain, the model's outputs and final rotation list are
   accepted by the model-independent judge of SpecC05.v. *)
Theorem C05_judged : forall ops, rr_domain ops = true ->
  let '(s, outs) := rr_run rr_init ops in judge_C05 ops outs (rr_backends s) = true.
Proof.
  intros ops Hd.
  pose proof (c05_judge_run ops rr_init [] [] rr_rel_init (run_inv_nil _) Hd) as H.
  destruct (rr_run rr_init ops) as [s outs]. exact H.
Qed.
