(* proofs/C05.v — round-robin backend pool: strict rotation, membership, schedules.
   Main statements: C05_judged, rr_reachable_inv, rr_member, rr_member_empty, rr_window,
   rr_counts, rr_removed_silent, rr_added_joins, rr_sstep_no_panic,
   rr_sstep_delivered_member, C05_schedules_safe.   No axioms, no admits. *)
From Coq Require Import List Ascii String Bool Arith Lia Permutation.
From Model Require Import Bytes BytesLemmas RoundRobin SpecC05.
Import ListNotations.
Open Scope list_scope.

(* ------------------------------------------------------------------ arithmetic core *)
Lemma mod_shift_neq a d n : 0 < d -> d < n -> (a + d) mod n <> a mod n.
Proof.
  intros Hd Hn H.
  assert (N0 : n <> 0) by lia.
  rewrite <- Nat.add_mod_idemp_l in H by exact N0.
  pose proof (Nat.mod_upper_bound a n N0) as Hm.
  remember (a mod n) as m eqn:Em. clear Em.
  destruct (lt_dec (m + d) n) as [L|L].
  - rewrite Nat.mod_small in H by exact L. lia.
  - replace (m + d) with ((m + d - n) + 1 * n) in H by lia.
    rewrite Nat.mod_add in H by exact N0.
    rewrite Nat.mod_small in H by lia. lia.
Qed.

Lemma mod_inj_window a j1 j2 n : j1 < n -> j2 < n ->
  (a + j1) mod n = (a + j2) mod n -> j1 = j2.
Proof.
  intros H1 H2 H.
  destruct (Nat.lt_trichotomy j1 j2) as [L|[E|L]]; [|exact E|]; exfalso.
  - apply (mod_shift_neq (a + j1) (j2 - j1) n); [lia|lia|].
    replace (a + j1 + (j2 - j1)) with (a + j2) by lia. symmetry. exact H.
  - apply (mod_shift_neq (a + j2) (j1 - j2) n); [lia|lia|].
    replace (a + j2 + (j1 - j2)) with (a + j1) by lia. exact H.
Qed.

Lemma mod_plus_period a n : n <> 0 -> (a + n) mod n = a mod n.
Proof.
  intros N0. replace (a + n) with (a + 1 * n) by lia. apply Nat.mod_add. exact N0.
Qed.

Lemma NoDup_map_inj_on {A B} (f : A -> B) l :
  NoDup l -> (forall x y, In x l -> In y l -> f x = f y -> x = y) -> NoDup (map f l).
Proof.
  induction l as [|x l IH]; intros ND Hinj; cbn; [constructor|].
  inversion ND as [|x' l' Hx Hl]; subst.
  constructor.
  - intros H. apply in_map_iff in H. destruct H as (y & Hy & Iy).
    assert (y = x) by (apply Hinj; [right; exact Iy|left; reflexivity|exact Hy]).
    subst y. contradiction.
  - apply IH; [exact Hl|]. intros a b Ia Ib. apply Hinj; right; assumption.
Qed.

Lemma NoDup_app_l {A} (l1 l2 : list A) : NoDup (l1 ++ l2) -> NoDup l1.
Proof.
  induction l1 as [|x l1 IH]; cbn; intros H; [constructor|].
  inversion H as [|x' l' Hx Hl]; subst. constructor; [|apply IH; exact Hl].
  intros I. apply Hx. apply in_or_app. left. exact I.
Qed.

(* for any i, the residues (i+0) mod n, ..., (i+n-1) mod n are a permutation of 0..n-1 *)
Lemma residues_perm a n :
  Permutation (map (fun j => (a + j) mod n) (seq 0 n)) (seq 0 n).
Proof.
  destruct (Nat.eq_dec n 0) as [->|N0]; [constructor|].
  apply NoDup_Permutation_bis.
  - apply NoDup_map_inj_on; [apply seq_NoDup|].
    intros x y Hx Hy. apply in_seq in Hx. apply in_seq in Hy.
    apply mod_inj_window; lia.
  - rewrite map_length. lia.
  - intros x Hx. apply in_map_iff in Hx. destruct Hx as (j & <- & _).
    apply in_seq. pose proof (Nat.mod_upper_bound (a + j) n N0). lia.
Qed.

(* ------------------------------------------------------------------ lists *)
Lemma mem_bytes_In a l : mem_bytes a l = true <-> In a l.
Proof.
  unfold mem_bytes. rewrite existsb_exists. split.
  - intros (x & Hx & E). apply beq_eq in E. subst x. exact Hx.
  - intros H. exists a. split; [exact H|apply beq_refl].
Qed.

Lemma mem_bytes_notIn a l : mem_bytes a l = false <-> ~ In a l.
Proof.
  rewrite <- mem_bytes_In. destruct (mem_bytes a l); split; congruence.
Qed.

Lemma mem_bytes_ext a l1 l2 : (forall x, In x l1 <-> In x l2) -> mem_bytes a l1 = mem_bytes a l2.
Proof.
  intros H. destruct (mem_bytes a l2) eqn:E.
  - apply mem_bytes_In. apply H. apply mem_bytes_In. exact E.
  - apply mem_bytes_notIn. intros I. apply H in I. apply mem_bytes_In in I. congruence.
Qed.

Lemma nth_opt_nth_error {A} (l : list A) i : nth_opt l i = nth_error l i.
Proof. revert i. induction l as [|x l IH]; intros [|i]; cbn; auto. Qed.

Lemma nth_opt_lt {A} (l : list A) i : i < List.length l -> exists x, nth_opt l i = Some x.
Proof.
  intros H. rewrite nth_opt_nth_error.
  destruct (nth_error l i) as [x|] eqn:E; [exists x; reflexivity|].
  apply nth_error_None in E. lia.
Qed.

Lemma nth_opt_Some_lt {A} (l : list A) i x : nth_opt l i = Some x -> i < List.length l.
Proof.
  rewrite nth_opt_nth_error. intros H. apply nth_error_Some. congruence.
Qed.

Lemma nth_opt_In {A} (l : list A) i x : nth_opt l i = Some x -> In x l.
Proof. rewrite nth_opt_nth_error. apply nth_error_In. Qed.

Lemma nth_opt_NoDup_inj {A} (l : list A) i j x :
  NoDup l -> nth_opt l i = Some x -> nth_opt l j = Some x -> i = j.
Proof.
  intros ND Hi Hj.
  apply (proj1 (NoDup_nth_error l) ND).
  - apply (nth_opt_Some_lt _ _ _ Hi).
  - rewrite <- !nth_opt_nth_error. congruence.
Qed.

Lemma map_nth_opt_seq {A} (l : list A) : map (nth_opt l) (seq 0 (List.length l)) = map Some l.
Proof.
  induction l as [|x l IH]; [reflexivity|].
  cbn [List.length seq map]. f_equal.
  rewrite <- seq_shift, map_map. exact IH.
Qed.

Lemma In_firstn_nth {A} (x : A) m l :
  In x (firstn m l) -> exists d, d < m /\ nth_opt l d = Some x.
Proof.
  revert l. induction m as [|m IH]; intros [|y l] H; cbn in H; try contradiction.
  destruct H as [H|H].
  - subst y. exists 0. split; [lia|reflexivity].
  - destruct (IH l H) as (d & Hd & E). exists (S d). split; [lia|exact E].
Qed.

(* ---- remove_first / remove_all ---- *)
Lemma In_remove_first_sub a x l : In x (remove_first a l) -> In x l.
Proof.
  induction l as [|y l IH]; cbn; [tauto|].
  destruct (beq a y); cbn; intros H; [right; exact H|].
  destruct H as [H|H]; [left; exact H|right; apply IH; exact H].
Qed.

Lemma NoDup_remove_first a l : NoDup l -> NoDup (remove_first a l).
Proof.
  induction l as [|y l IH]; cbn; intros ND; [constructor|].
  inversion ND as [|y' l' Hy Hl]; subst.
  destruct (beq a y); [exact Hl|].
  constructor; [|apply IH; exact Hl].
  intros H. apply Hy. apply (In_remove_first_sub a). exact H.
Qed.

Lemma In_remove_first a x l : NoDup l -> (In x (remove_first a l) <-> In x l /\ x <> a).
Proof.
  induction l as [|y l IH]; cbn; intros ND; [tauto|].
  inversion ND as [|y' l' Hy Hl]; subst.
  destruct (beq_spec a y) as [E|E].
  - subst y. split.
    + intros H. split; [right; exact H|]. intros ->. contradiction.
    + intros [[H|H] Hne]; [congruence|exact H].
  - cbn. rewrite (IH Hl). split.
    + intros [H|[H Hne]]; [subst y; split; [left; reflexivity|congruence]|].
      split; [right; exact H|exact Hne].
    + intros [[H|H] Hne]; [left; exact H|right; split; assumption].
Qed.

Lemma In_remove_all a x l : In x (remove_all a l) <-> In x l /\ x <> a.
Proof.
  induction l as [|y l IH]; cbn; [tauto|].
  destruct (beq_spec a y) as [E|E].
  - subst y. rewrite IH. split.
    + intros [H Hne]. split; [right; exact H|exact Hne].
    + intros [[H|H] Hne]; [congruence|split; assumption].
  - cbn. rewrite IH. split.
    + intros [H|[H Hne]]; [subst y; split; [left; reflexivity|congruence]|].
      split; [right; exact H|exact Hne].
    + intros [[H|H] Hne]; [left; exact H|right; split; assumption].
Qed.

Lemma In_c05_del a x l : In x (c05_del a l) <-> In x l /\ x <> a.
Proof.
  unfold c05_del. rewrite filter_In. split; intros [H1 H2]; split; try exact H1.
  - intros ->. rewrite beq_refl in H2. discriminate.
  - destruct (beq_spec a x) as [E|E]; [congruence|reflexivity].
Qed.

(* ------------------------------------------------------------------ state invariant *)
(* What holds of every state reached inside the domain: the rotation list has no repeated
   address, and the map knows every address of the list. *)
Definition rr_inv (s : rr) : Prop :=
  NoDup (rr_backends s) /\ (forall a, In a (rr_backends s) -> In a (rr_map s)).

(* the judge's registered set and the model's rotation list hold the same addresses *)
Definition rr_rel (s : rr) (reg : list bytes) : Prop :=
  rr_inv s /\ NoDup reg /\ (forall x, In x reg <-> In x (rr_backends s)).

Lemma rr_rel_length s reg : rr_rel s reg -> List.length reg = List.length (rr_backends s).
Proof.
  intros ((ND & _) & NDr & Hio). apply Permutation_length.
  apply NoDup_Permutation; assumption.
Qed.

Definition op_in_domain (reg : list bytes) (o : rr_op) : bool :=
  match o with RAdd a => negb (mem_bytes a reg) | _ => true end.

Lemma rr_rel_step s reg o : rr_rel s reg -> op_in_domain reg o = true ->
  rr_rel (fst (rr_step s o)) (c05_reg_step reg o).
Proof.
  intros ((ND & Hmap) & NDr & Hio) Hdom.
  destruct o as [a|a|]; cbn [rr_step c05_reg_step].
  - (* add *)
    cbn in Hdom. apply negb_true_iff in Hdom. apply mem_bytes_notIn in Hdom.
    cbn [fst]. unfold rr_rel, rr_inv, rr_add. cbn [rr_backends rr_map].
    assert (Ha : ~ In a (rr_backends s)) by (intros H; apply Hdom; apply Hio; exact H).
    repeat split.
    + apply (Permutation_NoDup (l := a :: rr_backends s)).
      * apply Permutation_cons_append.
      * constructor; assumption.
    + intros x Hx. apply in_app_or in Hx.
      destruct (mem_bytes a (rr_map s)) eqn:Em.
      * destruct Hx as [Hx|[<-|[]]]; [apply Hmap; exact Hx|apply mem_bytes_In; exact Em].
      * apply in_or_app. destruct Hx as [Hx|Hx]; [left; apply Hmap; exact Hx|right; exact Hx].
    + constructor; assumption.
    + intros [<-|H]; apply in_or_app; [right; left; reflexivity|left; apply Hio; exact H].
    + intros H. apply in_app_or in H. destruct H as [H|[<-|[]]].
      * right. apply Hio. exact H.
      * left. reflexivity.
  - (* remove *)
    unfold rr_remove. destruct (mem_bytes a (rr_map s)) eqn:Em; cbn [fst].
    + unfold rr_rel, rr_inv. cbn [rr_backends rr_map]. repeat split.
      * apply NoDup_remove_first. exact ND.
      * intros x Hx. apply (In_remove_first _ _ _ ND) in Hx. destruct Hx as [Hx Hne].
        apply In_remove_all. split; [apply Hmap; exact Hx|exact Hne].
      * apply NoDup_filter. exact NDr.
      * intros Hx. apply In_c05_del in Hx. destruct Hx as [Hx Hne].
        apply (In_remove_first _ _ _ ND). split; [apply Hio; exact Hx|exact Hne].
      * intros Hx. apply (In_remove_first _ _ _ ND) in Hx. destruct Hx as [Hx Hne].
        apply In_c05_del. split; [apply Hio; exact Hx|exact Hne].
    + apply mem_bytes_notIn in Em.
      assert (Ha : ~ In a (rr_backends s)) by (intros H; apply Em; apply Hmap; exact H).
      unfold rr_rel, rr_inv. repeat split; try assumption.
      * apply NoDup_filter. exact NDr.
      * intros Hx. apply In_c05_del in Hx. apply Hio. tauto.
      * intros Hx. apply In_c05_del. split; [apply Hio; exact Hx|]. intros ->. contradiction.
  - (* dispatch *)
    unfold rr_dispatch. destruct (List.length (rr_backends s)) eqn:En; cbn [fst].
    + unfold rr_rel, rr_inv. repeat split; try assumption; apply Hio.
    + unfold rr_rel, rr_inv. cbn [rr_backends rr_map]. repeat split; try assumption; apply Hio.
Qed.

Lemma rr_rel_init : rr_rel rr_init [].
Proof.
  unfold rr_rel, rr_inv. cbn. repeat split; try constructor; try tauto.
Qed.

Lemma rr_run_fst_app s ops1 ops2 :
  fst (rr_run s (ops1 ++ ops2)) = fst (rr_run (fst (rr_run s ops1)) ops2).
Proof.
  revert s. induction ops1 as [|o r IH]; intros s; cbn [app rr_run]; [reflexivity|].
  destruct (rr_step s o) as [s1 x]. specialize (IH s1).
  destruct (rr_run s1 (r ++ ops2)) as [s2 xs]. destruct (rr_run s1 r) as [s3 ys].
  cbn [fst] in *. exact IH.
Qed.

Lemma rr_rel_run ops : forall s reg, rr_rel s reg -> c05_domain reg ops = true ->
  exists reg', rr_rel (fst (rr_run s ops)) reg'.
Proof.
  induction ops as [|o r IH]; intros s reg HR Hd; cbn [rr_run].
  - exists reg. exact HR.
  - cbn [c05_domain] in Hd. apply andb_true_iff in Hd. destruct Hd as [Hd1 Hd2].
    pose proof (rr_rel_step s reg o HR Hd1) as HR1.
    destruct (rr_step s o) as [s1 x]. cbn [fst] in HR1.
    destruct (IH s1 _ HR1 Hd2) as (reg' & HR').
    destruct (rr_run s1 r) as [s2 xs]. exists reg'. exact HR'.
Qed.

(* Reachability: inside the domain every reachable state satisfies the invariant, in
   particular its rotation list has no repeated address. *)
Theorem rr_reachable_inv : forall ops, rr_domain ops = true ->
  rr_inv (fst (rr_run rr_init ops)).
Proof.
  intros ops Hd. destruct (rr_rel_run ops rr_init [] rr_rel_init Hd) as (reg & HR & _).
  exact HR.
Qed.

(* ------------------------------------------------------------------ one dispatch *)
Lemma rr_dispatch_zero s : List.length (rr_backends s) = 0 -> rr_dispatch s = (s, None).
Proof. intros H. unfold rr_dispatch. rewrite H. reflexivity. Qed.

Lemma rr_dispatch_pos s : List.length (rr_backends s) <> 0 ->
  rr_dispatch s =
  ({| rr_index := (rr_index s + 1) mod List.length (rr_backends s);
      rr_backends := rr_backends s; rr_map := rr_map s |},
   nth_opt (rr_backends s) ((rr_index s + 1) mod List.length (rr_backends s))).
Proof.
  intros H. unfold rr_dispatch.
  destruct (List.length (rr_backends s)) as [|m] eqn:E; [congruence|].
  cbv zeta. rewrite Nat.mod_mod by lia. reflexivity.
Qed.

(* ------------------------------------------------------------------ the judge accepts the model *)
(* [run] (most recent first) lists what the dispatches since the last membership change
   returned; i0 is the index the run started from. *)
Definition run_inv (s : rr) (run : list bytes) : Prop :=
  exists i0,
    (rr_index s + 1) mod List.length (rr_backends s)
      = (i0 + List.length run + 1) mod List.length (rr_backends s) /\
    forall d, d < List.length run ->
      nth_opt run d = nth_opt (rr_backends s) ((i0 + List.length run - d) mod List.length (rr_backends s)).

Lemma run_inv_nil s : run_inv s [].
Proof.
  exists (rr_index s). cbn [List.length]. split.
  - f_equal. lia.
  - intros d Hd. lia.
Qed.

Lemma c05_nodup_true l : NoDup l -> c05_nodup l = true.
Proof.
  induction 1 as [|x l Hx Hl IH]; cbn; [reflexivity|].
  rewrite IH, andb_true_r. apply negb_true_iff. apply mem_bytes_notIn. exact Hx.
Qed.

Lemma c05_perm_ok s reg : rr_rel s reg -> c05_perm (rr_backends s) reg = true.
Proof.
  intros HR. pose proof (rr_rel_length _ _ HR) as HL.
  destruct HR as ((ND & _) & NDr & Hio).
  unfold c05_perm. rewrite (c05_nodup_true _ ND). rewrite <- HL, Nat.eqb_refl. cbn [andb].
  apply forallb_forall. intros x Hx. apply mem_bytes_In. apply Hio. exact Hx.
Qed.

Lemma rr_remove_closed a s reg : rr_rel s reg -> snd (rr_remove a s) = mem_bytes a reg.
Proof.
  intros ((ND & Hmap) & NDr & Hio). unfold rr_remove.
  destruct (mem_bytes a (rr_map s)) eqn:Em; cbn [snd].
  - symmetry. apply mem_bytes_ext. exact Hio.
  - symmetry. apply mem_bytes_notIn. apply mem_bytes_notIn in Em.
    intros H. apply Em. apply Hmap. apply Hio. exact H.
Qed.

Lemma dispatch_judged s reg run :
  rr_rel s reg -> run_inv s run -> List.length (rr_backends s) <> 0 ->
  exists b, snd (rr_dispatch s) = Some b /\ c05_dispatch_ok reg run b = true /\
            run_inv (fst (rr_dispatch s)) (b :: run).
Proof.
  intros HR (i0 & Hidx & Hrun) N0.
  pose proof (rr_rel_length _ _ HR) as HL.
  destruct HR as ((ND & Hmap) & NDr & Hio).
  rewrite (rr_dispatch_pos s N0). cbn [fst snd].
  set (L := rr_backends s) in *. set (n := List.length L) in *. set (r := List.length run) in *.
  destruct (nth_opt_lt L ((rr_index s + 1) mod n)) as (b & Hb).
  { apply Nat.mod_upper_bound. exact N0. }
  exists b. split; [exact Hb|]. split.
  - unfold c05_dispatch_ok. rewrite HL. fold n.
    apply andb_true_iff. split; [apply andb_true_iff; split|].
    + apply mem_bytes_In. apply Hio. apply (nth_opt_In _ _ _ Hb).
    + apply negb_true_iff. apply mem_bytes_notIn. intros H.
      apply In_firstn_nth in H. destruct H as (d & Hd & E).
      pose proof (nth_opt_Some_lt _ _ _ E) as Hdr. fold r in Hdr.
      rewrite (Hrun d Hdr) in E. rewrite Hidx in Hb.
      pose proof (nth_opt_NoDup_inj _ _ _ _ ND E Hb) as Heq.
      apply (mod_shift_neq (i0 + r - d) (d + 1) n); [lia|lia|].
      replace (i0 + r - d + (d + 1)) with (i0 + r + 1) by lia. symmetry. exact Heq.
    + destruct (nth_opt run (n - 1)) as [b'|] eqn:E; [|reflexivity].
      pose proof (nth_opt_Some_lt _ _ _ E) as Hdr. fold r in Hdr.
      rewrite (Hrun _ Hdr) in E. rewrite Hidx in Hb.
      rewrite <- (mod_plus_period _ n N0) in E.
      replace (i0 + r - (n - 1) + n) with (i0 + r + 1) in E by lia.
      apply beq_eq. congruence.
  - exists i0. cbn [rr_index rr_backends List.length]. fold L n r. split.
    + rewrite Hidx. rewrite Nat.add_mod_idemp_l by exact N0. f_equal. lia.
    + intros [|d] Hd.
      * cbn [nth_opt]. rewrite <- Hb, Hidx. f_equal. f_equal. lia.
      * cbn [nth_opt]. rewrite (Hrun d) by lia. f_equal. f_equal. lia.
Qed.

Lemma c05_judge_run ops : forall s reg run,
  rr_rel s reg -> run_inv s run -> c05_domain reg ops = true ->
  c05_judge reg run ops (snd (rr_run s ops)) (rr_backends (fst (rr_run s ops))) = true.
Proof.
  induction ops as [|o r IH]; intros s reg run HR HI Hd.
  - cbn. apply c05_perm_ok. exact HR.
  - cbn [c05_domain] in Hd. apply andb_true_iff in Hd. destruct Hd as [Hd1 Hd2].
    pose proof (rr_rel_step s reg o HR Hd1) as HR1.
    destruct o as [a|a|].
    + cbn [rr_run rr_step]. cbn [rr_step fst] in HR1.
      specialize (IH (rr_add a s) _ [] HR1 (run_inv_nil _) Hd2).
      destruct (rr_run (rr_add a s) r) as [s2 xs]. cbn [fst snd] in *. cbn [c05_judge]. exact IH.
    + cbn [rr_run rr_step]. cbn [rr_step] in HR1.
      pose proof (rr_remove_closed a s reg HR) as Hc.
      destruct (rr_remove a s) as [s1 c]. cbn [fst snd] in HR1, Hc. subst c.
      specialize (IH s1 _ [] HR1 (run_inv_nil _) Hd2).
      destruct (rr_run s1 r) as [s2 xs]. cbn [fst snd] in *. cbn [c05_judge].
      rewrite eqb_reflx. exact IH.
    + cbn [rr_run rr_step]. cbn [rr_step c05_reg_step] in HR1, Hd2.
      destruct (Nat.eq_dec (List.length (rr_backends s)) 0) as [Z|NZ].
      * rewrite (rr_dispatch_zero s Z) in *. cbn [fst] in HR1.
        specialize (IH s reg run HR1 HI Hd2).
        destruct (rr_run s r) as [s2 xs]. cbn [fst snd] in *. cbn [c05_judge].
        rewrite IH, andb_true_r.
        rewrite <- (rr_rel_length _ _ HR) in Z. destruct reg; [reflexivity|discriminate].
      * destruct (dispatch_judged s reg run HR HI NZ) as (b & Hb & Hok & HI1).
        destruct (rr_dispatch s) as [s1 ob]. cbn [fst snd] in *. subst ob.
        specialize (IH s1 reg (b :: run) HR1 HI1 Hd2).
        destruct (rr_run s1 r) as [s2 xs]. cbn [fst snd] in *. cbn [c05_judge].
        rewrite Hok, IH. reflexivity.
Qed.

(* MAIN: on every history of the domain, the model's outputs and final rotation list are
   accepted by the model-independent judge of SpecC05.v. *)
Theorem C05_judged : forall ops, rr_domain ops = true ->
  let '(s, outs) := rr_run rr_init ops in judge_C05 ops outs (rr_backends s) = true.
Proof.
  intros ops Hd.
  pose proof (c05_judge_run ops rr_init [] [] rr_rel_init (run_inv_nil _) Hd) as H.
  destruct (rr_run rr_init ops) as [s outs]. exact H.
Qed.

(* ------------------------------------------------------------------ consecutive dispatches *)
(* m dispatches in a row with no membership change in between, and what each returned *)
Fixpoint rr_dispatches (s : rr) (m : nat) : rr * list (option bytes) :=
  match m with
  | O => (s, [])
  | S m' => let '(s1, x) := rr_dispatch s in
            let '(s2, xs) := rr_dispatches s1 m' in (s2, x :: xs)
  end.

(* ... which is rr_run on m RDispatch operations *)
Lemma rr_dispatches_run m : forall s,
  rr_run s (repeat RDispatch m) =
  (fst (rr_dispatches s m), map OSent (snd (rr_dispatches s m))).
Proof.
  induction m as [|m IH]; intros s; cbn [repeat rr_run rr_step rr_dispatches]; [reflexivity|].
  destruct (rr_dispatch s) as [s1 x]. rewrite IH.
  destruct (rr_dispatches s1 m) as [s2 xs]. reflexivity.
Qed.

(* the backend the (j+1)-th dispatch from state s goes to *)
Definition rr_target (s : rr) (j : nat) : option bytes :=
  nth_opt (rr_backends s) ((rr_index s + 1 + j) mod List.length (rr_backends s)).

Lemma rr_dispatches_closed m : forall s, List.length (rr_backends s) <> 0 ->
  snd (rr_dispatches s m) = map (rr_target s) (seq 0 m) /\
  rr_backends (fst (rr_dispatches s m)) = rr_backends s /\
  rr_map (fst (rr_dispatches s m)) = rr_map s.
Proof.
  induction m as [|m IH]; intros s N0; cbn [rr_dispatches]; [auto|].
  rewrite (rr_dispatch_pos s N0).
  set (s1 := {| rr_index := _; rr_backends := _; rr_map := _ |}).
  assert (N1 : List.length (rr_backends s1) <> 0) by exact N0.
  destruct (IH s1 N1) as (IH1 & IH2 & IH3).
  destruct (rr_dispatches s1 m) as [s2 xs]. cbn [fst snd] in *.
  split; [|split; [exact IH2|exact IH3]].
  cbn [seq map]. f_equal.
  - unfold rr_target. f_equal. f_equal. lia.
  - rewrite <- seq_shift, map_map, IH1. apply map_ext. intros j.
    unfold rr_target, s1. cbn [rr_index rr_backends]. f_equal.
    rewrite <- Nat.add_assoc. rewrite Nat.add_mod_idemp_l by exact N0. f_equal; lia.
Qed.

Lemma rr_target_period s j : List.length (rr_backends s) <> 0 ->
  rr_target s (j + List.length (rr_backends s)) = rr_target s j.
Proof.
  intros N0. unfold rr_target. f_equal. rewrite Nat.add_assoc. apply mod_plus_period. exact N0.
Qed.

Lemma rr_targets_window s :
  Permutation (map (rr_target s) (seq 0 (List.length (rr_backends s)))) (map Some (rr_backends s)).
Proof.
  rewrite <- map_nth_opt_seq.
  change (rr_target s) with
    (fun j => nth_opt (rr_backends s) ((fun j => (rr_index s + 1 + j) mod List.length (rr_backends s)) j)).
  rewrite <- (map_map (fun j => (rr_index s + 1 + j) mod List.length (rr_backends s)) (nth_opt (rr_backends s))).
  apply Permutation_map. apply residues_perm.
Qed.

(* ---- rr_member ---- *)
(* NoDup is not needed. *)
Theorem rr_member : forall s, List.length (rr_backends s) <> 0 ->
  exists b, snd (rr_dispatch s) = Some b /\ In b (rr_backends s) /\
            rr_backends (fst (rr_dispatch s)) = rr_backends s /\
            rr_map (fst (rr_dispatch s)) = rr_map s.
Proof.
  intros s N0. rewrite (rr_dispatch_pos s N0). cbn [fst snd rr_backends rr_map].
  destruct (nth_opt_lt (rr_backends s) ((rr_index s + 1) mod List.length (rr_backends s))) as (b & Hb).
  { apply Nat.mod_upper_bound. exact N0. }
  exists b. repeat split; [exact Hb|apply (nth_opt_In _ _ _ Hb)].
Qed.

Theorem rr_member_empty : forall s, List.length (rr_backends s) = 0 -> rr_dispatch s = (s, None).
Proof. exact rr_dispatch_zero. Qed.

(* ---- rr_window ---- *)
(* n consecutive dispatches over n backends reach each backend exactly once (NoDup is not
   needed: with repeated addresses each is reached as often as it is listed). *)
Theorem rr_window : forall s, List.length (rr_backends s) <> 0 ->
  Permutation (snd (rr_dispatches s (List.length (rr_backends s)))) (map Some (rr_backends s)) /\
  rr_backends (fst (rr_dispatches s (List.length (rr_backends s)))) = rr_backends s.
Proof.
  intros s N0. destruct (rr_dispatches_closed (List.length (rr_backends s)) s N0) as (H1 & H2 & _).
  split; [|exact H2]. rewrite H1. apply rr_targets_window.
Qed.

Corollary rr_window_list : forall s, List.length (rr_backends s) <> 0 ->
  exists l, snd (rr_dispatches s (List.length (rr_backends s))) = map Some l /\
            Permutation l (rr_backends s).
Proof.
  intros s N0. destruct (rr_window s N0) as [H _].
  apply Permutation_map_inv in H. destruct H as (l & E & P).
  exists l. split; [exact E|apply Permutation_sym; exact P].
Qed.

(* ---- rr_counts ---- *)
Definition obytes_dec : forall x y : option bytes, {x = y} + {x <> y}.
Proof. decide equality. apply (list_eq_dec ascii_dec). Defined.

Section Counts.
  Variable s : rr.
  Variable b : bytes.
  Hypothesis ND : NoDup (rr_backends s).
  Hypothesis Hb : In b (rr_backends s).
  Let n := List.length (rr_backends s).
  Let cnt (M : nat) := count_occ obytes_dec (map (rr_target s) (seq 0 M)) (Some b).

  Lemma counts_n0 : n <> 0.
  Proof. unfold n. destruct (rr_backends s); [contradiction|discriminate]. Qed.

  Lemma counts_NoDup_some : NoDup (map Some (rr_backends s)).
  Proof. apply NoDup_map_inj_on; [exact ND|]. intros x y _ _ H. congruence. Qed.

  Lemma counts_shift M : forall k, map (rr_target s) (seq (k + n) M) = map (rr_target s) (seq k M).
  Proof.
    induction M as [|M IH]; intros k; cbn [seq map]; [reflexivity|].
    f_equal; [apply rr_target_period; exact counts_n0|apply (IH (S k))].
  Qed.

  Lemma counts_window : cnt n = 1.
  Proof.
    unfold cnt, n.
    rewrite (proj1 (Permutation_count_occ obytes_dec _ _) (rr_targets_window s)).
    apply (proj1 (NoDup_count_occ' obytes_dec _) counts_NoDup_some).
    apply in_map. exact Hb.
  Qed.

  Lemma counts_period M : cnt (n + M) = 1 + cnt M.
  Proof.
    unfold cnt. rewrite seq_app, map_app, count_occ_app.
    rewrite (counts_shift M 0).
    f_equal. exact counts_window.
  Qed.

  Lemma counts_small r : r < n -> cnt r <= 1.
  Proof.
    intros Hr. unfold cnt. apply (proj1 (NoDup_count_occ obytes_dec _)).
    assert (NDn : NoDup (map (rr_target s) (seq 0 n))).
    { apply (Permutation_NoDup (l := map Some (rr_backends s))); [|exact counts_NoDup_some].
      apply Permutation_sym. apply rr_targets_window. }
    replace n with (r + (n - r)) in NDn by lia.
    rewrite seq_app, map_app in NDn. apply NoDup_app_l in NDn. exact NDn.
  Qed.

  Lemma counts_mul q : forall r, cnt (q * n + r) = q + cnt r.
  Proof.
    induction q as [|q IH]; intros r; [reflexivity|].
    replace (S q * n + r) with (n + (q * n + r)) by lia.
    rewrite counts_period, IH. lia.
  Qed.

  Lemma counts_total N : cnt N = N / n \/ cnt N = N / n + 1.
  Proof.
    pose proof counts_n0 as N0.
    pose proof (Nat.div_mod N n N0) as E.
    pose proof (Nat.mod_upper_bound N n N0) as Hr.
    pose proof (counts_small _ Hr) as Hs.
    assert (H : cnt N = N / n + cnt (N mod n)).
    { rewrite E at 1. rewrite Nat.mul_comm. apply counts_mul. }
    lia.
  Qed.
End Counts.

(* After N consecutive dispatches from a state whose rotation list has n distinct
   addresses, every backend of the list has received floor(N/n) or floor(N/n)+1 of them
   (the latter is ceil(N/n) whenever it occurs, since then n does not divide N). *)
Theorem rr_counts : forall s N b, NoDup (rr_backends s) -> In b (rr_backends s) ->
  let c := count_occ obytes_dec (snd (rr_dispatches s N)) (Some b) in
  c = N / List.length (rr_backends s) \/ c = N / List.length (rr_backends s) + 1.
Proof.
  intros s N b ND Hb. cbv zeta.
  assert (N0 : List.length (rr_backends s) <> 0) by (apply (counts_n0 s b ND Hb)).
  rewrite (proj1 (rr_dispatches_closed N s N0)).
  apply counts_total; assumption.
Qed.

Corollary rr_counts_balanced : forall s N b1 b2, NoDup (rr_backends s) ->
  In b1 (rr_backends s) -> In b2 (rr_backends s) ->
  let c1 := count_occ obytes_dec (snd (rr_dispatches s N)) (Some b1) in
  let c2 := count_occ obytes_dec (snd (rr_dispatches s N)) (Some b2) in
  c1 <= c2 + 1 /\ c2 <= c1 + 1.
Proof.
  intros s N b1 b2 ND H1 H2. cbv zeta.
  pose proof (rr_counts s N b1 ND H1) as C1. pose proof (rr_counts s N b2 ND H2) as C2.
  cbv zeta in C1, C2. lia.
Qed.

(* the ceiling is only reached when N is not a multiple of n *)
Corollary rr_counts_exact : forall s q b, NoDup (rr_backends s) -> In b (rr_backends s) ->
  count_occ obytes_dec (snd (rr_dispatches s (q * List.length (rr_backends s)))) (Some b) = q.
Proof.
  intros s q b ND Hb.
  assert (N0 : List.length (rr_backends s) <> 0) by (apply (counts_n0 s b ND Hb)).
  rewrite (proj1 (rr_dispatches_closed _ s N0)).
  pose proof (counts_mul s b ND Hb q 0) as H. cbn in H.
  rewrite Nat.add_0_r in H. rewrite H. lia.
Qed.

(* ------------------------------------------------------------------ removal / addition *)
Lemma rr_remove_absent a s : rr_inv s -> ~ In a (rr_backends (fst (rr_remove a s))).
Proof.
  intros (ND & Hmap). unfold rr_remove.
  destruct (mem_bytes a (rr_map s)) eqn:Em; cbn [fst rr_backends].
  - intros H. apply (In_remove_first _ _ _ ND) in H. destruct H as [_ H]. congruence.
  - apply mem_bytes_notIn in Em. intros H. apply Em. apply Hmap. exact H.
Qed.

Lemma rr_remove_sub a x s : In x (rr_backends (fst (rr_remove a s))) -> In x (rr_backends s).
Proof.
  unfold rr_remove. destruct (mem_bytes a (rr_map s)); cbn [fst rr_backends]; [|tauto].
  apply In_remove_first_sub.
Qed.

(* an address that is not in the rotation list is never returned, whatever happens, until
   it is added again *)
Lemma rr_absent_silent a ops : forall s,
  ~ In a (rr_backends s) -> Forall (fun o => o <> RAdd a) ops ->
  ~ In (OSent (Some a)) (snd (rr_run s ops)) /\ ~ In a (rr_backends (fst (rr_run s ops))).
Proof.
  induction ops as [|o r IH]; intros s Ha HF; cbn [rr_run].
  - cbn. tauto.
  - inversion HF as [|o' r' Ho Hr]; subst.
    assert (Hstep : snd (rr_step s o) <> OSent (Some a) /\ ~ In a (rr_backends (fst (rr_step s o)))).
    { destruct o as [a'|a'|]; cbn [rr_step].
      - cbn [fst snd rr_add rr_backends]. split; [discriminate|].
        intros H. apply in_app_or in H. destruct H as [H|[H|[]]]; [contradiction|].
        apply Ho. congruence.
      - destruct (rr_remove a' s) as [s1 c] eqn:E. cbn [fst snd]. split; [discriminate|].
        intros H. apply Ha. apply (rr_remove_sub a'). rewrite E. exact H.
      - destruct (Nat.eq_dec (List.length (rr_backends s)) 0) as [Z|NZ].
        + rewrite (rr_dispatch_zero s Z). cbn [fst snd]. split; [discriminate|exact Ha].
        + destruct (rr_member s NZ) as (b & E1 & E2 & E3 & _).
          destruct (rr_dispatch s) as [s1 x]. cbn [fst snd] in *. subst x. split.
          * intros H. injection H as ->. contradiction.
          * rewrite E3. exact Ha. }
    destruct (rr_step s o) as [s1 x]. cbn [fst snd] in Hstep. destruct Hstep as [Hx Hs1].
    destruct (IH s1 Hs1 Hr) as [IH1 IH2].
    destruct (rr_run s1 r) as [s2 xs]. cbn [fst snd] in *. split; [|exact IH2].
    intros [H|H]; [apply Hx; exact H|apply IH1; exact H].
Qed.

(* ---- rr_removed_silent ---- *)
(* Needs the state invariant rr_inv (no repeated address, the map knows the listed
   addresses), which holds of every state reachable inside the domain (rr_reachable_inv):
   with a repeated address RemoveBackend would only drop the first copy. *)
Theorem rr_removed_silent : forall s a ops, rr_inv s ->
  Forall (fun o => o <> RAdd a) ops ->
  ~ In (OSent (Some a)) (snd (rr_run (fst (rr_remove a s)) ops)).
Proof.
  intros s a ops HI HF.
  apply (rr_absent_silent a ops _ (rr_remove_absent a s HI) HF).
Qed.

(* ---- rr_added_joins ---- *)
(* (neither NoDup nor "a absent" is needed) the n+1 dispatches that follow the addition
   reach a, and every older backend too *)
Theorem rr_added_joins : forall s a,
  let outs := snd (rr_dispatches (rr_add a s) (List.length (rr_backends s) + 1)) in
  In (Some a) outs /\ forall b, In b (rr_backends s) -> In (Some b) outs.
Proof.
  intros s a. cbv zeta.
  assert (HL : List.length (rr_backends (rr_add a s)) = List.length (rr_backends s) + 1).
  { cbn [rr_add rr_backends]. rewrite app_length. reflexivity. }
  assert (N0 : List.length (rr_backends (rr_add a s)) <> 0) by lia.
  destruct (rr_window _ N0) as [P _]. rewrite HL in P.
  assert (Hall : forall b, In b (rr_backends s ++ [a]) ->
                 In (Some b) (snd (rr_dispatches (rr_add a s) (List.length (rr_backends s) + 1)))).
  { intros b Hb. apply (Permutation_in _ (Permutation_sym P)). apply in_map. exact Hb. }
  split.
  - apply Hall. apply in_or_app. right. left. reflexivity.
  - intros b Hb. apply Hall. apply in_or_app. left. exact Hb.
Qed.

(* ------------------------------------------------------------------ schedules *)
(* One lock region of the small-step model never panics and never fails, from ANY state:
   the index arithmetic never divides by zero nor indexes out of range. *)
Theorem rr_sstep_total : forall st o, exists st' out, rr_sstep st o = Ok (st', out).
Proof.
  intros st o. unfold rr_sstep.
  destruct o as [a|a| |tid]; try (eexists; eexists; reflexivity).
  destruct (nth_opt (ss_threads st) tid) as [[pc|]|]; try (eexists; eexists; reflexivity).
  cbv zeta.
  destruct (Nat.eqb_spec (List.length (rr_backends (ss_rr st))) 0) as [Z|NZ].
  - destruct pc as [|i|i [|[|l]]]; eexists; eexists; reflexivity.
  - destruct pc as [|i|i lft]; try (eexists; eexists; reflexivity).
    destruct (nth_opt_lt (rr_backends (ss_rr st)) (i mod List.length (rr_backends (ss_rr st))))
      as (b & Hb).
    { apply Nat.mod_upper_bound. exact NZ. }
    rewrite Hb. eexists; eexists; reflexivity.
Qed.

Theorem rr_sstep_no_panic : forall st o, rr_sstep st o <> Panic.
Proof.
  intros st o. destruct (rr_sstep_total st o) as (st' & out & E). rewrite E. discriminate.
Qed.

(* A Send that delivers, delivers to a backend that is in the rotation list at the moment
   of the delivery (whatever happened since it obtained its index). *)
Theorem rr_sstep_delivered_member : forall st o st' tid b,
  rr_sstep st o = Ok (st', SDelivered tid b) -> In b (rr_backends (ss_rr st)).
Proof.
  intros st o st' tid b H. unfold rr_sstep in H.
  destruct o as [a|a| |t]; try (injection H; discriminate).
  destruct (nth_opt (ss_threads st) t) as [[pc|]|]; try (injection H; discriminate).
  cbv zeta in H.
  destruct (Nat.eqb (List.length (rr_backends (ss_rr st))) 0).
  - destruct pc as [|i|i [|[|l]]]; injection H; discriminate.
  - destruct pc as [|i|i lft]; try (injection H; discriminate).
    destruct (nth_opt (rr_backends (ss_rr st)) (i mod List.length (rr_backends (ss_rr st))))
      as [b0|] eqn:E; [|discriminate].
    injection H as _ _ <-. apply (nth_opt_In _ _ _ E).
Qed.

Theorem rr_srun_total : forall ops st, exists st' outs, rr_srun st ops = Ok (st', outs).
Proof.
  induction ops as [|o r IH]; intros st; cbn [rr_srun].
  - eexists; eexists; reflexivity.
  - destruct (rr_sstep_total st o) as (st1 & x & E). rewrite E. cbn [rbind].
    destruct (IH st1) as (st2 & xs & E2). rewrite E2. cbn [rbind].
    eexists; eexists; reflexivity.
Qed.

(* replaying the prefix: the k-th output, if a delivery, names a backend that was in the
   rotation list of the state reached after the first k operations *)
Lemma rr_srun_delivered ops : forall st st' outs, rr_srun st ops = Ok (st', outs) ->
  forall k tid b, nth_error outs k = Some (SDelivered tid b) ->
  exists stk, rr_srun st (firstn k ops) = Ok (stk, firstn k outs) /\
              In b (rr_backends (ss_rr stk)).
Proof.
  induction ops as [|o r IH]; intros st st' outs H k tid b Hk; cbn [rr_srun] in H.
  - injection H as <- <-. destruct k; discriminate.
  - destruct (rr_sstep st o) as [[st1 x]| |] eqn:E; cbn [rbind] in H; try discriminate.
    destruct (rr_srun st1 r) as [[st2 xs]| |] eqn:E2; cbn [rbind] in H; try discriminate.
    injection H as <- <-.
    destruct k as [|k]; cbn [nth_error firstn] in *.
    + injection Hk as ->. exists st. split; [reflexivity|].
      apply (rr_sstep_delivered_member _ _ _ _ _ E).
    + destruct (IH st1 st2 xs E2 k tid b Hk) as (stk & Ek & Hin).
      exists stk. split; [|exact Hin].
      cbn [rr_srun]. rewrite E. cbn [rbind]. rewrite Ek. reflexivity.
Qed.

(* MAIN (schedule half): under every interleaving of membership changes, spawned Sends and
   their lock regions (no domain restriction at all) the pool never panics, the run always
   completes, and every delivery goes to a backend registered at the moment of delivery. *)
Theorem C05_schedules_safe : forall ops,
  rr_srun {| ss_rr := rr_init; ss_threads := [] |} ops <> Panic /\
  exists st' outs,
    rr_srun {| ss_rr := rr_init; ss_threads := [] |} ops = Ok (st', outs) /\
    forall k tid b, nth_error outs k = Some (SDelivered tid b) ->
      exists stk, rr_srun {| ss_rr := rr_init; ss_threads := [] |} (firstn k ops)
                    = Ok (stk, firstn k outs) /\
                  In b (rr_backends (ss_rr stk)).
Proof.
  intros ops.
  destruct (rr_srun_total ops {| ss_rr := rr_init; ss_threads := [] |}) as (st' & outs & E).
  split; [rewrite E; discriminate|].
  exists st', outs. split; [exact E|].
  intros k tid b Hk. apply (rr_srun_delivered ops _ _ _ E k tid b Hk).
Qed.

(* ------------------------------------------------------------------ what the judge's pieces mean *)
Lemma c05_nodup_sound l : c05_nodup l = true -> NoDup l.
Proof.
  induction l as [|x l IH]; cbn; intros H; [constructor|].
  apply andb_true_iff in H. destruct H as [H1 H2]. apply negb_true_iff in H1.
  constructor; [apply mem_bytes_notIn; exact H1|apply IH; exact H2].
Qed.

(* check (d) of the judge really says "final is a duplicate-free rearrangement of reg" *)
Lemma c05_perm_sound l reg : c05_perm l reg = true -> NoDup l /\ Permutation l reg.
Proof.
  unfold c05_perm. intros H.
  apply andb_true_iff in H. destruct H as [H H3].
  apply andb_true_iff in H. destruct H as [H1 H2].
  apply c05_nodup_sound in H1. apply Nat.eqb_eq in H2.
  split; [exact H1|]. apply NoDup_Permutation_bis; [exact H1|lia|].
  intros x Hx. apply mem_bytes_In. apply (proj1 (forallb_forall _ _) H3). exact Hx.
Qed.

(* ------------------------------------------------------------------ examples (non-vacuity) *)
Definition xa := s2b "10.0.0.1:5060".
Definition xb := s2b "10.0.0.2:5060".
Definition xc := s2b "10.0.0.3:5060".
Definition xd := s2b "10.0.0.4:5060".

(* three backends, a removal in the middle (which leaves index = 2 >= n = 2), a removal of
   an unknown address, an addition, and finally an empty pool *)
Definition ex_ops : list rr_op :=
  [RAdd xa; RAdd xb; RAdd xc; RDispatch; RDispatch; RDispatch; RDispatch; RDispatch;
   RRemove xc; RDispatch; RDispatch; RDispatch; RRemove xd; RAdd xd;
   RDispatch; RDispatch; RDispatch; RDispatch;
   RRemove xa; RRemove xb; RRemove xd; RDispatch; RAdd xc; RDispatch].

Definition ex_outs : list rr_out :=
  [OAdded; OAdded; OAdded;
   OSent (Some xb); OSent (Some xc); OSent (Some xa); OSent (Some xb); OSent (Some xc);
   ORemoved true; OSent (Some xb); OSent (Some xa); OSent (Some xb); ORemoved false; OAdded;
   OSent (Some xd); OSent (Some xa); OSent (Some xb); OSent (Some xd);
   ORemoved true; ORemoved true; ORemoved true; OSent None; OAdded; OSent (Some xc)].

Example ex_domain : rr_domain ex_ops = true.
Proof. vm_compute. reflexivity. Qed.

Example ex_run : rr_run rr_init ex_ops =
  ({| rr_index := 0; rr_backends := [xc]; rr_map := [xc] |}, ex_outs).
Proof. vm_compute. reflexivity. Qed.

Example ex_judged : judge_C05 ex_ops ex_outs [xc] = true.
Proof. vm_compute. reflexivity. Qed.

Example ex_C05_judged_instance :
  let '(s, outs) := rr_run rr_init ex_ops in judge_C05 ex_ops outs (rr_backends s) = true.
Proof. exact (C05_judged ex_ops ex_domain). Qed.

(* the judge is not trivially true: each of these wrong observations is rejected *)
Definition set_out (k : nat) (x : rr_out) : list rr_out := set_nth ex_outs k x.

Example ex_reject_same_twice :      (* 4th dispatch repeats the 3rd: window broken *)
  judge_C05 ex_ops (set_out 6 (OSent (Some xa))) [xc] = false.
Proof. vm_compute. reflexivity. Qed.
Example ex_reject_removed_served :  (* dispatch to xc after its removal *)
  judge_C05 ex_ops (set_out 10 (OSent (Some xc))) [xc] = false.
Proof. vm_compute. reflexivity. Qed.
Example ex_reject_dropped :         (* request dropped although backends are registered *)
  judge_C05 ex_ops (set_out 3 (OSent None)) [xc] = false.
Proof. vm_compute. reflexivity. Qed.
Example ex_reject_ghost :           (* a backend served although none is registered *)
  judge_C05 ex_ops (set_out 21 (OSent (Some xa))) [xc] = false.
Proof. vm_compute. reflexivity. Qed.
Example ex_reject_closed_flag :
  judge_C05 ex_ops (set_out 12 (ORemoved true)) [xc] = false.
Proof. vm_compute. reflexivity. Qed.
Example ex_reject_final : judge_C05 ex_ops ex_outs [xc; xa] = false.
Proof. vm_compute. reflexivity. Qed.
Example ex_reject_short : judge_C05 ex_ops (firstn 23 ex_outs) [xc] = false.
Proof. vm_compute. reflexivity. Qed.
Example ex_reject_new_ignored :     (* after adding xd the rotation keeps skipping it *)
  judge_C05 [RAdd xa; RAdd xb; RDispatch; RAdd xd; RDispatch; RDispatch; RDispatch]
            [OAdded; OAdded; OSent (Some xb); OAdded;
             OSent (Some xa); OSent (Some xb); OSent (Some xa)] [xa; xb; xd] = false.
Proof. vm_compute. reflexivity. Qed.

(* the domain restriction matters: adding an address twice leaves a copy behind that the
   map no longer knows, and that copy keeps being served after the removal *)
Example ex_outside_domain :
  rr_domain [RAdd xa; RAdd xa; RRemove xa; RDispatch] = false /\
  rr_run rr_init [RAdd xa; RAdd xa; RRemove xa; RDispatch] =
    ({| rr_index := 0; rr_backends := [xa]; rr_map := [] |},
     [OAdded; OAdded; ORemoved true; OSent (Some xa)]) /\
  judge_C05 [RAdd xa; RAdd xa; RRemove xa; RDispatch]
            [OAdded; OAdded; ORemoved true; OSent (Some xa)] [xa] = false.
Proof. vm_compute. auto. Qed.

(* a state for the corollaries: three backends, index left at 2 *)
Definition ex_s3 : rr := fst (rr_run rr_init [RAdd xa; RAdd xb; RAdd xc; RDispatch; RDispatch]).

Example ex_s3_inv : rr_inv ex_s3.
Proof. apply rr_reachable_inv. vm_compute. reflexivity. Qed.

Example ex_member : snd (rr_dispatch ex_s3) = Some xa /\ List.length (rr_backends ex_s3) <> 0.
Proof. vm_compute. split; [reflexivity|discriminate]. Qed.

Example ex_window : snd (rr_dispatches ex_s3 3) = [Some xa; Some xb; Some xc].
Proof. vm_compute. reflexivity. Qed.

Example ex_counts :                (* N = 7 over n = 3: 3, 2, 2 *)
  map (fun b => count_occ obytes_dec (snd (rr_dispatches ex_s3 7)) (Some b)) [xa; xb; xc] = [3; 2; 2]
  /\ 7 / 3 = 2.
Proof. vm_compute. auto. Qed.

(* index >= number of backends after a removal: the next dispatch is still in range *)
Example ex_index_after_removal :
  let s := fst (rr_remove xc ex_s3) in
  rr_index s = 2 /\ List.length (rr_backends s) = 2 /\
  snd (rr_dispatches s 4) = [Some xb; Some xa; Some xb; Some xa].
Proof. vm_compute. auto. Qed.

Example ex_removed_silent :
  ~ In (OSent (Some xc))
       (snd (rr_run (fst (rr_remove xc ex_s3)) [RDispatch; RAdd xd; RDispatch; RDispatch; RDispatch])).
Proof.
  apply rr_removed_silent; [exact ex_s3_inv|].
  repeat constructor; discriminate.
Qed.

Example ex_added_joins :
  snd (rr_dispatches (rr_add xd ex_s3) 4) = [Some xd; Some xa; Some xb; Some xc].
Proof. vm_compute. reflexivity. Qed.

(* schedules: a Send obtains index 1 (-> xb) and the count 2; xb is removed before the
   Send reaches getBackend: it delivers to xa, the only backend left (1 mod 1 = 0) *)
Example ex_schedule_race :
  rmap snd (rr_srun {| ss_rr := rr_init; ss_threads := [] |}
              [SAdd xa; SAdd xb; SSpawn; SStep 0; SStep 0; SRemove xb; SStep 0; SStep 0]) =
  Ok [SNone; SNone; SNone; SNone; SNone; SNone; SDelivered 0 xa; SNone].
Proof. vm_compute. reflexivity. Qed.

(* all backends vanish while the Send is in its loop (2 iterations granted): it gives up *)
Example ex_schedule_all_removed :
  rmap snd (rr_srun {| ss_rr := rr_init; ss_threads := [] |}
              [SAdd xa; SAdd xb; SSpawn; SStep 0; SStep 0; SRemove xb; SRemove xa;
               SStep 0; SStep 0; SStep 0]) =
  Ok [SNone; SNone; SNone; SNone; SNone; SNone; SNone; SNone; SFailed 0; SNone].
Proof. vm_compute. reflexivity. Qed.

(* two racing Sends and an addition in between *)
Example ex_schedule_two :
  rmap snd (rr_srun {| ss_rr := rr_init; ss_threads := [] |}
              [SAdd xa; SAdd xb; SSpawn; SSpawn; SStep 0; SStep 1; SAdd xc; SStep 1; SStep 0;
               SStep 0; SStep 1]) =
  Ok [SNone; SNone; SNone; SNone; SNone; SNone; SNone; SNone; SNone;
      SDelivered 0 xb; SDelivered 1 xa].
Proof. vm_compute. reflexivity. Qed.

Print Assumptions C05_judged.
Print Assumptions rr_reachable_inv.
Print Assumptions rr_member.
Print Assumptions rr_member_empty.
Print Assumptions rr_window.
Print Assumptions rr_window_list.
Print Assumptions rr_counts.
Print Assumptions rr_counts_balanced.
Print Assumptions rr_counts_exact.
Print Assumptions rr_removed_silent.
Print Assumptions rr_added_joins.
Print Assumptions rr_sstep_total.
Print Assumptions rr_sstep_no_panic.
Print Assumptions rr_sstep_delivered_member.
Print Assumptions rr_srun_total.
Print Assumptions C05_schedules_safe.
