(* C13_bridge.v — the executable judge of C13 (SpecProxy.judge_C13_event, which reads raw bytes with
   its own reader) accepts what the MODEL emits for a request whose Route headers are in the C14
   grammar.

   Parts:
     A. C13_route_headers: the Route HEADERS (not only the decoded entries of C13.route_view) of every
        message the model serialises, as an explicit function of the received Route headers.
     B. judge_expected: on the grammar domain the text the judge reads in those headers is the list
        the judge computes from the text of the received headers (own entry / next hop dropped).
        own_agree: j_own (judge, bytes) = C13.designates (model, decoded) on reference renderings.
     C. j_flat_output / j_flat_input: what the judge's reader sees in an output / in the input.
     D. C13_judge_accepts (judge side: every line_safe decomposition of the outputs that carries the
        prescribed Route headers is accepted), C13_judge_bridge_udp_partial (process_message level),
        C13_judge_bridge_step_partial (proxy_step level); concrete run b13_* (three Route entries),
        b13_accepted_by_theorem (the remaining hypothesis discharged on the run: verdict 0 by the theorem).
     E. C13_route_headers_good (part A and the line invariant [good] of proofs/C07_bridge.v for the same
        witness), C13_judge_bridge_udp / C13_judge_bridge_step: the UNCONDITIONAL bridge, conditions on
        the input side only; b13_accepted_unconditionally.
   The _partial theorems keep C01.line_safe of the emitted messages as a premise; part E discharges it. *)
From Coq Require Import List Ascii String ZArith NArith Bool Arith Lia.
From Model Require Import Bytes BytesLemmas Wire Uri Hdr Message Msg Rx Glob StaticRoute RoundRobin Pins
     Proxy RunProxy SpecProxy SpecC14.
From Model.proofs Require Import C14_uri C14_hdr MsgLemmas C06 C01 C13.
From Model.proofs Require C07_bridge.
Import ListNotations.
Open Scope list_scope.

(* ================================================================== A. the Route headers of the outputs *)
Definition RS (m : message) : list header := sel (s2b "Route") (m_headers m).

(* GetRoute decodes the first Route header in place when it parses *)
Definition rnorm (hs : list header) : list header :=
  match hs with
  | h :: rest => match h_val h with
                 | HRaw s => match parse_route s with
                             | Ok l => {| h_name := h_name h; h_val := HRoute l |} :: rest
                             | _ => hs
                             end
                 | _ => hs
                 end
  | [] => []
  end.
Definition top_of (hs : list header) : option route_param :=
  match hs with
  | h :: _ => match h_val h with HRoute (rp :: _) => Some rp | _ => None end
  | [] => None
  end.
(* PopRoute on a decoded first header *)
Definition pop_of (hs : list header) : list header :=
  match hs with
  | h :: rest => match h_val h with
                 | HRoute (_ :: ((_ :: _) as l')) => {| h_name := h_name h; h_val := HRoute l' |} :: rest
                 | HRoute _ => rest
                 | _ => hs
                 end
  | [] => []
  end.
(* tryRemoveTopRoute / getNextRequestHopByRoute on the list of Route headers *)
Definition step_own (c : cfg) (from : stransport) (hs : list header) : list header :=
  match top_of (rnorm hs) with
  | Some rp => if designates c from rp then pop_of (rnorm hs) else rnorm hs
  | None => rnorm hs
  end.
Definition step_next (keep : bool) (hs : list header) : list header :=
  match top_of (rnorm hs) with
  | Some _ => if keep then rnorm hs else pop_of (rnorm hs)
  | None => rnorm hs
  end.

(* [m'] has the start line and body of [m] and the Route headers [f (RS m)] *)
Definition routed (f : list header -> list header) (m m' : message) : Prop :=
  RS m' = f (RS m) /\ m_start m' = m_start m /\ m_body m' = m_body m.

Lemma routed_frame_l f m1 m2 m3 : frame (s2b "Route") m1 m2 -> routed f m2 m3 -> routed f m1 m3.
Proof. intros (A & B & C) (A' & B' & C'). unfold routed, RS in *. rewrite A', A. repeat split; congruence. Qed.
Lemma routed_frame_r f m1 m2 m3 : routed f m1 m2 -> frame (s2b "Route") m2 m3 -> routed f m1 m3.
Proof. intros (A & B & C) (A' & B' & C'). unfold routed, RS in *. rewrite A', A. repeat split; congruence. Qed.
Lemma routed_comp f g m1 m2 m3 : routed f m1 m2 -> routed g m2 m3 -> routed (fun hs => g (f hs)) m1 m3.
Proof. intros (A & B & C) (A' & B' & C'). unfold routed in *. rewrite A', A. repeat split; congruence. Qed.

Lemma s_get_route_RS m :
  routed rnorm m (fst (s_get_route m)) /\
  match snd (s_get_route m) with
  | Ok l => exists n rest, rnorm (RS m) = {| h_name := n; h_val := HRoute l |} :: rest
  | _ => top_of (rnorm (RS m)) = None
  end.
Proof.
  unfold routed, s_get_route, typed_get, RS. rewrite get_header_sel.
  destruct (sel (s2b "Route") (m_headers m)) as [|h rest] eqn:S; cbn [hd_error fst snd].
  { rewrite S. cbn. auto. }
  destruct (h_val h) as [s|l|l|l|f|f|c] eqn:V; cbn [fst snd]; rewrite ?S; unfold rnorm; rewrite ?V;
    try (unfold top_of; rewrite V; auto; fail).
  - (* raw *)
    destruct (parse_route s) as [l| |] eqn:P; cbn [fst snd]; rewrite ?S;
      try (unfold top_of; rewrite V; auto; fail).
    cbn [set_val with_headers m_headers m_start m_body]. rewrite sel_update_same, S.
    split; [auto|]. eexists _, _. reflexivity.
  - (* already decoded *)
    split; [auto|]. exists (h_name h), rest. destruct h as [n v]. cbn in *. subst v. reflexivity.
Qed.

Lemma s_pop_route_RS m n a l rest :
  RS m = {| h_name := n; h_val := HRoute (a :: l) |} :: rest ->
  routed (fun _ => match l with [] => rest | _ :: _ => {| h_name := n; h_val := HRoute l |} :: rest end)
         m (fst (s_pop_route m)).
Proof.
  unfold routed, RS. intros S. unfold s_pop_route, mbind, s_get_route, typed_get.
  rewrite get_header_sel, S. cbn [hd_error h_val].
  destruct l as [|b l]; cbn [mmodify fst snd]; cbn [set_val with_headers m_headers m_start m_body].
  - rewrite sel_remove_same, S. auto.
  - rewrite sel_update_same, S. auto.
Qed.

Lemma try_remove_RS c from m :
  routed (step_own c from) m (fst (mtry (try_remove_top_route c from) m)).
Proof.
  destruct (s_get_route_RS m) as (V & N).
  unfold mtry, try_remove_top_route, mbind.
  destruct (s_get_route m) as [m1 r1]. cbn [fst snd] in V, N.
  unfold routed in *. unfold step_own.
  destruct r1 as [l| |]; cbn [fst].
  2,3: rewrite N; exact V.
  destruct N as (n & rest & S). rewrite S. rewrite S in V. destruct V as (V1 & V2 & V3).
  destruct l as [|a l]; unfold mret; cbn [fst top_of h_val]; [auto|].
  unfold designates.
  pose proof (s_pop_route_RS m1 n a l rest V1) as (P1 & P2 & P3).
  assert (PP : RS (fst (s_pop_route m1)) = pop_of ({| h_name := n; h_val := HRoute (a :: l) |} :: rest)).
  { rewrite P1. destruct l; reflexivity. }
  destruct (na_addr (r_addr a)) as [u|s]; cbn [fst]; [|auto].
  destruct (Z.eqb (sip_uri_get_port u) (t_port from) && is_same_address c (u_host u) (t_addr from))%bool;
    cbn [fst]; [|auto].
  destruct (s_pop_route m1) as [m2 [| |]]; cbn [fst] in *; repeat split; congruence.
Qed.

Lemma next_hop_by_route_RS keep m : routed (step_next keep) m (fst (next_hop_by_route keep m)).
Proof.
  destruct (s_get_route_RS m) as (V & N).
  unfold next_hop_by_route, mbind.
  destruct (s_get_route m) as [m1 r1]. cbn [fst snd] in V, N.
  unfold routed in *. unfold step_next.
  destruct r1 as [l| |]; cbn [fst].
  2,3: rewrite N; exact V.
  destruct N as (n & rest & S). rewrite S. rewrite S in V. destruct V as (V1 & V2 & V3).
  destruct l as [|a l]; unfold merr, mret, mtry; cbn [fst top_of h_val]; [auto|].
  destruct keep.
  - destruct (na_addr (r_addr a)); cbn [fst]; auto.
  - pose proof (s_pop_route_RS m1 n a l rest V1) as (P1 & P2 & P3).
    assert (PP : RS (fst (s_pop_route m1)) = pop_of ({| h_name := n; h_val := HRoute (a :: l) |} :: rest)).
    { rewrite P1. destruct l; reflexivity. }
    destruct (s_pop_route m1) as [m2 r2]. cbn [fst] in *.
    destruct r2; destruct (na_addr (r_addr a)); cbn [fst]; repeat split; congruence.
Qed.

Lemma next_request_hop_RS keep rt m : routed (step_next keep) m (fst (next_request_hop keep rt m)).
Proof.
  unfold next_request_hop. pose proof (next_hop_by_route_RS keep m) as H.
  destruct (next_hop_by_route keep m) as [m1 r]. cbn [fst] in H.
  destruct r; cbn [fst]; try exact H.
  eapply routed_frame_r; [exact H|]. apply (mframe_next_hop_by_config _ rt dj_Route_To).
Qed.

Lemma frame_decorate e l host m : frame (s2b "Route") m (decorate e l host m).
Proof.
  unfold decorate. destruct (alookup host l) as [t|] eqn:A; [|apply frame_refl].
  destruct (C06_decorate_learned e l host t m A) as (_ & _ & _ & _ & F). unfold decorate in F. rewrite A in F.
  apply F; reflexivity.
Qed.

(* For EVERY request: each byte-carrying output is the serialisation of a message with the start line
   and body of the received one whose Route HEADERS are those of the received message after the two
   route steps (header values that were not looked at stay as they are, undecoded). *)
Theorem C13_route_headers : forall e peer peer_port from rs tcp m0 x x',
  is_request m0 = true ->
  process_message e peer peer_port from rs tcp m0 x = Ok x' ->
  exists extra, x_outs x' = x_outs x ++ extra /\ (msg_count extra <= 1)%nat /\
    forall o, In o extra -> is_msg o = true ->
      exists mo, snd o = write_message mo /\
                 routed (fun hs => step_next (c_keep_next_hop (e_cfg e)) (step_own (e_cfg e) from hs)) m0 mo.
Proof.
  intros e peer pp from rs tcp m0 x x' R H.
  destruct (process_message_request _ _ _ _ _ _ _ _ _ R H) as (m3 & p1 & F & _ & _ & ->).
  set (m4 := fst (mtry (try_remove_top_route (e_cfg e) from) m3)).
  assert (R4 : is_request m4 = true).
  { rewrite (frame_request (s2b "To") m3 m4 (mframe_try _ _ (mframe_try_remove_top_route _ (e_cfg e) from dj_To_Route) m3)).
    rewrite (frame_request (s2b "To") m0 m3 (F _ dj_To_Via dj_To_CSeq)). exact R. }
  rewrite (handle_message_request e from m4 _ R4). cbn [x_learned].
  pose proof (next_request_hop_RS (c_keep_next_hop (e_cfg e)) (route_table_of (e_cfg e)) m4) as NR.
  destruct (next_request_hop _ _ m4) as [m1 r]. cbn [fst] in NR.
  set (x1 := {| x_learned := learned_after peer from m0 x; x_p := p1; x_conns := x_conns x;
                x_world := x_world x; x_outs := x_outs x |}).
  assert (V1 : routed (fun hs => step_next (c_keep_next_hop (e_cfg e)) (step_own (e_cfg e) from hs)) m0 m1).
  { eapply routed_frame_l; [exact (F _ dj_Route_Via dj_Route_CSeq)|].
    exact (routed_comp _ _ _ _ _ (try_remove_RS (e_cfg e) from m3) NR). }
  assert (SB : let r := (if is_my_message (new_my_name (c_name (e_cfg e))) from m1 then send_to_backend e m1 x1
                         else (x1, m1)) in
               exists extra, x_outs (fst r) = x_outs x ++ extra /\ (msg_count extra <= 1)%nat /\
                 forall o, In o extra -> is_msg o = true ->
                   exists mo, snd o = write_message mo /\ frame (s2b "Route") m1 mo).
  { cbv zeta. destruct (is_my_message _ from m1).
    2:{ exists []. rewrite app_nil_r. split; [reflexivity|]. split; [apply Nat.le_0_l|]. intros o []. }
    destruct (send_to_backend_shape e m1 x1) as (_ & extra & O & D). exists extra. split; [exact O|].
    destruct D as [->|(t0 & a & d & _ & _ & -> & _)].
    - split; [apply Nat.le_0_l|]. intros o [].
    - split; [unfold msg_count; cbn [filter]; destruct (is_msg _); cbn [List.length]; lia|].
      intros o [<-|[]] _. eexists. split; [reflexivity|]. unfold backend_message.
      change (px_add_record_route (pa_must_rr (wire_proxy (e_lc e))) t0
                (px_add_via e t0 (fst (find_backend_by_dialog e (x_p x1) m1))))
        with (decorate e [(s2b "h", t0)] (s2b "h") (fst (find_backend_by_dialog e (x_p x1) m1))).
      eapply frame_trans; [|apply frame_decorate].
      apply (mframe_find_backend_by_dialog _ dj_Route_CSeq dj_Route_From dj_Route_To). }
  assert (FIN : forall extra,
            (forall o, In o extra -> is_msg o = true -> exists mo, snd o = write_message mo /\ frame (s2b "Route") m1 mo) ->
            forall o, In o extra -> is_msg o = true ->
              exists mo, snd o = write_message mo /\
                routed (fun hs => step_next (c_keep_next_hop (e_cfg e)) (step_own (e_cfg e) from hs)) m0 mo).
  { intros extra W o Io Mo. destruct (W o Io Mo) as (mo & B & Fr). exists mo. split; [exact B|].
    exact (routed_frame_r _ _ _ _ V1 Fr). }
  destruct r as [[[host port] transport]| |].
  2,3: cbv zeta in SB; destruct SB as (extra & O & C & W); exists extra; split; [exact O|]; split; [exact C|];
       exact (FIN extra W).
  destruct (send_message_shape e host port transport (decorate e (x_learned x1) host m1) x1)
    as (Sm & _ & extra & O & (C & Fo) & _).
  exists extra. split; [exact O|]. split; [exact C|]. apply FIN. intros o Io Mo.
  rewrite Forall_forall in Fo.
  exists (snd (send_message e host port transport (decorate e (x_learned x1) host m1) x1)).
  split; [exact (Fo o Io Mo)|]. rewrite Sm.
  eapply frame_trans; [apply frame_decorate|].
  apply (mframe_try _ _ (mframe_client_transaction _ dj_Route_Via dj_Route_CSeq) _).
Qed.

(* ================================================================== B1. the judge's URI reader on reference text *)
Definition j_userhost (hp : bytes) : bytes * bytes :=
  match index_byte "@"%char hp with
  | Some p => (match index_byte ":"%char (firstn p hp) with Some q => firstn q hp | None => firstn p hp end,
               skipn (S p) hp)
  | None => ([], hp)
  end.
Definition j_hostport (hostport : bytes) : bytes * option Z :=
  match index_byte ":"%char hostport with
  | Some p => (firstn p hostport, atoi (skipn (S p) hostport))
  | None => (hostport, None)
  end.
Definition j_go (s body : bytes) : juri :=
  let b1 := match index_byte "?"%char body with Some p => firstn p body | None => body end in
  match split_byte ";"%char b1 with
  | [] => {| ju_sip := true; ju_text := s; ju_user := []; ju_host := []; ju_port := None; ju_params := [] |}
  | hp :: ps =>
      let '(user, hostport) := j_userhost hp in
      let '(h, port) := j_hostport hostport in
      {| ju_sip := true; ju_text := s; ju_user := user; ju_host := h; ju_port := port; ju_params := map j_kv ps |}
  end.
Lemma j_uri_unfold s :
  j_uri s = if has_prefix (s2b "sip:") s then j_go s (skipn 4 s)
            else if has_prefix (s2b "sips:") s then j_go s (skipn 5 s)
            else {| ju_sip := false; ju_text := s; ju_user := []; ju_host := []; ju_port := None; ju_params := [] |}.
Proof. reflexivity. Qed.

Lemma j_userhost_core o hp : wf_user o = true -> ~ In "@"%char hp ->
  snd (j_userhost (rp_user o ++ hp)) = hp.
Proof.
  intros H Hhp. unfold j_userhost.
  destruct o as [[usr [pw|]]|]; cbn [wf_user rp_user] in *.
  - apply andb_true_iff in H. destruct H as [H1 H2].
    apply safe1_parts in H1, H2. destruct H1 as [_ H1], H2 as [_ H2].
    assert (N : ~ In "@"%char (usr ++ ":"%char :: pw)).
    { apply notin_app; [apply safe_no_at, H1|]. apply notin_cons; [discriminate|apply safe_no_at, H2]. }
    replace ((usr ++ ":"%char :: pw ++ ["@"%char]) ++ hp)
      with ((usr ++ ":"%char :: pw) ++ "@"%char :: hp) by (norm_app; reflexivity).
    destruct (index_cut _ _ hp N) as (E1 & E2 & E3). rewrite E1. cbn [snd]. exact E3.
  - rewrite andb_true_r in H. apply safe1_parts in H. destruct H as [_ H].
    replace ((usr ++ ["@"%char]) ++ hp) with (usr ++ "@"%char :: hp) by (norm_app; reflexivity).
    destruct (index_cut _ usr hp (safe_no_at _ H)) as (E1 & E2 & E3). rewrite E1. cbn [snd]. exact E3.
  - cbn [app]. rewrite index_notin by exact Hhp. reflexivity.
Qed.

Lemma j_hostport_ok h p : safe h = true -> wf_port p = true -> j_hostport (h ++ rp_port p) = (h, p).
Proof.
  intros Hh Hp. unfold j_hostport. destruct p as [z|]; cbn [rp_port].
  - destruct (index_cut _ h (itoa z) (safe_no_colon _ Hh)) as (E1 & E2 & E3).
    rewrite E1, E2, E3. apply wf_port_range in Hp.
    rewrite atoi_itoa by (unfold int_min, int_max; lia). reflexivity.
  - rewrite app_nil_r, index_notin by (apply safe_no_colon, Hh). reflexivity.
Qed.

Lemma j_go_sip txt u : wf_sipuri u = true ->
  exists usr, j_go txt ((rp_core u ++ rp_params (au_params u)) ++ rp_hdrs (au_headers u)) =
    {| ju_sip := true; ju_text := txt; ju_user := usr; ju_host := au_host u; ju_port := au_port u;
       ju_params := map j_kv (map rp_param (au_params u)) |}.
Proof.
  intros H. destruct (wf_sipuri_parts u H) as (Hu & Hh & Hp & Hps & Hhs).
  apply safe1_parts in Hh. destruct Hh as [_ Hh].
  set (S1 := rp_core u ++ rp_params (au_params u)).
  assert (N : ~ In "?"%char S1) by (apply (pm_notin "?"%char _ eq_refl), rp_core_params_pm, H).
  assert (B1 : match index_byte "?"%char (S1 ++ rp_hdrs (au_headers u)) with
               | Some p => firstn p (S1 ++ rp_hdrs (au_headers u))
               | None => S1 ++ rp_hdrs (au_headers u) end = S1).
  { destruct (au_headers u) as [|h r]; cbn [rp_hdrs].
    - rewrite app_nil_r, index_notin by exact N. reflexivity.
    - destruct (index_cut _ S1 (rp_hdr h ++ flat_map (fun y => "&"%char :: rp_hdr y) r) N) as (E1 & E2 & _).
      rewrite E1. exact E2. }
  assert (SP : split_byte ";"%char S1 = rp_core u :: map rp_param (au_params u)).
  { unfold S1, rp_params. apply split_flat.
    - apply (hp_notin ";"%char _ eq_refl), rp_core_hp, H.
    - apply (forallb_Forall_wf wf_param); [apply rp_param_no_semi|exact Hps]. }
  unfold j_go. rewrite B1. cbv zeta. rewrite SP. cbv beta iota.
  assert (NA : ~ In "@"%char (au_host u ++ rp_port (au_port u))).
  { apply notin_app; [apply safe_no_at, Hh|apply rp_port_notin; [discriminate|reflexivity]]. }
  pose proof (j_userhost_core (au_user u) _ Hu NA) as K. fold (rp_core u) in K.
  destruct (j_userhost (rp_core u)) as [usr hostport]. cbn [snd] in K. subst hostport.
  rewrite (j_hostport_ok _ _ Hh Hp). exists usr. reflexivity.
Qed.

Lemma j_uri_sipuri u : wf_sipuri u = true ->
  exists txt usr, j_uri (rp_sipuri u) =
    {| ju_sip := true; ju_text := txt; ju_user := usr; ju_host := au_host u; ju_port := au_port u;
       ju_params := map j_kv (map rp_param (au_params u)) |}.
Proof.
  intros H. rewrite j_uri_unfold, rp_sipuri_eq2.
  set (B := (rp_core u ++ rp_params (au_params u)) ++ rp_hdrs (au_headers u)).
  destruct (au_secure u); unfold rp_scheme.
  - change (has_prefix (s2b "sip:") (s2b "sips:" ++ B)) with false.
    change (has_prefix (s2b "sips:") (s2b "sips:" ++ B)) with true.
    change (skipn 5 (s2b "sips:" ++ B)) with B. cbv iota.
    destruct (j_go_sip (s2b "sips:" ++ B) u H) as (usr & E). eexists _, usr. exact E.
  - change (has_prefix (s2b "sip:") (s2b "sip:" ++ B)) with true.
    change (skipn 4 (s2b "sip:" ++ B)) with B. cbv iota.
    destruct (j_go_sip (s2b "sip:" ++ B) u H) as (usr & E). eexists _, usr. exact E.
Qed.

Lemma j_kv_param p : wf_param p = true ->
  j_kv (rp_param p) = (ap_key p, match ap_val p with Some v => v | None => [] end).
Proof.
  intros H. destruct (wf_param_parts p H) as (_ & Hk & _). apply safe_no_eq in Hk.
  unfold j_kv, rp_param. destruct (ap_val p) as [v|].
  - destruct (index_cut _ (ap_key p) v Hk) as (E1 & E2 & E3). rewrite E1, E2, E3. reflexivity.
  - rewrite index_notin by exact Hk. reflexivity.
Qed.

Lemma j_get_params name ps : forallb wf_param ps = true ->
  j_get name (map j_kv (map rp_param ps)) = a_get name ps.
Proof.
  induction ps as [|p ps IH]; intros H; [reflexivity|].
  cbn [forallb] in H. apply andb_true_iff in H. destruct H as [Hp Hps].
  cbn [map]. rewrite (j_kv_param p Hp). cbn [j_get]. unfold a_get. cbn [find].
  rewrite (beq_sym name (ap_key p)). destruct (beq (ap_key p) name); [reflexivity|].
  rewrite (IH Hps). reflexivity.
Qed.

(* the URI of an entry written as the reference text of a well-formed element *)
Lemma j_entry_relem r : wf_relem r = true ->
  j_entry_uri (rp_relem r) = j_uri (rp_addr (an_addr (ar_na r))).
Proof.
  intros H. destruct (wf_relem_parts r H) as [Hn _].
  unfold j_entry_uri, rp_relem.
  destruct (nameaddr_cut (ar_na r) (rp_params (ar_params r)) Hn) as (E1 & E2 & _).
  rewrite E1, E2. f_equal.
  unfold slice, na_pos. rewrite rp_nameaddr_app, <- app_assoc. cbn [app].
  rewrite skipn_S_len_app, app_length. cbn [List.length].
  replace (List.length (an_display (ar_na r)) + S (List.length (rp_addr (an_addr (ar_na r)))) -
           S (List.length (an_display (ar_na r))))%nat
    with (List.length (rp_addr (an_addr (ar_na r)))) by lia.
  apply firstn_len_app.
Qed.

(* j_own (judge, on the bytes of the entry) = designates (model, on the decoded entry) *)
Theorem own_agree : forall c lc tcp from r,
  t_addr from = lc_addr lc -> t_port from = listener_port lc tcp -> wf_relem r = true ->
  j_own c lc tcp (rp_relem r) = designates c from (embed_relem r).
Proof.
  intros c lc tcp from r Ha Hp H. destruct (wf_relem_parts r H) as [Hn _].
  destruct (wf_nameaddr_parts _ Hn) as [_ Hw].
  unfold j_own, designates. rewrite (j_entry_relem r H).
  cbn [embed_relem r_addr embed_nameaddr na_addr].
  destruct (an_addr (ar_na r)) as [u|s]; cbn [embed_addr rp_addr wf_addr] in *.
  - destruct (j_uri_sipuri u Hw) as (txt & usr & ->).
    destruct (wf_sipuri_parts u Hw) as (_ & _ & Hpt & Hps & _).
    cbn [ju_sip ju_host andb]. rewrite (sip_uri_get_port_embed u Hpt).
    unfold ju_eff_port, ju_transport. cbn [ju_port ju_params]. rewrite (j_get_params _ _ Hps).
    cbn [embed_sipuri u_host]. rewrite Ha, Hp. fold (x_transport u).
    change (j_same_address c (au_host u) (lc_addr lc)) with (is_same_address c (au_host u) (lc_addr lc)).
    destruct (au_port u) as [z|]; [|reflexivity].
    apply wf_port_range in Hpt. replace (Z.eqb z 0) with false; [reflexivity|].
    symmetry. apply Z.eqb_neq. lia.
  - destruct (wf_other_parts s Hw) as (_ & _ & E1 & E2). rewrite j_uri_unfold, E1, E2. reflexivity.
Qed.

(* ================================================================== B2. the text of Route headers on the grammar domain *)
(* what the judge reads in one header the model holds: the printed value, as j_header trims it
   after ": ", cut at the commas, each piece trimmed (both ends like strings.TrimSpace: SpecProxy.j_flat) *)
Definition hT (h : header) : list bytes :=
  map trim_space_go (split_byte ","%char (trim_space_go (" "%char :: hval_print (h_val h)))).
Definition tview (hs : list header) : list bytes := flat_map hT hs.

(* an element whose text does not begin with white space (ASCII or Unicode): no blank in front of
   the display name.  Then the text the judge reads for the element ([j_flat]: both ends of every entry
   trimmed like strings.TrimSpace, wherever the entry stands in its header value) IS [rp_relem r],
   which is how the statements below identify it ([trim_relem], [hT_good]).  (Before j_flat trimmed
   the left end of every entry that way the condition was needed for the verdict itself: an element
   that follows a comma may become the first of a re-encoded header, and header values are read
   through strings.TrimSpace.) *)
Definition lead_ok (r : a_relem) : bool := lstuck usp2 usp3 (rp_relem r).

Definition good_list (l : list a_relem) : Prop :=
  l <> [] /\ forallb wf_relem l = true /\ forallb lead_ok l = true /\ trim_space_go (rp_route l) = rp_route l.
Definition good_hdr (h : header) (l : list a_relem) : Prop :=
  good_list l /\ (h_val h = HRaw (rp_route l) \/ h_val h = HRoute (map embed_relem l)).
(* at most two Route headers are ever decoded: the first, and the second when the first held the own
   entry alone; all further headers are relayed untouched and may hold anything *)
Definition route_domain (hs : list header) : Prop :=
  match hs with
  | [] => True
  | h1 :: rest => (exists l1, good_hdr h1 l1) /\
                  match rest with h2 :: _ => exists l2, good_hdr h2 l2 | [] => True end
  end.

Lemma trim_space_fix s :
  match s with c :: _ => is_space c = false | [] => True end ->
  match rev s with c :: _ => is_space c = false | [] => True end -> trim_space s = s.
Proof.
  intros H1 H2. unfold trim_space, trim_right.
  rewrite (trim_left_fix s H1), (trim_left_fix (rev s) H2). apply rev_involutive.
Qed.
Lemma rev_head_nospace (A B : bytes) : B <> [] -> (forall c, In c B -> is_space c = false) ->
  match rev (A ++ B) with c :: _ => is_space c = false | [] => True end.
Proof.
  intros NE H. rewrite rev_app_distr. destruct (rev B) as [|c t] eqn:E.
  - apply (f_equal (@rev ascii)) in E. rewrite rev_involutive in E. contradiction.
  - cbn [app]. apply H. apply in_rev. rewrite E. left. reflexivity.
Qed.

(* the right end of the text of a well-formed element: '>' or a parameter tail that does not end with
   white space, ASCII ([wf_param]) or Unicode ([wf_relem]); TrimSpace leaves it alone *)
Lemma rclean_relem r : wf_relem r = true -> C07_bridge.rclean (rp_relem r).
Proof.
  intros W. destruct (wf_relem_parts r W) as [Hn Hps]. pose proof (wf_relem_tail r W) as NU.
  unfold rp_relem. rewrite rp_nameaddr_app.
  destruct (ar_params r) as [|p ps] eqn:EP.
  - cbn [rp_params flat_map]. apply C07_bridge.rclean_ascii_end; reflexivity.
  - change (rp_params (p :: ps)) with (";"%char :: (rp_param p ++ rp_params ps)) in *.
    set (X := rp_param p ++ rp_params ps) in *.
    assert (NX : X <> []).
    { cbn [forallb] in Hps. apply andb_true_iff in Hps. destruct Hps as [Hp _].
      apply C14_via.wf_param_inv in Hp. destruct Hp as (Hk & _). unfold X, rp_param.
      destruct (ap_key p) as [|k0 kr] eqn:EK; [exfalso; apply Hk; reflexivity|].
      destruct (ap_val p); discriminate. }
    replace ((an_display (ar_na r) ++ "<"%char :: rp_addr (an_addr (ar_na r))) ++ ">"%char :: ";"%char :: X)
      with (((an_display (ar_na r) ++ "<"%char :: rp_addr (an_addr (ar_na r))) ++ [">"%char]) ++ ";"%char :: X)
      by (rewrite <- app_assoc; reflexivity).
    apply (C07_bridge.rclean_sep X ";"%char [] _ NX eq_refl). cbn [app].
    unfold C07_bridge.rclean, lstuck. unfold ends_with_uspace in NU. rewrite NU.
    destruct (rev (";"%char :: X)) as [|c t] eqn:ER; [reflexivity|].
    cbn [negb]. rewrite andb_true_r. apply negb_true_iff. apply pm_char_nospace.
    pose proof (rp_params_pm _ Hps) as F. rewrite forallb_forall in F. apply F.
    change (In c (";"%char :: X)). apply in_rev. rewrite ER. left. reflexivity.
Qed.

Lemma trim_relem r : wf_relem r = true -> lead_ok r = true -> trim_space_go (rp_relem r) = rp_relem r.
Proof. intros W L. apply C07_bridge.trim_fix_iff. split; [exact L|exact (rclean_relem r W)]. Qed.

Lemma rp_relem_len r : wf_relem r = true -> (3 <= List.length (rp_relem r))%nat.
Proof.
  intros W. destruct (wf_relem_parts r W) as [Hn _]. destruct (wf_nameaddr_parts _ Hn) as [_ Ha].
  assert (NE : rp_addr (an_addr (ar_na r)) <> []).
  { destruct (an_addr (ar_na r)) as [u|s]; cbn [rp_addr wf_addr] in *.
    - rewrite rp_sipuri_eq. destruct (au_secure u); discriminate.
    - destruct (wf_other_parts s Ha) as (_ & I & _). intros ->. exact I. }
  unfold rp_relem, rp_nameaddr. rewrite !app_length. cbn [List.length]. rewrite app_length. cbn [List.length].
  destruct (rp_addr (an_addr (ar_na r))); [contradiction|]. cbn [List.length]. lia.
Qed.

Lemma lstuck_app3 p2 p3 a t : (3 <= List.length a)%nat -> lstuck p2 p3 a = true -> lstuck p2 p3 (a ++ t) = true.
Proof.
  destruct a as [|c [|c2 [|c3 r]]]; cbn [List.length]; try lia. intros _ H. exact H.
Qed.

Lemma tfix_suffix A c X :
  trim_space_go (A ++ c :: X) = A ++ c :: X -> lstuck usp2 usp3 X = true -> trim_space_go X = X.
Proof.
  intros W L. apply trim_space_go_fix.
  - apply lstuck_fix. exact L.
  - destruct (trim_space_go_fix_inv _ W) as [_ HR]. unfold trim_right_go, trim_left_go_r in *.
    assert (K : lstuck usp2r usp3r (rev (A ++ c :: X)) = true).
    { apply lstuck_of_fix. rewrite <- HR at 2. rewrite rev_involutive. reflexivity. }
    rewrite rev_app_distr in K. cbn [rev] in K. rewrite <- app_assoc in K.
    apply lstuck_prefix in K. rewrite (lstuck_fix _ _ _ K). apply rev_involutive.
Qed.

Lemma good_list_tl a b l : good_list (a :: b :: l) -> good_list (b :: l).
Proof.
  intros (_ & W & L & T). cbn [forallb] in W, L.
  apply andb_true_iff in W. destruct W as [_ W]. apply andb_true_iff in L. destruct L as [_ L].
  split; [discriminate|]. split; [exact W|]. split; [exact L|].
  unfold rp_route in *. cbn [map] in T. rewrite join_byte_cons2 in T by discriminate.
  apply (tfix_suffix _ _ _ T).
  cbn [forallb] in W, L. apply andb_true_iff in W. destruct W as [Wb _]. apply andb_true_iff in L. destruct L as [Lb _].
  destruct l as [|c l]; [exact Lb|]. cbn [map]. rewrite join_byte_cons2 by discriminate.
  apply lstuck_app3; [apply rp_relem_len, Wb|exact Lb].
Qed.

Lemma good_norm h rest l : good_hdr h l ->
  rnorm (h :: rest) = {| h_name := h_name h; h_val := HRoute (map embed_relem l) |} :: rest.
Proof.
  intros ((NE & W & _ & _) & [E|E]); unfold rnorm; rewrite E.
  - rewrite (parse_route_rp l NE W). reflexivity.
  - destruct h as [n v]. cbn in *. subst v. reflexivity.
Qed.

Lemma hT_good h l : good_hdr h l -> hT h = map rp_relem l.
Proof.
  intros ((NE & W & L & T) & E). unfold hT.
  assert (P : hval_print (h_val h) = rp_route l).
  { destruct E as [E|E]; rewrite E; cbn [hval_print]; [reflexivity|apply route_print_embed, W]. }
  rewrite P, trim_space_go_sp by reflexivity. rewrite T. unfold rp_route.
  rewrite split_join.
  - rewrite map_map. apply map_ext_in. intros r Ir. rewrite forallb_forall in W, L.
    apply trim_relem; [apply W, Ir|apply L, Ir].
  - destruct l; [contradiction|discriminate].
  - apply Forall_forall. intros s Hs. apply in_map_iff in Hs. destruct Hs as (r & <- & Hr).
    rewrite forallb_forall in W. apply rp_relem_no_comma, W, Hr.
Qed.
Lemma tview_good h rest l : good_hdr h l -> tview (h :: rest) = map rp_relem l ++ tview rest.
Proof. intros G. unfold tview. cbn [flat_map]. rewrite (hT_good h l G). reflexivity. Qed.

Lemma good_dec n l : good_list l -> good_hdr {| h_name := n; h_val := HRoute (map embed_relem l) |} l.
Proof. intros G. split; [exact G|right; reflexivity]. Qed.

Lemma step_next_good keep h rest l : good_hdr h l ->
  tview (step_next keep (h :: rest)) = (if keep then map rp_relem l else tl (map rp_relem l)) ++ tview rest.
Proof.
  intros G. unfold step_next. rewrite (good_norm h rest l G).
  destruct G as (GL & _). destruct l as [|a l]; [destruct GL as (NE & _); contradiction|].
  cbn [top_of h_val map]. destruct keep.
  - apply (tview_good _ rest (a :: l)), good_dec, GL.
  - cbn [pop_of h_val h_name tl]. destruct l as [|b l]; [reflexivity|].
    cbn [map]. apply (tview_good _ rest (b :: l)), good_dec, (good_list_tl a b l GL).
Qed.

Lemma step_own_good c from h rest a l : good_hdr h (a :: l) ->
  step_own c from (h :: rest) =
  if designates c from (embed_relem a)
  then match l with [] => rest | _ :: _ => {| h_name := h_name h; h_val := HRoute (map embed_relem l) |} :: rest end
  else {| h_name := h_name h; h_val := HRoute (map embed_relem (a :: l)) |} :: rest.
Proof.
  intros G. unfold step_own. rewrite (good_norm h rest (a :: l) G). cbn [top_of h_val map].
  destruct (designates c from (embed_relem a)); [|reflexivity].
  cbn [pop_of h_val h_name]. destruct l; reflexivity.
Qed.

(* the list the judge prescribes, computed from the entries it read in the received request *)
Definition j_expected (c : cfg) (lc : listen_cfg) (tcp : bool) (routes : list bytes) : list bytes :=
  let own := match routes with e :: _ => j_own c lc tcp e | [] => false end in
  let after_own := if own then tl routes else routes in
  match after_own with _ :: r => if c_keep_next_hop c then after_own else r | [] => [] end.

Theorem judge_expected : forall c lc tcp from hs,
  t_addr from = lc_addr lc -> t_port from = listener_port lc tcp -> route_domain hs ->
  tview (step_next (c_keep_next_hop c) (step_own c from hs)) = j_expected c lc tcp (tview hs).
Proof.
  intros c lc tcp from hs Ha Hp D. unfold j_expected.
  destruct hs as [|h1 rest]; [reflexivity|]. destruct D as ((l1 & G1) & D2).
  destruct l1 as [|a l1]; [destruct G1 as ((NE & _) & _); contradiction|].
  rewrite (step_own_good c from h1 rest a l1 G1), (tview_good h1 rest (a :: l1) G1). cbn [map app tl].
  assert (Wa : wf_relem a = true).
  { destruct G1 as ((_ & W & _) & _). cbn [forallb] in W. apply andb_true_iff in W. exact (proj1 W). }
  rewrite (own_agree c lc tcp from a Ha Hp Wa).
  destruct (designates c from (embed_relem a)).
  - destruct l1 as [|b l1].
    + cbn [map app]. destruct rest as [|h2 rest']; [reflexivity|]. destruct D2 as (l2 & G2).
      rewrite (step_next_good _ h2 rest' l2 G2), (tview_good h2 rest' l2 G2).
      destruct l2 as [|b l2]; [destruct G2 as ((NE & _) & _); contradiction|].
      cbn [map app tl]. destruct (c_keep_next_hop c); reflexivity.
    + destruct G1 as (GL & _).
      rewrite (step_next_good _ _ rest (b :: l1) (good_dec (h_name h1) _ (good_list_tl a b l1 GL))).
      cbn [map app tl]. destruct (c_keep_next_hop c); reflexivity.
  - destruct G1 as (GL & _).
    rewrite (step_next_good _ _ rest (a :: l1) (good_dec (h_name h1) _ GL)).
    cbn [map app tl]. destruct (c_keep_next_hop c); reflexivity.
Qed.

(* ================================================================== C. what the judge's reader sees *)
Lemma dj_Route_CL : disjoint_names (s2b "Route") (s2b "Content-Length").
Proof. solve_disj. Qed.

(* in an output: the Route entries the judge reads are the text of the model's Route headers *)
Lemma j_flat_emitted mo :
  j_flat is_route (map (fun h => jpair (hpair h)) (emitted_headers mo)) = tview (RS mo).
Proof.
  unfold emitted_headers, j_flat, j_entries, RS, tview, sel, is_cl_h. rewrite map_app, flat_map_app.
  cbn [map flat_map]. change (is_route (fst (jpair (hpair (cl_header mo))))) with false. cbv iota.
  cbn [app]. rewrite app_nil_r.
  induction (m_headers mo) as [|h r IH]; [reflexivity|].
  cbn [filter].
  destruct (same_header (h_name h) (s2b "Content-Length")) eqn:E; cbn [negb].
  - destruct (same_header (h_name h) (s2b "Route")) eqn:E2; [rewrite (dj_Route_CL _ E2) in E; discriminate|].
    exact IH.
  - cbn [map flat_map]. change (fst (jpair (hpair h))) with (h_name h).
    rewrite <- (same_header_route (h_name h)).
    destruct (same_header (h_name h) (s2b "Route")); cbn [flat_map app]; [|exact IH].
    rewrite IH. reflexivity.
Qed.

Lemma j_flat_output mo :
  line_safe mo -> start_ok (start_line_print (m_start mo)) ->
  (Z.of_nat (List.length (m_body mo)) <= int_max)%Z ->
  exists om, j_read (write_message mo) = Some om /\ j_flat is_route (jm_headers om) = tview (RS mo).
Proof.
  intros L S B. eexists. split; [apply C01_single_content_length_read; assumption|].
  cbn [jm_headers]. apply j_flat_emitted.
Qed.

(* in the input: every header line the judge reads is the header the model decoded, same name, same
   (TrimSpace'd) value *)
Definition hrel2 (p : bytes * bytes) (h : header) : Prop :=
  fst p = h_name h /\ h_val h = HRaw (snd p) /\ trim_space_go (snd p) = snd p.
Lemma header_line_rel2 line h : parse_header_line line = Ok h ->
  exists p, j_header line = Some p /\ hrel2 p h.
Proof.
  unfold parse_header_line, j_header. destruct (index_byte ":"%char line) as [pos|]; [|discriminate].
  intros H. inversion H; subst. eexists. split; [reflexivity|]. unfold hrel2. cbn [fst snd h_name h_val].
  split; [reflexivity|split; [reflexivity|apply trim_space_go_idem]].
Qed.
Lemma j_headers_rel2 jl hl : Forall2 (fun line h => parse_header_line line = Ok h) jl hl ->
  forall jhs, j_headers jl = Some jhs -> Forall2 hrel2 jhs hl.
Proof.
  induction 1 as [|line h jl hl Ph F IH]; intros jhs J; cbn [j_headers] in J.
  - inversion J. constructor.
  - destruct (header_line_rel2 _ _ Ph) as (p & Hj & R). rewrite Hj in J.
    destruct (j_headers jl) as [r|]; [|discriminate J]. inversion J; subst.
    constructor; [exact R|exact (IH _ eq_refl)].
Qed.

Lemma read_headers_agree b jin m rest :
  j_read b = Some jin -> parse_message b = Ok (m, rest) -> Forall2 hrel2 (jm_headers jin) (m_headers m).
Proof.
  unfold j_read, parse_message. intros J P.
  set (s := trim_left b) in *. clearbody s.
  cbn [j_lines] in J.
  destruct (index_byte jLF s) as [i|] eqn:Ei; [|discriminate J].
  rewrite (read_line_index _ _ Ei) in P.
  destruct (j_strip_cr (firstn i s)) as [|c l] eqn:El.
  { change (rev (@nil bytes)) with (@nil bytes) in J. cbv beta iota in J. discriminate J. }
  cbv beta iota in J. cbv beta iota in P.
  match type of J with context [j_lines ?f ?r ?a] =>
    destruct (j_lines f r a) as [[ls jrest]|] eqn:JL end; [|discriminate J].
  destruct (parse_start_line (c :: l)) as [st| |] eqn:PS; try discriminate P. cbn [rbind] in P.
  match type of P with context [parse_headers ?f ?r []] =>
    destruct (parse_headers f r []) as [[hs rest1]| |] eqn:PH end; try discriminate P.
  cbn [rbind] in P. cbv beta iota in P.
  destruct (lines_sim _ _ _ _ _ _ _ _ _ JL PH) as (jl & hl & E1 & E2 & F & Er).
  cbn [rev app] in E1, E2. subst ls hs jrest. cbv beta iota in J.
  destruct (j_headers jl) as [jhs|] eqn:JH; [|discriminate J].
  pose proof (j_headers_rel2 _ _ F _ JH) as R.
  match type of P with context [get_header_int ?n ?mm] =>
    destruct (get_header_int n mm) as [cl| |] eqn:G end; try discriminate P.
  cbn [rbind] in P.
  destruct (Z.ltb cl 0); [discriminate P|]. destruct (Z.ltb _ cl); [discriminate P|].
  inversion P; subst m rest. cbv zeta in J. inversion J; subst jin.
  cbn [jm_headers m_headers]. exact R.
Qed.

Lemma j_flat_input jhs hl : Forall2 hrel2 jhs hl -> j_flat is_route jhs = tview (sel (s2b "Route") hl).
Proof.
  induction 1 as [|p h jhs hl (En & Ev & Et) F IH]; [reflexivity|].
  unfold j_flat, j_entries, tview, sel in *. cbn [flat_map filter]. rewrite En, <- (same_header_route (h_name h)).
  destruct (same_header (h_name h) (s2b "Route")); [|exact IH].
  cbn [flat_map]. rewrite IH. f_equal. unfold hT. rewrite Ev. cbn [hval_print].
  rewrite trim_space_go_sp by reflexivity. rewrite Et. reflexivity.
Qed.
Lemma raw_trimmed_of_rel jhs hl : Forall2 hrel2 jhs hl ->
  Forall (fun h => forall v, h_val h = HRaw v -> trim_space_go v = v) hl.
Proof.
  induction 1 as [|p h jhs hl (_ & Ev & Et) F IH]; constructor; [|exact IH].
  intros v E. rewrite Ev in E. injection E as <-. exact Et.
Qed.

(* ------------------------------------------------------------------ the domain, on the received message *)
(* the value of the header is the reference rendering of a non-empty list of well-formed elements
   none of which begins with white space *)
Definition in_grammar (h : header) : Prop :=
  exists l, l <> [] /\ forallb wf_relem l = true /\ forallb lead_ok l = true /\ h_val h = HRaw (rp_route l).
(* the first two Route headers (comma lists of any length, or one entry per line); any further
   Route header may hold anything *)
Definition route_domain_in (hs : list header) : Prop :=
  match hs with
  | [] => True
  | h1 :: rest => in_grammar h1 /\ match rest with h2 :: _ => in_grammar h2 | [] => True end
  end.
Lemma domain_in_good hs :
  Forall (fun h => forall v, h_val h = HRaw v -> trim_space_go v = v) hs -> route_domain_in hs -> route_domain hs.
Proof.
  assert (K : forall h, (forall v, h_val h = HRaw v -> trim_space_go v = v) -> in_grammar h -> exists l, good_hdr h l).
  { intros h T (l & NE & W & L & E). exists l.
    split; [split; [exact NE|split; [exact W|split; [exact L|apply T, E]]]|left; exact E]. }
  intros F D. destruct hs as [|h1 [|h2 r]]; cbn [route_domain_in route_domain] in *; [exact I| |].
  - inversion F as [|? ? T1 _]; subst. split; [apply K; tauto|exact I].
  - inversion F as [|? ? T1 F']; subst. inversion F' as [|? ? T2 _]; subst.
    destruct D as (D1 & D2). split; apply K; assumption.
Qed.

(* ------------------------------------------------------------------ the outputs as RunProxy prints them *)
Definition labelled (o : output) : bytes * bytes :=
  (label_of (fst o), match fst o with DDial _ _ c => e_nat c | _ => snd o end).
Lemma labelled_e_output o : e_output o = [fst (labelled o); snd (labelled o)].
Proof. destruct o as [[ip p|c|ip p c] b]; reflexivity. Qed.
Lemma is_dial_labelled o : is_dial (labelled o) = negb (is_msg o).
Proof. destruct o as [[ip p|c|ip p c] b]; reflexivity. Qed.
Lemma msgs_of_labelled l : msgs_of (map labelled l) = map labelled (filter is_msg l).
Proof.
  induction l as [|o l IH]; [reflexivity|]. unfold msgs_of in *. cbn [map filter].
  rewrite is_dial_labelled. destruct (is_msg o); cbn [negb map]; rewrite IH; reflexivity.
Qed.
Lemma first_nonzero_zero {A} (f : A -> nat) l : (forall a, In a l -> f a = 0%nat) -> first_nonzero (map f l) = 0%nat.
Proof.
  induction l as [|a l IH]; intros H; [reflexivity|]. cbn [map first_nonzero].
  rewrite (H a (or_introl eq_refl)). apply IH. intros b I. apply H. right. exact I.
Qed.
Lemma combine_beq_refl l : forallb (fun '(a, b) => beq a b) (combine l l) = true.
Proof. induction l as [|a l IH]; [reflexivity|]. cbn [combine forallb]. rewrite beq_refl, IH. reflexivity. Qed.
Lemma forall_exists_list {A B} (Q : A -> B -> Prop) l : (forall a, In a l -> exists b, Q a b) -> exists bs, Forall2 Q l bs.
Proof.
  induction l as [|a l IH]; intros H; [exists []; constructor|].
  destruct (H a (or_introl eq_refl)) as [b Hb]. destruct IH as [bs Hbs]; [intros a' I; apply H; right; exact I|].
  exists (b :: bs). constructor; assumption.
Qed.
Lemma forall2_pick {A B} (Q : A -> B -> Prop) (P : B -> Prop) l bs :
  Forall2 Q l bs -> Forall P bs -> forall a, In a l -> exists b, Q a b /\ P b.
Proof.
  induction 1 as [|a b l bs Hab F IH]; intros FP a0 I; [destruct I|]. inversion FP; subst.
  destruct I as [<-|I]; [eauto|apply IH; assumption].
Qed.

(* the judge on a datagram, unfolded *)
Definition check_out (expected : list bytes) (o : bytes * bytes) : nat :=
  match j_read (snd o) with
  | Some om => if Nat.eqb (List.length (j_flat is_route (jm_headers om))) (List.length expected) &&
                  forallb (fun '(a, b) => beq a b) (combine (j_flat is_route (jm_headers om)) expected)
               then O else 1%nat
  | None => O
  end.
Lemma judge_C13_udp_unfold pc st li src sport data outs closed jin lc :
  j_read data = Some jin -> nth_opt (c_listens (pc_cfg pc)) li = Some lc ->
  judge_C13_event pc st (EvUdp li src sport data) outs closed =
  if jm_has_cl jin then
    match j_request jin with
    | Some q => if all_sip (jq_routes q)
                then first_nonzero (map (check_out (j_expected (pc_cfg pc) lc false (jq_routes q))) (msgs_of outs))
                else O
    | None => O
    end
  else O.
Proof.
  intros J N. unfold judge_C13_event. cbv beta iota zeta delta [j_input ji_data ji_li ji_tcp].
  rewrite J, N. cbv beta iota. cbn [negb orb]. rewrite andb_true_r. reflexivity.
Qed.
Lemma j_request_routes jin q : j_request jin = Some q -> jq_routes q = j_flat is_route (jm_headers jin).
Proof.
  unfold j_request. destruct (j_is_response jin); [discriminate|].
  destruct (fields (jm_start jin)) as [|a [|b [|c [|d l]]]]; try discriminate.
  intros H. injection H as <-. reflexivity.
Qed.

(* ================================================================== D. the bridge *)
Definition udp_transport (lc : listen_cfg) : stransport :=
  {| t_kind := KUdp; t_addr := lc_addr lc; t_port := lc_udp lc |}.

(* [o] carries the serialisation of [mo], which has the start line and body of the request [m] and the
   Route headers of [m] after the two route steps *)
Definition relayed_as (pc : proxy_case) (lc : listen_cfg) (m : message) (o : output) (mo : message) : Prop :=
  snd o = write_message mo /\
  routed (fun hs => step_next (c_keep_next_hop (pc_cfg pc)) (step_own (pc_cfg pc) (udp_transport lc) hs)) m mo.

(* JUDGE SIDE.  Whatever list of outputs [pre] is observed for the datagram: if its byte-carrying
   outputs are serialisations of messages that carry the Route headers the model prescribes and are
   line_safe (C01: no ':' / LF in a header name, no LF in a printed header value, so that the judge's
   line reader splits the text where the line ends were put), the executable judge accepts. *)
Theorem C13_judge_accepts :
  forall pc st li lc src sport data closed jin m rest pre mos,
  nth_opt (c_listens (pc_cfg pc)) li = Some lc ->
  j_read data = Some jin -> parse_message data = Ok (m, rest) ->
  start_ok (start_line_print (m_start m)) ->
  route_domain_in (RS m) ->
  Forall2 (relayed_as pc lc m) (filter is_msg pre) mos -> Forall line_safe mos ->
  forall vis, judge_C13_event pc st (EvUdp li src sport data) (map labelled (filter vis pre)) closed = 0%nat.
Proof.
  intros pc st li lc src sport data closed jin m rest pre mos N J P Sok Dom F2 LS vis.
  pose proof (read_headers_agree _ _ _ _ J P) as HR.
  destruct (read_agree _ _ _ _ J P) as (_ & _ & _ & Bd & _).
  rewrite (judge_C13_udp_unfold pc st li src sport data _ closed jin lc J N).
  destruct (jm_has_cl jin); [|reflexivity].
  destruct (j_request jin) as [q|] eqn:Q; [|reflexivity].
  destruct (all_sip (jq_routes q)); [|reflexivity].
  rewrite msgs_of_labelled. apply first_nonzero_zero. intros lo Ilo.
  apply in_map_iff in Ilo. destruct Ilo as (o & <- & Io).
  apply filter_In in Io. destruct Io as [Io Mo]. apply filter_In in Io. destruct Io as [Io _].
  assert (Iof : In o (filter is_msg pre)) by (apply filter_In; split; assumption).
  destruct (forall2_pick _ line_safe _ _ F2 LS o Iof) as (mo & (B & RT & St & Bo) & Lmo).
  unfold check_out.
  replace (snd (labelled o)) with (snd o) by (destruct o as [[ip p|c|ip p c] b]; [reflexivity|reflexivity|discriminate Mo]).
  rewrite B.
  destruct (j_flat_output mo Lmo) as (om & -> & Fl); [rewrite St; exact Sok|rewrite Bo; exact Bd|].
  rewrite Fl, RT.
  rewrite (judge_expected (pc_cfg pc) lc false (udp_transport lc) (RS m) eq_refl eq_refl).
  2:{ apply domain_in_good; [|exact Dom]. unfold RS, sel.
      pose proof (raw_trimmed_of_rel _ _ HR) as T. rewrite Forall_forall in *.
      intros h Ih. apply filter_In in Ih. apply T, Ih. }
  rewrite (j_request_routes _ _ Q), (j_flat_input _ _ HR). fold (RS m).
  rewrite Nat.eqb_refl, combine_beq_refl. reflexivity.
Qed.

(* FULL STATEMENT AIMED AT: judge_C13_event pc st (EvUdp li src sport data) (labelled outputs of the
   event) closed = 0 with conditions on the input only: that is C13_judge_bridge_udp in part E below
   (it needs the LF-freeness facts of proofs/C07_bridge.v).  This _partial form needs nothing beyond
   C01 / C13 / C14 and proves: (a) MODEL SIDE, unconditionally: the byte-carrying
   outputs (at most one) are serialisations of messages [mos] with the start line and body of the
   request and the Route HEADERS computed by step_own / step_next; (b) JUDGE SIDE: for EVERY such
   decomposition of the outputs that is line_safe the judge answers 0.  The gap between (a) and the
   full statement is line_safe for the model's own messages: it cannot hold without hypotheses on the
   source address, the configured addresses, the branch and the learned table (their bytes are
   copied into the Via / Record-Route the proxy adds or stamps), and the development has no
   LF-freeness theorem for the Via / From / To / CSeq printers (same situation as C01_judge_relay). *)
Theorem C13_judge_bridge_udp_partial :
  forall pc st li lc src sport data closed jin m rest e rs x x',
  nth_opt (c_listens (pc_cfg pc)) li = Some lc -> e_cfg e = pc_cfg pc ->
  j_read data = Some jin -> parse_message data = Ok (m, rest) ->
  is_request m = true ->
  start_ok (start_line_print (m_start m)) ->
  route_domain_in (RS m) ->
  process_message e src sport (udp_transport lc) rs None m x = Ok x' ->
  exists pre, x_outs x' = x_outs x ++ pre /\ (msg_count pre <= 1)%nat /\
    (exists mos, Forall2 (relayed_as pc lc m) (filter is_msg pre) mos) /\
    (forall mos, Forall2 (relayed_as pc lc m) (filter is_msg pre) mos -> Forall line_safe mos ->
     forall vis, judge_C13_event pc st (EvUdp li src sport data) (map labelled (filter vis pre)) closed = 0%nat).
Proof.
  intros pc st li lc src sport data closed jin m rest e rs x x' N He J P R Sok Dom H.
  destruct (C13_route_headers e src sport (udp_transport lc) rs None m x x' R H) as (pre & O & C & W).
  rewrite He in W. exists pre. split; [exact O|]. split; [exact C|]. split.
  - apply forall_exists_list. intros o I. apply filter_In in I. destruct I as [I M]. exact (W o I M).
  - intros mos F2 LS vis.
    exact (C13_judge_accepts pc st li lc src sport data closed jin m rest pre mos N J P Sok Dom F2 LS vis).
Qed.

(* the same for one step of the whole proxy on a datagram: [outs] is what RunProxy prints for the
   event (through [labelled] = e_output, restricted by [vis] to the destinations the driver can observe) *)
Corollary C13_judge_bridge_step_partial :
  forall pc st fx now branch stt stt' outs li lc src sport data closed jin m rest,
  nth_opt (c_listens (pc_cfg pc)) li = Some lc ->
  j_read data = Some jin -> parse_message data = Ok (m, rest) ->
  is_request m = true ->
  start_ok (start_line_print (m_start m)) ->
  route_domain_in (RS m) ->
  proxy_step fx (pc_cfg pc) now branch stt (EvUdp li src sport data) = Ok (stt', outs) ->
  (msg_count outs <= 1)%nat /\
  (exists mos, Forall2 (relayed_as pc lc m) (filter is_msg outs) mos) /\
  (forall mos, Forall2 (relayed_as pc lc m) (filter is_msg outs) mos -> Forall line_safe mos ->
   forall vis, judge_C13_event pc st (EvUdp li src sport data) (map labelled (filter vis outs)) closed = 0%nat).
Proof.
  intros pc st fx now branch stt stt' outs li lc src sport data closed jin m rest N J P R Sok Dom H.
  split; [|split].
  3:{ intros mos F2 LS vis.
      exact (C13_judge_accepts pc st li lc src sport data closed jin m rest outs mos N J P Sok Dom F2 LS vis). }
  all: unfold proxy_step in H; rewrite N, P in H; unfold run_ctx in H;
    destruct (nth_p (st_proxies stt) li) as [p|];
    [|injection H as _ <-; first [apply Nat.le_0_l|exists []; constructor]].
  all: match type of H with context [process_message ?e ?a ?b ?f ?r ?t ?mm ?xx] =>
      destruct (process_message e a b f r t mm xx) as [x'| |] eqn:PM; try discriminate H;
      destruct (C13_judge_bridge_udp_partial pc st li lc src sport data closed jin m rest e r xx x' N eq_refl J P R Sok Dom PM)
        as (pre & O & C & F2 & _) end;
    cbn [x_outs app] in O; injection H as _ <-; rewrite O; assumption.
Qed.

(* ================================================================== E. the unconditional bridge *)
(* proofs/C07_bridge.v carries an invariant [good] (every header line stays a line: names without
   ':' / LF, printed values without LF, Via entries of the grammar) along process_message and proves
   good -> C01.line_safe.  Here the same invariant is carried along the pipeline TOGETHER with the
   Route headers of part A, for one and the same witness message: that closes the gap of the
   _partial theorems under input-side conditions only. *)
Module B7 := C07_bridge.

Lemma forall2_and_r {A B} (Q : A -> B -> Prop) (P : B -> Prop) l bs :
  Forall2 (fun a b => Q a b /\ P b) l bs -> Forall2 Q l bs /\ Forall P bs.
Proof.
  induction 1 as [|a b l bs (Hq & Hp) F (IH1 & IH2)]; [split; constructor|].
  split; constructor; assumption.
Qed.

Lemma good_decorate e l host m :
  B7.learned_ok (e_branch e) l -> B7.good m -> B7.good (decorate e l host m).
Proof.
  intros HL G. unfold decorate. destruct (alookup host l) as [t|] eqn:A; [|exact G].
  apply B7.good_pushed; [exact (HL _ _ A)|exact G].
Qed.

(* a datagram carrying a request, up to tryRemoveTopRoute: Route headers untouched, [good] kept,
   the learned table still made of readable transports *)
Lemma pm_request_good e peer pp from rs m0 x x' :
  is_request m0 = true -> B7.good m0 -> B7.src_ok peer -> B7.t_ok (e_branch e) from ->
  B7.learned_ok (e_branch e) (x_learned x) ->
  process_message e peer pp from rs None m0 x = Ok x' ->
  exists m3, frame (s2b "Route") m0 m3 /\ B7.good m3 /\
    B7.learned_ok (e_branch e) (learned_after peer from m0 x) /\
    x' = fst (handle_message e from (fst (mtry (try_remove_top_route (e_cfg e) from) m3))
                {| x_learned := learned_after peer from m0 x; x_p := x_p x; x_conns := x_conns x;
                   x_world := x_world x; x_outs := x_outs x |}).
Proof.
  intros R G0 Hs Hf HL. rewrite process_message_unfold.
  destruct (pm_learn_spec peer from m0 x) as (L & F1).
  assert (GL : B7.good (fst (pm_learn peer from m0 x)) /\
               B7.learned_ok (e_branch e) (snd (pm_learn peer from m0 x))).
  { unfold pm_learn. destruct (is_request m0 && negb (amem peer (ps_backends (x_p x))))%bool; [|split; assumption].
    pose proof (B7.gpres_s_all_via_params m0 G0) as GA.
    destruct (s_all_via_params m0) as [m' vs]. cbn [fst snd] in *. split; [exact GA|].
    apply B7.learned_ok_fold; [exact Hf|]. apply B7.learned_ok_learn; assumption. }
  destruct (pm_learn peer from m0 x) as [m1 l1]. cbn [fst snd] in L, F1, GL. subst l1.
  destruct GL as (G1 & HL1). cbv zeta.
  set (m2 := if (is_request m1 && rs)%bool then fst (s_set_received peer pp m1) else m1).
  assert (F2 : frame (s2b "Route") m1 m2 /\ B7.good m2).
  { subst m2. destruct (is_request m1 && rs)%bool; [|split; [apply frame_refl|exact G1]].
    split; [apply (mframe_set_received _ dj_Route_Via)|apply B7.gpres_s_set_received; assumption]. }
  destruct F2 as (F2 & G2).
  assert (F02 : frame (s2b "Route") m0 m2) by (eapply frame_trans; [apply F1; exact dj_Route_Via|exact F2]).
  change (pm_conn e None m2 x) with (m2, Ok (x_p x)). cbv beta iota.
  intros H. unfold pm_tail in H. cbv zeta in H.
  set (m4 := fst (mtry (try_remove_top_route (e_cfg e) from) m2)) in *.
  assert (R4 : is_response m4 = false).
  { unfold is_response. replace (is_request m4) with true; [reflexivity|]. symmetry.
    rewrite (frame_request (s2b "To") m2 m4)
      by (apply (mframe_try _ _ (mframe_try_remove_top_route _ _ _ dj_To_Route))).
    rewrite (frame_request _ _ _ F02). exact R. }
  rewrite R4 in H. injection H as <-. exists m2.
  split; [exact F02|]. split; [exact G2|]. split; [exact HL1|reflexivity].
Qed.

(* part A and the invariant of C07_bridge for the same witness *)
Theorem C13_route_headers_good : forall e peer pp from rs m0 x x',
  is_request m0 = true -> B7.good m0 -> B7.src_ok peer -> B7.t_ok (e_branch e) from ->
  B7.learned_ok (e_branch e) (x_learned x) ->
  (forall t0, first_transport (e_lc e) = Some t0 -> B7.t_ok (e_branch e) t0) ->
  process_message e peer pp from rs None m0 x = Ok x' ->
  exists extra, x_outs x' = x_outs x ++ extra /\ (msg_count extra <= 1)%nat /\
    forall o, In o extra -> is_msg o = true ->
      exists mo, snd o = write_message mo /\ B7.good mo /\
                 routed (fun hs => step_next (c_keep_next_hop (e_cfg e)) (step_own (e_cfg e) from hs)) m0 mo.
Proof.
  intros e peer pp from rs m0 x x' R G0 Hs Hf HL HF H.
  destruct (pm_request_good _ _ _ _ _ _ _ _ R G0 Hs Hf HL H) as (m3 & F & G3 & HL1 & ->).
  set (m4 := fst (mtry (try_remove_top_route (e_cfg e) from) m3)).
  assert (R4 : is_request m4 = true).
  { rewrite (frame_request (s2b "To") m3 m4 (mframe_try _ _ (mframe_try_remove_top_route _ (e_cfg e) from dj_To_Route) m3)).
    rewrite (frame_request _ _ _ F). exact R. }
  assert (G4 : B7.good m4) by (exact (B7.gpres_mtry _ (B7.gpres_try_remove_top_route (e_cfg e) from) m3 G3)).
  rewrite (handle_message_request e from m4 _ R4). cbn [x_learned].
  pose proof (next_request_hop_RS (c_keep_next_hop (e_cfg e)) (route_table_of (e_cfg e)) m4) as NR.
  pose proof (B7.gpres_next_request_hop (c_keep_next_hop (e_cfg e)) (route_table_of (e_cfg e)) m4 G4) as G1.
  destruct (next_request_hop _ _ m4) as [m1 r]. cbn [fst] in NR, G1.
  set (x1 := {| x_learned := learned_after peer from m0 x; x_p := x_p x; x_conns := x_conns x;
                x_world := x_world x; x_outs := x_outs x |}).
  assert (V1 : routed (fun hs => step_next (c_keep_next_hop (e_cfg e)) (step_own (e_cfg e) from hs)) m0 m1).
  { eapply routed_frame_l; [exact F|].
    exact (routed_comp _ _ _ _ _ (try_remove_RS (e_cfg e) from m3) NR). }
  assert (SB : let r := (if is_my_message (new_my_name (c_name (e_cfg e))) from m1 then send_to_backend e m1 x1
                         else (x1, m1)) in
               exists extra, x_outs (fst r) = x_outs x ++ extra /\ (msg_count extra <= 1)%nat /\
                 forall o, In o extra -> is_msg o = true ->
                   exists mo, snd o = write_message mo /\ B7.good mo /\ frame (s2b "Route") m1 mo).
  { cbv zeta. destruct (is_my_message _ from m1).
    2:{ exists []. rewrite app_nil_r. split; [reflexivity|]. split; [apply Nat.le_0_l|]. intros o []. }
    destruct (send_to_backend_shape e m1 x1) as (_ & extra & O & D). exists extra. split; [exact O|].
    destruct D as [->|(t0 & a & d & FT & _ & -> & _)].
    - split; [apply Nat.le_0_l|]. intros o [].
    - split; [unfold msg_count; cbn [filter]; destruct (is_msg _); cbn [List.length]; lia|].
      intros o [<-|[]] _. eexists. split; [reflexivity|]. unfold backend_message. split.
      + apply B7.good_pushed; [exact (HF t0 FT)|].
        exact (B7.gpres_find_backend_by_dialog e (x_p x1) m1 G1).
      + change (px_add_record_route (pa_must_rr (wire_proxy (e_lc e))) t0
                  (px_add_via e t0 (fst (find_backend_by_dialog e (x_p x1) m1))))
          with (decorate e [(s2b "h", t0)] (s2b "h") (fst (find_backend_by_dialog e (x_p x1) m1))).
        eapply frame_trans; [|apply frame_decorate].
        apply (mframe_find_backend_by_dialog _ dj_Route_CSeq dj_Route_From dj_Route_To). }
  assert (FIN : forall extra,
            (forall o, In o extra -> is_msg o = true ->
               exists mo, snd o = write_message mo /\ B7.good mo /\ frame (s2b "Route") m1 mo) ->
            forall o, In o extra -> is_msg o = true ->
              exists mo, snd o = write_message mo /\ B7.good mo /\
                routed (fun hs => step_next (c_keep_next_hop (e_cfg e)) (step_own (e_cfg e) from hs)) m0 mo).
  { intros extra W o Io Mo. destruct (W o Io Mo) as (mo & B & Gm & Fr). exists mo. split; [exact B|].
    split; [exact Gm|]. exact (routed_frame_r _ _ _ _ V1 Fr). }
  destruct r as [[[host port] transport]| |].
  2,3: cbv zeta in SB; destruct SB as (extra & O & C & W); exists extra; split; [exact O|]; split; [exact C|];
       exact (FIN extra W).
  destruct (send_message_shape e host port transport (decorate e (x_learned x1) host m1) x1)
    as (Sm & _ & extra & O & (C & Fo) & _).
  exists extra. split; [exact O|]. split; [exact C|]. apply FIN. intros o Io Mo.
  rewrite Forall_forall in Fo.
  exists (snd (send_message e host port transport (decorate e (x_learned x1) host m1) x1)).
  split; [exact (Fo o Io Mo)|]. rewrite Sm. split.
  - apply (B7.gpres_mtry _ B7.gpres_s_client_transaction). apply good_decorate; [exact HL1|exact G1].
  - eapply frame_trans; [apply frame_decorate|].
    apply (mframe_try _ _ (mframe_client_transaction _ dj_Route_Via dj_Route_CSeq) _).
Qed.

(* THE BRIDGE, process_message level.  Conditions on the input side only:
     route_domain_in (RS m)   the first two Route headers are reference renderings (C14 grammar) of
                              non-empty lists of well-formed elements that do not begin with white space
     B7.via_domain m          the Via header values are reference renderings of well-formed entry lists
     B7.src_ok src            the source address is ASCII without separators of the Via grammar
     B7.branch_ok, safe1 (lc_addr lc), port ranges, learned transports: the proxy's own Via /
                              Record-Route entries are lines *)
Theorem C13_judge_bridge_udp :
  forall pc st li lc src sport data closed jin m rest e rs x x',
  nth_opt (c_listens (pc_cfg pc)) li = Some lc -> e_cfg e = pc_cfg pc -> e_lc e = lc ->
  j_read data = Some jin -> parse_message data = Ok (m, rest) ->
  is_request m = true ->
  route_domain_in (RS m) ->
  B7.via_domain m -> B7.src_ok src -> B7.branch_ok (e_branch e) ->
  safe1 (lc_addr lc) = true -> (0 <= lc_udp lc <= 65535)%Z -> (0 <= lc_tcp lc <= 65535)%Z ->
  (forall h t, alookup h (x_learned x) = Some t -> safe1 (t_addr t) = true /\ (0 <= t_port t <= 65535)%Z) ->
  process_message e src sport (udp_transport lc) rs None m x = Ok x' ->
  exists pre, x_outs x' = x_outs x ++ pre /\ (msg_count pre <= 1)%nat /\
    forall vis, judge_C13_event pc st (EvUdp li src sport data) (map labelled (filter vis pre)) closed = 0%nat.
Proof.
  intros pc st li lc src sport data closed jin m rest e rs x x' N He Hlc J P R Dom HV Hsrc Hbr Ha Hu Ht HLn H.
  destruct (read_agree _ _ _ _ J P) as (_ & _ & _ & _ & PS).
  destruct (B7.read_agree_all _ _ _ _ J P) as (_ & PR).
  assert (G0 : B7.good m) by (apply B7.good_of_parse; assumption).
  assert (Sok : start_ok (start_line_print (m_start m))).
  { unfold is_request in R. destruct (m_start m) as [meth uri ver|] eqn:Em; [|discriminate R].
    exact (B7.request_line_ok _ _ _ _ PS). }
  assert (Hfrom : B7.t_ok (e_branch e) (udp_transport lc)) by (apply B7.t_ok_intro; assumption).
  assert (HL : B7.learned_ok (e_branch e) (x_learned x)).
  { intros h t A. destruct (HLn h t A) as [A1 A2]. apply B7.t_ok_intro; assumption. }
  assert (HF : forall t0, first_transport (e_lc e) = Some t0 -> B7.t_ok (e_branch e) t0).
  { intros t0 E0. unfold first_transport in E0. rewrite Hlc in E0.
    destruct (Z.ltb 0 (lc_udp lc)); [injection E0 as <-; apply B7.t_ok_intro; assumption|].
    destruct (Z.ltb 0 (lc_tcp lc)); [injection E0 as <-; apply B7.t_ok_intro; assumption|discriminate E0]. }
  destruct (C13_route_headers_good e src sport (udp_transport lc) rs m x x' R G0 Hsrc Hfrom HL HF H)
    as (pre & O & C & W).
  rewrite He in W. exists pre. split; [exact O|]. split; [exact C|]. intros vis.
  destruct (forall_exists_list (fun o mo => relayed_as pc lc m o mo /\ line_safe mo) (filter is_msg pre))
    as (mos & F2).
  { intros o I. apply filter_In in I. destruct I as [I M]. destruct (W o I M) as (mo & B & Gm & Rt).
    exists mo. split; [split; assumption|apply B7.good_line_safe; exact Gm]. }
  destruct (forall2_and_r _ _ _ _ F2) as (F2a & F2b).
  exact (C13_judge_accepts pc st li lc src sport data closed jin m rest pre mos N J P Sok Dom F2a F2b vis).
Qed.

(* ... and for one step of the whole proxy on a datagram: [outs] is what RunProxy prints for the event
   (through [labelled] = e_output; [vis] = the destinations the driver observes) *)
Corollary C13_judge_bridge_step :
  forall pc stj fx now br st st' outs li lc src sport data closed jin m rest,
  nth_opt (c_listens (pc_cfg pc)) li = Some lc ->
  j_read data = Some jin -> parse_message data = Ok (m, rest) ->
  is_request m = true ->
  route_domain_in (RS m) ->
  B7.via_domain m -> B7.src_ok src -> B7.branch_ok br ->
  safe1 (lc_addr lc) = true -> (0 <= lc_udp lc <= 65535)%Z -> (0 <= lc_tcp lc <= 65535)%Z ->
  (forall h t, alookup h (st_learned st) = Some t -> safe1 (t_addr t) = true /\ (0 <= t_port t <= 65535)%Z) ->
  proxy_step fx (pc_cfg pc) now br st (EvUdp li src sport data) = Ok (st', outs) ->
  forall vis, judge_C13_event pc stj (EvUdp li src sport data) (map labelled (filter vis outs)) closed = 0%nat.
Proof.
  intros pc stj fx now br st st' outs li lc src sport data closed jin m rest N J P R Dom HV Hsrc Hbr Ha Hu Ht HLn H vis.
  unfold proxy_step in H. rewrite N, P in H. unfold run_ctx in H.
  destruct (nth_p (st_proxies st) li) as [p|].
  - match type of H with context [process_message ?e ?a ?b ?f ?r ?t ?mm ?xx] =>
      destruct (process_message e a b f r t mm xx) as [x'| |] eqn:PM; try discriminate H;
      destruct (C13_judge_bridge_udp pc stj li lc src sport data closed jin m rest e r xx x'
                  N eq_refl eq_refl J P R Dom HV Hsrc Hbr Ha Hu Ht HLn PM) as (pre & O & _ & K) end.
    cbn [x_outs app] in O. injection H as _ <-. rewrite O. apply K.
  - injection H as _ <-. rewrite (judge_C13_udp_unfold pc stj li src sport data _ closed jin lc J N).
    destruct (jm_has_cl jin); [|reflexivity]. destruct (j_request jin); [|reflexivity].
    destruct (all_sip _); reflexivity.
Qed.

(* ================================================================== concrete instance *)
(* a request with three Route entries in one comma list: the own entry (address and port of the
   receiving listener), the next hop, one more; keep-next-hop-route off *)
Definition b13_uri (host : string) (port : option Z) : a_addr :=
  AASip {| au_secure := false; au_user := None; au_host := s2b host; au_port := port;
           au_params := [{| ap_key := s2b "lr"; ap_val := None |}]; au_headers := [] |}.
Definition b13_elem (display host : string) (port : option Z) : a_relem :=
  {| ar_na := {| an_display := s2b display; an_addr := b13_uri host port |}; ar_params := [] |}.
Definition b13_routes : list a_relem :=
  [b13_elem "" "10.0.0.1" (Some 5060%Z); b13_elem "" "10.0.0.9" (Some 5070%Z); b13_elem """Far"" " "far.example.com" None].
Definition b13_req : bytes :=
  s2b "INVITE sip:bob@elsewhere.example SIP/2.0" ++ crlf ++
  s2b "Route: <sip:10.0.0.1:5060;lr>,<sip:10.0.0.9:5070;lr>,""Far"" <sip:far.example.com;lr>" ++ crlf ++ C01.ex_common.
Definition b13_pc : proxy_case :=
  {| pc_cfg := C01.ex_cfg; pc_tcp_listeners := [(s2b "10.0.0.7", 5080%Z)];
     pc_udp_endpoints := [(s2b "10.0.0.9", 5070%Z)]; pc_events := []; pc_waits := [] |}.
Definition b13_ev : event := EvUdp 0 (s2b "10.0.0.9") 5070%Z b13_req.
Definition b13_run : res (state * list output) :=
  proxy_step all_fixed (pc_cfg b13_pc) 1000 (branch_of 0) C01.ex_st b13_ev.
Definition b13_outs : list output := match b13_run with Ok (_, outs) => outs | _ => [] end.

Example b13_text : rp_route b13_routes =
  s2b "<sip:10.0.0.1:5060;lr>,<sip:10.0.0.9:5070;lr>,""Far"" <sip:far.example.com;lr>".
Proof. vm_compute. reflexivity. Qed.

Lemma notin_b c s : forallb (fun x => negb (Ascii.eqb x c)) s = true -> ~ In c s.
Proof.
  intros H I. rewrite forallb_forall in H. specialize (H c I). rewrite Ascii.eqb_refl in H. discriminate H.
Qed.

(* the hypotheses of the bridge hold *)
Example b13_hyp_listener : nth_opt (c_listens (pc_cfg b13_pc)) 0 = Some C01.ex_lc.
Proof. reflexivity. Qed.
Example b13_hyp_read :
  option_map (fun jin => (jm_has_cl jin, option_map (fun q => all_sip (jq_routes q)) (j_request jin))) (j_read b13_req)
  = Some (true, Some true).
Proof. vm_compute. reflexivity. Qed.
Example b13_hyp_parse : parse_message b13_req = Ok (parsed b13_req, []).
Proof. vm_compute. reflexivity. Qed.
Example b13_hyp_request : is_request (parsed b13_req) = true.
Proof. vm_compute. reflexivity. Qed.
Example b13_hyp_start : start_ok (start_line_print (m_start (parsed b13_req))).
Proof.
  split; [apply notin_b; vm_compute; reflexivity|].
  exists "I"%char, (skipn 1 (start_line_print (m_start (parsed b13_req)))).
  split; [vm_compute; reflexivity|reflexivity].
Qed.
Example b13_hyp_routes : route_domain_in (RS (parsed b13_req)).
Proof.
  assert (E : RS (parsed b13_req) = [{| h_name := s2b "Route"; h_val := HRaw (rp_route b13_routes) |}])
    by (vm_compute; reflexivity).
  rewrite E. cbn [route_domain_in]. split; [|exact I]. exists b13_routes.
  split; [discriminate|]. split; [vm_compute; reflexivity|]. split; [vm_compute; reflexivity|reflexivity].
Qed.

(* the run: one datagram to the next hop; it carries the third entry only (own entry and next hop
   consumed); the executable judge accepts what RunProxy prints for the event *)
Example b13_run_labels : map (fun o => fst (labelled o)) b13_outs = [s2b "udp:10.0.0.9:5070"].
Proof. vm_compute. reflexivity. Qed.
Example b13_run_routes :
  map (fun o => option_map (fun om => j_flat is_route (jm_headers om)) (j_read (snd o))) b13_outs
    = [Some [s2b """Far"" <sip:far.example.com;lr>"]].
Proof. vm_compute. reflexivity. Qed.
Example b13_run_judged :
  judge_C13_event b13_pc (js_init C01.ex_cfg) b13_ev
    (map labelled (filter (visible (pc_udp_endpoints b13_pc)) b13_outs)) [] = 0%nat.
Proof. vm_compute. reflexivity. Qed.

(* the theorem instantiated on the run *)
Example b13_theorem :
  (msg_count b13_outs <= 1)%nat /\
  (exists mos, Forall2 (relayed_as b13_pc C01.ex_lc (parsed b13_req)) (filter is_msg b13_outs) mos) /\
  (forall mos, Forall2 (relayed_as b13_pc C01.ex_lc (parsed b13_req)) (filter is_msg b13_outs) mos ->
     Forall line_safe mos ->
     forall vis, judge_C13_event b13_pc (js_init C01.ex_cfg) (EvUdp 0 (s2b "10.0.0.9") 5070%Z b13_req)
                   (map labelled (filter vis b13_outs)) [] = 0%nat).
Proof.
  destruct (j_read b13_req) as [jin|] eqn:J; [|vm_compute in J; discriminate J].
  assert (Hrun : exists s, proxy_step all_fixed (pc_cfg b13_pc) 1000 (branch_of 0) C01.ex_st
                             (EvUdp 0 (s2b "10.0.0.9") 5070%Z b13_req) = Ok (s, b13_outs)).
  { unfold b13_outs, b13_run, b13_ev.
    match goal with |- context [match ?X with Ok _ => _ | Err => _ | Panic => _ end] =>
      destruct X as [[s o]| |] eqn:E end;
      [exists s; reflexivity|vm_compute in E; discriminate E|vm_compute in E; discriminate E]. }
  destruct Hrun as (s & Hrun).
  exact (C13_judge_bridge_step_partial b13_pc (js_init C01.ex_cfg) all_fixed 1000%Z (branch_of 0) C01.ex_st s b13_outs
           0%nat C01.ex_lc (s2b "10.0.0.9") 5070%Z b13_req [] jin (parsed b13_req) []
           b13_hyp_listener J b13_hyp_parse b13_hyp_request b13_hyp_start b13_hyp_routes Hrun).
Qed.

(* the line_safe hypothesis is satisfiable on the run: a line_safe message with the prescribed Route
   headers serialises to the datagram that was sent, so the theorem yields the verdict 0 outright *)
Definition nb (c : ascii) (s : bytes) : bool := forallb (fun x => negb (Ascii.eqb x c)) s.
Definition line_safe_b (m : message) : bool :=
  forallb (fun h => nb ":"%char (h_name h) && nb jLF (h_name h) && nb jLF (hval_print (h_val h))) (m_headers m).
Lemma line_safe_b_sound m : line_safe_b m = true -> line_safe m.
Proof.
  unfold line_safe_b, line_safe. intros H. rewrite forallb_forall in H. apply Forall_forall. intros h I.
  specialize (H h I). apply andb_true_iff in H. destruct H as [H H3]. apply andb_true_iff in H. destruct H as [H1 H2].
  split; [apply notin_b, H1|split; [apply notin_b, H2|apply notin_b, H3]].
Qed.

Definition b13_o : output := hd (DConn 0, []) (filter is_msg b13_outs).
Definition b13_mo : message :=
  let p := parsed (snd b13_o) in
  with_headers p (map (fun h => if same_header (h_name h) (s2b "Route")
                                then {| h_name := h_name h; h_val := HRoute (map embed_relem (skipn 2 b13_routes)) |}
                                else h) (m_headers p)).
Example b13_witness :
  filter is_msg b13_outs = [b13_o] /\ relayed_as b13_pc C01.ex_lc (parsed b13_req) b13_o b13_mo /\
  line_safe b13_mo.
Proof.
  split; [vm_compute; reflexivity|]. split.
  - split; [vm_compute; reflexivity|]. split; [vm_compute; reflexivity|]. split; vm_compute; reflexivity.
  - apply line_safe_b_sound. vm_compute. reflexivity.
Qed.
Example b13_accepted_by_theorem :
  forall vis, judge_C13_event b13_pc (js_init C01.ex_cfg) (EvUdp 0 (s2b "10.0.0.9") 5070%Z b13_req)
                (map labelled (filter vis b13_outs)) [] = 0%nat.
Proof.
  destruct b13_theorem as (_ & _ & K). destruct b13_witness as (E & Rl & Ls).
  apply (K [b13_mo]).
  - rewrite E. constructor; [exact Rl|constructor].
  - constructor; [exact Ls|constructor].
Qed.

(* the unconditional bridge instantiated on the run: every condition is on the input side and holds *)
Example b13_accepted_unconditionally :
  forall vis, judge_C13_event b13_pc (js_init C01.ex_cfg) (EvUdp 0 (s2b "10.0.0.9") 5070%Z b13_req)
                (map labelled (filter vis b13_outs)) [] = 0%nat.
Proof.
  destruct (j_read b13_req) as [jin|] eqn:J; [|vm_compute in J; discriminate J].
  assert (Hrun : exists s, proxy_step all_fixed (pc_cfg b13_pc) 1000 (branch_of 0) C01.ex_st
                             (EvUdp 0 (s2b "10.0.0.9") 5070%Z b13_req) = Ok (s, b13_outs)).
  { unfold b13_outs, b13_run, b13_ev.
    match goal with |- context [match ?X with Ok _ => _ | Err => _ | Panic => _ end] =>
      destruct X as [[s o]| |] eqn:E end;
      [exists s; reflexivity|vm_compute in E; discriminate E|vm_compute in E; discriminate E]. }
  destruct Hrun as (s & Hrun).
  assert (HV : B7.via_domain (parsed b13_req)) by (apply B7.via_domain_b_sound; vm_compute; reflexivity).
  assert (Hsrc : B7.src_ok (s2b "10.0.0.9")) by (split; vm_compute; reflexivity).
  assert (Hbr : B7.branch_ok (branch_of 0)) by (split; vm_compute; reflexivity).
  assert (Ha : safe1 (lc_addr C01.ex_lc) = true) by (vm_compute; reflexivity).
  assert (Hu : (0 <= lc_udp C01.ex_lc <= 65535)%Z) by (unfold C01.ex_lc; cbn [lc_udp]; lia).
  assert (Ht : (0 <= lc_tcp C01.ex_lc <= 65535)%Z) by (unfold C01.ex_lc; cbn [lc_tcp]; lia).
  assert (HLn : forall h t, alookup h (st_learned C01.ex_st) = Some t ->
                            safe1 (t_addr t) = true /\ (0 <= t_port t <= 65535)%Z).
  { intros h t A. discriminate A. }
  exact (C13_judge_bridge_step b13_pc (js_init C01.ex_cfg) all_fixed 1000%Z (branch_of 0) C01.ex_st s b13_outs
           0%nat C01.ex_lc (s2b "10.0.0.9") 5070%Z b13_req [] jin (parsed b13_req) []
           b13_hyp_listener J b13_hyp_parse b13_hyp_request b13_hyp_routes HV Hsrc Hbr Ha Hu Ht HLn Hrun).
Qed.

(* A Route entry in the MIDDLE of a comma list whose text ends with U+00A0 (bytes C2 A0).  parseRouteParam
   applies strings.TrimSpace to the text after '>', so the re-encoded entry has lost the two bytes: the relay
   is right.  The judge reads both ends of every Route entry like strings.TrimSpace (SpecProxy.j_flat) and
   accepts; its former reader (ASCII blanks only at the ends of an entry, TrimSpace only around the whole
   header value) kept the two bytes on the input side and answered 1 on this run.  The request is outside
   [route_domain_in] ([wf_relem] excludes a parameter tail that ends with Unicode white space). *)
Definition b13_nbsp : bytes := [ascii_of_nat 194; ascii_of_nat 160].
Definition b13u_req : bytes :=
  s2b "INVITE sip:bob@elsewhere.example SIP/2.0" ++ crlf ++
  s2b "Route: <sip:10.0.0.9:5070;lr>,<sip:mid.example.com;lr>" ++ b13_nbsp ++ s2b ",<sip:far.example.com;lr>" ++ crlf ++
  C01.ex_common.
Definition b13u_ev : event := EvUdp 0 (s2b "10.0.0.9") 5070%Z b13u_req.
Definition b13u_outs : list output :=
  match proxy_step all_fixed (pc_cfg b13_pc) 1000 (branch_of 0) C01.ex_st b13u_ev with Ok (_, outs) => outs | _ => [] end.
Example b13u_routes :
  map (fun o => fst (labelled o)) b13u_outs = [s2b "udp:10.0.0.9:5070"] /\
  map (fun o => option_map (fun om => j_flat is_route (jm_headers om)) (j_read (snd o))) b13u_outs
    = [Some [s2b "<sip:mid.example.com;lr>"; s2b "<sip:far.example.com;lr>"]] /\
  option_map (fun jin => j_flat is_route (jm_headers jin)) (j_read b13u_req)
    = Some [s2b "<sip:10.0.0.9:5070;lr>"; s2b "<sip:mid.example.com;lr>"; s2b "<sip:far.example.com;lr>"] /\
  option_map (fun jin => j_entries trim_space is_route (jm_headers jin)) (j_read b13u_req)
    = Some [s2b "<sip:10.0.0.9:5070;lr>"; s2b "<sip:mid.example.com;lr>" ++ b13_nbsp; s2b "<sip:far.example.com;lr>"].
Proof. repeat split; vm_compute; reflexivity. Qed.
Example b13u_judged :
  judge_C13_event b13_pc (js_init C01.ex_cfg) b13u_ev
    (map labelled (filter (visible (pc_udp_endpoints b13_pc)) b13u_outs)) [] = 0%nat.
Proof. vm_compute. reflexivity. Qed.

Print Assumptions C13_route_headers.
Print Assumptions own_agree.
Print Assumptions judge_expected.
Print Assumptions j_flat_output.
Print Assumptions read_headers_agree.
Print Assumptions C13_judge_accepts.
Print Assumptions C13_judge_bridge_udp_partial.
Print Assumptions C13_judge_bridge_step_partial.
Print Assumptions b13_theorem.
Print Assumptions b13_accepted_by_theorem.
Print Assumptions C13_route_headers_good.
Print Assumptions C13_judge_bridge_udp.
Print Assumptions C13_judge_bridge_step.
Print Assumptions b13_accepted_unconditionally.
