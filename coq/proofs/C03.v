(* C03.v — "each request goes to exactly one next hop chosen by fixed precedence" (property C03).

   Main statements: C03_at_most_one, C03_at_most_one_udp, C03_at_most_one_tcp, C03_choice,
   C03_choice_outputs, C03_non_sip_route, C03_backend_member, C03_backend_member_event,
   C03_unsupported_transport_dropped, C03_unsupported_transport_event, C06_relayed_request. *)
From Coq Require Import List Ascii String ZArith Bool Arith Lia.
From Model Require Import Bytes BytesLemmas Uri Hdr Message Msg Rx Glob StaticRoute RoundRobin Pins Proxy RunProxy.
From Model.proofs Require Import C06 C13.
Import ListNotations.
Open Scope Z_scope.

(* ------------------------------------------------------------------ a. at most one message leaves *)
(* ANY decoded message (request or response), any state and configuration: the outputs appended
   while it is processed contain at most one byte-carrying output *)
Theorem C03_at_most_one : forall e peer peer_port from rs tcp m x x',
  process_message e peer peer_port from rs tcp m x = Ok x' ->
  exists extra, x_outs x' = x_outs x ++ extra /\ (msg_count extra <= 1)%nat.
Proof.
  intros e peer pp from rs tcp m x x' H. apply process_message_shape in H. destruct H as (m5 & p2 & ->).
  destruct (handle_message_shape e from m5
              {| x_learned := learned_after peer from m x; x_p := p2; x_conns := x_conns x;
                 x_world := x_world x; x_outs := x_outs x |}) as (_ & extra & O & C).
  exists extra. auto.
Qed.

(* one datagram in, at most one message out *)
Theorem C03_at_most_one_udp : forall fx c now branch st li src sport data st' outs,
  proxy_step fx c now branch st (EvUdp li src sport data) = Ok (st', outs) -> (msg_count outs <= 1)%nat.
Proof.
  intros fx c now branch st li src sport data st' outs. cbn [proxy_step].
  destruct (nth_opt (c_listens c) li) as [lc|]; [|intros H; injection H as _ <-; apply Nat.le_0_l].
  destruct (parse_message data) as [[m rest]| |]; try (intros H; injection H as _ <-; apply Nat.le_0_l).
  unfold run_ctx. destruct (nth_p (st_proxies st) li) as [p|]; [|intros H; injection H as _ <-; apply Nat.le_0_l].
  match goal with |- context [process_message ?e ?a ?b ?f ?r ?t ?m ?x] =>
    destruct (process_message e a b f r t m x) as [x'| |] eqn:PM end; try discriminate.
  intros H. injection H as _ <-. apply C03_at_most_one in PM. destruct PM as (extra & -> & C). exact C.
Qed.

(* a TCP chunk: the outputs split into one group per processed message, each group with at most
   one byte-carrying output; there are no more groups than messages in the chunk *)
Lemma tcp_messages_outs fuel : forall e c s x x',
  tcp_messages fuel e c s x = Ok x' ->
  exists chunks, x_outs x' = x_outs x ++ List.concat chunks /\
                 (List.length chunks <= List.length (parse_stream fuel s))%nat /\
                 Forall (fun ch => (msg_count ch <= 1)%nat) chunks.
Proof.
  induction fuel as [|f IH]; intros e c s x x' H; cbn [tcp_messages] in H.
  - injection H as <-. exists []. cbn. rewrite app_nil_r. auto using Nat.le_0_l.
  - destruct (trim_left s) eqn:T.
    { injection H as <-. exists []. cbn [List.concat List.length]. rewrite app_nil_r. auto using Nat.le_0_l. }
    cbn [parse_stream]. destruct (parse_message s) as [[m rest]| |].
    + destruct (process_message e (cn_peer c) (cn_peer_port c) (cn_from c) (cn_received_support c)
                                (Some (cn_id c)) m x) as [x1| |] eqn:PM; try discriminate.
      apply C03_at_most_one in PM. destruct PM as (extra & O1 & C1).
      apply IH in H. destruct H as (chunks & O2 & L & F). exists (extra :: chunks).
      cbn [List.concat List.length]. rewrite O2, O1, <- app_assoc. split; [reflexivity|]. split; [lia|].
      constructor; assumption.
    + injection H as <-. exists []. cbn. rewrite app_nil_r. auto using Nat.le_0_l.
    + injection H as <-. exists []. cbn. rewrite app_nil_r. auto using Nat.le_0_l.
Qed.

Theorem C03_at_most_one_tcp : forall fx c now branch st cid data st' outs,
  proxy_step fx c now branch st (EvTcpData cid data) = Ok (st', outs) ->
  exists chunks, outs = List.concat chunks /\
                 (List.length chunks <= List.length (parse_stream (S (List.length data)) data))%nat /\
                 Forall (fun ch => (msg_count ch <= 1)%nat) chunks.
Proof.
  intros fx c now branch st cid data st' outs. cbn [proxy_step].
  assert (Z : forall st0, Ok (st, @nil output) = Ok (st0, outs) ->
              exists chunks, outs = List.concat chunks /\
                 (List.length chunks <= List.length (parse_stream (S (List.length data)) data))%nat /\
                 Forall (fun ch => (msg_count ch <= 1)%nat) chunks).
  { intros st0 H. injection H as _ <-. exists []. split; [reflexivity|]. split; [apply Nat.le_0_l|constructor]. }
  destruct (find _ (st_conns st)) as [cn|]; [|apply Z].
  destruct (cn_open cn); [|apply Z].
  destruct (nth_opt (c_listens c) (cn_li cn)) as [lc|]; [|apply Z].
  unfold run_ctx. destruct (nth_p (st_proxies st) (cn_li cn)) as [p|]; [|apply Z].
  match goal with |- context [tcp_messages ?f ?e ?c ?s ?x] =>
    destruct (tcp_messages f e c s x) as [x'| |] eqn:TM end; try discriminate.
  intros H. injection H as _ <-. apply tcp_messages_outs in TM. destruct TM as (chunks & O & L & F).
  exists chunks. cbn [x_outs app] in O. auto.
Qed.

(* ------------------------------------------------------------------ b. the choice *)
Inductive hop :=
| HopAddr (host : bytes) (port : Z) (transport : bytes)   (* relay to this address *)
| HopBackend                                              (* hand to the service's backends *)
| HopNone                                                 (* drop *)
| HopOut.                                                 (* outside the property's quantifier *)

(* the decoded To header *)
Definition decoded_to (m : message) : option fromto :=
  match get_header (s2b "To") (m_headers m) with
  | Some h => match h_val h with
              | HTo f => Some f
              | HRaw s => match parse_fromto s with Ok f => Some f | _ => None end
              | _ => None
              end
  | None => None
  end.

(* (2) the static route configured for the host of the To SIP URI *)
Definition static_hop (rt : route_table) (m : message) : option (bytes * Z * bytes) :=
  match decoded_to m with
  | Some t => match fromto_host t with
              | Some h => match find_route rt h with
                          | Some it => Some (ri_host it, ri_port it, ri_proto it)
                          | None => None
                          end
              | None => None
              end
  | None => None
  end.

(* (2) then (3): a backend if the Request-URI names the service or the receiving listener *)
Definition lower_choice (c : cfg) (from : stransport) (m : message) : hop :=
  match static_hop (route_table_of c) m with
  | Some (h, p, t) => HopAddr h p t
  | None => if is_my_message (new_my_name (c_name c)) from m then HopBackend else HopNone
  end.

(* the Route entries that remain once the proxy's own entry has been consumed *)
Definition remaining_routes (c : cfg) (from : stransport) (m : message) : list rentry :=
  drop_own c from (route_view m).

(* the hop the property text prescribes.  (1) the SIP URI of the first remaining Route entry:
   host, port or 5060 (5061 for transport=tls), transport parameter or udp; (2); (3); else none.
   The quantifier of the property only has sip: Route URIs: a first remaining entry that is not
   a SIP URI, or a Route header that does not decode, is [HopOut]. *)
Definition choose_hop (c : cfg) (from : stransport) (m : message) : hop :=
  match remaining_routes c from m with
  | EDec rp :: _ =>
      match na_addr (r_addr rp) with
      | ASip u => HopAddr (u_host u) (sip_uri_get_port u) (sip_uri_transport u)
      | AAbs _ => HopOut
      end
  | EOpaque _ :: _ => HopOut
  | [] => lower_choice c from m
  end.

(* what the code does: in the [HopOut] cases it goes on with (2) and (3) (and, for a decodable
   non-SIP entry, has already popped that entry when keep-next-hop-route is off: C13_route) *)
Definition effective_hop (c : cfg) (from : stransport) (m : message) : hop :=
  match choose_hop c from m with HopOut => lower_choice c from m | h => h end.

Lemma effective_hop_spec c from m :
  effective_hop c from m =
  match drop_own c from (route_view m) with
  | EDec rp :: _ => match na_addr (r_addr rp) with
                    | ASip u => HopAddr (u_host u) (sip_uri_get_port u) (sip_uri_transport u)
                    | AAbs _ => lower_choice c from m
                    end
  | _ => lower_choice c from m
  end.
Proof.
  unfold effective_hop, choose_hop, remaining_routes.
  destruct (drop_own c from (route_view m)) as [|[rp|v] rest];
    [destruct (lower_choice c from m); reflexivity|destruct (na_addr (r_addr rp)); reflexivity|reflexivity].
Qed.

Lemma effective_hop_in_domain c from m : choose_hop c from m <> HopOut -> effective_hop c from m = choose_hop c from m.
Proof. unfold effective_hop. destruct (choose_hop c from m); try reflexivity. intros H. contradiction. Qed.

(* ---- no decoder of the Route header panics ---- *)
Lemma parse_sip_uri_no_panic pp s : parse_sip_uri_with pp s <> Panic.
Proof.
  unfold parse_sip_uri_with.
  repeat match goal with
         | |- context [if ?c then _ else _] => destruct c
         | |- context [match index_byte ?c ?s with _ => _ end] => destruct (index_byte c s)
         | |- context [let '(_, _) := ?X in _] => destruct X
         end; discriminate.
Qed.
Lemma parse_addr_spec_no_panic pp s : parse_addr_spec_with pp s <> Panic.
Proof.
  unfold parse_addr_spec_with. destruct (_ || _)%bool; [|discriminate].
  pose proof (parse_sip_uri_no_panic pp s) as H. destruct (parse_sip_uri_with pp s); cbn; try discriminate. contradiction.
Qed.
Lemma parse_name_addr_no_panic s : parse_name_addr s <> Panic.
Proof.
  unfold parse_name_addr. destruct (index_byte "<"%char s) as [p1|]; [|discriminate].
  destruct (index_byte ">"%char s) as [p2|]; [|discriminate]. destruct (Nat.ltb p2 p1); [discriminate|].
  pose proof (parse_addr_spec_no_panic parse_uri_parameters (slice s (S p1) p2)) as H. unfold parse_addr_spec.
  destruct (parse_addr_spec_with parse_uri_parameters (slice s (S p1) p2)); cbn; try discriminate. contradiction.
Qed.
Lemma parse_generic_params_no_panic l : parse_generic_params l <> Panic.
Proof.
  induction l as [|s r IH]; cbn [parse_generic_params]; [discriminate|].
  unfold parse_generic_param. destruct s; cbn [rbind]; [discriminate|].
  destruct (parse_generic_params r); cbn [rbind]; try discriminate. contradiction.
Qed.
Lemma parse_route_param_no_panic s : parse_route_param s <> Panic.
Proof.
  unfold parse_route_param. destruct (index_byte ">"%char s) as [pos|]; [|discriminate].
  pose proof (parse_name_addr_no_panic (firstn (S pos) s)) as H.
  destruct (parse_name_addr (firstn (S pos) s)); cbn [rbind]; try discriminate; [|contradiction].
  destruct (trim_space_go (skipn (S pos) s)) as [|c rest]; [discriminate|].
  destruct (Ascii.eqb c ";"%char); [|discriminate].
  pose proof (parse_generic_params_no_panic (split_byte ";"%char rest)) as G.
  destruct (parse_generic_params (split_byte ";"%char rest)); cbn [rbind]; try discriminate. contradiction.
Qed.
Lemma parse_all_no_panic {A} (f : bytes -> res A) l : (forall s, f s <> Panic) -> parse_all f l <> Panic.
Proof.
  intros Hf. induction l as [|s r IH]; cbn [parse_all]; [discriminate|].
  pose proof (Hf s) as H. destruct (f s); cbn [rbind]; try discriminate; [|contradiction].
  destruct (parse_all f r); cbn [rbind]; try discriminate. contradiction.
Qed.
Lemma s_get_route_no_panic m : snd (s_get_route m) <> Panic.
Proof.
  unfold s_get_route, typed_get. destruct (get_header (s2b "Route") (m_headers m)) as [h|]; [|discriminate].
  destruct (h_val h); try discriminate.
  pose proof (parse_all_no_panic parse_route_param (split_byte ","%char s) parse_route_param_no_panic) as H.
  unfold parse_route. destruct (parse_all parse_route_param (split_byte ","%char s)); try discriminate. contradiction.
Qed.
Lemma next_hop_by_route_no_panic keep m : snd (next_hop_by_route keep m) <> Panic.
Proof.
  unfold next_hop_by_route, mbind. pose proof (s_get_route_no_panic m) as H.
  destruct (s_get_route m) as [m1 [l| |]]; cbn [snd] in *; try discriminate; [|contradiction].
  destruct l as [|rp l]; [discriminate|].
  destruct keep.
  - unfold mret. destruct (na_addr (r_addr rp)); discriminate.
  - unfold mtry, s_pop_route, mbind. pose proof (s_get_route_no_panic m1) as H1.
    destruct (s_get_route m1) as [m2 [l2| |]]; cbn [snd] in *; try contradiction.
    + destruct l2 as [|a [|b l2]]; unfold mmodify; destruct (na_addr (r_addr rp)); discriminate.
    + destruct (na_addr (r_addr rp)); discriminate.
Qed.

(* ---- the static-route step ---- *)
Lemma decoded_to_frame m m' : frame (s2b "To") m m' -> decoded_to m' = decoded_to m.
Proof. intros (S & _). unfold decoded_to. rewrite !get_header_sel, S. reflexivity. Qed.

Lemma next_hop_by_config_spec rt m :
  match static_hop rt m with
  | Some v => snd (next_hop_by_config rt m) = Ok v
  | None => is_ok (snd (next_hop_by_config rt m)) = false
  end.
Proof.
  unfold static_hop, decoded_to, next_hop_by_config, mbind, s_get_to, typed_get.
  destruct (get_header (s2b "To") (m_headers m)) as [h|]; [|reflexivity].
  assert (K : forall f m', match match fromto_host f with
                                 | Some h0 => match find_route rt h0 with
                                              | Some it => Some (ri_host it, ri_port it, ri_proto it) | None => None end
                                 | None => None end with
                           | Some v => snd (match fromto_host f with
                                            | Some h0 => match find_route rt h0 with
                                                         | Some it => mret (ri_host it, ri_port it, ri_proto it)
                                                         | None => merr end
                                            | None => merr end m') = Ok v
                           | None => is_ok (snd (match fromto_host f with
                                            | Some h0 => match find_route rt h0 with
                                                         | Some it => mret (ri_host it, ri_port it, ri_proto it)
                                                         | None => merr end
                                            | None => merr end m')) = false
                           end).
  { intros f m'. destruct (fromto_host f) as [h0|]; [|reflexivity]. destruct (find_route rt h0); reflexivity. }
  destruct (h_val h); try reflexivity.
  - destruct (parse_fromto s) as [f| |]; try reflexivity. apply K.
  - apply K.
Qed.

(* getNextRequestHop as a function of the Route set and the decoded To *)
Lemma next_request_hop_choice keep rt m :
  let r := snd (next_request_hop keep rt m) in
  let by_config := match static_hop rt m with Some v => r = Ok v | None => is_ok r = false end in
  match route_view m with
  | EDec rp :: _ =>
      match na_addr (r_addr rp) with
      | ASip u => r = Ok (u_host u, sip_uri_get_port u, sip_uri_transport u)
      | AAbs _ => by_config
      end
  | _ => by_config
  end.
Proof.
  cbv zeta. unfold next_request_hop.
  pose proof (next_hop_by_route_pops_iff_not_keep keep m) as H.
  pose proof (next_hop_by_route_no_panic keep m) as NP.
  pose proof (mframe_next_hop_by_route (s2b "To") keep dj_To_Route m) as F.
  destruct (next_hop_by_route keep m) as [m1 r]. cbn [fst snd] in *.
  assert (BC : r = Err -> match static_hop rt m with
                          | Some v => snd (next_hop_by_config rt m1) = Ok v
                          | None => is_ok (snd (next_hop_by_config rt m1)) = false end).
  { intros _. pose proof (next_hop_by_config_spec rt m1) as C. unfold static_hop in *.
    rewrite (decoded_to_frame m m1 F) in C. exact C. }
  destruct (route_view m) as [|[rp|v] rest].
  - destruct H as (_ & H). destruct r; try discriminate; [|contradiction]. apply BC. reflexivity.
  - destruct H as (_ & ->). destruct (na_addr (r_addr rp)); [reflexivity|]. apply BC. reflexivity.
  - destruct H as (_ & H). destruct r; try discriminate; [|contradiction]. apply BC. reflexivity.
Qed.

Lemma is_my_message_start n from m m' : m_start m' = m_start m -> is_my_message n from m' = is_my_message n from m.
Proof. intros E. unfold is_my_message. rewrite E. reflexivity. Qed.

(* C03_choice.  For EVERY request, state, configuration and fixes record: the event is exactly
   one call of sendMessage with the (host, port, transport) of [effective_hop], or one call of
   sendToBackend, or nothing, according to [effective_hop] — which is [choose_hop] (the property
   text) on the property's domain.  keep-next-hop-route does not occur in [choose_hop]: the flag
   has no influence on the choice.  The layout of the Route set (one comma list, several headers,
   a first header holding a single entry) is hidden in [route_view]: the entry after the own one
   is the next hop wherever it stands.
   [m1] is the message that is relayed: start line and body of [m0], the Route set after
   consumption (C13), all headers other than Via / CSeq / Route / To untouched. *)
Theorem C03_choice : forall e peer peer_port from rs tcp m0 x x',
  is_request m0 = true ->
  process_message e peer peer_port from rs tcp m0 x = Ok x' ->
  exists m1 p1,
    let x1 := {| x_learned := learned_after peer from m0 x; x_p := p1; x_conns := x_conns x;
                 x_world := x_world x; x_outs := x_outs x |} in
    same_rr (x_p x) p1 /\
    (forall nm, disjoint_names nm (s2b "Via") -> disjoint_names nm (s2b "CSeq") ->
                disjoint_names nm (s2b "Route") -> disjoint_names nm (s2b "To") -> frame nm m0 m1) /\
    via_rel m0 m1 /\
    route_view m1 = skipn (route_consumed (e_cfg e) from (c_keep_next_hop (e_cfg e)) (route_view m0)) (route_view m0) /\
    match effective_hop (e_cfg e) from m0 with
    | HopAddr host port transport =>
        x' = fst (send_message e host port transport (decorate e (x_learned x1) host m1) x1)
    | HopBackend => x' = fst (send_to_backend e m1 x1)
    | HopNone => x' = x1
    | HopOut => False
    end.
Proof.
  intros e peer pp from rs tcp m0 x x' R H.
  destruct (request_pipeline _ _ _ _ _ _ _ _ _ R H) as (m4 & p1 & P). cbv zeta in P.
  set (keep := c_keep_next_hop (e_cfg e)) in *. set (rt := route_table_of (e_cfg e)) in *.
  pose proof (next_request_hop_choice keep rt m4) as CH. cbv zeta in CH.
  pose proof (next_request_hop_route keep rt m4) as NR.
  pose proof (fun nm D1 D2 => frame_next_request_hop nm keep rt m4 D1 D2) as FN.
  destruct (next_request_hop keep rt m4) as [m1 r]. cbn [fst snd] in *.
  destruct P as (F4 & VR & V4 & SR & ->). exists m1, p1. cbv zeta.
  split; [exact SR|].
  split; [intros nm D1 D2 D3 D4; eapply frame_trans; [apply F4; assumption|apply FN; assumption]|].
  split; [exact (via_rel_trans _ _ _ VR (via_rel_frame _ _ (FN _ dj_Via_Route dj_Via_To)))|].
  split.
  { rewrite NR, V4. apply (route_consumed_skipn (e_cfg e) from keep (route_view m0)). }
  (* the choice *)
  assert (ST : static_hop rt m4 = static_hop rt m0).
  { unfold static_hop. rewrite (decoded_to_frame m0 m4 (F4 _ dj_To_Via dj_To_CSeq dj_To_Route)). reflexivity. }
  assert (MY : is_my_message (new_my_name (c_name (e_cfg e))) from m1 =
               is_my_message (new_my_name (c_name (e_cfg e))) from m0).
  { apply is_my_message_start.
    rewrite (proj1 (proj2 (FN _ dj_Via_Route dj_Via_To))).
    exact (proj1 (proj2 (F4 _ dj_RR_Via dj_RR_CSeq dj_RR_Route))). }
  assert (LC : match static_hop rt m4 with Some v => r = Ok v | None => is_ok r = false end ->
               match lower_choice (e_cfg e) from m0 with
               | HopAddr host port transport =>
                   fst match r with
                       | Ok (host, port, transport) => send_message e host port transport
                           (decorate e (learned_after peer from m0 x) host m1)
                           {| x_learned := learned_after peer from m0 x; x_p := p1; x_conns := x_conns x;
                              x_world := x_world x; x_outs := x_outs x |}
                       | _ => if is_my_message (new_my_name (c_name (e_cfg e))) from m1
                              then send_to_backend e m1 {| x_learned := learned_after peer from m0 x; x_p := p1;
                                     x_conns := x_conns x; x_world := x_world x; x_outs := x_outs x |}
                              else ({| x_learned := learned_after peer from m0 x; x_p := p1; x_conns := x_conns x;
                                       x_world := x_world x; x_outs := x_outs x |}, m1)
                       end
                   = fst (send_message e host port transport (decorate e (learned_after peer from m0 x) host m1)
                            {| x_learned := learned_after peer from m0 x; x_p := p1; x_conns := x_conns x;
                               x_world := x_world x; x_outs := x_outs x |})
               | HopBackend =>
                   fst match r with
                       | Ok (host, port, transport) => send_message e host port transport
                           (decorate e (learned_after peer from m0 x) host m1)
                           {| x_learned := learned_after peer from m0 x; x_p := p1; x_conns := x_conns x;
                              x_world := x_world x; x_outs := x_outs x |}
                       | _ => if is_my_message (new_my_name (c_name (e_cfg e))) from m1
                              then send_to_backend e m1 {| x_learned := learned_after peer from m0 x; x_p := p1;
                                     x_conns := x_conns x; x_world := x_world x; x_outs := x_outs x |}
                              else ({| x_learned := learned_after peer from m0 x; x_p := p1; x_conns := x_conns x;
                                       x_world := x_world x; x_outs := x_outs x |}, m1)
                       end
                   = fst (send_to_backend e m1 {| x_learned := learned_after peer from m0 x; x_p := p1;
                                     x_conns := x_conns x; x_world := x_world x; x_outs := x_outs x |})
               | HopNone =>
                   fst match r with
                       | Ok (host, port, transport) => send_message e host port transport
                           (decorate e (learned_after peer from m0 x) host m1)
                           {| x_learned := learned_after peer from m0 x; x_p := p1; x_conns := x_conns x;
                              x_world := x_world x; x_outs := x_outs x |}
                       | _ => if is_my_message (new_my_name (c_name (e_cfg e))) from m1
                              then send_to_backend e m1 {| x_learned := learned_after peer from m0 x; x_p := p1;
                                     x_conns := x_conns x; x_world := x_world x; x_outs := x_outs x |}
                              else ({| x_learned := learned_after peer from m0 x; x_p := p1; x_conns := x_conns x;
                                       x_world := x_world x; x_outs := x_outs x |}, m1)
                       end
                   = {| x_learned := learned_after peer from m0 x; x_p := p1; x_conns := x_conns x;
                        x_world := x_world x; x_outs := x_outs x |}
               | HopOut => False
               end).
  { intros BC. unfold lower_choice. fold rt. rewrite <- ST.
    destruct (static_hop rt m4) as [[[h p] t]|].
    - rewrite BC. reflexivity.
    - rewrite <- MY. destruct r as [v| |]; try discriminate;
        destruct (is_my_message (new_my_name (c_name (e_cfg e))) from m1); reflexivity. }
  rewrite effective_hop_spec. fold (drop_own (e_cfg e) from (route_view m0)) in V4. rewrite <- V4.
  destruct (route_view m4) as [|[rp|v] rest].
  - apply LC, CH.
  - destruct (na_addr (r_addr rp)) as [u|s].
    + rewrite CH. reflexivity.
    + apply LC, CH.
  - apply LC, CH.
Qed.

(* consequence on the wire: where the (at most one) message of the event goes *)
Theorem C03_choice_outputs : forall e peer peer_port from rs tcp m0 x x',
  is_request m0 = true ->
  process_message e peer peer_port from rs tcp m0 x = Ok x' ->
  exists extra, x_outs x' = x_outs x ++ extra /\ (msg_count extra <= 1)%nat /\
    match effective_hop (e_cfg e) from m0 with
    | HopAddr host port transport =>
        (* only through the client transport for (transport, host, port); nothing for a
           transport other than udp / tcp *)
        supported_proto (to_lower transport) = false -> extra = []
    | HopBackend =>
        extra = [] \/ exists a d b, extra = [(d, b)] /\ backend_dest a = Some d /\
                                    (In a (rr_backends (ps_rr (x_p x))) \/ exists g, backend_alive a g (x_p x) = true)
    | HopNone => extra = []
    | HopOut => False
    end.
Proof.
  intros e peer pp from rs tcp m0 x x' R H.
  destruct (C03_choice _ _ _ _ _ _ _ _ _ R H) as (m1 & p1 & SR & _ & _ & _ & CH). cbv zeta in CH.
  set (x1 := {| x_learned := learned_after peer from m0 x; x_p := p1; x_conns := x_conns x;
                x_world := x_world x; x_outs := x_outs x |}) in *.
  destruct (effective_hop (e_cfg e) from m0) as [host port transport| | |].
  - subst x'. destruct (send_message_shape e host port transport (decorate e (x_learned x1) host m1) x1)
      as (_ & _ & extra & O & (C & _) & U). exists extra. auto.
  - subst x'. destruct (send_to_backend_shape e m1 x1) as (_ & extra & O & D). exists extra. split; [exact O|].
    destruct SR as (R1 & R2 & _).
    destruct D as [->|(t0 & a & d & _ & _ & -> & BD & PB)].
    + split; [apply Nat.le_0_l|]. left. reflexivity.
    + split; [unfold msg_count; cbn [filter]; destruct (is_msg _); cbn [List.length]; lia|].
      right. exists a, d. eexists. split; [reflexivity|]. split; [exact BD|].
      cbn [x_p x1] in PB. destruct (pinned_backend e p1 m1) as [[a' g|]|].
      * right. exists g. unfold backend_alive in *. rewrite <- R2. exact (proj2 PB).
      * left. rewrite <- R1. exact PB.
      * left. rewrite <- R1. exact PB.
  - subst x'. exists []. cbn [x_outs x1]. rewrite app_nil_r. split; [reflexivity|]. split; [apply Nat.le_0_l|reflexivity].
  - contradiction.
Qed.

(* The case the code handles differently from a literal reading of the text, and that the
   quantifier of the property excludes (Route URIs are sip:): the first remaining entry is
   decodable but NOT a SIP URI (tel:, urn:).  The code pops that entry when keep-next-hop-route
   is off (C13_route counts it in route_consumed) and then uses the static route / the backends. *)
Theorem C03_non_sip_route : forall c from m rp rest s,
  remaining_routes c from m = EDec rp :: rest -> na_addr (r_addr rp) = AAbs s ->
  choose_hop c from m = HopOut /\ effective_hop c from m = lower_choice c from m /\
  forall keep, route_consumed c from keep (route_view m) =
               ((match route_view m with EDec e1 :: _ => if designates c from e1 then 1 else 0 | _ => 0 end) +
                (if keep then 0 else 1))%nat.
Proof.
  intros c from m rp rest s RR A. unfold effective_hop, choose_hop. rewrite RR, A. split; [reflexivity|].
  split; [reflexivity|]. intros keep. unfold route_consumed. unfold remaining_routes, drop_own in RR.
  destruct (route_view m) as [|[e1|v] r]; try discriminate.
  destruct (designates c from e1); cbn [skipn]; [rewrite RR; reflexivity|reflexivity].
Qed.

(* ------------------------------------------------------------------ c. the pool *)
(* sendToBackend without a live pin to a backend object (no pin, or a pin to the rotation): the
   output, if any, goes to the address of an element of the rotation as it is at that moment;
   nothing is sent when the rotation is empty *)
Theorem C03_backend_member : forall e m x,
  (forall a g, pinned_backend e (x_p x) m <> Some (BObj a g)) ->
  exists extra, x_outs (fst (send_to_backend e m x)) = x_outs x ++ extra /\
    (extra = [] \/ exists a d b, extra = [(d, b)] /\ In a (rr_backends (ps_rr (x_p x))) /\ backend_dest a = Some d) /\
    (rr_backends (ps_rr (x_p x)) = [] -> extra = []).
Proof.
  intros e m x NP. destruct (send_to_backend_shape e m x) as (_ & extra & O & D). exists extra. split; [exact O|].
  assert (D' : extra = [] \/ exists a d b, extra = [(d, b)] /\ In a (rr_backends (ps_rr (x_p x))) /\ backend_dest a = Some d).
  { destruct D as [->|(t0 & a & d & _ & _ & -> & BD & PB)]; [left; reflexivity|right].
    exists a, d. eexists. split; [reflexivity|]. split; [|exact BD].
    destruct (pinned_backend e (x_p x) m) as [[a' g|]|] eqn:PE; try exact PB. exfalso. exact (NP a' g eq_refl). }
  split; [exact D'|]. intros Em. destruct D' as [->|(a & d & b & _ & I & _)]; [reflexivity|].
  rewrite Em in I. contradiction.
Qed.

(* the same at the level of the event, with the rotation of the state BEFORE the event *)
Theorem C03_backend_member_event : forall e peer peer_port from rs tcp m0 x x',
  is_request m0 = true ->
  process_message e peer peer_port from rs tcp m0 x = Ok x' ->
  effective_hop (e_cfg e) from m0 = HopBackend ->
  exists m1 p1, same_rr (x_p x) p1 /\
    ((forall a g, pinned_backend e p1 m1 <> Some (BObj a g)) ->
     exists extra, x_outs x' = x_outs x ++ extra /\
       (extra = [] \/ exists a d b, extra = [(d, b)] /\ In a (rr_backends (ps_rr (x_p x))) /\ backend_dest a = Some d) /\
       (rr_backends (ps_rr (x_p x)) = [] -> extra = [])).
Proof.
  intros e peer pp from rs tcp m0 x x' R H EH.
  destruct (C03_choice _ _ _ _ _ _ _ _ _ R H) as (m1 & p1 & SR & _ & _ & _ & CH). cbv zeta in CH. rewrite EH in CH.
  exists m1, p1. split; [exact SR|]. intros NP. subst x'.
  set (x1 := {| x_learned := learned_after peer from m0 x; x_p := p1; x_conns := x_conns x;
                x_world := x_world x; x_outs := x_outs x |}).
  destruct (C03_backend_member e m1 x1 NP) as (extra & O & D & Em). cbn [x_p x1 x_outs] in *.
  destruct SR as (R1 & _). rewrite R1 in D, Em. exists extra. auto.
Qed.

(* ------------------------------------------------------------------ d. unsupported transport *)
Theorem C03_unsupported_transport_dropped : forall e host port transport m x,
  to_lower transport <> s2b "udp" -> to_lower transport <> s2b "tcp" ->
  x_outs (fst (send_message e host port transport m x)) = x_outs x.
Proof.
  intros e host port transport m x N1 N2.
  destruct (send_message_shape e host port transport m x) as (_ & _ & extra & O & _ & U).
  rewrite O, U, app_nil_r; [reflexivity|]. unfold supported_proto.
  apply beq_neq in N1. apply beq_neq in N2. rewrite N1, N2. reflexivity.
Qed.

Theorem C03_unsupported_transport_event : forall e peer peer_port from rs tcp m0 x x' host port transport,
  is_request m0 = true ->
  process_message e peer peer_port from rs tcp m0 x = Ok x' ->
  effective_hop (e_cfg e) from m0 = HopAddr host port transport ->
  to_lower transport <> s2b "udp" -> to_lower transport <> s2b "tcp" ->
  x_outs x' = x_outs x.
Proof.
  intros e peer pp from rs tcp m0 x x' host port transport R H EH N1 N2.
  destruct (C03_choice _ _ _ _ _ _ _ _ _ R H) as (m1 & p1 & _ & _ & _ & _ & CH). cbv zeta in CH. rewrite EH in CH.
  subst x'. rewrite C03_unsupported_transport_dropped by assumption. reflexivity.
Qed.

(* ------------------------------------------------------------------ C06 end to end *)
(* The message that leaves for a request, against the received one.  [m1] is the routed message
   before the proxy inserts itself: its Via stack is the received one (entries beneath the top
   identical, the top with the same sent-by: only received / rport may have been stamped on it).
   Relayed to a next hop learned through transport t: exactly one Via of t (branch e_branch e) on
   top of that stack, Record-Route of t ahead of the received ones iff the request carried a
   Record-Route or must-record-route is set.  Next hop not learned: neither.  Backend: the same
   with the first transport of the listener. *)
Theorem C06_relayed_request : forall e peer peer_port from rs tcp m0 x x',
  is_request m0 = true ->
  process_message e peer peer_port from rs tcp m0 x = Ok x' ->
  exists m1 extra, x_outs x' = x_outs x ++ extra /\ (msg_count extra <= 1)%nat /\ via_rel m0 m1 /\
    let rr_of t := if (has_header (s2b "Record-Route") m0 || pa_must_rr (wire_proxy (e_lc e)))%bool
                   then own_record_route t :: all_rr (m_headers m0) else all_rr (m_headers m0) in
    forall o, In o extra -> is_msg o = true ->
      exists mo, snd o = write_message mo /\
        match effective_hop (e_cfg e) from m0 with
        | HopAddr host _ _ =>
            match alookup host (learned_after peer from m0 x) with
            | Some t => all_vias (m_headers mo) = pushed_via e t :: all_vias (m_headers m1) /\
                        all_rr (m_headers mo) = rr_of t
            | None => all_vias (m_headers mo) = all_vias (m_headers m1) /\
                      all_rr (m_headers mo) = all_rr (m_headers m0)
            end
        | HopBackend =>
            exists t0, first_transport (e_lc e) = Some t0 /\
                       all_vias (m_headers mo) = pushed_via e t0 :: all_vias (m_headers m1) /\
                       all_rr (m_headers mo) = rr_of t0
        | _ => False
        end.
Proof.
  intros e peer pp from rs tcp m0 x x' R H.
  destruct (C03_choice _ _ _ _ _ _ _ _ _ R H) as (m1 & p1 & _ & F & VR & _ & CH). cbv zeta in CH.
  set (x1 := {| x_learned := learned_after peer from m0 x; x_p := p1; x_conns := x_conns x;
                x_world := x_world x; x_outs := x_outs x |}) in *.
  pose proof (F _ dj_RR_Via dj_RR_CSeq dj_RR_Route dj_RR_To) as FR.
  assert (HR : has_header (s2b "Record-Route") m1 = has_header (s2b "Record-Route") m0) by (apply has_header_frame, FR).
  assert (AR : all_rr (m_headers m1) = all_rr (m_headers m0)) by (apply all_rr_sel, FR).
  exists m1. destruct (effective_hop (e_cfg e) from m0) as [host port transport| | |]; [| | |contradiction].
  - subst x'. destruct (send_message_shape e host port transport (decorate e (x_learned x1) host m1) x1)
      as (Sm & _ & extra & O & (C & Fo) & _).
    exists extra. split; [exact O|]. split; [exact C|]. split; [exact VR|]. cbv zeta. intros o Io Mo.
    rewrite Forall_forall in Fo. eexists. split; [exact (Fo o Io Mo)|]. rewrite Sm. cbn [x_learned x1].
    rewrite all_vias_client_transaction.
    rewrite (all_rr_sel _ _ (proj1 (mframe_try _ _ (mframe_client_transaction _ dj_RR_Via dj_RR_CSeq) _))).
    destruct (alookup host (learned_after peer from m0 x)) as [t|] eqn:A.
    + destruct (C06_decorate_learned e _ host t m1 A) as (AV & ARR & _). rewrite AV, ARR, HR, AR. split; reflexivity.
    + rewrite (C06_not_learned_untouched e _ host m1 A), AR. split; reflexivity.
  - subst x'. destruct (send_to_backend_shape e m1 x1) as (_ & extra & O & D). exists extra. split; [exact O|].
    destruct D as [->|(t0 & a & d & FT & _ & -> & _)].
    + split; [apply Nat.le_0_l|]. split; [exact VR|]. cbv zeta. intros o [].
    + split; [unfold msg_count; cbn [filter]; destruct (is_msg _); cbn [List.length]; lia|]. split; [exact VR|].
      cbv zeta. intros o [<-|[]] _. eexists. split; [reflexivity|]. exists t0. split; [exact FT|].
      destruct (C06_backend_decorates e t0 (x_p x1) m1) as (AV & ARR). rewrite AV, ARR, HR, AR. split; reflexivity.
  - subst x'. exists []. cbn [x_outs x1]. rewrite app_nil_r. split; [reflexivity|]. split; [apply Nat.le_0_l|].
    split; [exact VR|]. cbv zeta. intros o [].
Qed.

(* ================================================================== concrete instances *)
Definition hop_of (c : cfg) (ruri : string) (routes : list string) (to : string) : hop :=
  choose_hop c ex_from (msg_of (req ruri [] routes to [])).
Definition cfgA := ex_cfg false true false.     (* with a default static route *)
Definition cfgB := ex_cfg false false false.    (* without *)
Definition dests (l : list (dest * string)) : list dest := map fst l.

(* (1) Route: own entry by alias (default port) then the next hop with explicit port and transport;
   own entry by address and explicit port, next hop by name with default port and transport *)
Example ex_hop_own_next :
  hop_of cfgA "sip:bob@svc.example.com" ["Route: <sip:proxy.example.com;lr>, <sip:10.0.0.9:5070;transport=tcp;lr>"%string]
         "<sip:bob@exact.example.com>" = HopAddr (s2b "10.0.0.9") 5070 (s2b "tcp") /\
  hop_of cfgA "sip:bob@svc.example.com" ["Route: <sip:10.0.0.1:5060;lr>"; "Route: <sip:next.example.com;lr>"]%string
         "<sip:bob@exact.example.com>" = HopAddr (s2b "next.example.com") 5060 (s2b "udp").
Proof. vm_compute. split; reflexivity. Qed.
(* near misses are next hops, not own entries *)
Example ex_hop_near_miss :
  hop_of cfgA "sip:bob@svc.example.com" ["Route: <sip:10.0.0.1:5061;lr>, <sip:10.0.0.9;lr>"%string] "<sip:b@x.example>"
    = HopAddr (s2b "10.0.0.1") 5061 (s2b "udp") /\
  hop_of cfgA "sip:bob@svc.example.com" ["Route: <sip:10.0.0.77:5060;lr>, <sip:10.0.0.9;lr>"%string] "<sip:b@x.example>"
    = HopAddr (s2b "10.0.0.77") 5060 (s2b "udp").
Proof. vm_compute. split; reflexivity. Qed.
(* (2) static routes: exact, wildcard, default; also when only the own Route entry was present *)
Example ex_hop_static :
  hop_of cfgA "sip:bob@svc.example.com" [] "<sip:bob@exact.example.com>" = HopAddr (s2b "10.0.2.1") 5070 (s2b "udp") /\
  hop_of cfgA "sip:bob@svc.example.com" [] "Bob <sip:bob@a.wild.example.com>;tag=9" = HopAddr (s2b "10.0.2.2") 5060 (s2b "tcp") /\
  hop_of cfgA "sip:bob@svc.example.com" [] "<sip:bob@other.example.org>" = HopAddr (s2b "10.0.2.3") 5090 (s2b "udp") /\
  hop_of cfgA "sip:bob@svc.example.com" ["Route: <sip:proxy.example.com:5060;lr>"%string] "<sip:bob@exact.example.com>"
    = HopAddr (s2b "10.0.2.1") 5070 (s2b "udp").
Proof. vm_compute. repeat split. Qed.
(* (3) service match: literal host, regular expression only, user@host, urn, listener address:port;
   a foreign Request-URI is dropped *)
Example ex_hop_backend :
  hop_of cfgB "sip:bob@svc.example.com" [] "<sip:bob@other.example.org>" = HopBackend /\
  hop_of cfgB "sip:room42@conf.example.com" [] "<sip:bob@other.example.org>" = HopBackend /\
  hop_of cfgB "sip:alice@users.example.com" [] "<sip:bob@other.example.org>" = HopBackend /\
  hop_of cfgB "urn:service:sos" [] "<sip:bob@other.example.org>" = HopBackend /\
  hop_of cfgB "sip:anyone@10.0.0.1:5060" [] "<sip:bob@other.example.org>" = HopBackend /\
  hop_of cfgB "sip:anyone@10.0.0.1" [] "<urn:service:x>" = HopBackend /\
  hop_of cfgB "sip:bob@users.example.com" [] "<sip:bob@other.example.org>" = HopNone /\
  hop_of cfgB "sip:anyone@10.0.0.1:5070" [] "<sip:bob@other.example.org>" = HopNone /\
  hop_of cfgB "tel:+15550100" [] "<sip:bob@other.example.org>" = HopNone.
Proof. vm_compute. repeat split. Qed.
(* outside the quantifier: a tel: entry after the own one *)
Example ex_hop_out :
  hop_of cfgA "sip:bob@svc.example.com" ["Route: <sip:proxy.example.com;lr>, <tel:+15550100>"%string] "<sip:bob@exact.example.com>"
    = HopOut /\
  effective_hop cfgA ex_from (msg_of (req "sip:bob@svc.example.com" []
      ["Route: <sip:proxy.example.com;lr>, <tel:+15550100>"%string] "<sip:bob@exact.example.com>" []))
    = HopAddr (s2b "10.0.2.1") 5070 (s2b "udp").
Proof. vm_compute. split; reflexivity. Qed.

(* end to end, one datagram each: where the message goes *)
Example ex_run_route_tcp :    (* transport=tcp next hop: a connection is dialled and written *)
  dests (run1 all_fixed cfgA [(s2b "10.0.0.9", 5070)]
           (req "sip:bob@svc.example.com" [] ["Route: <sip:proxy.example.com;lr>, <sip:10.0.0.9:5070;transport=TCP;lr>"%string]
                "<sip:bob@exact.example.com>" []))
  = [DDial (s2b "10.0.0.9") 5070 0; DConn 0].
Proof. vm_compute. reflexivity. Qed.
Example ex_run_static : dests (run1 all_fixed cfgA [] (req "sip:bob@svc.example.com" [] [] "<sip:bob@exact.example.com>" []))
  = [DUdp (s2b "10.0.2.1") 5070].
Proof. vm_compute. reflexivity. Qed.
(* c. the pool: the rotation holds 10.0.1.1:5080, 10.0.1.2:5080; index 0 -> element 1 *)
Example ex_run_backend : dests (run1 all_fixed cfgB [] (req "sip:room42@conf.example.com" [] [] "<sip:bob@other.example.org>" []))
  = [DUdp (s2b "10.0.1.2") 5080].
Proof. vm_compute. reflexivity. Qed.
Example ex_run_backend_empty_pool :
  let c := {| c_name := c_name cfgB; c_keep_next_hop := false; c_dialog_timeout := 3600; c_routes := []; c_hosts := [];
              c_listens := [{| lc_addr := s2b "10.0.0.1"; lc_udp := 5060; lc_tcp := 0; lc_backends := []; lc_dynamic := true;
                               lc_no_received := false; lc_def_route := false; lc_must_rr := false |}] |} in
  run1 all_fixed c [] (req "sip:room42@conf.example.com" [] [] "<sip:bob@other.example.org>" []) = [].
Proof. vm_compute. reflexivity. Qed.
Example ex_run_dropped : run1 all_fixed cfgB [] (req "sip:bob@users.example.com" [] [] "<sip:bob@other.example.org>" []) = [].
Proof. vm_compute. reflexivity. Qed.
(* d. unsupported transports, any case *)
Example ex_run_unsupported :
  run1 all_fixed cfgA [] (req "sip:bob@svc.example.com" [] ["Route: <sip:10.0.0.9:5070;transport=sctp;lr>"%string] "<sip:b@x.example>" []) = [] /\
  run1 all_fixed cfgA [] (req "sip:bob@svc.example.com" [] ["Route: <sip:10.0.0.9:5070;transport=TLS;lr>"%string] "<sip:b@x.example>" []) = [] /\
  dests (run1 all_fixed cfgA [] (req "sip:bob@svc.example.com" [] ["Route: <sip:10.0.0.9:5070;transport=UdP;lr>"%string] "<sip:b@x.example>" []))
    = [DUdp (s2b "10.0.0.9") 5070].
Proof. vm_compute. repeat split. Qed.

(* ---- where the fixes record matters (defect B1: findClientTransport reused the listener's UDP
   socket for ANY next hop whose host was learned through a UDP listener).  The request comes
   from 10.0.0.5 over UDP and its Route names 10.0.0.5:5070 with transport=tcp; 10.0.0.5 accepts
   TCP connections on 5070. *)
Definition b1_fixes : fixes :=
  {| fx_wiring := true; fx_udp_via_listener := false; fx_indialog_invite := true; fx_bracket_host := true; fx_resolved_key := true; fx_stale_pin := true |}.
Definition b1_req : list string :=
  req "sip:bob@elsewhere.example" [] ["Route: <sip:10.0.0.5:5070;transport=tcp;lr>"%string] "<sip:bob@elsewhere.example>" [].
Theorem C03_b1_legacy_refuted :
  effective_hop cfgA ex_from (msg_of b1_req) = HopAddr (s2b "10.0.0.5") 5070 (s2b "tcp") /\
  dests (run1 b1_fixes cfgA [(s2b "10.0.0.5", 5070)] b1_req) = [DUdp (s2b "10.0.0.5") 5070] /\
  dests (run1 all_fixed cfgA [(s2b "10.0.0.5", 5070)] b1_req) = [DDial (s2b "10.0.0.5") 5070 0; DConn 0].
Proof. vm_compute. repeat split. Qed.

(* the hypotheses of the process_message-level theorems are satisfiable: a request, processed *)
Example ex_c03_hypotheses :
  let c := cfgA in let lc := ex_lc false in
  let m0 := msg_of b1_req in
  let x := {| x_learned := []; x_p := init_pstate c 0 lc; x_conns := []; x_world := {| w_tcp_listeners := []; w_next_conn := 0 |};
              x_outs := [] |} in
  is_request m0 = true /\
  is_ok (process_message (ex_env all_fixed c 0) (s2b "10.0.0.5") 5060 ex_from true None m0 x) = true.
Proof. vm_compute. split; reflexivity. Qed.

Print Assumptions C03_at_most_one.
Print Assumptions C03_at_most_one_udp.
Print Assumptions C03_at_most_one_tcp.
Print Assumptions C03_choice.
Print Assumptions C03_choice_outputs.
Print Assumptions C03_non_sip_route.
Print Assumptions C03_backend_member.
Print Assumptions C03_backend_member_event.
Print Assumptions C03_unsupported_transport_dropped.
Print Assumptions C03_unsupported_transport_event.
Print Assumptions C06_relayed_request.
Print Assumptions C03_b1_legacy_refuted.
