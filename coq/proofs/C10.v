From Coq Require Import List Ascii String ZArith Bool Arith Lia.
From Model Require Import Bytes Message Bufio Pool.
From Model.proofs Require C11.
Import ListNotations.
Local Open Scope nat_scope.
From Coq Require Import Permutation.

(* C10 — ByteArrayPool exclusivity and isolation of the UDP receive/parse loops.
   Part 1: any client that only frees what it holds never sees a buffer twice.
   Part 2: the UDP loops are such a client, and every buffer has the pool's array size.
   Part 3: whatever the recycling order and the stale contents, the results are the
           specification's (each datagram, cut to the array size, decoded by itself, FIFO). *)

(* ------------------------------------------------------------------------- *)
(* ids: distinct and all below the next fresh identity                        *)
(* ------------------------------------------------------------------------- *)
Definition good (n : nat) (l : list nat) : Prop :=
  NoDup l /\ Forall (fun i => i < n) l.

Lemma good_perm : forall n l l', Permutation l l' -> good n l -> good n l'.
Proof.
  intros n l l' HP [Hnd Hf]. split.
  - eapply Permutation_NoDup; eauto.
  - rewrite Forall_forall in *. intros x Hx. apply Hf.
    eapply Permutation_in; [apply Permutation_sym; exact HP | exact Hx].
Qed.

Lemma good_tail : forall n a l, good n (a :: l) -> good n l.
Proof.
  intros n a l [Hnd Hf]. inversion Hnd; subst. inversion Hf; subst. split; assumption.
Qed.

Lemma good_fresh : forall n l, good n l -> good (S n) (n :: l).
Proof.
  intros n l [Hnd Hf]. split.
  - constructor; [| exact Hnd]. intro Hin. rewrite Forall_forall in Hf. apply Hf in Hin. lia.
  - constructor; [lia |]. eapply Forall_impl; [| exact Hf]. simpl; intros a Ha; lia.
Qed.

(* Alloc pops the top or makes a fresh array *)
Lemma alloc_good : forall p b p' rest,
  pool_alloc p = (b, p') ->
  good (p_next p) (map fst (p_stack p) ++ rest) ->
  good (p_next p') (map fst (p_stack p') ++ fst b :: rest).
Proof.
  intros p b p' rest Ha Hg. unfold pool_alloc in Ha.
  destruct (p_stack p) as [|x r] eqn:Es; inversion Ha; subst; clear Ha; simpl in *.
  - apply good_fresh; exact Hg.
  - eapply good_perm; [| exact Hg]. apply Permutation_middle.
Qed.

(* Free pushes the buffer or drops it *)
Lemma free_good : forall p b rest,
  good (p_next p) (map fst (p_stack p) ++ fst b :: rest) ->
  good (p_next (pool_free p b)) (map fst (p_stack (pool_free p b)) ++ rest).
Proof.
  intros p b rest Hg. unfold pool_free. cbv zeta.
  destruct (Nat.eqb _ 0 || Nat.ltb _ _)%bool; simpl.
  - eapply good_perm; [| exact Hg]. apply Permutation_sym, Permutation_middle.
  - apply good_tail with (a := fst b). eapply good_perm; [| exact Hg].
    apply Permutation_sym, Permutation_middle.
Qed.

(* ------------------------------------------------------------------------- *)
(* PART 1 — pool exclusivity for any client obeying the protocol              *)
(* ------------------------------------------------------------------------- *)
Definition pool_inv (s : pstate) : Prop :=
  NoDup (pool_ids s) /\ Forall (fun i => i < p_next (fst s)) (pool_ids s).

Lemma take_held_perm : forall id held b held',
  take_held id held = Some (b, held') -> Permutation held (b :: held').
Proof.
  intros id held. induction held as [|x r IH]; intros b held' Ht; simpl in Ht.
  - discriminate.
  - destruct (Nat.eqb (fst x) id).
    + inversion Ht; subst. apply Permutation_refl.
    + destruct (take_held id r) as [[y r']|] eqn:Et; [| discriminate].
      inversion Ht; subst. eapply perm_trans; [apply perm_skip, (IH _ _ eq_refl) | apply perm_swap].
Qed.

Lemma take_held_id : forall id held b held',
  take_held id held = Some (b, held') -> fst b = id.
Proof.
  intros id held. induction held as [|x r IH]; intros b held' Ht; simpl in Ht.
  - discriminate.
  - destruct (Nat.eqb (fst x) id) eqn:Ex.
    + inversion Ht; subst. apply Nat.eqb_eq; exact Ex.
    + destruct (take_held id r) as [[y r']|] eqn:Et; [| discriminate].
      inversion Ht; subst. eapply IH; reflexivity.
Qed.

Lemma pstep_inv : forall s e s', pool_inv s -> pstep s e = Some s' -> pool_inv s'.
Proof.
  intros [p held] e s' Hinv Hs. change (good (p_next p) (map fst (p_stack p) ++ map fst held)) in Hinv.
  destruct e as [|id]; simpl in Hs.
  - destruct (pool_alloc p) as [b p'] eqn:Ea. inversion Hs; subst; clear Hs.
    change (good (p_next p') (map fst (p_stack p') ++ fst b :: map fst held)).
    eapply alloc_good; eauto.
  - destruct (take_held id held) as [[b held']|] eqn:Et; [| discriminate].
    inversion Hs; subst; clear Hs.
    change (good (p_next (pool_free p b)) (map fst (p_stack (pool_free p b)) ++ map fst held')).
    apply free_good. eapply good_perm; [| exact Hinv].
    apply Permutation_app_head.
    change (fst b :: map fst held') with (map fst (b :: held')).
    apply Permutation_map. eapply take_held_perm; exact Et.
Qed.

Lemma prun_inv : forall evs s s', pool_inv s -> prun s evs = Some s' -> pool_inv s'.
Proof.
  induction evs as [|e r IH]; intros s s' Hinv Hr; simpl in Hr.
  - inversion Hr; subst; exact Hinv.
  - destruct (pstep s e) as [s1|] eqn:Es; [| discriminate].
    eapply IH; [| exact Hr]. eapply pstep_inv; eauto.
Qed.

Theorem pool_exclusive : forall evs s s',
  pool_inv s -> prun s evs = Some s' -> NoDup (pool_ids s').
Proof.
  intros evs s s' Hinv Hr. exact (proj1 (prun_inv evs s s' Hinv Hr)).
Qed.

Lemma pool_inv_init : forall maxcap asize, pool_inv (new_pool maxcap asize, []).
Proof. intros maxcap asize. split; simpl; constructor. Qed.

Corollary pool_exclusive_init : forall maxcap asize evs s',
  prun (new_pool maxcap asize, []) evs = Some s' -> NoDup (pool_ids s').
Proof.
  intros maxcap asize evs s' Hr. eapply pool_exclusive; [apply pool_inv_init | exact Hr].
Qed.

(* non-vacuity: alloc, alloc, free the first, alloc again (gets it back), maxcap 1 *)
Example pool_run_ex :
  exists s', prun (new_pool 1 4, []) [PAlloc; PAlloc; PFree 0; PAlloc] = Some s' /\
             pool_ids s' = [0; 1].
Proof. eexists. split; vm_compute; reflexivity. Qed.

(* the protocol does reject a double free *)
Example pool_run_double_free :
  prun (new_pool 1 4, []) [PAlloc; PFree 0; PFree 0] = None.
Proof. vm_compute. reflexivity. Qed.

(* ------------------------------------------------------------------------- *)
(* PART 2 — the UDP loops obey the protocol; all buffers have the array size  *)
(* ------------------------------------------------------------------------- *)
Definition udp_wf (u : udp) : Prop :=
  NoDup (udp_ids u) /\ Forall (fun i => i < p_next (u_pool u)) (udp_ids u) /\
  Forall (fun b => List.length (snd b) = p_asize (u_pool u)) (p_stack (u_pool u)) /\
  List.length (snd (u_cur u)) = p_asize (u_pool u) /\
  Forall (fun x => List.length (snd (fst x)) = p_asize (u_pool u) /\ snd x <= p_asize (u_pool u)) (u_queue u).

Definition sized (a : nat) (l : list pbuf) : Prop :=
  Forall (fun b => List.length (snd b) = a) l.

Lemma alloc_sized : forall p b p',
  pool_alloc p = (b, p') -> sized (p_asize p) (p_stack p) ->
  p_asize p' = p_asize p /\ List.length (snd b) = p_asize p /\ sized (p_asize p) (p_stack p').
Proof.
  intros p b p' Ha Hs. unfold pool_alloc in Ha.
  destruct (p_stack p) as [|x r] eqn:Es; inversion Ha; subst; clear Ha; simpl.
  - repeat split. + apply repeat_length. + constructor.
  - inversion Hs; subst. repeat split; assumption.
Qed.

Lemma free_asize : forall p b, p_asize (pool_free p b) = p_asize p.
Proof.
  intros p b. unfold pool_free. cbv zeta.
  destruct (Nat.eqb _ 0 || Nat.ltb _ _)%bool; reflexivity.
Qed.

Lemma free_sized : forall p b,
  sized (p_asize p) (p_stack p) -> List.length (snd b) = p_asize p ->
  sized (p_asize p) (p_stack (pool_free p b)).
Proof.
  intros p b Hs Hb. unfold pool_free. cbv zeta.
  destruct (Nat.eqb _ 0 || Nat.ltb _ _)%bool; simpl; [constructor; assumption | exact Hs].
Qed.

Lemma recv_length : forall buf d, List.length (fst (recv buf d)) = List.length buf.
Proof.
  intros buf d. unfold recv. simpl. rewrite app_length, firstn_length, skipn_length. lia.
Qed.

Lemma recv_n : forall buf d, snd (recv buf d) <= List.length buf.
Proof. intros buf d. unfold recv. simpl. lia. Qed.

Lemma recv_prefix : forall buf d,
  firstn (snd (recv buf d)) (fst (recv buf d)) = firstn (List.length buf) d.
Proof.
  intros buf d. unfold recv. simpl.
  set (n := Nat.min (List.length d) (List.length buf)).
  assert (Hl : List.length (firstn n d) = n) by (rewrite firstn_length; unfold n; lia).
  rewrite firstn_app, Hl, Nat.sub_diag. simpl. rewrite app_nil_r.
  rewrite firstn_all2 by lia.
  unfold n. destruct (Nat.min_spec (List.length d) (List.length buf)) as [[Hlt He]|[Hle He]]; rewrite He.
  - rewrite !firstn_all2 by lia. reflexivity.
  - reflexivity.
Qed.

Local Opaque recv.

Lemma new_udp_wf : forall maxcap asize, udp_wf (new_udp maxcap asize).
Proof.
  intros maxcap asize. unfold new_udp, udp_wf. simpl. repeat split.
  - repeat constructor. intros [].
  - repeat constructor.
  - constructor.
  - apply repeat_length.
  - constructor.
Qed.

Lemma udp_step_asize : forall A (parse : bytes -> nat -> A) u e,
  p_asize (u_pool (fst (udp_step parse u e))) = p_asize (u_pool u).
Proof.
  intros A parse u e. destruct e as [d| |pat]; simpl.
  - destruct (u_cur u) as [id buf]. destruct (recv buf d) as [buf' n].
    unfold pool_alloc. destruct (p_stack (u_pool u)); reflexivity.
  - destruct (u_queue u) as [|[[id buf] n] q]; simpl; [reflexivity | apply free_asize].
  - destruct (pool_alloc (u_pool u)) as [[id buf] p'] eqn:Ea. simpl. rewrite free_asize.
    unfold pool_alloc in Ea. destruct (p_stack (u_pool u)); inversion Ea; reflexivity.
Qed.

Lemma udp_step_wf : forall A (parse : bytes -> nat -> A) u e,
  udp_wf u -> udp_wf (fst (udp_step parse u e)).
Proof.
  intros A parse u e (Hnd & Hlt & Hst & Hcur & Hq).
  assert (Hg : good (p_next (u_pool u)) (udp_ids u)) by (split; assumption).
  clear Hnd Hlt. unfold udp_ids in Hg.
  cut (good (p_next (u_pool (fst (udp_step parse u e)))) (udp_ids (fst (udp_step parse u e))) /\
       sized (p_asize (u_pool u)) (p_stack (u_pool (fst (udp_step parse u e)))) /\
       List.length (snd (u_cur (fst (udp_step parse u e)))) = p_asize (u_pool u) /\
       Forall (fun x => List.length (snd (fst x)) = p_asize (u_pool u) /\ snd x <= p_asize (u_pool u))
              (u_queue (fst (udp_step parse u e)))).
  { intros ([Hnd' Hlt'] & Hst' & Hcur' & Hq'). unfold udp_wf.
    rewrite udp_step_asize. repeat split; assumption. }
  destruct e as [d| |pat]; simpl.
  - destruct (u_cur u) as [id buf] eqn:Ec. destruct (recv buf d) as [buf' n] eqn:Er.
    destruct (pool_alloc (u_pool u)) as [nb p'] eqn:Ea. simpl in *.
    destruct (alloc_sized _ _ _ Ea Hst) as (Has & Hnb & Hst').
    repeat split; try assumption.
    + unfold udp_ids; simpl. rewrite map_app; simpl.
      eapply good_perm; [| eapply alloc_good; [exact Ea | exact Hg]].
      apply Permutation_app_head, perm_skip, Permutation_cons_append.
    + unfold udp_ids; simpl. rewrite map_app; simpl.
      eapply good_perm; [| eapply alloc_good; [exact Ea | exact Hg]].
      apply Permutation_app_head, perm_skip, Permutation_cons_append.
    + apply Forall_app. split; [exact Hq |]. constructor; [| constructor]. simpl.
      pose proof (recv_length buf d) as Hl. pose proof (recv_n buf d) as Hn.
      rewrite Er in Hl, Hn. simpl in Hl, Hn. split; lia.
  - destruct (u_queue u) as [|[[id buf] n] q] eqn:Eq; simpl in *.
    + unfold udp_ids. rewrite Eq. repeat split; try assumption; apply Hg.
    + inversion Hq as [|x l [Hb Hn] Hq']; subst. simpl in *.
      repeat split; try assumption.
      * unfold udp_ids; simpl.
        apply (free_good (u_pool u) (id, buf)). eapply good_perm; [| exact Hg].
        apply Permutation_app_head, perm_swap.
      * unfold udp_ids; simpl.
        apply (free_good (u_pool u) (id, buf)). eapply good_perm; [| exact Hg].
        apply Permutation_app_head, perm_swap.
      * apply free_sized; assumption.
  - destruct (pool_alloc (u_pool u)) as [[id buf] p'] eqn:Ea. simpl in *.
    destruct (alloc_sized _ _ _ Ea Hst) as (Has & Hnb & Hst'). simpl in Hnb.
    pose proof (alloc_good _ _ _ _ Ea Hg) as Hg'. simpl in Hg'.
    repeat split; try assumption.
    + unfold udp_ids; simpl. apply (free_good p' (id, fst (recv buf pat))). exact Hg'.
    + unfold udp_ids; simpl. apply (free_good p' (id, fst (recv buf pat))). exact Hg'.
    + rewrite <- Has. apply free_sized; rewrite Has; [exact Hst' |].
      simpl. rewrite recv_length. exact Hnb.
Qed.

Lemma udp_run_wf : forall A (parse : bytes -> nat -> A) evs u,
  udp_wf u -> udp_wf (fst (udp_run parse u evs)).
Proof.
  intros A parse. induction evs as [|e r IH]; intros u Hwf; simpl.
  - exact Hwf.
  - pose proof (udp_step_wf A parse u e Hwf) as H1.
    destruct (udp_step parse u e) as [u1 o1]. simpl in H1.
    specialize (IH u1 H1). destruct (udp_run parse u1 r) as [u2 o2]. exact IH.
Qed.

Theorem udp_exclusive : forall A (parse : bytes -> nat -> A) evs u,
  udp_wf u -> NoDup (udp_ids (fst (udp_run parse u evs))).
Proof.
  intros A parse evs u Hwf. exact (proj1 (udp_run_wf A parse evs u Hwf)).
Qed.

(* non-vacuity: maxcap 1, array size 4; receive, receive, parse, scribble, receive, parse, parse,
   receive into the scribbled array, parse: the stale bytes stay in the array, not in the result *)
Example udp_run_ex :
  let r := udp_run (fun buf n => firstn n buf) (new_udp 1 4)
     [URecv (s2b "abcdef"); URecv (s2b "xy"); UParse; UDirty (s2b "ZZZZ"); URecv (s2b "q"); UParse; UParse;
      URecv (s2b "w"); UParse] in
  udp_ids (fst r) = [0; 1] /\ snd r = [s2b "abcd"; s2b "xy"; s2b "q"; s2b "w"] /\
  map snd (p_stack (u_pool (fst r))) = [s2b "wZZZ"].
Proof. vm_compute. repeat split. Qed.

(* ------------------------------------------------------------------------- *)
(* PART 3 — isolation lifted to histories                                     *)
(* ------------------------------------------------------------------------- *)
Section History.
  Variable parse : bytes -> nat -> res message.
  Variable asz : nat.
  Hypothesis parse_isolated : forall buf n,
    List.length buf = asz -> n <= asz -> parse buf n = parse_bytes (firstn n buf).

  Lemma udp_step_spec : forall u e r, udp_wf u -> p_asize (u_pool u) = asz ->
    snd (udp_step parse u e) ++
      udp_spec (p_asize (u_pool u)) (queued_dgrams (fst (udp_step parse u e))) r
    = udp_spec (p_asize (u_pool u)) (queued_dgrams u) (e :: r).
  Proof.
    intros u e r (_ & _ & _ & Hcur & Hq) Hasz. destruct e as [d| |pat]; simpl.
    - destruct (u_cur u) as [id buf] eqn:Ec. destruct (recv buf d) as [buf' n] eqn:Er.
      destruct (pool_alloc (u_pool u)) as [nb p'] eqn:Ea. simpl in *.
      unfold queued_dgrams; simpl. rewrite map_app; simpl.
      pose proof (recv_prefix buf d) as Hp. rewrite Er in Hp; simpl in Hp.
      rewrite Hp, Hcur. reflexivity.
    - unfold queued_dgrams. destruct (u_queue u) as [|[[id buf] n] q] eqn:Eq; simpl.
      + rewrite Eq. reflexivity.
      + inversion Hq as [|x l [Hb Hn] Hq']; subst. simpl in *.
        rewrite parse_isolated by lia. reflexivity.
    - destruct (pool_alloc (u_pool u)) as [[id buf] p'] eqn:Ea. simpl. reflexivity.
  Qed.

  Theorem udp_history : forall evs u, udp_wf u -> p_asize (u_pool u) = asz ->
    snd (udp_run parse u evs) = udp_spec (p_asize (u_pool u)) (queued_dgrams u) evs.
  Proof.
    induction evs as [|e r IH]; intros u Hwf Hasz.
    - reflexivity.
    - rewrite <- (udp_step_spec u e r Hwf Hasz).
      pose proof (udp_step_wf _ parse u e Hwf) as H1.
      pose proof (udp_step_asize _ parse u e) as Ha.
      simpl. destruct (udp_step parse u e) as [u1 o1]. simpl in *.
      specialize (IH u1 H1 ltac:(congruence)). destruct (udp_run parse u1 r) as [u2 o2]. simpl in *.
      rewrite IH, Ha. reflexivity.
  Qed.
End History.
Local Transparent recv.

(* non-vacuity of the premise on parse: the function that cuts the buffer first satisfies it *)
Example parse_isolated_ex : forall asz buf n,
  List.length buf = asz -> n <= asz -> (fun b k => parse_bytes (firstn k b)) buf n = parse_bytes (firstn n buf).
Proof. intros asz buf n Hl Hn. reflexivity. Qed.

Print Assumptions pool_exclusive.
Print Assumptions udp_exclusive.
Print Assumptions udp_history.


(* ================================================================== C10: the statements *)
(* the result for a datagram is a function of the datagram alone: whatever the buffer held
   before (any [stale] contents), the parse step on the buffer the datagram was received into
   yields what the specification parser yields on the datagram's bytes by themselves *)
Theorem C10_isolated : forall stale d,
  (2 * Z.of_nat (List.length stale) <= make_limit)%Z ->
  udp_parse (fst (recv stale d)) (snd (recv stale d)) = parse_bytes (firstn (List.length stale) d).
Proof.
  intros stale d Hlim. rewrite <- recv_prefix.
  apply C11.udp_parse_abs. rewrite recv_prefix, firstn_length. lia.
Qed.
Corollary C10_isolated_fits : forall stale d, List.length d <= List.length stale ->
  (2 * Z.of_nat (List.length stale) <= make_limit)%Z ->
  udp_parse (fst (recv stale d)) (snd (recv stale d)) = parse_bytes d.
Proof.
  intros stale d Hfit Hlim. rewrite (C10_isolated stale d Hlim). rewrite firstn_all2 by lia. reflexivity.
Qed.
Corollary C10_isolated_any_two : forall stale1 stale2 d,
  List.length stale1 = List.length stale2 -> (2 * Z.of_nat (List.length stale1) <= make_limit)%Z ->
  udp_parse (fst (recv stale1 d)) (snd (recv stale1 d)) = udp_parse (fst (recv stale2 d)) (snd (recv stale2 d)).
Proof.
  intros s1 s2 d Hl Hlim. rewrite (C10_isolated s1 d Hlim). rewrite Hl in Hlim.
  rewrite (C10_isolated s2 d Hlim), Hl. reflexivity.
Qed.

Lemma udp_parse_isolated asz : (2 * Z.of_nat asz <= make_limit)%Z ->
  forall buf n, List.length buf = asz -> n <= asz -> udp_parse buf n = parse_bytes (firstn n buf).
Proof.
  intros Hlim buf n Hl Hn. apply C11.udp_parse_abs. rewrite firstn_length. lia.
Qed.

(* lifted to histories: any sequence of datagrams, any interleaving of the receive loop and the
   parse loop (hence any recycling order of the buffers), any initial pool contents: the results
   are those of the datagrams decoded one by one, each by itself, in arrival order *)
Theorem C10_history : forall evs u, udp_wf u ->
  (2 * Z.of_nat (p_asize (u_pool u)) <= make_limit)%Z ->
  snd (udp_run udp_parse u evs) = udp_spec (p_asize (u_pool u)) (queued_dgrams u) evs.
Proof.
  intros evs u Hwf Hlim.
  exact (udp_history udp_parse (p_asize (u_pool u)) (udp_parse_isolated _ Hlim) evs u Hwf eq_refl).
Qed.
Corollary C10_history_fresh : forall maxcap asize evs, (2 * Z.of_nat asize <= make_limit)%Z ->
  snd (udp_run udp_parse (new_udp maxcap asize) evs) = udp_spec asize [] evs.
Proof.
  intros maxcap asize evs Hlim.
  pose proof (C10_history evs (new_udp maxcap asize) (new_udp_wf maxcap asize)) as H.
  unfold new_udp in *. cbn in *. exact (H Hlim).
Qed.

(* a datagram is decoded only if an empty line closes its header section and the body it
   declares lies entirely within its own bytes; anything else is discarded (Err, never Panic) *)
Theorem C10_short_discarded : forall d,
  match parse_bytes d with
  | Ok m => exists hdr rest, d = hdr ++ m_body m ++ rest /\
              (exists h0, hdr = h0 ++ [LF; LF] \/ hdr = h0 ++ [LF; CR; LF]) /\
              get_header_int (s2b "Content-Length") m = Ok (Z.of_nat (List.length (m_body m)))
  | Err => True
  | Panic => False
  end.
Proof.
  intros d. unfold parse_bytes, res_fst.
  destruct (parse_message d) as [[m rest]| |] eqn:E.
  - destruct (C11.parse_message_accepts_complete d m rest E) as (hdr & H1 & H2 & H3).
    exists hdr, rest. repeat split; assumption.
  - exact I.
  - exact (C11.parse_message_no_panic d E).
Qed.
(* in particular: more body declared than bytes present => discarded *)
Corollary C10_overdeclared_discarded : forall d m,
  parse_bytes d = Ok m ->
  exists cl, get_header_int (s2b "Content-Length") m = Ok cl /\ (cl <= Z.of_nat (List.length d))%Z.
Proof.
  intros d m H. pose proof (C10_short_discarded d) as Hs. rewrite H in Hs.
  destruct Hs as (hdr & rest & Hd & _ & Hcl). eexists. split; [exact Hcl|].
  rewrite Hd, !app_length. lia.
Qed.

(* no buffer is at the same time in the pool and held, or held twice *)
Theorem C10_pool_exclusive : forall maxcap asize evs s',
  prun (new_pool maxcap asize, []) evs = Some s' -> NoDup (pool_ids s').
Proof. exact pool_exclusive_init. Qed.
Theorem C10_pool_exclusive_udp : forall maxcap asize evs,
  NoDup (udp_ids (fst (udp_run udp_parse (new_udp maxcap asize) evs))).
Proof. intros maxcap asize evs. apply udp_exclusive. apply new_udp_wf. Qed.

(* the code as found: the reader wrapped the whole pool buffer.  A datagram that declares 40
   body bytes and carries 4 is completed with what the previous datagram left in the buffer *)
Definition d_first : bytes :=
  s2b "MESSAGE sip:a@h SIP/2.0" ++ [CR; LF] ++ s2b "Content-Length: 40" ++ [CR; LF; CR; LF] ++
  s2b "SECRET-BYTES-OF-THE-EARLIER-DATAGRAM-#1!".
Definition d_second : bytes :=
  s2b "MESSAGE sip:b@h SIP/2.0" ++ [CR; LF] ++ s2b "Content-Length: 40" ++ [CR; LF; CR; LF] ++ s2b "ABCD".
Definition stale_buf : bytes := fst (recv (repeat Ascii.zero 128) d_first).
Theorem C10_legacy_refuted :
  parse_bytes d_second = Err /\
  udp_parse (fst (recv stale_buf d_second)) (snd (recv stale_buf d_second)) = Err /\
  (exists m, udp_parse_legacy (fst (recv stale_buf d_second)) (snd (recv stale_buf d_second)) = Ok m /\
             m_body m = s2b "ABCDET-BYTES-OF-THE-EARLIER-DATAGRAM-#1!") /\
  (exists m, udp_parse_wholebuf (fst (recv stale_buf d_second)) (snd (recv stale_buf d_second)) = Ok m /\
             m_body m = s2b "ABCDET-BYTES-OF-THE-EARLIER-DATAGRAM-#1!").
Proof.
  split; [vm_compute; reflexivity|]. split; [vm_compute; reflexivity|].
  split; eexists; split; vm_compute; reflexivity.
Qed.

(* non-vacuity: a history that recycles a dirty buffer *)
Example C10_history_ex :
  snd (udp_run udp_parse (new_udp 8 128) [URecv d_first; UParse; URecv (s2b "x"); UParse; URecv d_second; UParse])
  = [parse_bytes d_first; Err; Err] /\ is_ok (parse_bytes d_first) = true.
Proof. split; vm_compute; reflexivity. Qed.

Print Assumptions C10_isolated.
Print Assumptions C10_history.
Print Assumptions C10_short_discarded.
Print Assumptions C10_pool_exclusive.
Print Assumptions C10_pool_exclusive_udp.
Print Assumptions C10_legacy_refuted.
