(* C09 -- no two goroutines of the proxy touch shared state without synchronisation.

   Three layers:
   (1) Lockset.lockset_sound (all traces, all schedules): disciplined -> race_free.
   (2) The theorems below, by computation over the table gen/Accesses.v that tools/locktab
       regenerates from /repo on every run: every recorded access site obeys the policy of
       Policy.v, every field written outside a constructor is classified, the
       acquires-while-holding graph is acyclic.  These are proofs ABOUT THE TABLE; that the
       table says what the Go text says is the translator's job (trusted base).
   (3) The bridge (Section Bridge): a trace whose memory accesses are instances of recorded
       sites is `disciplined`, under instantiation assumptions that are stated one by one as
       hypotheses I0..I6 -- they are what "the table describes the program" means. *)
From Coq Require Import List String Bool Arith NArith Lia.
From Model Require Import Lockset Policy.
From Model.gen Require Import Accesses.
Import ListNotations.
Local Open Scope string_scope.

(* ------------------------------------------------------------------ (2) the table obeys the policy *)
Theorem C09_discipline : forallb site_ok accesses = true.
Proof. vm_compute. reflexivity. Qed.

Theorem C09_policy_complete : forallb classified written_fields = true.
Proof. vm_compute. reflexivity. Qed.

Theorem C09_policy_wellformed : policy_fields_exist = true.
Proof. vm_compute. reflexivity. Qed.

Theorem C09_lock_order_acyclic : lock_order_acyclic = true.
Proof. vm_compute. reflexivity. Qed.

(* the cached tables are what their definitions compute, and are closed (sound) *)
Theorem C09_tables :
  RR = prop_iter 64 calls root_init /\ RR_closed = true /\
  MH = mh_step (mh_step (mh_step (mh_step []))) /\ MH_sound = true /\
  ACQ = prop_iter 64 (map swap kept_calls) acq_init /\ ACQ_closed = true /\
  ORDER = dedup_edges order_edges.
Proof.
  split; [vm_cast_no_check (eq_refl RR)|].
  split; [vm_cast_no_check (eq_refl true)|].
  split; [vm_cast_no_check (eq_refl MH)|].
  split; [vm_cast_no_check (eq_refl true)|].
  split; [vm_cast_no_check (eq_refl ACQ)|].
  split; [vm_cast_no_check (eq_refl true)|].
  vm_cast_no_check (eq_refl ORDER).
Qed.

(* Non-vacuity: the checker is not constantly true.  The same site without the lock, a write
   to an unclassified field, a second root on confined state, a plain access to an atomic
   flag are all rejected; the table is not empty. *)
Example site_ok_rejects_unlocked :
  site_ok (mkAccess "SelfLearnRoute" "route" "SelfLearnRoute.GetRoute" "self_learn_route.go" 41%N false false false false true "sl" []) = false.
Proof. vm_compute. reflexivity. Qed.
Example site_ok_accepts_locked :
  site_ok (mkAccess "SelfLearnRoute" "route" "SelfLearnRoute.GetRoute" "self_learn_route.go" 41%N false false false false true "sl"
                    [mkHeld "SelfLearnRoute" "sl"]) = true.
Proof. vm_compute. reflexivity. Qed.
Example site_ok_rejects_other_objects_lock :
  site_ok (mkAccess "SelfLearnRoute" "route" "SelfLearnRoute.GetRoute" "self_learn_route.go" 41%N false false false false true "other"
                    [mkHeld "SelfLearnRoute" "sl"]) = false.
Proof. vm_compute. reflexivity. Qed.
Example site_ok_rejects_unclassified_write :
  site_ok (mkAccess "Proxy" "localAddress" "Proxy.HandleMessage" "proxy.go" 1%N true false false false true "p" []) = false.
Proof. vm_compute. reflexivity. Qed.
Example site_ok_rejects_second_root :
  site_ok (mkAccess "Proxy" "backends" "DynamicHostResolver.notifyAddressChanged" "resolver.go" 1%N false false false false true "p" []) = false.
Proof. vm_compute. reflexivity. Qed.
Example site_ok_rejects_plain_flag :
  site_ok (mkAccess "TCPServerTransport" "exit" "TCPServerTransport.IsExit" "transport.go" 1%N false false false false true "u" []) = false.
Proof. vm_compute. reflexivity. Qed.
Example table_not_empty :
  (Nat.leb 500 (List.length accesses) && Nat.leb 10 (List.length written_fields) && Nat.leb 5 (List.length roots)) = true.
Proof. vm_compute. reflexivity. Qed.

(* ------------------------------------------------------------------ (3) bridge to Lockset.v *)
Section Bridge.
  Variable tr : trace.
  (* the recorded site that event i is an instance of, and the object whose field it touches:
     locations are (object, struct, field) *)
  Variable site : nat -> access.
  Variable obj : nat -> nat.
  Variable loc_of : nat -> string -> string -> loc.
  (* mutex named m ("RoundRobinBackend", ...) of object o; the unique object guarding o for LockedBy *)
  Variable mtx : nat -> string -> mutex.
  Variable guard : nat -> nat.
  (* the goroutine root a thread is an instance of; the message-loop thread of the Proxy that
     object o belongs to (the loop is started ONCE per Proxy, in NewProxy; ProxyItem,
     ClientTransportMgr, DialogBasedBackend, ... objects belong to exactly one Proxy) *)
  Variable root_of : tid -> string.
  Variable owner : nat -> tid.
  Variable pol : loc -> discipline.

  (* I0: a location that is never accessed carries any discipline it trivially obeys *)
  Hypothesis I0 : forall l, (exists i t w, access_at tr i = Some (t, l, w)) \/ obeys tr l (pol l).
  (* I1: every Rd/Wr event is an instance of a recorded site, of that site's kind; accesses at
     constructor sites (the object is not yet reachable by another goroutine) and operands of
     sync/atomic calls are not memory-access events of the trace *)
  Hypothesis I1 : forall i t l w, access_at tr i = Some (t, l, w) ->
    In (site i) accesses /\ a_ctor (site i) = false /\ a_atomic (site i) = false /\
    l = loc_of (obj i) (a_struct (site i)) (a_field (site i)) /\ w = a_write (site i).
  (* I2: the trace-level policy is the field policy, object by object.  InitOnly / unclassified
     (never written after construction) and HandedOff locations: the trace-level discipline is
     ASSUMED to hold (start-up and publication order, ownership of message objects); the table
     only checks who may touch them *)
  Hypothesis I2 : forall i t l w, access_at tr i = Some (t, l, w) ->
    match policy_of (a_struct (site i)) (a_field (site i)) with
    | Some (LockedOwn m) => pol l = Locked (mtx (obj i) m)
    | Some (LockedBy m) => pol l = Locked (mtx (guard (obj i)) m)
    | Some (ConfinedTo _) => pol l = Owned (owner (obj i))
    | Some Policy.Atomic => False
    | Some Policy.InitOnly | Some (HandedOff _) | None => obeys tr l (pol l)
    end.
  (* I3: lexical lock regions are Acq/Rel pairs of the receiver's mutex, and a lock held at
     every call site of the enclosing function is held inside it *)
  Hypothesis I3own : forall i t l w m, access_at tr i = Some (t, l, w) ->
    existsb (fun h => (h_mutex h =? m) && (h_owner h =? a_base (site i))) (held_at (site i)) = true ->
    holds tr i t (mtx (obj i) m).
  Hypothesis I3by : forall i t l w m, access_at tr i = Some (t, l, w) ->
    existsb (fun h => h_mutex h =? m) (held_at (site i)) = true ->
    holds tr i t (mtx (guard (obj i)) m).
  (* I4: the thread executing a site is an instance of a root that reaches the site's function *)
  Hypothesis I4 : forall i t l w, access_at tr i = Some (t, l, w) ->
    In (root_of t) (roots_reaching (a_func (site i))).
  (* I5 (S, start-up): what root "main" does to per-listener state happens before the listeners
     exist and is not part of the concurrent phase described by tr *)
  Hypothesis I5 : forall i t l w r, access_at tr i = Some (t, l, w) ->
    policy_of (a_struct (site i)) (a_field (site i)) = Some (ConfinedTo r) -> root_of t <> "main".
  (* I6: one thread per (Proxy, message-loop root) *)
  Hypothesis I6 : forall i t l w r, access_at tr i = Some (t, l, w) ->
    policy_of (a_struct (site i)) (a_field (site i)) = Some (ConfinedTo r) -> root_of t = r -> t = owner (obj i).

  Lemma site_checked : forall i t l w, access_at tr i = Some (t, l, w) ->
    match policy_of (a_struct (site i)) (a_field (site i)) with
    | Some d => disc_ok d (site i) = true
    | None => True
    end.
  Proof.
    intros i t l w Hacc. destruct (I1 _ _ _ _ Hacc) as (Hin & Hctor & _).
    pose proof (proj1 (forallb_forall site_ok accesses) C09_discipline _ Hin) as Hok.
    unfold site_ok in Hok. rewrite Hctor, orb_false_l in Hok.
    apply andb_true_iff in Hok. destruct Hok as [_ Hok].
    destruct (policy_of (a_struct (site i)) (a_field (site i))); [exact Hok|exact I].
  Qed.

  Lemma event_locked : forall i t l w m, access_at tr i = Some (t, l, w) -> pol l = Locked m -> holds tr i t m.
  Proof.
    intros i t l w m Hacc Hpol.
    pose proof (I2 _ _ _ _ Hacc) as H2. pose proof (site_checked _ _ _ _ Hacc) as Hc.
    destruct (policy_of (a_struct (site i)) (a_field (site i))) as [[m'|m'|r| |cs|]|].
    - rewrite Hpol in H2. injection H2 as ->. unfold disc_ok in Hc. exact (I3own _ _ _ _ _ Hacc Hc).
    - rewrite Hpol in H2. injection H2 as ->. unfold disc_ok in Hc. exact (I3by _ _ _ _ _ Hacc Hc).
    - rewrite Hpol in H2. discriminate.
    - rewrite Hpol in H2. simpl in H2. exact (H2 _ _ _ Hacc).
    - rewrite Hpol in H2. simpl in H2. exact (H2 _ _ _ Hacc).
    - contradiction.
    - rewrite Hpol in H2. simpl in H2. exact (H2 _ _ _ Hacc).
  Qed.

  Lemma event_owned : forall i t l w t0, access_at tr i = Some (t, l, w) -> pol l = Owned t0 -> t = t0.
  Proof.
    intros i t l w t0 Hacc Hpol.
    pose proof (I2 _ _ _ _ Hacc) as H2. pose proof (site_checked _ _ _ _ Hacc) as Hc.
    destruct (policy_of (a_struct (site i)) (a_field (site i))) as [[m'|m'|r| |cs|]|] eqn:Ep.
    - rewrite Hpol in H2. discriminate.
    - rewrite Hpol in H2. discriminate.
    - rewrite Hpol in H2. injection H2 as ->. unfold disc_ok in Hc.
      pose proof (proj1 (forallb_forall _ _) Hc _ (I4 _ _ _ _ Hacc)) as Hr. cbv beta in Hr.
      apply orb_true_iff in Hr. destruct Hr as [Hr|Hr]; apply String.eqb_eq in Hr.
      + exact (I6 _ _ _ _ _ Hacc Ep Hr).
      + exfalso. exact (I5 _ _ _ _ _ Hacc Ep Hr).
    - rewrite Hpol in H2. simpl in H2. exact (H2 _ _ _ Hacc).
    - rewrite Hpol in H2. simpl in H2. exact (H2 _ _ _ Hacc).
    - contradiction.
    - rewrite Hpol in H2. simpl in H2. exact (H2 _ _ _ Hacc).
  Qed.

  Theorem bridge_disciplined : disciplined pol tr.
  Proof.
    intros l. destruct (I0 l) as [(i0 & t0 & w0 & Hacc0)|H]; [|exact H].
    destruct (pol l) as [m|t1|tc|s r] eqn:Hpol.
    - simpl. intros i t w Hacc. exact (event_locked _ _ _ _ _ Hacc Hpol).
    - simpl. intros i t w Hacc. exact (event_owned _ _ _ _ _ Hacc Hpol).
    - pose proof (I2 _ _ _ _ Hacc0) as H2.
      destruct (policy_of (a_struct (site i0)) (a_field (site i0))) as [[m'|m'|r'| |cs|]|];
        try contradiction; rewrite Hpol in H2; try discriminate; exact H2.
    - pose proof (I2 _ _ _ _ Hacc0) as H2.
      destruct (policy_of (a_struct (site i0)) (a_field (site i0))) as [[m'|m'|r'| |cs|]|];
        try contradiction; rewrite Hpol in H2; try discriminate; exact H2.
  Qed.

  Theorem bridge_race_free : wf_trace tr -> race_free tr.
  Proof. intros Hwf. exact (lockset_sound pol tr Hwf bridge_disciplined). Qed.
End Bridge.

(* the statements of Properties.v *)
Definition C09_lockset_sound := lockset_sound.
Definition C09_bridge := bridge_race_free.
